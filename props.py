# Per property: the Lean modules/theorems that are its proof obligations, the Tie theorems that
# bind the model's constants and skeletons to facts regenerated from /repo, and the harness
# engines that run implementation, model and spec on the same cases.
P = "LospanVerif.Props."
T = "LospanVerif.Tie."

def thms(mod, names):
    return {mod: [mod + "." + n for n in names]}

PROPS = {
    "C11": {
        "theorems": {**thms(P + "C11", ["C11_phy_total", "C11_short_rejected"]), **thms(P + "C15", ["C15_unmarshal_total"])},
        "ties": thms(T + "Protocol", ["tie_minimumMessageSize", "tie_maxFOptsLen", "tie_maxPayloadSize", "tie_mtypes", "tie_isValidBufferOp", "tie_macUplinkTable", "tie_macDownlinkTable"]),
        "engines": ["phydec", "gwcodec", "gw"],
        "assumptions": ["the frame decoder is the only parser of radio payloads; stages after it are covered by the pipeline engines"],
        "trusted_base": ["Go index/slice panics transcribed as Res.panic in Model/Phy.lean, Model/Mac.lean"],
    },
    "C12": {
        "theorems": thms(P + "C12", ["C12_decode_fields", "C12_reject_version", "C12_reject_mtype", "C12_contained"]),
        "ties": thms(T + "Protocol", ["tie_minimumMessageSize", "tie_maxFOptsLen", "tie_maxPayloadSize", "tie_mtypes", "tie_maxSupportedVersion", "tie_devAddrMasks"]),
        "engines": ["phydec", "phyenc"],
        "assumptions": [],
        "trusted_base": ["LoRaWAN 1.0 section 4 framing transcribed as Spec/Frame.lean"],
    },
    "C13": {
        "theorems": thms(P + "C13", ["C13_cid_dir", "C13_length", "C13_layout", "C13_constructors", "C13_roundtrip_fields", "C13_encode_guard",
                                     "C13_add_inv", "C13_reachable_inv", "C13_encoded_length_exact"]),
        "ties": thms(T + "Protocol", ["tie_macUplinkTable", "tie_macDownlinkTable", "tie_isValidBufferOp", "tie_maxFOptsLen"]),
        "engines": ["mac", "macset"],
        "assumptions": ["MACCommandSet.Copy (map iteration order) is not modelled; the server never calls it with a non-empty set"],
        "trusted_base": ["LoRaWAN 1.0 sections 5 and 14 command layouts transcribed as Spec/MacLayout.lean"],
    },
    "C15": {
        "theorems": thms(P + "C15", ["C15_pull_ack", "C15_push_ack", "C15_rxpk_forwarded", "C15_unmarshal_total", "C15_unmarshal_marshal"]),
        "ties": thms(T + "Gateway", ["tie_identifiers", "tie_freqTable"]),
        "engines": ["gw", "gwcodec"],
        "assumptions": ["encoding/json and encoding/base64 are trusted: the model receives the parsed rxpk entries, the implementation the JSON text built from them",
                        "UDP loopback keeps order per socket pair (barrier technique); the forwarder main loop is one goroutine"],
        "trusted_base": ["Semtech packet forwarder protocol transcribed as Model/Gateway.lean (header codec + main loop step)"],
    },
    "C16": {
        "theorems": thms(P + "C16", ["C16_unauthorised_noop", "C16_authorised_served", "C16_checks_off", "C16_immediate"]),
        "ties": thms(T + "Gateway", ["tie_identifiers"]),
        "engines": ["gw"],
        "assumptions": ["IP comparison is a string compare of net.IP.String() against the datagram's source address (library canonicalisation trusted)"],
        "trusted_base": ["registry read through storage.GetGateway at every datagram (modelled as a function argument of step)"],
    },
    "C17": {
        "theorems": thms(P + "C17", ["C17_pull_resp", "C17_tmst_present", "C17_latest_port"]),
        "ties": thms(T + "Gateway", ["tie_identifiers", "tie_txpkTags", "tie_freqTable", "tie_rxDelayMultiplier", "tie_encoderDelays"]),
        "engines": ["gw"],
        "assumptions": ["encoding/json emits exactly the tagged fields (tags tied by regenerated facts)"],
        "trusted_base": ["txpk record of the Semtech protocol transcribed as Props/C17.lean specTxpk"],
    },
    "C18": {
        "theorems": thms(P + "C18", ["devAddr_roundtrip", "eui_int64_roundtrip", "eui_string_roundtrip", "key_hex_roundtrip", "ofHexChars_toHexChars"]),
        "ties": thms(T + "Text", ["tie_devAddrParser"]),
        "engines": ["txt", "store"],
        "assumptions": ["SQLite returns the column values it was given (typing, durability trusted); base64/hex library codecs trusted",
                        "the row-store behaviour (create/update/delete/list, reopen) is decided by the store engine against an abstract keyed-map oracle; the Lean theorems cover every textual/integer column encoding"],
        "trusted_base": ["fmt %08x / %02x, strconv.ParseUint, encoding/hex transcribed as Model/Text.lean"],
    },
    "C19": {
        "theorems": {**thms(P + "C19", ["C19_counter_bits", "C19_injective", "C19_netid_embedded", "C19_prefix"]),
                     **thms(P + "C19Alloc", ["inv_step", "C19_never_twice"])},
        "ties": thms(T + "Keys", ["tie_maxID", "tie_maSizes", "tie_maxNetIDs", "tie_intervals"]),
        "engines": ["eui", "keygen"],
        "assumptions": ["one reservation (AllocateKeys) is atomic: it runs under the storage mutex inside one SQLite transaction; a crash inside it is a rollback (before commit) or a lost block (after commit)",
                        "one process per database file"],
        "trusted_base": ["SQLite transaction atomicity and durability", "crash = goroutines abandoned at the verif gates inside AllocateKeys, transaction rolled back, fresh Storage on the same file"],
    },
    "C20": {
        "theorems": thms(P + "C20", ["inv_step", "C20_table_wellformed", "C20_no_send_on_closed", "C20_close_once", "rel_step", "C20_delivery"]),
        "ties": thms(T + "Server", ["tie_routerLocked"]),
        "engines": ["router", "routerconc"],
        "assumptions": ["mutex => every concurrent execution equals the sequential one in lock order (Go memory model, assumed; the lock discipline itself is a regenerated fact)",
                        "subscribers keep reading: the 10 s publish escape never fires"],
        "trusted_base": ["order of critical sections recorded by the verif router hook right after Lock()"],
    },
    "C14": {
        "theorems": thms(P + "C14", ["C14_eq_rfc4493", "C14_pure"]),
        "ties": thms(T + "Cmac", ["tie_constBSize", "tie_constZero", "tie_constRb"]),
        "engines": ["cmac"],
        "assumptions": ["AES-128 (crypto/aes) is a parameter of the theorems; the driver's Lean AES is tested, not verified"],
        "trusted_base": ["RFC 4493 transcribed as Spec/Rfc4493.lean on bit strings"],
    },
}

MANIFEST_TEXT = {
    "C11": {
        "level": "Lean theorem C11_phy_total: for every byte string of every length UnmarshalBinary's model returns a value or an error, never a panic (induction over the MAC-command loop with a cursor invariant); tied to pkg/protocol by regenerated facts and by differential decoding of >10k (quick) / >500k (thorough) byte strings incl. all 256x256 MHDR/FCtrl pairs, with 0..64 bytes spare capacity, outcome (ok/err kind/panic) compared.",
        "note": "gateway datagram path and the stages behind the decoder are checked by their own engines as they are built; wedging via back-pressure/timers is runtime behaviour no model exhibits (partial)",
        "technique": "Lean 4 proof (totality by induction, cursor invariant) + regenerated-facts tie + differential correspondence",
    },
    "C12": {
        "level": "Lean theorems C12_decode_fields / C12_contained / C12_reject_*: for every byte string, an accepted data frame parses under the independent LoRaWAN 1.0 spec and every reported field equals the spec's (port-0 remainder: containment), nothing reported beyond the slice, unsupported version/type rejected. Encode direction and round trip decided by correspondence against the Lean spec layout (theorem pending).",
        "note": "model hand-written; encode-direction theorem not yet proved (decided by correspondence + spec oracle only)",
        "technique": "Lean 4 proof (model = spec parse, list/cursor arithmetic by omega, byte laws by decide) + differential correspondence",
    },
    "C13": {
        "level": "Lean theorems: each of the 22 commands has the spec's CID/direction, its declared length, the spec's octets for all fitting values (C13_layout), decodes back (C13_roundtrip_fields); Add preserves limit/direction/CID-order for every offer sequence (C13_reachable_inv); encode writes exactly EncodedLength bytes. Tied by the regenerated CID/type/Length table and by exhaustive (<=12 bits quick, <=24 bits thorough) differential encode/decode through the public frame path.",
        "note": "command bodies tied by correspondence (the extractor ties CID, constructor, direction flag, Length literal, guard operator)",
        "technique": "Lean 4 proof (case analysis over 22 commands, decide for bit packing, omega for 16/24-bit fields, induction over offers) + differential correspondence",
    },
    "C15": {
        "level": "Lean theorems on the forwarder step function: exactly one PULL_ACK / PUSH_ACK echoing token and version to the sender, all valid rxpk entries forwarded once, in order, intact (induction over entries), header codec total and decode(encode p) = canon p for the six types. Model tied to the real GenericPacketForwarder by differential runs over loopback UDP (6 sockets, 4 source addresses, registry changes, malformed JSON/base64, all identifiers) and 30k codec cases per run.",
        "note": "JSON/base64/UDP are trusted (inputs pre-parsed for the model); marshal(unmarshal d) = d is decided on the implementation by the codec engine, not yet a Lean theorem",
        "technique": "Lean 4 proof (decision logic stated outright, induction over rxpk entries) + trace comparison against the real UDP forwarder",
    },
    "C16": {
        "level": "Lean theorems: unless checks are disabled an unregistered gateway, or a strict one from another address, gets (state, no ack, nothing forwarded); authorised ones are served; with checks off all are served; the answer depends only on the registry at that moment (C16_immediate). Tied by differential sequences interleaving Create/Update/DeleteGateway with datagrams from 4 source addresses, both switch values; absence of an ack established by a barrier PULL_DATA on the same socket.",
        "note": "IP string canonicalisation is library behaviour (partial)",
        "technique": "Lean 4 proof (authorisation predicate stated outright) + trace comparison against the real UDP forwarder",
    },
    "C17": {
        "level": "Lean theorems: the PULL_RESP goes to the uplink's host and the port of the latest PULL_DATA of that gateway (induction over arbitrary datagram sequences), txpk = independent spec record with tmst = (clock + delay*10^6) mod 2^32 always present. Tied by regenerated JSON tags (no omitempty on tmst), frequency table, multiplier and encoder delays (5 / 1), and by real PULL_RESP datagrams parsed field by field incl. wrapping clocks.",
        "note": "JSON encoder trusted given the tags; delay values 1/5 come from the encoder (tied by fact), the pipeline-level delay choice is covered with the pipeline engine",
        "technique": "Lean 4 proof (induction over datagram sequences, arithmetic mod 2^32) + regenerated-facts tie + trace comparison",
    },
    "C18": {
        "level": "Lean theorems for all values: every 32-bit device address (top bit included) parses back from its %08x text, every EUI from its signed-64-bit and dashed-hex forms, every key from its hex text. The store itself (all six entity kinds, create/update/delete/list through the storage API and the service implementation, reopen at random positions) is decided by operation sequences against an abstract keyed-map oracle; the textual codecs additionally by correspondence with the Lean model; the address parser's function/base/size by a regenerated fact.",
        "note": "SQLite durability and typing trusted; the row-store refinement is not a Lean theorem (oracle-based exploration of sequences), the encodings are",
        "technique": "Lean 4 proof (round-trip laws over all values: decide on hex digits + omega) + regenerated-facts tie + differential/oracle sequences on the real store",
    },
    "C19": {
        "level": "Lean theorems: for MA-L/M/S and every admissible network id the EUI's low 25 bits are the counter (hence C19_injective over the whole advertised key space), the prefix bits are the MA's, the network id is embedded; allocator transition system (any number of requesters, reservations, hand-outs, restarts, crashes before/after commit): C19_never_twice by invariant induction over unbounded event lists. Tied by regenerated maxID / MA sizes / NetID limits / block sizes, 40k packing cases and real KeyGenerator runs (8 concurrent requesters, restart, crash at each of the four allocator gates, last blocks of the key space for odd and even network ids).",
        "note": "real process death and SQLite durability are simulated/trusted (partial); AllocateKeys' commit error being only logged is a fault, outside this property's quantifier",
        "technique": "Lean 4 proof (bit packing by decide + omega; invariant induction over event lists) + regenerated-facts tie + differential and oracle runs on the real allocator",
    },
    "C20": {
        "level": "Lean theorems over every operation sequence: C20_delivery (what a subscriber has read plus what is buffered = exactly the events published for its identifier while subscribed, once, in order; simulation against a per-subscription observer), C20_no_send_on_closed, C20_close_once, table invariant. Tied by the regenerated lock-discipline fact, 2.5k sequential sequences per run and concurrent executions replayed through the model in recorded lock order.",
        "note": "mutex semantics, reader liveness and the 10 s escape are runtime behaviour (partial); race-detector build only in the thorough tier",
        "technique": "Lean 4 proof (invariant + simulation by induction over operations) + regenerated-facts tie + linearisation replay of concurrent runs",
    },
    "C14": {
        "level": "Lean theorem C14_eq_rfc4493: for every block function E, every key and every message length the model of AESCMAC equals RFC 4493 (bit-string spec); model tied to pkg/cmac by regenerated constants and by differential runs (tag and caller's backing array compared) on every length 0..96 (quick) / 0..1024 x capacities 0..64 (thorough). Purity is decided by the correspondence/oracle on the real code; the Lean statement C14_pure covers the model's copy semantics only.",
        "note": "AES is a parameter (crypto/aes trusted); model hand-written; Go slice/append semantics as transcribed; Lean driver AES tested against FIPS-197 vectors and crypto/aes",
        "technique": "Lean 4 proof (induction over blocks, bit-string lemmas by decide) + regenerated-facts tie + differential correspondence",
    },
}
