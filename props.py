# Per property: the Lean modules/theorems that are its proof obligations, the Tie theorems that
# bind the model's constants and skeletons to facts regenerated from /repo, and the harness
# engines that run implementation, model and spec on the same cases.
P = "LospanVerif.Props."
T = "LospanVerif.Tie."

def thms(mod, names):
    return {mod: [mod + "." + n for n in names]}

PROPS = {
    "C11": {
        "theorems": thms(P + "C11", ["C11_phy_total", "C11_short_rejected"]),
        "ties": thms(T + "Protocol", ["tie_minimumMessageSize", "tie_maxFOptsLen", "tie_maxPayloadSize", "tie_mtypes", "tie_isValidBufferOp", "tie_macUplinkTable", "tie_macDownlinkTable"]),
        "engines": ["phydec"],
        "assumptions": ["the frame decoder is the only parser of radio payloads; stages after it are covered by the pipeline engines"],
        "trusted_base": ["Go index/slice panics transcribed as Res.panic in Model/Phy.lean, Model/Mac.lean"],
    },
    "C12": {
        "theorems": thms(P + "C12", ["C12_decode_fields", "C12_reject_version", "C12_reject_mtype", "C12_contained"]),
        "ties": thms(T + "Protocol", ["tie_minimumMessageSize", "tie_maxFOptsLen", "tie_maxPayloadSize", "tie_mtypes", "tie_maxSupportedVersion", "tie_devAddrMasks"]),
        "engines": ["phydec", "phyenc"],
        "assumptions": [],
        "trusted_base": ["LoRaWAN 1.0 section 4 framing transcribed as Spec/Frame.lean"],
    },
    "C13": {
        "theorems": thms(P + "C13", ["C13_cid_dir", "C13_length", "C13_layout", "C13_constructors", "C13_roundtrip_fields", "C13_encode_guard",
                                     "C13_add_inv", "C13_reachable_inv", "C13_encoded_length_exact"]),
        "ties": thms(T + "Protocol", ["tie_macUplinkTable", "tie_macDownlinkTable", "tie_isValidBufferOp", "tie_maxFOptsLen"]),
        "engines": ["mac", "macset"],
        "assumptions": ["MACCommandSet.Copy (map iteration order) is not modelled; the server never calls it with a non-empty set"],
        "trusted_base": ["LoRaWAN 1.0 sections 5 and 14 command layouts transcribed as Spec/MacLayout.lean"],
    },
    "C14": {
        "theorems": thms(P + "C14", ["C14_eq_rfc4493", "C14_pure"]),
        "ties": thms(T + "Cmac", ["tie_constBSize", "tie_constZero", "tie_constRb"]),
        "engines": ["cmac"],
        "assumptions": ["AES-128 (crypto/aes) is a parameter of the theorems; the driver's Lean AES is tested, not verified"],
        "trusted_base": ["RFC 4493 transcribed as Spec/Rfc4493.lean on bit strings"],
    },
}

MANIFEST_TEXT = {
    "C11": {
        "level": "Lean theorem C11_phy_total: for every byte string of every length UnmarshalBinary's model returns a value or an error, never a panic (induction over the MAC-command loop with a cursor invariant); tied to pkg/protocol by regenerated facts and by differential decoding of >10k (quick) / >500k (thorough) byte strings incl. all 256x256 MHDR/FCtrl pairs, with 0..64 bytes spare capacity, outcome (ok/err kind/panic) compared.",
        "note": "gateway datagram path and the stages behind the decoder are checked by their own engines as they are built; wedging via back-pressure/timers is runtime behaviour no model exhibits (partial)",
        "technique": "Lean 4 proof (totality by induction, cursor invariant) + regenerated-facts tie + differential correspondence",
    },
    "C12": {
        "level": "Lean theorems C12_decode_fields / C12_contained / C12_reject_*: for every byte string, an accepted data frame parses under the independent LoRaWAN 1.0 spec and every reported field equals the spec's (port-0 remainder: containment), nothing reported beyond the slice, unsupported version/type rejected. Encode direction and round trip decided by correspondence against the Lean spec layout (theorem pending).",
        "note": "model hand-written; encode-direction theorem not yet proved (decided by correspondence + spec oracle only)",
        "technique": "Lean 4 proof (model = spec parse, list/cursor arithmetic by omega, byte laws by decide) + differential correspondence",
    },
    "C13": {
        "level": "Lean theorems: each of the 22 commands has the spec's CID/direction, its declared length, the spec's octets for all fitting values (C13_layout), decodes back (C13_roundtrip_fields); Add preserves limit/direction/CID-order for every offer sequence (C13_reachable_inv); encode writes exactly EncodedLength bytes. Tied by the regenerated CID/type/Length table and by exhaustive (<=12 bits quick, <=24 bits thorough) differential encode/decode through the public frame path.",
        "note": "command bodies tied by correspondence (the extractor ties CID, constructor, direction flag, Length literal, guard operator)",
        "technique": "Lean 4 proof (case analysis over 22 commands, decide for bit packing, omega for 16/24-bit fields, induction over offers) + differential correspondence",
    },
    "C14": {
        "level": "Lean theorem C14_eq_rfc4493: for every block function E, every key and every message length the model of AESCMAC equals RFC 4493 (bit-string spec); model tied to pkg/cmac by regenerated constants and by differential runs (tag and caller's backing array compared) on every length 0..96 (quick) / 0..1024 x capacities 0..64 (thorough). Purity is decided by the correspondence/oracle on the real code; the Lean statement C14_pure covers the model's copy semantics only.",
        "note": "AES is a parameter (crypto/aes trusted); model hand-written; Go slice/append semantics as transcribed; Lean driver AES tested against FIPS-197 vectors and crypto/aes",
        "technique": "Lean 4 proof (induction over blocks, bit-string lemmas by decide) + regenerated-facts tie + differential correspondence",
    },
}
