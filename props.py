# Per property: the Lean modules/theorems that are its proof obligations, the Tie theorems that
# bind the model's constants and skeletons to facts regenerated from /repo, and the harness
# engines that run implementation, model and spec on the same cases.
P = "LospanVerif.Props."
T = "LospanVerif.Tie."

def thms(mod, names):
    return {mod: [mod + "." + n for n in names]}

PROPS = {
    "C14": {
        "theorems": thms(P + "C14", ["C14_eq_rfc4493", "C14_pure"]),
        "ties": thms(T + "Cmac", ["tie_constBSize", "tie_constZero", "tie_constRb"]),
        "engines": ["cmac"],
        "assumptions": ["AES-128 (crypto/aes) is a parameter of the theorems; the driver's Lean AES is tested, not verified"],
        "trusted_base": ["RFC 4493 transcribed as Spec/Rfc4493.lean on bit strings"],
    },
}

MANIFEST_TEXT = {
    "C14": {
        "level": "Lean theorem C14_eq_rfc4493: for every block function E, every key and every message length the model of AESCMAC equals RFC 4493 (bit-string spec); model tied to pkg/cmac by regenerated constants and by differential runs (tag and caller's backing array compared) on every length 0..96 (quick) / 0..1024 x capacities 0..64 (thorough). Purity is decided by the correspondence/oracle on the real code; the Lean statement C14_pure covers the model's copy semantics only.",
        "note": "AES is a parameter (crypto/aes trusted); model hand-written; Go slice/append semantics as transcribed; Lean driver AES tested against FIPS-197 vectors and crypto/aes",
        "technique": "Lean 4 proof (induction over blocks, bit-string lemmas by decide) + regenerated-facts tie + differential correspondence",
    },
}
