# Per property: the Lean modules/theorems that are its proof obligations, the Tie theorems that
# bind the model's constants and skeletons to facts regenerated from /repo, and the harness
# engines that run implementation, model and spec on the same cases.
P = "LospanVerif.Props."
T = "LospanVerif.Tie."

def thms(mod, names):
    return {mod: [mod + "." + n for n in names]}

PIPE_TIES = {**thms(T + "Processor", ["tie_uplinkLookup", "tie_uplinkHandler", "tie_joinVerify", "tie_joinHandler", "tie_encoder", "tie_joinRequestSize"]), **thms(T + "Server", ["tie_outputBufferLocked"]),
             **thms(T + "Storage", ["tie_advanceFCntUp", "tie_nextFCntDn", "tie_updateState", "tie_messageLifeCycle"])}

PROPS = {
    "C01": {
        "theorems": {**thms(P + "C01", ["C01_matching_iff", "C01_wrong_type_dropped", "C01_unauthentic_dropped", "C01_processes_only_authentic", "C11_reject_is_noop", "C11_deliver_total"]),
                     "LospanVerif.Props.C01All": ["LospanVerif.Props.C01.C01_handlers_authentic", "LospanVerif.Props.C01.auth_stepUplink", "LospanVerif.Props.C01.tauth_step"]},
        "ties": PIPE_TIES,
        "engines": ["pipeseq", "pipectl"],
        "assumptions": ["a corrupted frame whose MIC still verifies (2^-32 collision) is authentic by the property's own definition; the Lean device decides authenticity of every corrupted frame"],
        "trusted_base": ["pipeline handlers transcribed as thread programs in Model/Pipeline.lean"],
    },
    "C02": {
        "theorems": {**thms(P + "C02", ["C02_decrypt_is_spec", "C02_mic_is_spec", "C14_involution", "C14_only_payload"]),
                     "LospanVerif.Props.C02Recover": ["LospanVerif.Props.C02.C02_accept_and_recover", "LospanVerif.Props.C02.crypt_crypt", "LospanVerif.Props.C02.unmarshal_mtype"],
                     **thms(P + "C12Total", ["C02_device_frames_accepted", "buildFrame_parses"]),
                     **thms("LospanVerif.Proofs.Total", ["unmarshal_of_parse", "decodeLoop_total"]),
                     **thms(P + "C12Enc", ["C12_marshal_is_layout"])},
        "ties": thms(T + "Protocol", ["tie_minimumMessageSize", "tie_mtypes", "tie_devAddrMasks"]),
        "engines": ["uplink", "phyenc", "pipeseq"],
        "assumptions": ["AES is a parameter of the theorems"],
        "trusted_base": ["LoRaWAN 1.0 sections 4.3.3 and 4.4 transcribed as Spec/Lorawan.lean"],
    },
    "C03": {
        "theorems": {**thms(P + "C03", ["C03_recorded_once", "C03_insert_records", "C03_accepted_strictly_increasing", "C03_accepted_below_stored", "C03_no_second_acceptance", "C03_record_needs_accept", "C03_old_counter_rejected", "C03_failed_write_stops"]),
                     **thms("LospanVerif.Proofs.Counters", ["cinv_run", "eff_step"]),
                     **thms("LospanVerif.Proofs.Circ", ["kinv_run", "k_step", "k_after", "up_stepUplink"])},
        "ties": PIPE_TIES,
        "engines": ["pipeseq", "pipectl"],
        "assumptions": ["each storage operation is atomic (AdvanceFCntUp is one SQL statement; Tie.Storage)", "recordedUp is a history variable written in the same step as the inbox row (C03_insert_records); it carries the frame's FCnt, which the inbox row itself does not store"],
        "trusted_base": ["pipeline handlers transcribed as thread programs in Model/Pipeline.lean"],
    },
    "C04": {
        "theorems": thms(P + "C04", ["C04_honoured_only_if_authentic", "C04_forged_no_effect", "C04_keys_are_spec", "C04_devnonce_wire", "C04_encodeJoinRequest_is_spec", "C04_accept_decodes"]),
        "ties": PIPE_TIES,
        "engines": ["pipeseq", "joinlib"],
        "assumptions": ["AES is a parameter; D inverts E on 16-octet blocks (hypothesis of C04_accept_decodes)", "AppNonce randomness is an environment input read back from the emitted join-accept"],
        "trusted_base": ["LoRaWAN 1.0 section 6.2 transcribed as Spec/Lorawan.lean (join part)"],
    },
    "C05": {
        "theorems": {**thms(P + "C05", ["C05_keyed_once", "C05_keychange_records", "C05_reused_nonce_ignored", "byEUI_nonces", "addNonce_fresh", "addNonce_stores", "C05_second_insert_fails", "C05_failed_insert_stops"]),
                     **thms("LospanVerif.Proofs.Circ", ["kinv_run", "k_step", "k_after", "jn_stepJoin"])},
        "ties": PIPE_TIES,
        "engines": ["pipeseq", "pipectl"],
        "assumptions": ["AddDevNonce is one atomic INSERT with primary key (device, nonce)"],
        "trusted_base": ["SQLite primary-key enforcement"],
    },
    "C06": {
        "theorems": {**thms(P + "C06", ["C06_oldest_first", "C06_buffer_faithful", "C06_isolation"]), **thms(P + "C02", ["C02_decrypt_is_spec", "C02_mic_is_spec"]),
                     "LospanVerif.Props.C06All": ["LospanVerif.Props.C06.C06_payload_from_own_queue", "LospanVerif.Props.C06.finv_step", "LospanVerif.Props.C06.pl_take_self"]},
        "ties": PIPE_TIES,
        "engines": ["pipeseq", "phyenc"],
        "assumptions": ["the server never queues MAC commands into the output buffer (AddMACCommand has no caller)"],
        "trusted_base": ["EU868 maximum payload table transcribed in Model/Pipeline.lean (maxPayload)"],
    },
    "C07": {
        "theorems": {**thms(P + "C07", ["C07_emitted_counter_unique", "C07_issued_strictly_increasing", "C07_issued_below_stored", "C07_next_is_fresh", "C07_encodes_with_issued_counter", "C07_persists_before_handover", "C07_failed_write_no_frame", "C07_handover", "C07_handover_records"]),
                     **thms("LospanVerif.Proofs.Counters", ["cinv_run", "eff_step"]),
                     **thms("LospanVerif.Proofs.Circ", ["kinv_run", "k_step", "k_after", "dn_stepEncoder"])},
        "ties": PIPE_TIES,
        "engines": ["pipeseq", "pipectl"],
        "assumptions": ["NextFCntDn is atomic (one transaction inside the storage mutex; Tie.Storage)", "the FCnt recorded in the history variable emittedDn is the FCnt field of the frame value the encoder thread carries; that the emitted octets were encoded from that value is the per-step theorem C07_encodes_with_issued_counter", "a join starts a new session (new keys); uniqueness is per session and until the 16-bit counter wraps"],
        "trusted_base": ["pipeline handlers transcribed as thread programs in Model/Pipeline.lean"],
    },
    "C08": {
        "theorems": {**thms(P + "C08", ["ackTime_inv", "resetAcks_inv", "setSent_inv", "addOutbox_inv", "C08_ack_only_sent_rows", "C08_requeue_exactly", "C08_only_unsent_transmitted"]),
                     "LospanVerif.Props.C08All": ["LospanVerif.Props.C08.C08_lifecycle_all_schedules", "LospanVerif.Props.C08.linv_step"]},
        "ties": PIPE_TIES,
        "engines": ["pipeseq"],
        "assumptions": ["wall-clock values abstracted to zero / non-zero"],
        "trusted_base": ["the three SQL UPDATE statements of storage/messages.go transcribed row-wise (DB.ackTime, DB.resetAcks, DB.setSent)"],
    },
    "C09": {
        "theorems": {**thms(P + "C09", ["C09_flag_set", "C09_ack_only_frame", "C09_flag_consumed", "C09_nothing_pending", "C09_no_entry"]),
                     "LospanVerif.Props.C09All": ["LospanVerif.Props.C09.C09_acks_bounded", "LospanVerif.Props.C09.take_self", "LospanVerif.Props.C09.ainv_step"],
                     **thms(P + "C03", ["C03_recorded_once", "C03_no_second_acceptance"])},
        "ties": PIPE_TIES,
        "engines": ["pipeseq", "pipectl", "rxwindow"],
        "assumptions": ["RX-window timing is runtime behaviour: engines pipeseq/pipectl run with a zero window and schedule the buffer read explicitly; engine rxwindow runs a real 400 ms window free-running and checks that the buffer is read when the window closes"],
        "trusted_base": ["frameoutputbuffer.go transcribed as fobTake / fobSet* in Model/Pipeline.lean"],
    },
    "C10": {
        "theorems": {**thms(P + "C10", ["C10_crash_keeps_db", "C10_inbox_only_after_counter", "C10_keys_only_after_nonce"]),
                     **thms(P + "C03", ["C03_failed_write_stops", "C03_record_needs_accept", "C03_accepted_below_stored", "C03_no_second_acceptance"]),
                     **thms(P + "C05", ["C05_second_insert_fails", "C05_failed_insert_stops"]),
                     **thms(P + "C07", ["C07_persists_before_handover", "C07_failed_write_no_frame", "C07_issued_below_stored"])},
        "ties": PIPE_TIES,
        "engines": ["pipeseq", "pipectl"],
        "assumptions": ["a crash is modelled as losing threads, output buffer and scheduler state while the database keeps every completed statement (SQLite durability trusted)"],
        "trusted_base": ["order and error disposition of the handlers' storage calls: regenerated facts (Tie.Processor)"],
    },
    "C11": {
        "theorems": {**thms(P + "C11", ["C11_phy_total", "C11_short_rejected"]), **thms(P + "C15", ["C15_unmarshal_total"])},
        "ties": thms(T + "Protocol", ["tie_minimumMessageSize", "tie_maxFOptsLen", "tie_maxPayloadSize", "tie_mtypes", "tie_isValidBufferOp", "tie_macUplinkTable", "tie_macDownlinkTable"]),
        "engines": ["phydec", "gwcodec", "gw"],
        "assumptions": ["the frame decoder is the only parser of radio payloads; stages after it are covered by the pipeline engines"],
        "trusted_base": ["Go index/slice panics transcribed as Res.panic in Model/Phy.lean, Model/Mac.lean"],
    },
    "C12": {
        "theorems": {**thms(P + "C12", ["C12_decode_fields", "C12_reject_version", "C12_reject_mtype", "C12_contained"]),
                     **thms(P + "C12Enc", ["C12_marshal_is_layout", "C12_roundtrip"]),
                     **thms(P + "C12Total", ["C12_accepts_spec_frames", "C12_roundtrip_total"]),
                     **thms("LospanVerif.Proofs.Total", ["unmarshal_of_parse", "unmarshal_total", "decodeLoop_total"]),
                     "LospanVerif.Proofs.Frame": ["LospanVerif.Spec.Frame.parse_layout"]},
        "ties": thms(T + "Protocol", ["tie_minimumMessageSize", "tie_maxFOptsLen", "tie_maxPayloadSize", "tie_mtypes", "tie_maxSupportedVersion", "tie_devAddrMasks"]),
        "engines": ["phydec", "phyenc"],
        "assumptions": [],
        "trusted_base": ["LoRaWAN 1.0 section 4 framing transcribed as Spec/Frame.lean"],
    },
    "C13": {
        "theorems": thms(P + "C13", ["C13_cid_dir", "C13_length", "C13_layout", "C13_constructors", "C13_roundtrip_fields", "C13_encode_guard",
                                     "C13_add_inv", "C13_reachable_inv", "C13_encoded_length_exact"]),
        "ties": thms(T + "Protocol", ["tie_macUplinkTable", "tie_macDownlinkTable", "tie_isValidBufferOp", "tie_maxFOptsLen"]),
        "engines": ["mac", "macset"],
        "assumptions": ["MACCommandSet.Copy (map iteration order) is not modelled; the server never calls it with a non-empty set"],
        "trusted_base": ["LoRaWAN 1.0 sections 5 and 14 command layouts transcribed as Spec/MacLayout.lean"],
    },
    "C15": {
        "theorems": thms(P + "C15", ["C15_pull_ack", "C15_push_ack", "C15_rxpk_forwarded", "C15_unmarshal_total", "C15_unmarshal_marshal", "C15_marshal_unmarshal"]),
        "ties": thms(T + "Gateway", ["tie_identifiers", "tie_freqTable"]),
        "engines": ["gw", "gwcodec"],
        "assumptions": ["encoding/json and encoding/base64 are trusted: the model receives the parsed rxpk entries, the implementation the JSON text built from them",
                        "UDP loopback keeps order per socket pair (barrier technique); the forwarder main loop is one goroutine"],
        "trusted_base": ["Semtech packet forwarder protocol transcribed as Model/Gateway.lean (header codec + main loop step)"],
    },
    "C16": {
        "theorems": thms(P + "C16", ["C16_unauthorised_noop", "C16_authorised_served", "C16_checks_off", "C16_immediate"]),
        "ties": thms(T + "Gateway", ["tie_identifiers"]),
        "engines": ["gw"],
        "assumptions": ["IP comparison is a string compare of net.IP.String() against the datagram's source address (library canonicalisation trusted)"],
        "trusted_base": ["registry read through storage.GetGateway at every datagram (modelled as a function argument of step)"],
    },
    "C17": {
        "theorems": thms(P + "C17", ["C17_pull_resp", "C17_tmst_present", "C17_latest_port"]),
        "ties": thms(T + "Gateway", ["tie_identifiers", "tie_txpkTags", "tie_freqTable", "tie_rxDelayMultiplier", "tie_encoderDelays"]),
        "engines": ["gw"],
        "assumptions": ["encoding/json emits exactly the tagged fields (tags tied by regenerated facts)"],
        "trusted_base": ["txpk record of the Semtech protocol transcribed as Props/C17.lean specTxpk"],
    },
    "C18": {
        "theorems": thms(P + "C18", ["devAddr_roundtrip", "eui_int64_roundtrip", "eui_string_roundtrip", "key_hex_roundtrip", "ofHexChars_toHexChars"]),
        "ties": thms(T + "Text", ["tie_devAddrParser"]),
        "engines": ["txt", "store"],
        "assumptions": ["SQLite returns the column values it was given (typing, durability trusted); base64/hex library codecs trusted",
                        "the row-store behaviour (create/update/delete/list, reopen) is decided by the store engine against an abstract keyed-map oracle; the Lean theorems cover every textual/integer column encoding"],
        "trusted_base": ["fmt %08x / %02x, strconv.ParseUint, encoding/hex transcribed as Model/Text.lean"],
    },
    "C19": {
        "theorems": {**thms(P + "C19", ["C19_counter_bits", "C19_injective", "C19_netid_embedded", "C19_prefix"]),
                     **thms(P + "C19Alloc", ["inv_step", "C19_never_twice"])},
        "ties": thms(T + "Keys", ["tie_maxID", "tie_maSizes", "tie_maxNetIDs", "tie_intervals", "tie_reservation_atomic"]),
        "engines": ["eui", "keygen"],
        "assumptions": ["one reservation (AllocateKeys) is atomic: it runs under the storage mutex inside one SQLite transaction; a crash inside it is a rollback (before commit) or a lost block (after commit)",
                        "one process per database file"],
        "trusted_base": ["SQLite transaction atomicity and durability", "crash = goroutines abandoned at the verif gates inside AllocateKeys, transaction rolled back, fresh Storage on the same file"],
    },
    "C20": {
        "theorems": thms(P + "C20", ["inv_step", "C20_table_wellformed", "C20_no_send_on_closed", "C20_close_once", "rel_step", "C20_delivery"]),
        "ties": thms(T + "Server", ["tie_routerLocked"]),
        "engines": ["router", "routerconc"],
        "assumptions": ["mutex => every concurrent execution equals the sequential one in lock order (Go memory model, assumed; the lock discipline itself is a regenerated fact)",
                        "subscribers keep reading: the 10 s publish escape never fires"],
        "trusted_base": ["order of critical sections recorded by the verif router hook right after Lock()"],
    },
    "C14": {
        "theorems": {**thms(P + "C14", ["C14_eq_rfc4493", "C14_pure"]), **thms(P + "C02", ["C14_involution", "C14_only_payload"])},
        "ties": thms(T + "Cmac", ["tie_constBSize", "tie_constZero", "tie_constRb"]),
        "engines": ["cmac", "uplink"],
        "assumptions": ["AES-128 (crypto/aes) is a parameter of the theorems; the driver's Lean AES is tested, not verified"],
        "trusted_base": ["RFC 4493 transcribed as Spec/Rfc4493.lean on bit strings"],
    },
}

MANIFEST_TEXT = {
    "C01": {
        "level": "Lean theorems. For EVERY event list (every interleaving of any number of frames, faults, crashes): each uplink handler that is past its matching step - the only handlers that touch counters, the inbox, the queues or the output buffer, the matching step itself changing nothing - works on an uplink data frame whose MIC verifies over exactly the received octets under the established (not all-zero) network session key of the device copy it processes, at the frame's address (C01_handlers_authentic: thread-pool invariant). For every registry, frame and cipher: the devices the handler goes on to process are exactly those for which the frame is authentic (C01_matching_iff); non-uplink types and frames authentic for nobody end in the first step with the system untouched (C01_wrong_type_dropped, C01_unauthentic_dropped); a frame the decoder rejects is a no-op (C11_reject_is_noop). Tied by regenerated handler skeletons and by histories on the real pipeline (bit flips, truncation/extension, type rewrite, zero/foreign key, magic MIC values, downlink-typed frames that verify under the device's own key, shared addresses and keys) with the whole observable state compared with the model and an independent no-effect oracle decided by the Lean device.",
        "note": "authenticity is relative to the device copy the handler read (a join completing in between replaces the keys); a 2^-32 MIC collision is authentic by the property's own definition",
        "technique": "Lean 4 proof (thread-pool invariant by induction over all event lists; decision logic) + regenerated skeleton tie + trace correspondence + Spec-device oracle",
    },
    "C02": {
        "level": "Lean theorems for every block cipher E with 16-octet blocks, all keys, 32-bit addresses, 16-bit counters, ports 1..255, flag combinations, FOpts octets (up to 15, known or unknown identifiers) and payloads: every data frame a conformant device builds for an application port (Spec.Lorawan.buildFrame: FRMPayload encrypted in counter mode per 4.3.3, MIC per 4.4) IS ACCEPTED by the library's decoder, verifies under the NwkSKey over exactly the received octets and decrypts to exactly the device's plaintext with the device's address, counter and port (C02_device_frames_accepted = decoder totality on spec-parsable frames (Proofs/Total.lean) + spec round trip + C12_decode_fields + C02_mic_is_spec + C02_decrypt_is_spec + involution); the octets the library encodes are the specification's layout (C12_marshal_is_layout). That the pipeline hands exactly that plaintext, device, gateway and radio metadata to the application is decided on the real code (engine pipeseq with the reference observer); engines uplink and phyenc run the same statements differentially on the implementation.",
        "note": "partial: AES itself is a parameter (the driver's Lean AES is differential-tested against crypto/aes); attribution to device/gateway/radio metadata in the inbox is an oracle on the implementation plus trace correspondence, not a theorem",
        "technique": "Lean 4 proof (model = spec for cipher, MIC and layout; decoder totality; spec round trip; composition) + differential correspondence against the Lean device",
    },
    "C03": {
        "level": "Lean theorems for EVERY event list of the pipeline transition system (all interleavings of handler/scheduler/sendAt/encoder steps at storage-operation granularity, any number of frames, devices and gateways, injected faults, crashes): no (device, FCnt) of a running counter epoch is written to the inbox twice for a strict-counter device, and every recorded one went through a successful conditional counter update (C03_recorded_once: thread-pool invariant 'every counter in circulation - carried by a handler between the counter step and the inbox insert, or already recorded - was accepted, at most once', Proofs/Circ.lean); the counters accepted for a device strictly increase within a session and stay below the stored one (C03_accepted_strictly_increasing, C03_accepted_below_stored), so a copy or an older counter can never move the counter again (C03_no_second_acceptance). Tied by regenerated facts (handler call order and error dispositions, SQL text of the conditional update) and by trace validation of the real goroutines under controlled schedules (copies, uplink vs encoder), plus sequential histories judged by a reference observer.",
        "note": "partial only in that atomicity of one SQL statement is trusted (SQLite); a join starts a new epoch, the 16-bit wrap ends one (excused by the property)",
        "technique": "Lean 4 proof (counter invariant + thread-pool circulation invariant by induction over all event lists) + regenerated facts + trace correspondence under controlled schedules",
    },
    "C04": {
        "level": "Lean theorems for every block function: a join-request passes the first handler step only if 23 octets, registered device, MIC under its AppKey over the first 19 octets (otherwise no effect); stored session keys = spec derivation on the octets on the air; the emitted join-accept is decrypted/verified/read by the spec device exactly as meant (given D inverts E); the library's join-request encoder = spec. End to end on the real pipeline: every honoured join's stored keys/address/counters equal what the Lean device derives from the emitted join-accept; forged/altered/wrong-length/swapped-EUI requests have no effect.",
        "note": "AppNonce randomness read back from the emitted join-accept; DecodeJoinAccept compared with the spec device for 17-byte join-accepts (no CFList)",
        "technique": "Lean 4 proof (authentication decision, key derivation = spec, join-accept decodes) + correspondence against the Lean spec device",
    },
    "C05": {
        "level": "Lean theorems. For EVERY event list (any number of copies of a join-request through any number of gateways, every interleaving of their handlers at storage-operation granularity, injected faults, crashes and restarts): with the check on, no (device, DevNonce) leads to a key change twice and every key change was preceded by the insert of its nonce into the nonce table (C05_keyed_once: the thread-pool invariant of Proofs/Circ.lean instantiated for joins - held = the handler between its nonce insert and the key change, issued = the table with primary key (device, nonce)); a stored nonce makes every later insert fail (C05_second_insert_fails), a failed insert stops the handler (C05_failed_insert_stops), a nonce in the history the handler read stops it at once (C05_reused_nonce_ignored). The 'stored session = last join-accept' clause is decided on the real pipeline: every emitted join-accept is processed by the Lean device and the derived keys, address and zeroed counters compared with the stored ones after every event, for both switch values, also under copies schedules.",
        "note": "partial: the session-agreement clause is an oracle on the implementation (Spec device), not a theorem; atomicity of the INSERT is trusted (SQLite primary key)",
        "technique": "Lean 4 proof (thread-pool invariant by induction over all event lists; decision logic) + regenerated handler skeleton tie + trace correspondence + Spec-device oracle",
    },
    "C06": {
        "level": "Lean theorems. For EVERY event list (all interleavings of handlers, scheduler, sendAt and encoders of any number of devices, faults, crashes): every payload handed to the gateway for a device is (a piece of, when the message exceeds the data-rate limit) a message queued for THAT device - no device ever receives data queued for another (C06_payload_from_own_queue: invariant following the payload from the outbox row through the device's output-buffer entry and the assembled frame to the encoder). For every state: the message picked for an accepted uplink is an unsent message of that device and none of its unsent messages is older (C06_oldest_first); what is put into and taken out of the output buffer is that message's port and bytes with the confirmed type iff requested (C06_buffer_faithful); buffers of different devices are independent (C06_isolation); the encoding is the spec's (C02). Histories of submissions and uplinks of several devices: every emitted frame is decoded by the Lean device and judged by the reference observer (address, next counter, port, bytes, confirmed type, oldest first, at most one per accepted uplink, none for rejected frames), and compared with the model byte for byte.",
        "note": "partial: ordering and 'at most one frame per accepted uplink' over histories are decided by the reference observer on the implementation plus state-level theorems, not by a history-level theorem",
        "technique": "Lean 4 proof (payload-provenance invariant by induction over all event lists; decision logic; model = spec for the cipher) + trace correspondence + reference observer",
    },
    "C07": {
        "level": "Lean theorems for EVERY event list (all interleavings of handler/scheduler/sendAt/encoder steps at storage-operation granularity, any number of frames and devices, injected faults, crashes): no (device, FCnt) of a running counter epoch is handed to the gateway twice and every emitted one was handed out by NextFCntDn (C07_emitted_counter_unique: a thread-pool invariant 'every counter in circulation - held by an encoder thread or already emitted - was issued, at most once', Proofs/Circ.lean); the counters handed out strictly increase and stay below the stored counter, also across crashes (C07_issued_strictly_increasing, C07_issued_below_stored, C07_next_is_fresh); per step: the encoder encodes with exactly the counter handed out, after it has been stored past, and only its last step emits. Tied by facts (encoder call order and error dispositions, NextFCntDn is one critical section with both statements in one transaction) and by trace validation under the uplink-vs-encoder and old-counter-vs-encoder schedules; every emitted frame is decoded by the Lean device and (session key, counter) checked unique and equal to the reference counter.",
        "note": "partial only in that atomicity of the NextFCntDn transaction is trusted (SQLite + mutex); a join starts a new epoch (new keys), the 16-bit wrap ends one (excused by the property)",
        "technique": "Lean 4 proof (counter invariant + thread-pool circulation invariant by induction over all event lists) + regenerated facts + trace correspondence + uniqueness oracle",
    },
    "C08": {
        "level": "Lean theorems on the outbox operations for every database state: invariant acknowledged => sent kept by every operation; only an acknowledging uplink acknowledges and only sent rows with its counter; an uplink without ACK re-queues exactly the confirmed, sent, unacknowledged rows; only unsent rows are transmitted (unconfirmed ones therefore at most once). Histories decided by state comparison of the outbox rows (sent?/acked?/fcnt) after every event on the real pipeline.",
        "note": "SQL statements transcribed row-wise, tied by the differential runs against real SQLite",
        "technique": "Lean 4 proof (life-cycle invariant by cases over operations) + trace correspondence",
    },
    "C09": {
        "level": "Lean theorems. For EVERY event list (all interleavings of handlers, scheduler, sendAt and encoders, faults, crashes): the downlinks assembled with the ACK flag for a device never outnumber the accepted confirmed uplinks of that device - an acknowledgement is never repeated and none is sent that no confirmed uplink asked for (C09_acks_bounded: invariant 'ACK frames + pending flag <= confirmed uplinks' over the output-buffer operations); copies of one uplink of a strict-counter device are accepted at most once under every schedule (C03_recorded_once, C03_no_second_acceptance). On the output buffer, for every state: a pending acknowledgement always yields a frame with the ACK flag (even with nothing else to send) and taking it clears the flag; an entry with nothing pending yields nothing and is removed. Sequential histories are judged by the reference observer (exactly one ACK answer per accepted confirmed uplink, none for rejected frames, no answer when nothing is pending); controlled schedules of 2..3 copies run on the real pipeline; the receive-window engine checks with a real 400 ms window that the buffer is read when the window closes.",
        "note": "partial: 'exactly one answer per accepted confirmed uplink' (liveness of the answer) is decided by the reference observer on the implementation, the theorem gives the 'at most' direction; the receive-window timer is runtime behaviour (checked by the rxwindow engine)",
        "technique": "Lean 4 proof (invariant over all event lists; buffer decision logic; C03 invariant) + trace correspondence + reference observer + timed free-running runs",
    },
    "C10": {
        "level": "Lean theorems: inbox rows appear only in the step after the counter update; keys change only after the handler's own nonce insert; the downlink counter is stored past before the frame exists; each of these writes, when it fails, stops its handler; a crash keeps the database and drops everything volatile; and, for every event list with crashes and faults anywhere, accepted uplink counters and handed-out downlink counters stay below the stored ones (C03_accepted_below_stored, C07_issued_below_stored), so neither can be used again after recovery. Ordering and error dispositions of the real handlers are regenerated facts; crash and single-fault injection at every gate of the real uplink handler, join handler and encoder, followed by redelivery, runs on the real code under the gate controller.",
        "note": "real process death and fsync are simulated (goroutines abandoned, database file reopened) / trusted",
        "technique": "Lean 4 proof (durable-before-visible ordering; counter invariants over all event lists) + regenerated facts + crash/fault injection with trace correspondence",
    },
    "C11": {
        "level": "Lean theorem C11_phy_total: for every byte string of every length UnmarshalBinary's model returns a value or an error, never a panic (induction over the MAC-command loop with a cursor invariant); tied to pkg/protocol by regenerated facts and by differential decoding of >10k (quick) / >500k (thorough) byte strings incl. all 256x256 MHDR/FCtrl pairs, with 0..64 bytes spare capacity, outcome (ok/err kind/panic) compared.",
        "note": "gateway datagram path and the stages behind the decoder are checked by their own engines as they are built; wedging via back-pressure/timers is runtime behaviour no model exhibits (partial)",
        "technique": "Lean 4 proof (totality by induction, cursor invariant) + regenerated-facts tie + differential correspondence",
    },
    "C12": {
        "level": "Lean theorems, both directions and total: every octet string the LoRaWAN 1.0 specification parses as a data frame (FPort absent or not 0) is accepted by the library and every reported field equals the specification's (C12_accepts_spec_frames = decoder totality, Proofs/Total.lean, + C12_decode_fields; for FPort 0 the remainder is contained in the FRMPayload); nothing is reported beyond the slice (C12_contained); unsupported version/type are rejected; for every value the library encodes the octets are exactly the spec layout of the frame it denotes (C12_marshal_is_layout); the spec's parse inverts its layout (Spec.Frame.parse_layout); hence decode(encode(p)) succeeds and reports the encoded fields (C12_roundtrip_total). Tied by constants/masks facts and by differential runs in both directions (all MHDR/FCtrl values, FOpts shapes, ports, lengths 0..242).",
        "note": "model hand-written and tied by facts + correspondence; acceptance of FPort-0 frames (MAC commands in the payload) is covered by no-panic and containment theorems and by the phydec engine, not by the totality theorem",
        "technique": "Lean 4 proof (model = spec parse, model = spec layout, decoder totality by loop invariant, list/cursor arithmetic by omega, byte laws by decide) + differential correspondence",
    },
    "C13": {
        "level": "Lean theorems: each of the 22 commands has the spec's CID/direction, its declared length, the spec's octets for all fitting values (C13_layout), decodes back (C13_roundtrip_fields); Add preserves limit/direction/CID-order for every offer sequence (C13_reachable_inv); encode writes exactly EncodedLength bytes. Tied by the regenerated CID/type/Length table and by exhaustive (<=12 bits quick, <=24 bits thorough) differential encode/decode through the public frame path.",
        "note": "command bodies tied by correspondence (the extractor ties CID, constructor, direction flag, Length literal, guard operator)",
        "technique": "Lean 4 proof (case analysis over 22 commands, decide for bit packing, omega for 16/24-bit fields, induction over offers) + differential correspondence",
    },
    "C15": {
        "level": "Lean theorems on the forwarder step function: exactly one PULL_ACK / PUSH_ACK echoing token and version to the sender, all valid rxpk entries forwarded once, in order, intact (induction over entries), header codec total and decode(encode p) = canon p for the six types. Model tied to the real GenericPacketForwarder by differential runs over loopback UDP (6 sockets, 4 source addresses, registry changes, malformed JSON/base64, all identifiers) and 30k codec cases per run.",
        "note": "JSON/base64/UDP are trusted (inputs pre-parsed for the model); marshal(unmarshal d) = d is decided on the implementation by the codec engine, not yet a Lean theorem",
        "technique": "Lean 4 proof (decision logic stated outright, induction over rxpk entries) + trace comparison against the real UDP forwarder",
    },
    "C16": {
        "level": "Lean theorems: unless checks are disabled an unregistered gateway, or a strict one from another address, gets (state, no ack, nothing forwarded); authorised ones are served; with checks off all are served; the answer depends only on the registry at that moment (C16_immediate). Tied by differential sequences interleaving Create/Update/DeleteGateway with datagrams from 4 source addresses, both switch values; absence of an ack established by a barrier PULL_DATA on the same socket.",
        "note": "IP string canonicalisation is library behaviour (partial)",
        "technique": "Lean 4 proof (authorisation predicate stated outright) + trace comparison against the real UDP forwarder",
    },
    "C17": {
        "level": "Lean theorems: the PULL_RESP goes to the uplink's host and the port of the latest PULL_DATA of that gateway (induction over arbitrary datagram sequences), txpk = independent spec record with tmst = (clock + delay*10^6) mod 2^32 always present. Tied by regenerated JSON tags (no omitempty on tmst), frequency table, multiplier and encoder delays (5 / 1), and by real PULL_RESP datagrams parsed field by field incl. wrapping clocks.",
        "note": "JSON encoder trusted given the tags; delay values 1/5 come from the encoder (tied by fact), the pipeline-level delay choice is covered with the pipeline engine",
        "technique": "Lean 4 proof (induction over datagram sequences, arithmetic mod 2^32) + regenerated-facts tie + trace comparison",
    },
    "C18": {
        "level": "Lean theorems for all values: every 32-bit device address (top bit included) parses back from its %08x text, every EUI from its signed-64-bit and dashed-hex forms, every key from its hex text. The store itself (all six entity kinds, create/update/delete/list through the storage API and the service implementation, reopen at random positions) is decided by operation sequences against an abstract keyed-map oracle; the textual codecs additionally by correspondence with the Lean model; the address parser's function/base/size by a regenerated fact.",
        "note": "SQLite durability and typing trusted; the row-store refinement is not a Lean theorem (oracle-based exploration of sequences), the encodings are",
        "technique": "Lean 4 proof (round-trip laws over all values: decide on hex digits + omega) + regenerated-facts tie + differential/oracle sequences on the real store",
    },
    "C19": {
        "level": "Lean theorems: for MA-L/M/S and every admissible network id the EUI's low 25 bits are the counter (hence C19_injective over the whole advertised key space), the prefix bits are the MA's, the network id is embedded; allocator transition system (any number of requesters, reservations, hand-outs, restarts, crashes before/after commit): C19_never_twice by invariant induction over unbounded event lists. Tied by regenerated maxID / MA sizes / NetID limits / block sizes, 40k packing cases and real KeyGenerator runs (8 concurrent requesters, restart, crash at each of the four allocator gates, last blocks of the key space for odd and even network ids).",
        "note": "real process death and SQLite durability are simulated/trusted (partial); AllocateKeys' commit error being only logged is a fault, outside this property's quantifier",
        "technique": "Lean 4 proof (bit packing by decide + omega; invariant induction over event lists) + regenerated-facts tie + differential and oracle runs on the real allocator",
    },
    "C20": {
        "level": "Lean theorems over every operation sequence: C20_delivery (what a subscriber has read plus what is buffered = exactly the events published for its identifier while subscribed, once, in order; simulation against a per-subscription observer), C20_no_send_on_closed, C20_close_once, table invariant. Tied by the regenerated lock-discipline fact, 2.5k sequential sequences per run and concurrent executions replayed through the model in recorded lock order.",
        "note": "mutex semantics, reader liveness and the 10 s escape are runtime behaviour (partial); race-detector build only in the thorough tier",
        "technique": "Lean 4 proof (invariant + simulation by induction over operations) + regenerated-facts tie + linearisation replay of concurrent runs",
    },
    "C14": {
        "level": "Lean theorem C14_eq_rfc4493: for every block function E, every key and every message length the model of AESCMAC equals RFC 4493 (bit-string spec); model tied to pkg/cmac by regenerated constants and by differential runs (tag and caller's backing array compared) on every length 0..96 (quick) / 0..1024 x capacities 0..64 (thorough). Purity is decided by the correspondence/oracle on the real code; the Lean statement C14_pure covers the model's copy semantics only.",
        "note": "AES is a parameter (crypto/aes trusted); model hand-written; Go slice/append semantics as transcribed; Lean driver AES tested against FIPS-197 vectors and crypto/aes",
        "technique": "Lean 4 proof (induction over blocks, bit-string lemmas by decide) + regenerated-facts tie + differential correspondence",
    },
}
