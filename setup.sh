#!/bin/sh
# setup_cmd: build everything from files on disk, offline.
set -e
cd "$(dirname "$0")"
exec ./check --setup
