#!/usr/bin/env python3
"""Regenerates MANIFEST.json from props.py (claimed checks) and properties.jsonl (ids)."""
import json, os, sys
ROOT = os.path.dirname(os.path.abspath(__file__))
sys.path.insert(0, ROOT)
from props import PROPS, MANIFEST_TEXT
ids = [json.loads(l)["id"] for l in open(os.path.join(ROOT, "properties.jsonl"))]
hooks_commit = "5cfa0f196788765d9ce7cc683573325b46e0a584"
checks = []
for pid in ids:
    if pid not in PROPS:
        continue
    t = MANIFEST_TEXT[pid]
    checks.append({
        "property_id": pid,
        "quick_cmd": "./check %s --tier quick" % pid,
        "thorough_cmd": "./check %s --tier thorough" % pid,
        "evidence_file": "/verif/evidence/%s.json" % pid,
        "replay_cmd_template": "./check %s --replay {path}" % pid,
        "engine": "+".join(PROPS[pid]["engines"]),
        "level_claimed": {"category": "proof", "text": t["level"], "design_ref": "DESIGN.md §6 " + pid},
        "level_note": t["note"],
        "technique": t["technique"],
    })
na = [{"property_id": p, "reason": "check not built yet (work in progress): no theorem and tie exist for it at this commit"} for p in ids if p not in PROPS]
m = {
    "version": 1,
    "setup_cmd": "./setup.sh",
    "hooks": {"guard": "verif", "enable": "go build -tags verif (the harness module under /verif/harness replaces github.com/lab5e/lospan with /repo)",
              "baseline_off_cmd": "cd /repo && GOFLAGS=-mod=mod GOPROXY=off GOSUMDB=off go test -vet=off -count=1 ./...",
              "source_commits": [hooks_commit, "e65df06bbd716484c07ff7bce6c32eb96ee16ca2", "b62d9738f8f294dd03176cf17058d2d9102527fe"], "add_only": True},
    "engines": [
        {"name": "lean", "path": "/verif/lean", "serves_properties": sorted(PROPS), "kind_free_text": "Lean 4 project: Spec, Model, Proofs, Props (theorems), Tie (facts = model), Driver (verifdrv executable)"},
        {"name": "extract", "path": "/verif/extract", "serves_properties": sorted(PROPS), "kind_free_text": "go/ast fact extractor regenerating lean/LospanVerif/Facts on every run"},
        {"name": "harness", "path": "/verif/harness", "serves_properties": sorted(PROPS), "kind_free_text": "Go correspondence harness (built against /repo with -tags verif) + property oracles + failing-input search"},
    ],
    "checks": checks,
    "notes": "Machine-checked proof in Lean 4 over hand-written executable models; the tie to /repo is checked on every run by regenerated facts (Tie theorems) and a differential correspondence harness. See DESIGN.md.",
    "not_applicable": na,
}
json.dump(m, open(os.path.join(ROOT, "MANIFEST.json"), "w"), indent=1)
print("claimed:", [c["property_id"] for c in checks])
