package main

// rowstore: the lora_devices table of the real store (SQLite file) against the Lean table model
// (Model/Row.lean, driver ops row.*), operation by operation: CreateDevice / UpdateDevice /
// DeleteDevice / GetDeviceByEUI / GetDevicesByApplicationEUI on the same sequence. The theorem
// C18_store_is_keyed_list is about that model; this engine is what ties the model's statements
// (primary key, WHERE clauses, column codecs in composition) to what SQLite and device.go do.

import (
	"fmt"
	"os"
	"path/filepath"
	"sort"
	"strings"

	"github.com/lab5e/lospan/pkg/model"
	"github.com/lab5e/lospan/pkg/protocol"
	"github.com/lab5e/lospan/pkg/storage"
	"lospanverif/internal/hx"
)

func init() { engines["rowstore"] = runRowStore }

func rowDevText(d model.Device) string {
	b := func(v bool) string {
		if v {
			return "1"
		}
		return "0"
	}
	return fmt.Sprintf("eui=%s,addr=%d,appkey=%s,apps=%s,nwks=%s,app=%s,state=%d,up=%d,dn=%d,relaxed=%s,warn=%s,tag=%s",
		hx.H(d.DeviceEUI.Octets[:]), d.DevAddr.ToUint32(), hx.H(d.AppKey.Key[:]), hx.H(d.AppSKey.Key[:]), hx.H(d.NwkSKey.Key[:]),
		hx.H(d.AppEUI.Octets[:]), d.State, d.FCntUp, d.FCntDn, b(d.RelaxedCounter), b(d.KeyWarning), hx.H([]byte(d.Tag)))
}

func rowDevArgs(d model.Device) string {
	return strings.NewReplacer("eui=", "", "addr=", "", "appkey=", "", "apps=", "", "nwks=", "", "app=", "", "state=", "", "up=", "", "dn=", "",
		"relaxed=", "", "warn=", "", "tag=", "", ",", " ").Replace(rowDevText(d))
}

func canonList(s string) string {
	f := strings.Fields(s)
	if len(f) < 1 || !strings.HasPrefix(f[0], "n=") {
		return s
	}
	rest := append([]string{}, f[1:]...)
	sort.Strings(rest)
	return strings.TrimSpace(f[0] + " " + strings.Join(rest, " "))
}

func runRowStore(c *ctx) error {
	quietLogs()
	r := c.rng
	dir := filepath.Join(c.tmp, "rowstore")
	os.MkdirAll(dir, 0o755)
	nseq := c.pick(150, 4000)
	tags := []string{"", "a", "tag with spaces", "ünïcødé ☃ 雪", "quote'\"; DROP TABLE lora_devices;--", strings.Repeat("x", 130), "line\nbreak\ttab"}
	addrs := []uint32{0, 1, 0x7fffffff, 0x80000000, 0xffffffff, 0x01020304, 0xfe000000}
	rndEUI := func() protocol.EUI {
		var e protocol.EUI
		copy(e.Octets[:], r.Bytes(8))
		switch r.Intn(8) {
		case 0:
			e.Octets[0] |= 0x80
		case 1:
			e.Octets = [8]byte{0xff, 0xff, 0xff, 0xff, 0xff, 0xff, 0xff, 0xff}
		case 2:
			e.Octets = [8]byte{0, 0, 0, 0, 0, 0, 0, byte(r.Intn(3))}
		case 3:
			e.Octets = [8]byte{0x80, 0, 0, 0, 0, 0, 0, byte(r.Intn(2))}
		case 4:
			e.Octets[r.Intn(8)] = 0
		}
		return e
	}
	key := func() protocol.AESKey {
		var k protocol.AESKey
		switch r.Intn(5) {
		case 0:
			for i := range k.Key {
				k.Key[i] = 0xff
			}
		case 1:
		default:
			copy(k.Key[:], r.Key16())
		}
		return k
	}
	var reqs, impl []string
	var seqOf []int
	var traces [][]string
	for seq := 0; seq < nseq; seq++ {
		file := filepath.Join(dir, fmt.Sprintf("r%d.db", seq))
		st, err := storage.CreateStorage(file)
		if err != nil {
			return err
		}
		add := func(req, got string) {
			reqs = append(reqs, req)
			impl = append(impl, got)
			seqOf = append(seqOf, seq)
		}
		add("row.reset", "ok")
		var euis []protocol.EUI
		for i := 0; i < 5; i++ {
			euis = append(euis, rndEUI())
		}
		pick := func() protocol.EUI { return euis[r.Intn(len(euis))] }
		mk := func() model.Device {
			d := model.Device{DeviceEUI: pick(), AppEUI: pick(), DevAddr: protocol.DevAddrFromUint32(r.Uint32()), AppKey: key(), AppSKey: key(), NwkSKey: key(),
				State:  []model.DeviceState{model.OverTheAirDevice, model.PersonalizedDevice, model.DisabledDevice}[r.Intn(3)],
				FCntUp: uint16(r.Intn(65536)), FCntDn: uint16(r.Intn(65536)), RelaxedCounter: r.Intn(2) == 0, KeyWarning: r.Intn(2) == 0, Tag: tags[r.Intn(len(tags))]}
			if r.Intn(2) == 0 {
				d.DevAddr = protocol.DevAddrFromUint32(addrs[r.Intn(len(addrs))])
			}
			if r.Intn(4) == 0 {
				d.FCntUp, d.FCntDn = 65535, 65535
			}
			return d
		}
		errText := func(err error, miss string) string {
			if err == nil {
				return "ok"
			}
			if err == storage.ErrNotFound {
				return "notfound"
			}
			return miss
		}
		nops := 15 + r.Intn(30)
		var trace []string
		for k := 0; k < nops; k++ {
			c.res.Eval()
			switch op := r.Intn(10); {
			case op < 3:
				d := mk()
				err := st.CreateDevice(d, d.AppEUI)
				got := "ok"
				if err != nil {
					got = "dup"
					if !strings.Contains(err.Error(), "UNIQUE") && err != storage.ErrAlreadyExists {
						got = "error:" + err.Error()
					}
				}
				add("row.create "+rowDevArgs(d), got)
				c.res.Count("create:" + got)
			case op < 5:
				d := mk()
				add("row.update "+rowDevArgs(d), errText(st.UpdateDevice(d), "error"))
				c.res.Count("update:" + impl[len(impl)-1])
			case op < 6:
				e := pick()
				add("row.delete "+hx.H(e.Octets[:]), errText(st.DeleteDevice(e), "error"))
				c.res.Count("delete:" + impl[len(impl)-1])
			case op < 8:
				e := pick()
				d, err := st.GetDeviceByEUI(e)
				got := errText(err, "fail")
				if err == nil {
					d.DevNonceHistory = nil
					got = rowDevText(d)
				}
				add("row.get "+hx.H(e.Octets[:]), got)
				c.res.Count("get:" + strings.SplitN(got, "=", 2)[0])
			default:
				e := pick()
				ds, err := st.GetDevicesByApplicationEUI(e)
				got := "fail"
				if err == nil {
					var xs []string
					for _, d := range ds {
						xs = append(xs, rowDevText(d))
					}
					got = canonList(fmt.Sprintf("n=%d %s", len(ds), strings.Join(xs, " ")))
				}
				add("row.list "+hx.H(e.Octets[:]), got)
				c.res.Count(fmt.Sprintf("list:%d", len(ds)))
			}
			trace = append(trace, reqs[len(reqs)-1]+" => "+impl[len(impl)-1])
		}
		traces = append(traces, trace)
		st.Close()
		os.Remove(file)
		os.Remove(file + "-wal")
		os.Remove(file + "-shm")
	}
	ans, err := c.lean.Ask(reqs)
	if err != nil {
		return err
	}
	reported := map[int]bool{}
	for i := range reqs {
		want := strings.TrimSpace(ans[i])
		if strings.HasPrefix(reqs[i], "row.list") {
			want = canonList(want)
		}
		c.res.Class(strings.Fields(reqs[i])[0] + ":" + strings.SplitN(impl[i], "=", 2)[0])
		if strings.TrimSpace(impl[i]) != want && !reported[seqOf[i]] {
			reported[seqOf[i]] = true
			// the sequence up to and including the differing operation
			var cs []string
			for j := i; j >= 0 && seqOf[j] == seqOf[i]; j-- {
				cs = append([]string{reqs[j]}, cs...)
			}
			c.res.Add(hx.Finding{Kind: "mismatch", Engine: "rowstore", Signature: "device-table:" + strings.Fields(reqs[i])[0], Case: cs, Impl: impl[i], Model: want,
				Note: "C18: the device table of the real store and the table model (Model/Row.lean) answer differently"})
		}
		if i%997 == 0 {
			c.res.Sample(reqs[i])
		}
	}
	_ = traces
	c.res.Rule = "sequences of 15..44 CreateDevice / UpdateDevice / DeleteDevice / GetDeviceByEUI / GetDevicesByApplicationEUI calls over 5 EUIs per sequence (top bit set, all-one, near-zero, zero octets, random), addresses incl. 0x80000000 and 0xffffffff, all-zero / all-one keys, counters incl. 65535, tags with quotes, unicode and control characters; a fresh SQLite file per sequence; a class is (operation, outcome)"
	return nil
}
