package main

import (
	"encoding/binary"
	"fmt"
	"strings"
	"unsafe"

	"github.com/lab5e/lospan/pkg/protocol"

	"lospanverif/internal/hx"
)

func init() {
	engines["phydec"] = runPhyDec
}

type phyDecCase struct {
	Frame string `json:"frame"`
	Spare int    `json:"spare"`
	Kind  string `json:"kind"`
}

// implDecode runs UnmarshalBinary on a fresh payload (as the decoder stage does) with the frame
// presented as a sub-slice with `spare` bytes of capacity behind it. Returns the canonical text and
// where the reported FRMPayload lies relative to the frame (offset, length), -1 if not inside.
func implDecode(frame []byte, spare int) (text string, frmOff, frmLen int) {
	back := make([]byte, len(frame)+spare+4)
	for i := range back {
		back[i] = 0x5A
	}
	copy(back, frame)
	view := back[0 : len(frame) : len(frame)+spare]
	text = "panic"
	frmOff, frmLen = -2, 0
	func() {
		defer func() {
			if r := recover(); r != nil {
				text = "panic"
			}
		}()
		p := protocol.NewPHYPayload(protocol.Proprietary)
		err := p.UnmarshalBinary(view)
		if err != nil {
			text = errName(err)
			return
		}
		text = "ok " + phyText(&p)
		frm := p.MACPayload.FRMPayload
		frmLen = len(frm)
		if len(frm) > 0 {
			base := uintptr(unsafe.Pointer(unsafe.SliceData(back)))
			at := uintptr(unsafe.Pointer(unsafe.SliceData(frm)))
			if at >= base && at < base+uintptr(len(back)) {
				frmOff = int(at - base)
			} else {
				frmOff = -1
			}
		}
	}()
	return
}

// knownUp / knownDown: CIDs with their full lengths, for FOpts-like byte strings.
var upLens = map[byte]int{0x02: 1, 0x03: 2, 0x04: 1, 0x05: 2, 0x06: 3, 0x07: 2, 0x08: 1, 0x10: 2, 0x11: 2, 0x12: 1, 0x13: 1}
var downLens = map[byte]int{0x02: 3, 0x03: 5, 0x04: 2, 0x05: 5, 0x06: 1, 0x07: 6, 0x08: 2, 0x10: 1, 0x11: 5, 0x12: 4, 0x13: 4}

// macLike produces n bytes that look like MAC commands: known CIDs (complete, truncated, repeated), unknown CIDs.
func macLike(r *hx.Rng, n int, uplink bool) []byte {
	lens := downLens
	if uplink {
		lens = upLens
	}
	cids := []byte{0x02, 0x03, 0x04, 0x05, 0x06, 0x07, 0x08, 0x10, 0x11, 0x12, 0x13}
	out := []byte{}
	var last byte
	for len(out) < n {
		var cid byte
		switch r.Intn(10) {
		case 0:
			cid = byte(r.Intn(256)) // mostly unknown
		case 1:
			if last != 0 {
				cid = last // repeated
			} else {
				cid = cids[r.Intn(len(cids))]
			}
		default:
			cid = cids[r.Intn(len(cids))]
		}
		last = cid
		out = append(out, cid)
		l := lens[cid]
		for i := 1; i < l; i++ {
			out = append(out, byte(r.Intn(256)))
		}
	}
	return out[:n] // may truncate the last command
}

// buildFrame lays out a data frame from fields (generator; the oracle is the Lean spec).
func buildFrame(mhdr byte, addr uint32, fctrl byte, fcnt uint16, fopts []byte, port int, frm []byte, mic []byte) []byte {
	b := []byte{mhdr}
	b = binary.LittleEndian.AppendUint32(b, addr)
	b = append(b, fctrl)
	b = binary.LittleEndian.AppendUint16(b, fcnt)
	b = append(b, fopts...)
	if port >= 0 {
		b = append(b, byte(port))
		b = append(b, frm...)
	}
	return append(b, mic...)
}

func specField(spec, key string) string {
	for _, f := range strings.Split(spec, ";") {
		if strings.HasPrefix(f, key+"=") {
			return f[len(key)+1:]
		}
	}
	return ""
}

func runPhyDec(c *ctx) error {
	r := c.rng
	var cases []phyDecCase
	add := func(kind string, f []byte, spare int) {
		cases = append(cases, phyDecCase{hx.H(f), spare, kind})
	}
	// corpus: witnesses of the defects repaired by fix: commits (they must stay repaired)
	for _, w := range []string{
		"200000000000000000000000",               // JoinAccept, 12 bytes: index out of range before 287666c
		"40010203040001000003010301030103bbccdd", // port 0, MIC starts with a known CID: slice bounds panic before 4c9b085
		"40010203040101000307aa11223344",         // FOptsLen=1, truncated LinkADRAns: port misread before 4c9b085
		"40010203040301000202ff07aa11223344",     // repeated CID + unknown CID in FOpts
		"4004030201000100000300030003000600",     // port 0, repeated CIDs running into the MIC
	} {
		for _, sp := range []int{0, 1, 2, 8} {
			add("corpus", hx.UnH(w), sp)
		}
	}
	spares := []int{0, 0, 1, 2, 3, 64}
	// (a) every MHDR x every FCtrl (exhaustive in thorough tier, every MHDR and every FCtrl paired in quick tier)
	pairs := [][2]int{}
	if c.thorough() {
		for m := 0; m < 256; m++ {
			for f := 0; f < 256; f++ {
				pairs = append(pairs, [2]int{m, f})
			}
		}
	} else {
		for i := 0; i < 256; i++ {
			for k := 0; k < 6; k++ {
				pairs = append(pairs, [2]int{i, (i*37 + k*43 + r.Intn(256)) & 0xff})
				pairs = append(pairs, [2]int{(i*91 + k*17 + r.Intn(256)) & 0xff, i})
			}
		}
	}
	for _, pr := range pairs {
		mhdr, fctrl := byte(pr[0]), byte(pr[1])
		uplink := (mhdr>>5) == 0 || (mhdr>>5) == 2 || (mhdr>>5) == 4
		fol := int(fctrl & 0xf)
		// tail around the FOptsLen boundary
		tail := fol + []int{-1, 0, 1, 2, 3, 5, 20}[r.Intn(7)]
		if tail < 0 {
			tail = 0
		}
		body := macLike(r, tail, uplink)
		if r.Intn(3) == 0 && len(body) > fol {
			body[fol] = 0 // port 0
		}
		f := append([]byte{mhdr}, r.Bytes(4)...)
		f = append(f, fctrl)
		f = append(f, r.Bytes(2)...)
		f = append(f, body...)
		f = append(f, macLike(r, 4, uplink)...) // MIC that looks like commands now and then
		add("mhdr-fctrl", f, spares[r.Intn(len(spares))])
	}
	// (b) structured data frames
	nb := c.pick(6000, 300000)
	for i := 0; i < nb; i++ {
		mt := []byte{2, 3, 4, 5}[r.Intn(4)]
		uplink := mt == 2 || mt == 4
		fol := r.Intn(16)
		fopts := macLike(r, fol, uplink)
		port := r.Intn(226) - 1 // -1 = absent
		if r.Intn(4) == 0 {
			port = 0
		}
		n := []int{0, 1, 2, 3, 15, 16, 17, r.Intn(60), r.Intn(243)}[r.Intn(9)]
		var frm []byte
		if port == 0 {
			frm = macLike(r, n, uplink)
		} else {
			frm = r.Bytes(n)
		}
		mic := r.Bytes(4)
		if r.Intn(3) == 0 {
			mic = macLike(r, 4, uplink)
		}
		f := buildFrame(mt<<5, r.Uint32(), byte(r.Intn(16))<<4|byte(fol), uint16(r.Intn(65536)), fopts, port, frm, mic)
		switch r.Intn(8) {
		case 0:
			f = f[:r.Intn(len(f)+1)] // truncate
		case 1:
			f = append(f, r.Bytes(1+r.Intn(8))...) // extend
		}
		add("structured", f, spares[r.Intn(len(spares))])
	}
	// (c) join frames and other types, every short length
	for i := 0; i < c.pick(1500, 40000); i++ {
		mt := byte(r.Intn(8))
		n := r.Intn(40)
		f := append([]byte{mt<<5 | byte(r.Intn(4))&byte(r.Intn(4))}, r.Bytes(n)...)
		add("other-types", f, spares[r.Intn(len(spares))])
	}
	// (d) random byte strings of length 0..300
	for n := 0; n <= 300; n++ {
		for k := 0; k < c.pick(3, 40); k++ {
			f := r.Bytes(n)
			if n > 0 && r.Intn(2) == 0 {
				f[0] &= 0xfc // supported major version
			}
			add("random", f, spares[r.Intn(len(spares))])
		}
	}

	reqs := make([]string, len(cases))
	for i, k := range cases {
		reqs[i] = "phy.dec " + k.Frame
	}
	ans, err := c.lean.Ask(reqs)
	if err != nil {
		return err
	}
	for i, k := range cases {
		frame := hx.UnH(k.Frame)
		impl, frmOff, frmLen := implDecode(frame, k.Spare)
		a := ans[i]
		sp := strings.Index(a, " spec=")
		model, spec := a, ""
		if sp >= 0 {
			model, spec = a[:sp], a[sp+6:]
		}
		c.res.Eval()
		c.res.Count("kind=" + k.Kind)
		outcome := strings.Fields(impl)[0]
		c.res.Count("outcome=" + outcome)
		if len(frame) > 0 {
			c.res.Class(fmt.Sprintf("mt=%d fol=%d %s spare=%v", frame[0]>>5, func() int {
				if len(frame) > 5 {
					return int(frame[5] & 0xf)
				}
				return -1
			}(), outcome, k.Spare > 0))
		}
		if i%997 == 0 {
			c.res.Sample(k)
		}
		if impl != model {
			c.res.Add(hx.Finding{Kind: "mismatch", Engine: "phydec", Signature: "phy-decode", Case: k, Impl: impl, Model: model, Spec: spec})
		}
		// ---- property oracles on the implementation
		if outcome == "panic" {
			c.res.Add(hx.Finding{Kind: "propfail", Engine: "phydec", Signature: "decoder-panic", Case: k, Impl: impl, Note: "C11: UnmarshalBinary panicked"})
			continue
		}
		if c.prop == "C11" {
			continue
		}
		if outcome != "ok" {
			// C12: unsupported version / type must be an error — they are (impl is an error here)
			continue
		}
		kv := hx.KV(impl)
		mt := kv["mt"]
		if mt != "2" && mt != "3" && mt != "4" && mt != "5" {
			if len(frame) > 0 && (frame[0]>>5 == 6 || frame[0]>>5 == 7) {
				c.res.Add(hx.Finding{Kind: "propfail", Engine: "phydec", Signature: "accepts-unsupported-mtype", Case: k, Impl: impl, Note: "C12: RFU/Proprietary frame accepted"})
			}
			continue
		}
		if spec == "none" {
			c.res.Add(hx.Finding{Kind: "propfail", Engine: "phydec", Signature: "accepts-non-frame", Case: k, Impl: impl, Spec: spec, Note: "C12: accepted octets that are not a LoRaWAN 1.0 data frame"})
			continue
		}
		bad := []string{}
		chk := func(ik, sk string) {
			if kv[ik] != specField(spec, sk) {
				bad = append(bad, fmt.Sprintf("%s impl=%s spec=%s", ik, kv[ik], specField(spec, sk)))
			}
		}
		chk("mt", "mt")
		chk("maj", "maj")
		chk("addr", "addr")
		chk("adr", "adr")
		chk("aar", "aar")
		chk("ack", "ack")
		chk("fp", "b4")
		chk("cb", "b4")
		chk("fcnt", "fcnt")
		chk("mic", "mic")
		if fmt.Sprint(len(hx.UnH(specField(spec, "fopts")))) != kv["fol"] {
			bad = append(bad, "foptslen")
		}
		sport := specField(spec, "port")
		sfrm := hx.UnH(specField(spec, "frm"))
		switch sport {
		case "none":
			if kv["port"] != "0" || kv["frm"] != "-" {
				bad = append(bad, "port/frm reported for a frame without FPort")
			}
		case "0":
			// only containment of the reported remainder within the payload bytes
			if kv["port"] != "0" {
				bad = append(bad, "port")
			}
			if frmLen > 0 {
				lo := len(frame) - 4 - len(sfrm)
				if frmOff < lo || frmOff+frmLen > len(frame)-4 {
					bad = append(bad, fmt.Sprintf("port-0 remainder [%d,%d) outside the FRMPayload [%d,%d)", frmOff, frmOff+frmLen, lo, len(frame)-4))
				}
			}
		default:
			if kv["port"] != sport {
				bad = append(bad, fmt.Sprintf("port impl=%s spec=%s", kv["port"], sport))
			}
			if kv["frm"] != hx.H(sfrm) {
				bad = append(bad, fmt.Sprintf("frm impl=%s spec=%s", kv["frm"], hx.H(sfrm)))
			}
		}
		if frmLen > 0 && (frmOff < 0 || frmOff+frmLen > len(frame)) {
			bad = append(bad, fmt.Sprintf("FRMPayload [%d,%d) reaches outside the supplied slice of %d bytes", frmOff, frmOff+frmLen, len(frame)))
		}
		if len(bad) > 0 {
			c.res.Add(hx.Finding{Kind: "propfail", Engine: "phydec", Signature: "decode-fields", Case: k, Impl: impl, Spec: spec, Note: "C12: " + strings.Join(bad, "; ")})
		}
	}
	c.res.Rule = "byte strings: every MHDR and every FCtrl value (all 65536 pairs in the thorough tier) with MAC-command-like FOpts/port-0 payloads around the FOptsLen boundary, structured data frames (known/unknown/repeated/truncated commands, truncations, extensions), join and unsupported types, random strings of every length 0..300; presented with 0..64 bytes of spare capacity; a class is (MType, FOptsLen, outcome, has spare capacity)"
	c.res.Exhaustive = false
	return nil
}
