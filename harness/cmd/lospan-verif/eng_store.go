package main

import (
	"bytes"
	"context"
	"encoding/hex"
	"fmt"
	"math"
	"net"
	"os"
	"path/filepath"
	"sort"
	"strings"

	"github.com/lab5e/lospan/pkg/apiserver"
	"github.com/lab5e/lospan/pkg/keys"
	"github.com/lab5e/lospan/pkg/model"
	"github.com/lab5e/lospan/pkg/pb/lospan"
	"github.com/lab5e/lospan/pkg/protocol"
	"github.com/lab5e/lospan/pkg/server"
	"github.com/lab5e/lospan/pkg/storage"

	"lospanverif/internal/hx"
)

func init() {
	engines["txt"] = runTxt
	engines["store"] = runStore
}

// ---- textual codecs against the Lean model

func runTxt(c *ctx) error {
	r := c.rng
	var reqs, impl []string
	n := c.pick(20000, 400000)
	bound32 := []uint32{0, 1, 0x7fffffff, 0x80000000, 0x80000001, 0xffffffff, 0xfe000000, 0x01ffffff, 0x02000000}
	for i := 0; i < n; i++ {
		switch r.Intn(5) {
		case 0:
			v := r.Uint32()
			if r.Intn(3) == 0 {
				v = bound32[r.Intn(len(bound32))]
			}
			d := protocol.DevAddrFromUint32(v)
			back, err := protocol.DevAddrFromString(d.String())
			p := "none"
			if err == nil {
				p = fmt.Sprint(back.ToUint32())
			}
			reqs = append(reqs, fmt.Sprintf("txt.devaddr %d", v))
			impl = append(impl, fmt.Sprintf("str=%s parse=%s", d.String(), p))
		case 1:
			// arbitrary strings for the parser
			alphabet := "0123456789abcdefABCDEF"
			if r.Intn(4) == 0 {
				alphabet += "gxX-+_"
			}
			ln := []int{0, 1, 7, 8, 8, 8, 9, 16}[r.Intn(8)]
			b := make([]byte, ln)
			for k := range b {
				b[k] = alphabet[r.Intn(len(alphabet))]
			}
			back, err := protocol.DevAddrFromString(string(b))
			p := "none"
			if err == nil {
				p = fmt.Sprint(back.ToUint32())
			}
			reqs = append(reqs, "txt.parsedevaddr "+hx.H(b))
			impl = append(impl, "parse="+p)
		case 2, 3:
			o := r.Bytes(8)
			switch r.Intn(6) {
			case 0:
				o[0] |= 0x80
			case 1:
				o = make([]byte, 8)
			case 2:
				o = bytes.Repeat([]byte{0xff}, 8)
			case 3:
				o[r.Intn(8)] = 0
			}
			var e protocol.EUI
			copy(e.Octets[:], o)
			p := "none"
			if back, err := protocol.EUIFromString(e.String()); err == nil {
				p = hx.H(back.Octets[:])
			}
			i64 := e.ToInt64()
			b2 := protocol.EUIFromInt64(i64)
			reqs = append(reqs, "txt.eui "+hx.H(o))
			impl = append(impl, fmt.Sprintf("str=%s parse=%s int=%d back=%s", e.String(), p, i64, hx.H(b2.Octets[:])))
		default:
			k := r.Key16()
			var key protocol.AESKey
			copy(key.Key[:], k)
			p := "none"
			if back, err := protocol.AESKeyFromString(key.String()); err == nil {
				p = hx.H(back.Key[:])
			}
			reqs = append(reqs, "txt.key "+hx.H(k))
			impl = append(impl, fmt.Sprintf("str=%s parse=%s", key.String(), p))
		}
	}
	ans, err := c.lean.Ask(reqs)
	if err != nil {
		return err
	}
	for i := range reqs {
		c.res.Eval()
		f := strings.Fields(reqs[i])
		c.res.Count(f[0])
		c.res.Class(f[0] + fmt.Sprint(len(f[1])) + strings.Fields(impl[i])[len(strings.Fields(impl[i]))-1][:6])
		if i%3001 == 0 {
			c.res.Sample(reqs[i])
		}
		if impl[i] != ans[i] {
			c.res.Add(hx.Finding{Kind: "mismatch", Engine: "txt", Signature: "text-codec", Case: reqs[i], Impl: impl[i], Model: ans[i]})
		}
		// oracle: what was written reads back
		kv := hx.KV(impl[i])
		switch f[0] {
		case "txt.devaddr":
			if kv["parse"] != f[1] {
				c.res.Add(hx.Finding{Kind: "propfail", Engine: "txt", Signature: "devaddr-text-roundtrip", Case: reqs[i], Impl: impl[i], Note: "C18: DevAddr does not read back from its text"})
			}
		case "txt.eui":
			if kv["parse"] != f[1] || kv["back"] != f[1] {
				c.res.Add(hx.Finding{Kind: "propfail", Engine: "txt", Signature: "eui-roundtrip", Case: reqs[i], Impl: impl[i], Note: "C18: EUI does not read back from its string / int64 form"})
			}
		case "txt.key":
			if kv["parse"] != f[1] {
				c.res.Add(hx.Finding{Kind: "propfail", Engine: "txt", Signature: "key-roundtrip", Case: reqs[i], Impl: impl[i]})
			}
		}
	}
	c.res.Rule = "device addresses (all boundary values incl. top bit, random), arbitrary strings offered to the address parser, EUIs (top bit set, zero octets, all-zero/all-one, random) through string and int64 forms, keys (structured + random); a class is (codec, argument size, outcome prefix)"
	return nil
}

// ---- store: operation sequences against an abstract keyed-map oracle

type oracle struct {
	apps  map[protocol.EUI]model.Application
	gws   map[protocol.EUI]model.Gateway
	devs  map[protocol.EUI]model.Device // DevNonceHistory kept in nonces
	nonce map[protocol.EUI]map[uint16]bool
	up    map[protocol.EUI][]model.UpstreamMessage
	down  map[protocol.EUI][]model.DownstreamMessage
}

func newOracle() *oracle {
	return &oracle{map[protocol.EUI]model.Application{}, map[protocol.EUI]model.Gateway{}, map[protocol.EUI]model.Device{},
		map[protocol.EUI]map[uint16]bool{}, map[protocol.EUI][]model.UpstreamMessage{}, map[protocol.EUI][]model.DownstreamMessage{}}
}

func devText(d model.Device, nonces []uint16) string {
	ns := append([]uint16{}, nonces...)
	sort.Slice(ns, func(i, j int) bool { return ns[i] < ns[j] })
	return fmt.Sprintf("eui=%s addr=%08x appkey=%x apps=%x nwks=%x app=%s state=%d up=%d dn=%d relaxed=%v warn=%v tag=%q nonces=%v",
		d.DeviceEUI, d.DevAddr.ToUint32(), d.AppKey.Key, d.AppSKey.Key, d.NwkSKey.Key, d.AppEUI, d.State, d.FCntUp, d.FCntDn, d.RelaxedCounter, d.KeyWarning, d.Tag, ns)
}

func (o *oracle) dev(e protocol.EUI) string {
	d := o.devs[e]
	var ns []uint16
	for n := range o.nonce[e] {
		ns = append(ns, n)
	}
	return devText(d, ns)
}

func gwText(g model.Gateway) string {
	return fmt.Sprintf("eui=%s ip=%s strict=%v lat=%x lon=%x alt=%x", g.GatewayEUI, g.IP.String(), g.StrictIP,
		math.Float32bits(g.Latitude), math.Float32bits(g.Longitude), math.Float32bits(g.Altitude))
}

func upText(m model.UpstreamMessage) string {
	return fmt.Sprintf("dev=%s ts=%d data=%x gw=%s rssi=%d snr=%x freq=%x dr=%q addr=%08x", m.DeviceEUI, m.Timestamp, m.Data, m.GatewayEUI, m.RSSI,
		math.Float32bits(m.SNR), math.Float32bits(m.Frequency), m.DataRate, m.DevAddr.ToUint32())
}

func downText(m model.DownstreamMessage) string {
	return fmt.Sprintf("dev=%s data=%q port=%d ack=%v created=%d sent=%d acked=%d fcnt=%d", m.DeviceEUI, m.Data, m.Port, m.Ack, m.CreatedTime, m.SentTime, m.AckTime, m.FCntUp)
}

func sortedJoin(xs []string) string {
	sort.Strings(xs)
	return strings.Join(xs, " || ")
}

type storeRun struct {
	c     *ctx
	file  string
	st    *storage.Storage
	api   lospan.LospanServer
	o     *oracle
	trace []string
	bad   bool
}

func (s *storeRun) open() error {
	st, err := storage.CreateStorage(s.file)
	if err != nil {
		return err
	}
	s.st = st
	ma, _ := protocol.NewMA([]byte{0, 9, 9})
	kg, err := keys.NewEUIKeyGenerator(ma, 0, st)
	if err != nil {
		return err
	}
	router := server.NewEventRouter[protocol.EUI, *server.PayloadMessage](5)
	s.api, err = apiserver.New(st, &kg, &router)
	return err
}

func (s *storeRun) fail(sig, what, impl, want string) {
	if s.bad {
		return
	}
	s.bad = true
	s.c.res.Add(hx.Finding{Kind: "propfail", Engine: "store", Signature: sig, Case: append([]string{}, s.trace...), Impl: impl, Spec: want,
		Note: "C18: " + what})
}

func (s *storeRun) op(format string, a ...interface{}) {
	s.trace = append(s.trace, fmt.Sprintf(format, a...))
}

// audit reads everything back through the storage layer and compares it with the oracle.
func (s *storeRun) audit(why string) {
	s.op("audit(%s)", why)
	o := s.o
	for e, a := range o.apps {
		got, err := s.st.GetApplicationByEUI(e)
		if err != nil || got.AppEUI != a.AppEUI || got.Tag != a.Tag {
			s.fail("store-read-after-write", "application not returned as stored", fmt.Sprintf("%+v err=%v", got, err), fmt.Sprintf("%+v", a))
		}
	}
	apps, err := s.st.ListApplications()
	var gotA, wantA []string
	for _, a := range apps {
		gotA = append(gotA, fmt.Sprintf("%s/%q", a.AppEUI, a.Tag))
	}
	for _, a := range o.apps {
		wantA = append(wantA, fmt.Sprintf("%s/%q", a.AppEUI, a.Tag))
	}
	if err != nil || sortedJoin(gotA) != sortedJoin(wantA) {
		s.fail("store-listing", "application listing differs", fmt.Sprintf("%v err=%v", sortedJoin(gotA), err), sortedJoin(wantA))
	}
	for e, g := range o.gws {
		got, err := s.st.GetGateway(e)
		if err != nil || gwText(got) != gwText(g) {
			s.fail("store-read-after-write", "gateway not returned as stored", fmt.Sprintf("%s err=%v", gwText(got), err), gwText(g))
		}
	}
	gws, err := s.st.GetGatewayList()
	var gotG, wantG []string
	for _, g := range gws {
		gotG = append(gotG, gwText(g))
	}
	for _, g := range o.gws {
		wantG = append(wantG, gwText(g))
	}
	if err != nil || sortedJoin(gotG) != sortedJoin(wantG) {
		s.fail("store-listing", "gateway listing differs", fmt.Sprintf("%v err=%v", sortedJoin(gotG), err), sortedJoin(wantG))
	}
	byApp := map[protocol.EUI][]string{}
	byAddr := map[uint32][]string{}
	for e, d := range o.devs {
		got, err := s.st.GetDeviceByEUI(e)
		if err != nil || devText(got, got.DevNonceHistory) != o.dev(e) {
			s.fail("store-read-after-write", "device not returned as stored", fmt.Sprintf("%s err=%v", devText(got, got.DevNonceHistory), err), o.dev(e))
		}
		byApp[d.AppEUI] = append(byApp[d.AppEUI], o.dev(e))
		byAddr[d.DevAddr.ToUint32()] = append(byAddr[d.DevAddr.ToUint32()], o.dev(e))
	}
	for app, want := range byApp {
		list, err := s.st.GetDevicesByApplicationEUI(app)
		var got []string
		for _, d := range list {
			got = append(got, devText(d, d.DevNonceHistory))
		}
		if err != nil || sortedJoin(got) != sortedJoin(want) {
			s.fail("store-listing", "device listing of an application differs or fails", fmt.Sprintf("%v err=%v", sortedJoin(got), err), sortedJoin(want))
		}
		// the same through the service implementation
		resp, err := s.api.ListDevices(context.Background(), &lospan.ListDeviceRequest{ApplicationEui: app.String()})
		var gotAPI []string
		if err == nil {
			for _, d := range resp.Devices {
				gotAPI = append(gotAPI, apiDevText(d))
			}
		}
		var wantAPI []string
		for e, d := range o.devs {
			if d.AppEUI == app {
				wantAPI = append(wantAPI, apiDevWant(d, o.nonce[e]))
			}
		}
		if err != nil || sortedJoin(gotAPI) != sortedJoin(wantAPI) {
			s.fail("api-listing", "ListDevices differs from what was stored", fmt.Sprintf("%v err=%v", sortedJoin(gotAPI), err), sortedJoin(wantAPI))
		}
	}
	for addr, want := range byAddr {
		list, err := s.st.GetDeviceByDevAddr(protocol.DevAddrFromUint32(addr))
		var got []string
		for _, d := range list {
			got = append(got, devText(d, d.DevNonceHistory))
		}
		if err != nil || sortedJoin(got) != sortedJoin(want) {
			s.fail("store-listing", "devices by address differ", fmt.Sprintf("%v err=%v", sortedJoin(got), err), sortedJoin(want))
		}
	}
	for e, ms := range o.up {
		list, err := s.st.ListUpstreamMessages(e, 1000)
		want := append([]model.UpstreamMessage{}, ms...)
		sort.Slice(want, func(i, j int) bool { return want[i].Timestamp > want[j].Timestamp })
		var g, w []string
		for _, m := range list {
			g = append(g, upText(m))
		}
		for _, m := range want {
			w = append(w, upText(m))
		}
		if err != nil || strings.Join(g, " || ") != strings.Join(w, " || ") {
			s.fail("store-messages", "upstream messages differ", fmt.Sprintf("%v err=%v", g, err), fmt.Sprint(w))
		}
	}
	for e, ms := range o.down {
		list, err := s.st.ListDownstreamMessages(e)
		want := append([]model.DownstreamMessage{}, ms...)
		sort.Slice(want, func(i, j int) bool { return want[i].CreatedTime < want[j].CreatedTime })
		var g, w []string
		for _, m := range list {
			g = append(g, downText(m))
		}
		for _, m := range want {
			w = append(w, downText(m))
		}
		if err != nil || strings.Join(g, " || ") != strings.Join(w, " || ") {
			s.fail("store-messages", "downstream messages differ", fmt.Sprintf("%v err=%v", g, err), fmt.Sprint(w))
		}
	}
}

func apiDevText(d *lospan.Device) string {
	ns := append([]int32{}, d.DevNonces...)
	sort.Slice(ns, func(i, j int) bool { return ns[i] < ns[j] })
	return fmt.Sprintf("eui=%s app=%s state=%v addr=%08x appkey=%x apps=%x nwks=%x up=%d dn=%d relaxed=%v warn=%v tag=%q nonces=%v",
		d.GetEui(), d.GetApplicationEui(), d.GetState(), d.GetDevAddr(), d.AppKey, d.AppSessionKey, d.NetworkSessionKey, d.GetFrameCountUp(), d.GetFrameCountDown(),
		d.GetRelaxedCounter(), d.GetKeyWarning(), d.GetTag(), ns)
}

func apiDevWant(d model.Device, nonces map[uint16]bool) string {
	var ns []int32
	for n := range nonces {
		ns = append(ns, int32(n))
	}
	sort.Slice(ns, func(i, j int) bool { return ns[i] < ns[j] })
	st := lospan.DeviceState_DISABLED
	switch d.State {
	case model.OverTheAirDevice:
		st = lospan.DeviceState_OTAA
	case model.PersonalizedDevice:
		st = lospan.DeviceState_ABP
	}
	return fmt.Sprintf("eui=%s app=%s state=%v addr=%08x appkey=%x apps=%x nwks=%x up=%d dn=%d relaxed=%v warn=%v tag=%q nonces=%v",
		d.DeviceEUI, d.AppEUI, st, d.DevAddr.ToUint32(), d.AppKey.Key[:], d.AppSKey.Key[:], d.NwkSKey.Key[:], d.FCntUp, d.FCntDn, d.RelaxedCounter, d.KeyWarning, d.Tag, ns)
}

func runStore(c *ctx) error {
	quietLogs()
	r := c.rng
	dir := filepath.Join(c.tmp, "store")
	os.MkdirAll(dir, 0o755)
	nseq := c.pick(120, 3000)
	tags := []string{"", "a", "tag with spaces", "ünïcødé ☃ 雪", "quote'\"; DROP TABLE lora_devices;--", strings.Repeat("x", 200), "line\nbreak\ttab"}
	rndEUI := func() protocol.EUI {
		var e protocol.EUI
		copy(e.Octets[:], r.Bytes(8))
		switch r.Intn(8) {
		case 0:
			e.Octets[0] |= 0x80
		case 1:
			e.Octets = [8]byte{0xff, 0xff, 0xff, 0xff, 0xff, 0xff, 0xff, 0xff}
		case 2:
			e.Octets = [8]byte{0, 0, 0, 0, 0, 0, 0, byte(1 + r.Intn(3))}
		case 3:
			e.Octets[r.Intn(8)] = 0
		}
		return e
	}
	key := func() protocol.AESKey {
		var k protocol.AESKey
		copy(k.Key[:], r.Key16())
		return k
	}
	addrs := []uint32{0, 1, 0x7fffffff, 0x80000000, 0xffffffff, 0x01020304}
	for seq := 0; seq < nseq; seq++ {
		s := &storeRun{c: c, file: filepath.Join(dir, fmt.Sprintf("s%d.db", seq)), o: newOracle()}
		if err := s.open(); err != nil {
			return err
		}
		o := s.o
		var euis []protocol.EUI
		for i := 0; i < 5; i++ {
			euis = append(euis, rndEUI())
		}
		pick := func() protocol.EUI { return euis[r.Intn(len(euis))] }
		nops := 20 + r.Intn(40)
		for k := 0; k < nops && !s.bad; k++ {
			c.res.Eval()
			switch op := r.Intn(22); op {
			case 0: // create application (storage)
				a := model.Application{AppEUI: pick(), Tag: tags[r.Intn(len(tags))]}
				err := s.st.CreateApplication(a)
				s.op("CreateApplication(%s,%q)=%v", a.AppEUI, a.Tag, err)
				if _, dup := o.apps[a.AppEUI]; dup {
					if err == nil {
						s.fail("store-duplicate-accepted", "duplicate application accepted", "nil", "error")
					}
				} else if err != nil {
					s.fail("store-rejects-valid", "valid application rejected", err.Error(), "nil")
				} else {
					o.apps[a.AppEUI] = a
				}
			case 1: // delete application
				e := pick()
				err := s.st.DeleteApplication(e)
				s.op("DeleteApplication(%s)=%v", e, err)
				if _, ok := o.apps[e]; ok {
					if err != nil {
						s.fail("store-delete", "delete of an existing application failed", err.Error(), "nil")
					}
					delete(o.apps, e)
				} else if err == nil {
					s.fail("store-delete", "delete of a missing application succeeded", "nil", "not found")
				}
				if _, err := s.st.GetApplicationByEUI(e); err == nil {
					s.fail("store-deleted-returned", "deleted application still returned", "found", "not found")
				}
			case 2, 3: // create gateway (storage or API)
				e := pick()
				ipS := []string{"127.0.0.1", "10.1.2.3", "255.255.255.255", "::1", "2001:db8::1234", "0.0.0.0"}[r.Intn(6)]
				g := model.Gateway{GatewayEUI: e, IP: net.ParseIP(ipS), StrictIP: r.Intn(2) == 0,
					Latitude: float32(r.Intn(18000)-9000) / 100, Longitude: float32(r.Intn(36000)-18000) / 100, Altitude: float32(r.Intn(900000)) / 100}
				var err error
				if op == 2 {
					err = s.st.CreateGateway(g)
				} else {
					_, err = s.api.CreateGateway(context.Background(), &lospan.Gateway{Eui: e.String(), Ip: &ipS, StrictIp: &g.StrictIP,
						Latitude: &g.Latitude, Longitude: &g.Longitude, Altitude: &g.Altitude})
				}
				s.op("CreateGateway[%d](%s)=%v", op, gwText(g), err)
				if _, dup := o.gws[e]; dup {
					if err == nil {
						s.fail("store-duplicate-accepted", "duplicate gateway accepted", "nil", "error")
					}
				} else if err != nil {
					s.fail("store-rejects-valid", "valid gateway rejected", err.Error(), "nil")
				} else {
					o.gws[e] = g
				}
			case 4: // update gateway
				e := pick()
				g, ok := o.gws[e]
				if !ok {
					continue
				}
				g.StrictIP = !g.StrictIP
				g.Altitude += 1.5
				g.IP = net.ParseIP("192.168.0." + fmt.Sprint(r.Intn(255)))
				err := s.st.UpdateGateway(g)
				s.op("UpdateGateway(%s)=%v", gwText(g), err)
				if err != nil {
					s.fail("store-update", "update of an existing gateway failed", err.Error(), "nil")
				}
				o.gws[e] = g
			case 5: // delete gateway
				e := pick()
				err := s.st.DeleteGateway(e)
				s.op("DeleteGateway(%s)=%v", e, err)
				if _, ok := o.gws[e]; ok {
					if err != nil {
						s.fail("store-delete", "delete of an existing gateway failed", err.Error(), "nil")
					}
					delete(o.gws, e)
				}
				if _, err := s.st.GetGateway(e); err == nil {
					s.fail("store-deleted-returned", "deleted gateway still returned", "found", "not found")
				}
			case 6, 7, 8: // create device (storage)
				d := model.Device{DeviceEUI: pick(), AppEUI: pick(), DevAddr: protocol.DevAddrFromUint32(r.Uint32()), AppKey: key(), AppSKey: key(), NwkSKey: key(),
					State:  []model.DeviceState{model.OverTheAirDevice, model.PersonalizedDevice, model.DisabledDevice}[r.Intn(3)],
					FCntUp: uint16(r.Intn(65536)), FCntDn: uint16(r.Intn(65536)), RelaxedCounter: r.Intn(2) == 0, KeyWarning: r.Intn(2) == 0, Tag: tags[r.Intn(len(tags))]}
				if r.Intn(2) == 0 {
					d.DevAddr = protocol.DevAddrFromUint32(addrs[r.Intn(len(addrs))])
				}
				if r.Intn(4) == 0 {
					d.FCntUp, d.FCntDn = 65535, 65535
				}
				err := s.st.CreateDevice(d, d.AppEUI)
				s.op("CreateDevice(%s)=%v", devText(d, nil), err)
				if _, dup := o.devs[d.DeviceEUI]; dup {
					if err == nil {
						s.fail("store-duplicate-accepted", "duplicate device accepted", "nil", "error")
					}
				} else if err != nil {
					s.fail("store-rejects-valid", "valid device rejected", err.Error(), "nil")
				} else {
					o.devs[d.DeviceEUI] = d
					if o.nonce[d.DeviceEUI] == nil {
						o.nonce[d.DeviceEUI] = map[uint16]bool{}
					}
				}
			case 9: // create device through the service implementation
				e, app := pick(), pick()
				abp := r.Intn(2) == 0
				req := &lospan.Device{Eui: strp(e.String()), ApplicationEui: strp(app.String())}
				stt := lospan.DeviceState_OTAA
				if abp {
					stt = lospan.DeviceState_ABP
					a := r.Uint32()
					if r.Intn(2) == 0 {
						a = addrs[1+r.Intn(len(addrs)-1)]
					}
					req.DevAddr = &a
					k1, k2 := key(), key()
					req.AppSessionKey, req.NetworkSessionKey = k1.Key[:], k2.Key[:]
				} else {
					k := key()
					req.AppKey = k.Key[:]
				}
				req.State = &stt
				resp, err := s.api.CreateDevice(context.Background(), req)
				s.op("api.CreateDevice(eui=%s app=%s abp=%v)=%v", e, app, abp, err)
				if _, dup := o.devs[e]; dup {
					if err == nil {
						s.fail("store-duplicate-accepted", "duplicate device accepted by the API", "nil", "error")
					}
				} else if err == nil {
					// what the service says it accepted is what must be stored
					d := model.Device{DeviceEUI: e, AppEUI: app, DevAddr: protocol.DevAddrFromUint32(resp.GetDevAddr()), FCntUp: uint16(resp.GetFrameCountUp()),
						FCntDn: uint16(resp.GetFrameCountDown()), RelaxedCounter: resp.GetRelaxedCounter(), KeyWarning: resp.GetKeyWarning(), Tag: resp.GetTag()}
					copy(d.AppKey.Key[:], resp.AppKey)
					copy(d.AppSKey.Key[:], resp.AppSessionKey)
					copy(d.NwkSKey.Key[:], resp.NetworkSessionKey)
					d.State = model.OverTheAirDevice
					if abp {
						d.State = model.PersonalizedDevice
					}
					o.devs[e] = d
					if o.nonce[e] == nil {
						o.nonce[e] = map[uint16]bool{}
					}
				}
				// an InvalidArgument rejection (all-zero key etc.) is fine: nothing may be left behind, the audit checks that
			case 20, 21: // update device through the service implementation: every field that is present is stored
				e := pick()
				d, ok := o.devs[e]
				if !ok {
					continue
				}
				up := int32([]int{0, 0, 1, 65535, r.Intn(65536)}[r.Intn(5)])
				dn := int32([]int{0, 0, 1, 65535, r.Intn(65536)}[r.Intn(5)])
				addr := addrs[r.Intn(len(addrs))]
				kw := r.Intn(2) == 0
				req := &lospan.Device{Eui: strp(e.String())}
				what := ""
				if r.Intn(3) != 0 {
					req.FrameCountUp = &up
					d.FCntUp = uint16(up)
					what += fmt.Sprintf(" up=%d", up)
				}
				if r.Intn(3) != 0 {
					req.FrameCountDown = &dn
					d.FCntDn = uint16(dn)
					what += fmt.Sprintf(" dn=%d", dn)
				}
				if r.Intn(3) == 0 {
					req.DevAddr = &addr
					d.DevAddr = protocol.DevAddrFromUint32(addr)
					what += fmt.Sprintf(" addr=%08x", addr)
				}
				if r.Intn(3) == 0 {
					req.KeyWarning = &kw
					d.KeyWarning = kw
					what += fmt.Sprintf(" warn=%v", kw)
				}
				resp, err := s.api.UpdateDevice(context.Background(), req)
				s.op("api.UpdateDevice(%s%s)=%v", e, what, err)
				if err != nil {
					s.fail("api-update", "the service refused an update of an existing device with valid values", err.Error(), "nil")
				} else {
					if uint16(resp.GetFrameCountUp()) != d.FCntUp || uint16(resp.GetFrameCountDown()) != d.FCntDn || resp.GetDevAddr() != d.DevAddr.ToUint32() || resp.GetKeyWarning() != d.KeyWarning {
						s.fail("api-update-answer", "the service's answer to an update does not carry the values it was given",
							fmt.Sprintf("up=%d dn=%d addr=%08x warn=%v", resp.GetFrameCountUp(), resp.GetFrameCountDown(), resp.GetDevAddr(), resp.GetKeyWarning()),
							fmt.Sprintf("up=%d dn=%d addr=%08x warn=%v", d.FCntUp, d.FCntDn, d.DevAddr.ToUint32(), d.KeyWarning))
					}
					o.devs[e] = d
				}
			case 10: // update device
				e := pick()
				d, ok := o.devs[e]
				if !ok {
					continue
				}
				d.DevAddr = protocol.DevAddrFromUint32(addrs[r.Intn(len(addrs))])
				d.NwkSKey, d.AppSKey = key(), key()
				d.FCntUp, d.FCntDn = uint16(r.Intn(65536)), uint16(r.Intn(65536))
				d.Tag = tags[r.Intn(len(tags))]
				d.KeyWarning = !d.KeyWarning
				err := s.st.UpdateDevice(d)
				s.op("UpdateDevice(%s)=%v", devText(d, nil), err)
				if err != nil {
					s.fail("store-update", "update of an existing device failed", err.Error(), "nil")
				}
				o.devs[e] = d
			case 11: // update device state
				e := pick()
				d, ok := o.devs[e]
				if !ok {
					continue
				}
				d.FCntUp, d.FCntDn, d.KeyWarning = uint16(r.Intn(65536)), uint16(r.Intn(65536)), r.Intn(2) == 0
				err := s.st.UpdateDeviceState(d)
				s.op("UpdateDeviceState(%s,%d,%d,%v)=%v", e, d.FCntUp, d.FCntDn, d.KeyWarning, err)
				if err != nil {
					s.fail("store-update", "state update of an existing device failed", err.Error(), "nil")
				}
				o.devs[e] = d
			case 12: // delete device
				e := pick()
				err := s.st.DeleteDevice(e)
				s.op("DeleteDevice(%s)=%v", e, err)
				if _, ok := o.devs[e]; ok {
					if err != nil {
						s.fail("store-delete", "delete of an existing device failed", err.Error(), "nil")
					}
					delete(o.devs, e)
				}
				if _, err := s.st.GetDeviceByEUI(e); err == nil {
					s.fail("store-deleted-returned", "deleted device still returned", "found", "not found")
				}
			case 13: // nonce
				e := pick()
				d, ok := o.devs[e]
				if !ok {
					continue
				}
				n := uint16([]int{0, 1, 65535, 32768, r.Intn(65536)}[r.Intn(5)])
				err := s.st.AddDevNonce(d, n)
				s.op("AddDevNonce(%s,%d)=%v", e, n, err)
				if o.nonce[e][n] {
					if err == nil {
						s.fail("store-duplicate-accepted", "duplicate DevNonce accepted", "nil", "error")
					}
				} else if err != nil {
					s.fail("store-rejects-valid", "fresh DevNonce rejected", err.Error(), "nil")
				} else {
					o.nonce[e][n] = true
				}
			case 14, 15: // upstream message
				e := pick()
				m := model.UpstreamMessage{DeviceEUI: e, Timestamp: int64(r.Intn(50)) + int64(r.Intn(3))*1e15, Data: r.Bytes(r.Intn(40)), GatewayEUI: pick(),
					RSSI: int32(r.Intn(300) - 200), SNR: float32(r.Intn(200)-100) / 4, Frequency: 868.1, DataRate: "SF7BW125", DevAddr: protocol.DevAddrFromUint32(addrs[r.Intn(len(addrs))])}
				if len(m.Data) == 0 {
					m.Data = []byte{}
				}
				err := s.st.CreateUpstreamMessage(e, m)
				s.op("CreateUpstreamMessage(%s)=%v", upText(m), err)
				dup := false
				for _, x := range o.up[e] {
					if x.Timestamp == m.Timestamp {
						dup = true
					}
				}
				if dup {
					if err == nil {
						s.fail("store-duplicate-accepted", "upstream message with an existing (device, timestamp) accepted", "nil", "error")
					}
				} else if err != nil {
					s.fail("store-rejects-valid", "upstream message rejected", err.Error(), "nil")
				} else {
					o.up[e] = append(o.up[e], m)
				}
			case 16, 17: // downstream message
				e := pick()
				m := model.DownstreamMessage{DeviceEUI: e, Data: hex.EncodeToString(r.Bytes(1 + r.Intn(30))), Port: uint8(r.Intn(256)), Ack: r.Intn(2) == 0,
					CreatedTime: int64(r.Intn(40)), SentTime: 0, AckTime: 0}
				err := s.st.CreateDownstreamMessage(e, m)
				s.op("CreateDownstreamMessage(%s)=%v", downText(m), err)
				dup := false
				for _, x := range o.down[e] {
					if x.CreatedTime == m.CreatedTime {
						dup = true
					}
				}
				if dup {
					if err == nil {
						s.fail("store-duplicate-accepted", "downstream message with an existing (device, created) accepted", "nil", "error")
					}
				} else if err != nil {
					s.fail("store-rejects-valid", "downstream message rejected", err.Error(), "nil")
				} else {
					o.down[e] = append(o.down[e], m)
				}
			case 18: // delete downstream message
				e := pick()
				if len(o.down[e]) == 0 {
					continue
				}
				i := r.Intn(len(o.down[e]))
				err := s.st.DeleteDownstreamMessage(e, o.down[e][i].CreatedTime)
				s.op("DeleteDownstreamMessage(%s,%d)=%v", e, o.down[e][i].CreatedTime, err)
				if err != nil {
					s.fail("store-delete", "delete of an existing downstream message failed", err.Error(), "nil")
				}
				o.down[e] = append(o.down[e][:i:i], o.down[e][i+1:]...)
			case 19: // reopen
				s.st.Close()
				s.op("reopen")
				if err := s.open(); err != nil {
					return err
				}
				s.audit("after reopen")
			default:
				s.audit("periodic")
			}
		}
		if !s.bad {
			s.audit("final")
			s.st.Close()
			if err := s.open(); err == nil {
				s.audit("final after reopen")
			}
		}
		s.st.Close()
		os.Remove(s.file)
		c.res.Class(fmt.Sprintf("apps=%d gws=%d devs=%d up=%d down=%d", len(o.apps), len(o.gws), len(o.devs), len(o.up), len(o.down)))
		c.res.Count(fmt.Sprintf("devices=%d", len(o.devs)))
		if seq%29 == 0 {
			c.res.Sample(s.trace[:min(len(s.trace), 12)])
		}
	}
	c.res.Rule = "sequences of 20..59 create/update/delete/read operations over 5 EUIs (top bit set, all-ones, near-zero, zero octets) on applications, gateways (IPv4/IPv6), devices (boundary addresses incl. top bit, max counters, structured keys, UTF-8/SQL-looking tags), DevNonces, upstream and downstream messages, through the storage API and the service implementation (CreateDevice, CreateGateway, ListDevices), database reopened at random positions, everything read back (single reads, listings by application and by address) against an abstract keyed-map oracle; a class is the size profile of the final store"
	return nil
}

func strp(s string) *string { return &s }
