package main

import (
	"bytes"
	"context"
	"encoding/base64"
	"encoding/binary"
	"encoding/json"
	"errors"
	"fmt"
	"github.com/lab5e/lospan/pkg/apiserver"
	"github.com/lab5e/lospan/pkg/keys"
	"github.com/lab5e/lospan/pkg/pb/lospan"
	"net"
	"os"
	"path/filepath"
	"sort"
	"strconv"
	"strings"
	"sync"
	"time"

	"github.com/lab5e/lospan/pkg/band"
	"github.com/lab5e/lospan/pkg/events/gwevents"
	"github.com/lab5e/lospan/pkg/gateway"
	"github.com/lab5e/lospan/pkg/lg"
	"github.com/lab5e/lospan/pkg/model"
	"github.com/lab5e/lospan/pkg/protocol"
	"github.com/lab5e/lospan/pkg/server"
	"github.com/lab5e/lospan/pkg/storage"

	"lospanverif/internal/hx"
)

func init() {
	engines["gw"] = runGw
	engines["gwcodec"] = runGwCodec
}

func quietLogs() {
	nop := func(string, ...any) {}
	lg.Debug, lg.Info, lg.Warning, lg.Error = nop, nop, nop, nop
}

// gwRig is a real GenericPacketForwarder on a loopback port with client sockets around it.
type gwRig struct {
	store   *storage.Storage
	api     lospan.LospanServer
	fwd     *gateway.GenericPacketForwarder
	port    int
	socks   []*net.UDPConn
	mu      sync.Mutex
	got     []server.GatewayPacket
	rx      []chan []byte
	barrier uint16
}

var barrierEUI = []byte{0xfe, 0xfe, 0xfe, 0xfe, 0xfe, 0xfe, 0xfe, 0xfe}

func freeUDPPort() int {
	c, err := net.ListenUDP("udp", &net.UDPAddr{IP: net.IPv4(127, 0, 0, 1), Port: 0})
	if err != nil {
		return 0
	}
	defer c.Close()
	return c.LocalAddr().(*net.UDPAddr).Port
}

// newGwRig starts a forwarder on a free port; binding can lose a race for the port with another
// process (the forwarder listens on all interfaces), so a rig that does not answer is retried.
func newGwRig(dir string, checksOff bool, nsock int) (*gwRig, error) {
	var err error
	for attempt := 0; attempt < 5; attempt++ {
		var r *gwRig
		if r, err = newGwRigOnce(dir, checksOff, nsock); err == nil {
			return r, nil
		}
		time.Sleep(50 * time.Millisecond)
	}
	return nil, err
}

func newGwRigOnce(dir string, checksOff bool, nsock int) (*gwRig, error) {
	st, err := storage.CreateStorage(filepath.Join(dir, fmt.Sprintf("gw-%d.db", time.Now().UnixNano())))
	if err != nil {
		return nil, err
	}
	router := server.NewEventRouter[protocol.EUI, gwevents.GwEvent](5)
	ctx := &server.Context{Storage: st, Config: &server.Parameters{DisableGatewayChecks: checksOff}, GwEventRouter: &router}
	r := &gwRig{store: st, port: freeUDPPort()}
	if ma, err := protocol.NewMA([]byte{0, 9, 9}); err == nil {
		if kg, err := keys.NewEUIKeyGenerator(ma, 0, st); err == nil {
			devRouter := server.NewEventRouter[protocol.EUI, *server.PayloadMessage](5)
			r.api, _ = apiserver.New(st, &kg, &devRouter)
		}
	}
	r.fwd = gateway.NewGenericPacketForwarder(r.port, st, ctx)
	go r.fwd.Start()
	for i := 0; i < nsock+2; i++ {
		c, err := net.ListenUDP("udp", &net.UDPAddr{IP: net.IPv4(127, 0, 0, byte(1+i%4)), Port: 0})
		if i >= nsock {
			// two more sockets on the IPv6 loopback (the forwarder listens dual-stack)
			c, err = net.ListenUDP("udp6", &net.UDPAddr{IP: net.IPv6loopback, Port: 0})
			if err != nil {
				break // no IPv6 loopback on this host
			}
		}
		if err != nil {
			return nil, err
		}
		r.socks = append(r.socks, c)
		ch := make(chan []byte, 4096)
		r.rx = append(r.rx, ch)
		go func(c *net.UDPConn, ch chan []byte) {
			buf := make([]byte, 65536)
			for {
				n, _, err := c.ReadFromUDP(buf)
				if err != nil {
					return
				}
				ch <- append([]byte{}, buf[:n]...)
			}
		}(c, ch)
	}
	// wait until the forwarder answers
	deadline := time.Now().Add(3 * time.Second)
	for {
		if _, ok := r.sync(0, 100*time.Millisecond); ok {
			break
		}
		if time.Now().After(deadline) {
			r.close()
			st.Close()
			return nil, fmt.Errorf("forwarder on port %d does not answer", r.port)
		}
	}
	return r, nil
}

func (r *gwRig) close() {
	defer func() { recover() }()
	r.fwd.Stop()
	for _, c := range r.socks {
		c.Close()
	}
}

func (r *gwRig) send(sock int, b []byte) {
	if r.socks[sock].LocalAddr().(*net.UDPAddr).IP.To4() == nil {
		r.socks[sock].WriteToUDP(b, &net.UDPAddr{IP: net.IPv6loopback, Port: r.port})
		return
	}
	r.socks[sock].WriteToUDP(b, &net.UDPAddr{IP: net.IPv4(127, 0, 0, 1), Port: r.port})
}

// sync sends a barrier PULL_DATA on the socket and returns every datagram received on that socket
// before the barrier's PULL_ACK. The forwarder's main loop is sequential and UDP loopback keeps the
// order per socket pair, so everything the server sent to this socket earlier has arrived by then.
func (r *gwRig) sync(sock int, timeout time.Duration) ([][]byte, bool) {
	var before [][]byte
	earlier := map[uint16]bool{}
	// A barrier datagram can be lost (UDP, even on loopback, under memory pressure) and the machine
	// can be busy: the barrier is repeated before the forwarder is declared dead.
	for attempt := 0; attempt < 3; attempt++ {
		r.barrier++
		tok := r.barrier
		b := []byte{2, byte(tok >> 8), byte(tok), 2}
		b = append(b, barrierEUI...)
		r.send(sock, b)
		// The harness itself is the only receiver of the forwarder's output channel: the main loop
		// blocks on every forwarded packet until we take it, so by the time the barrier's ack exists
		// every packet forwarded before it has been taken here.
		t := time.NewTimer(timeout)
	wait:
		for {
			select {
			case p, ok := <-r.fwd.Output():
				if ok {
					r.got = append(r.got, p)
				}
			case d := <-r.rx[sock]:
				if len(d) == 4 && d[3] == 4 && d[1] == byte(tok>>8) && d[2] == byte(tok) {
					t.Stop()
					return before, true
				}
				if len(d) == 4 && d[3] == 4 && earlier[uint16(d[1])<<8|uint16(d[2])] {
					continue // the ack of an earlier barrier of this call, late
				}
				before = append(before, d)
			case <-t.C:
				break wait
			}
		}
		earlier[uint16(tok)] = true
	}
	return before, false
}

func (r *gwRig) takeForwarded() []server.GatewayPacket {
	g := r.got
	r.got = nil
	return g
}

func (r *gwRig) sockPort(i int) int    { return r.socks[i].LocalAddr().(*net.UDPAddr).Port }
func (r *gwRig) sockHost(i int) string { return r.socks[i].LocalAddr().(*net.UDPAddr).IP.String() }

type rxEntry struct {
	Data  string  `json:"-"`
	Valid bool    `json:"-"`
	Tmst  uint32  `json:"tmst"`
	Chan  uint8   `json:"chan"`
	Rfch  uint8   `json:"rfch"`
	Datr  string  `json:"datr"`
	Rssi  int32   `json:"rssi"`
	Lsnr  float32 `json:"lsnr"`
	Raw   []byte  `json:"-"`
}

func f32(f float32) string { return strconv.FormatFloat(float64(f), 'g', -1, 32) }

func (e rxEntry) jsonText() string {
	data := base64.StdEncoding.EncodeToString(e.Raw)
	if !e.Valid {
		data = "!!not*base64!!"
	}
	return fmt.Sprintf(`{"time":"2017-02-01T23:55:55.233Z","tmst":%d,"freq":868.1,"chan":%d,"rfch":%d,"modu":"LORA","datr":%q,"codr":"4/5","rssi":%d,"lsnr":%s,"size":%d,"data":%q}`,
		e.Tmst, e.Chan, e.Rfch, e.Datr, e.Rssi, f32(e.Lsnr), len(e.Raw), data)
}

func (e rxEntry) modelText() string {
	d := hx.H(e.Raw)
	if !e.Valid {
		d = "!"
	}
	return fmt.Sprintf("%s|%d|%d|%d|%s|%d|%s", d, e.Tmst, e.Chan, e.Rfch, e.Datr, e.Rssi, f32(e.Lsnr))
}

func fwdText(p server.GatewayPacket) string {
	return fmt.Sprintf("%s|%s|%d|%d|%s|%d|%s|%s|%s|%d|%d|%d", hx.H(p.RawMessage), p.Radio.DataRate, p.Radio.Channel, p.Radio.RFChain,
		f32(p.Radio.Frequency), p.Radio.RSSI, f32(p.Radio.SNR), hx.H(p.Gateway.GatewayEUI.Octets[:]), p.Gateway.GatewayHost, p.Gateway.GatewayPort,
		p.Gateway.GatewayClock, p.Gateway.ProtocolVersion)
}

type gwOp struct {
	Op   string `json:"op"`
	Lean string `json:"lean"`
	Note string `json:"note,omitempty"`
}

func runGw(c *ctx) error {
	quietLogs()
	r := c.rng
	dir := filepath.Join(c.tmp, "gw")
	os.MkdirAll(dir, 0o755)
	nseq := c.pick(60, 1200)
	datrs := []string{"SF12BW125", "SF11BW125", "SF10BW125", "SF9BW125", "SF8BW125", "SF7BW125", "SF7BW250", "FSKBW500", "SF7BW999"}
	clocks := []uint32{0, 1, 4294967295, 4293967296, 4293967295, 4293967297, 4289967296, 4289967295, 4289967297}
	defBand, _ := band.NewBand(band.EU868Band)
	stopped := 0 // sequences that ended because the forwarder no longer answered (each costs three barrier timeouts)
	for seq := 0; seq < nseq && stopped < 3; seq++ {
		checksOff := r.Intn(4) == 0
		rig, err := newGwRig(dir, checksOff, 6)
		if err != nil {
			return err
		}
		var ops []gwOp
		var leanReqs []string
		var impl []string
		leanReqs = append(leanReqs, fmt.Sprintf("gw.reset %s", b01(checksOff)))
		impl = append(impl, "ok")
		ops = append(ops, gwOp{Op: "reset", Lean: leanReqs[0]})
		euis := [][]byte{r.Bytes(8), r.Bytes(8), {0x80, 1, 2, 3, 4, 5, 6, 0xff}, {0, 0, 0, 0, 0, 0, 0, 1}}
		registered := map[string]bool{}
		pulled := map[string]int{} // gateway EUI -> socket of its last complete PULL_DATA
		nops := 10 + r.Intn(14)
		// after every strict registration: a PUSH_DATA for that gateway from one IPv4 and one IPv6 source
		// (the source-address check is exercised for every kind of registered address, not by luck)
		type forcedPush struct {
			eui  []byte
			sock int
			bare bool // a header-only PUSH_DATA (12 octets, no JSON object at all)
		}
		var forced []forcedPush
		for k := 0; k < nops || len(forced) > 0; k++ {
			eui := euis[r.Intn(len(euis))]
			sock := r.Intn(len(rig.socks))
			op := r.Intn(12)
			isForced, bare := false, false
			if len(forced) > 0 {
				eui, sock, op, isForced, bare = forced[0].eui, forced[0].sock, 3, true, forced[0].bare
				forced = forced[1:]
			}
			var e protocol.EUI
			copy(e.Octets[:], eui)
			switch {
			case op < 2: // register / update
				ip := fmt.Sprintf("127.0.0.%d", 1+r.Intn(4))
				if r.Intn(3) == 0 {
					ip = []string{"::1", "2001:db8::1234", "fe80::1"}[r.Intn(3)]
				}
				strict := r.Intn(2) == 0
				gw := model.Gateway{GatewayEUI: e, IP: net.ParseIP(ip), StrictIP: strict, Latitude: 1, Longitude: 2, Altitude: 3}
				var err error
				if registered[string(eui)] && rig.api != nil && r.Intn(3) == 0 {
					// the management API changes a field that has nothing to do with admission (altitude): what
					// the forwarder admits for this gateway stays as it was
					alt := float32(r.Intn(9000))
					_, err := rig.api.UpdateGateway(context.Background(), &lospan.Gateway{Eui: e.String(), Altitude: &alt})
					if err != nil {
						return fmt.Errorf("api.UpdateGateway of a registered gateway failed: %v", err)
					}
					c.res.Count("gw.api-update-other-field")
					leanReqs = append(leanReqs, "gw.refused "+hx.H(eui))
					impl = append(impl, "ok")
					ops = append(ops, gwOp{Op: "api-update-altitude", Lean: leanReqs[len(leanReqs)-1], Note: "UpdateGateway through the service implementation with only the altitude set"})
					forced = append(forced, forcedPush{eui, r.Intn(6), false})
					if len(rig.socks) > 6 {
						forced = append(forced, forcedPush{eui, 6 + r.Intn(len(rig.socks)-6), false})
					}
					continue
				}
				if r.Intn(4) == 0 {
					// a registry call that must be refused (update of a gateway that is not registered,
					// second create of one that is): the registry - and what the forwarder admits - stays as it was
					if registered[string(eui)] {
						err = rig.store.CreateGateway(gw)
					} else {
						err = rig.store.UpdateGateway(gw)
					}
					c.res.Count("gw.refused-registry-op")
					if err == nil {
						return fmt.Errorf("registry accepted a call it must refuse (eui %x registered=%v)", eui, registered[string(eui)])
					}
					leanReqs = append(leanReqs, "gw.refused "+hx.H(eui))
					impl = append(impl, "ok")
					ops = append(ops, gwOp{Op: "refused-registry-call", Lean: leanReqs[len(leanReqs)-1], Note: fmt.Sprintf("registered=%v ip=%s strict=%v", registered[string(eui)], ip, strict)})
					continue
				}
				if registered[string(eui)] {
					err = rig.store.UpdateGateway(gw)
				} else {
					err = rig.store.CreateGateway(gw)
				}
				if err != nil {
					return fmt.Errorf("registry op failed: %v", err)
				}
				registered[string(eui)] = true
				if strict {
					forced = append(forced, forcedPush{eui, r.Intn(6), false})
					if len(rig.socks) > 6 {
						forced = append(forced, forcedPush{eui, 6 + r.Intn(len(rig.socks)-6), false})
					}
				}
				leanReqs = append(leanReqs, fmt.Sprintf("gw.reg %s %s %s", hx.H(eui), ip, b01(strict)))
				impl = append(impl, "ok")
				ops = append(ops, gwOp{Op: "register", Lean: leanReqs[len(leanReqs)-1]})
			case op == 2: // delete
				if registered[string(eui)] {
					if err := rig.store.DeleteGateway(e); err != nil {
						return err
					}
					delete(registered, string(eui))
				} else {
					rig.store.DeleteGateway(e) // refused: not registered
				}
				leanReqs = append(leanReqs, "gw.unreg "+hx.H(eui))
				impl = append(impl, "ok")
				ops = append(ops, gwOp{Op: "delete", Lean: leanReqs[len(leanReqs)-1]})
			case op < 9: // datagram
				ver := byte(r.Intn(4))
				tok := uint16(r.Intn(65536))
				if r.Intn(6) == 0 {
					tok = []uint16{0, 0, 1, 0xffff, 0x00ff, 0xff00}[r.Intn(6)] // boundary tokens (0x0000 is a token like any other)
				}
				if d := tok - rig.barrier; d <= 8 {
					tok += 1000 // the acknowledgement carries only the token: keep clear of the barrier's tokens
				}
				id := []byte{0, 0, 0, 0, 2, 2, 5, 1, 3, 4, byte(r.Intn(256))}[r.Intn(11)]
				if isForced {
					id = 0
					c.res.Count("push-after-strict-registration")
				}
				d := []byte{ver, byte(tok >> 8), byte(tok), id}
				rx := "empty"
				if id == 0 || id == 2 {
					d = append(d, eui...)
				}
				if id == 0 {
					n := []int{0, 1, 1, 2, 3, 5}[r.Intn(6)]
					entries := make([]rxEntry, n)
					for i := range entries {
						entries[i] = rxEntry{Valid: r.Intn(12) != 0, Tmst: r.Uint32(), Chan: uint8(r.Intn(256)), Rfch: uint8(r.Intn(2)),
							Datr: datrs[r.Intn(len(datrs))], Rssi: int32(r.Intn(200) - 150), Lsnr: float32(r.Intn(120)-40) / 4, Raw: r.Bytes(r.Intn(60))}
						if r.Intn(3) == 0 {
							entries[i].Tmst = clocks[r.Intn(len(clocks))]
						}
						if r.Intn(2) == 0 {
							entries[i].Chan = uint8(r.Intn(9))
						}
					}
					parts, mparts := []string{}, []string{}
					for _, en := range entries {
						parts = append(parts, en.jsonText())
						mparts = append(mparts, en.modelText())
					}
					js := `{"rxpk":[` + strings.Join(parts, ",") + `]}`
					if n > 0 {
						rx = strings.Join(mparts, ";")
					}
					variant := r.Intn(14)
					if bare {
						variant = 3
					} else if isForced {
						variant = 13
					}
					if variant > 3 && n > 0 && r.Intn(3) == 0 {
						// after a datagram that carried frames: a header-only PUSH_DATA of some gateway from some
						// socket (nothing of the earlier datagram may be delivered again, under either identity)
						forced = append(forced, forcedPush{euis[r.Intn(len(euis))], r.Intn(len(rig.socks)), true})
					}
					switch variant {
					case 0:
						js = js[:len(js)/2] // truncated JSON
						rx = "nojson"
					case 1:
						js = `{"rxpk":[{"tmst":4294967296,"chan":1,"data":"AAAA"}]}` // numeric overflow
						rx = "nojson"
					case 2:
						js = `{"stat":{"time":"2014-01-12 08:59:28 GMT","rxnb":2}}`
						rx = "empty"
					case 3:
						js = ""
						rx = "nojson"
					}
					d = append(d, js...)
				}
				if id != 0 && id != 2 && r.Intn(2) == 0 {
					d = append(d, r.Bytes(r.Intn(20))...)
				}
				if !isForced && r.Intn(15) == 0 && len(d) > 0 {
					d = d[:r.Intn(len(d))] // short header / short packet
					if id == 0 {
						rx = "nojson" // whatever JSON is left is cut in the middle
					}
				}
				fault := id == 0 && !isForced && r.Intn(8) == 0
				if fault {
					// the registry lookup of this datagram fails (storage error other than "not found")
					storage.VerifGate = func(op, key string) error {
						if op == "GetGateway" {
							return errors.New("injected: database is locked")
						}
						return nil
					}
				}
				if id == 2 && len(d) >= 12 {
					pulled[string(eui)] = sock
				}
				c.inflight("gw", append(append([]gwOp{}, ops...), gwOp{Op: "datagram in flight", Lean: fmt.Sprintf("gw.dgram %s %d %s %s", rig.sockHost(sock), rig.sockPort(sock), hx.H(d), rx)}))
				rig.send(sock, d)
				acks, ok := rig.sync(sock, 5*time.Second)
				storage.VerifGate = nil
				if !ok {
					c.res.Add(hx.Finding{Kind: "propfail", Engine: "gw", Signature: "forwarder-stopped", Case: ops, Impl: "no barrier ack within 3 s after " + hx.H(d),
						Note: "C11/C15: the forwarder stopped answering"})
					rig.close()
					stopped++
					goto nextSeq
				}
				at := []string{}
				for _, a := range acks {
					if len(a) >= 4 {
						at = append(at, fmt.Sprintf("%s:%d:%d:%d:%d", rig.sockHost(sock), rig.sockPort(sock), a[3], int(a[1])<<8|int(a[2]), a[0]))
					} else {
						at = append(at, "short:"+hx.H(a))
					}
				}
				ft := []string{}
				for _, p := range rig.takeForwarded() {
					ft = append(ft, fwdText(p))
				}
				lt := func(x []string) string {
					if len(x) == 0 {
						return "-"
					}
					return strings.Join(x, ",")
				}
				opn := "gw.dgram"
				note := ""
				if fault {
					opn, note = "gw.dgramfault", "the registry lookup fails with a storage error"
				}
				leanReqs = append(leanReqs, fmt.Sprintf("%s %s %d %s %s", opn, rig.sockHost(sock), rig.sockPort(sock), hx.H(d), rx))
				impl = append(impl, fmt.Sprintf("sent=%s fwd=%s", lt(at), lt(ft)))
				ops = append(ops, gwOp{Op: "datagram id=" + fmt.Sprint(id), Lean: leanReqs[len(leanReqs)-1], Note: note})
				if fault {
					c.res.Count("lookup-fault")
				}
				if strings.Contains(rig.sockHost(sock), ":") {
					c.res.Count("ipv6-sender")
				}
			default: // downlink
				clock := r.Uint32()
				if r.Intn(2) == 0 {
					clock = clocks[r.Intn(len(clocks))]
				}
				delay := uint8([]int{1, 5, 1, 5, 0, 2, 255}[r.Intn(7)])
				if r.Intn(3) == 0 {
					// transmission time exactly at the wrap of the gateway's 32-bit microsecond clock
					delay = uint8([]int{1, 5, 2}[r.Intn(3)])
					clock = uint32(1<<32 - 1000000*int64(delay))
				}
				ch := r.Intn(9)
				raw := r.Bytes(1 + r.Intn(60))
				datr := datrs[r.Intn(len(datrs))]
				host := rig.sockHost(r.Intn(len(rig.socks)))
				if len(pulled) > 0 && r.Intn(4) != 0 {
					// a gateway that keeps a PULL_DATA path open, addressed at the host it pulls from
					ks := make([]string, 0, len(pulled))
					for k := range pulled {
						ks = append(ks, k)
					}
					sort.Strings(ks)
					k := ks[r.Intn(len(ks))]
					eui = []byte(k)
					copy(e.Octets[:], eui)
					host = rig.sockHost(pulled[k])
				}
				ver := uint8(r.Intn(4))
				freq := []float32{868.1, 868.3, 868.5, 867.1, 867.3, 867.5, 867.7, 867.9, 868.1}[ch]
				c.inflight("gw", append(append([]gwOp{}, ops...), gwOp{Op: "downlink in flight", Lean: fmt.Sprintf("gw.down %s %s %d %d %d %s %s %s", hx.H(eui), host, clock, delay, ver, f32(freq), datr, hx.H(raw))}))
				rig.fwd.Input() <- server.GatewayPacket{RawMessage: raw,
					Radio:      server.RadioContext{Frequency: freq, DataRate: datr, RX1Delay: delay, Band: defBand, Channel: uint8(ch)},
					Gateway:    server.GatewayContext{GatewayEUI: e, GatewayHost: host, GatewayClock: clock, ProtocolVersion: ver},
					ReceivedAt: time.Now(), Deadline: 1}
				got := "none"
				for si := range rig.socks {
					dg, ok := rig.sync(si, 5*time.Second)
					if !ok {
						c.res.Add(hx.Finding{Kind: "propfail", Engine: "gw", Signature: "forwarder-stopped", Case: ops, Impl: "no barrier ack after a downlink"})
						rig.close()
						stopped++
						goto nextSeq
					}
					for _, x := range dg {
						t := pullRespText(x, rig.sockHost(si), rig.sockPort(si))
						if got == "none" {
							got = t
						} else {
							got += " AND " + t
						}
					}
				}
				leanReqs = append(leanReqs, fmt.Sprintf("gw.down %s %s %d %d %d %s %s %s", hx.H(eui), host, clock, delay, ver, f32(freq), datr, hx.H(raw)))
				impl = append(impl, got)
				ops = append(ops, gwOp{Op: "downlink", Lean: leanReqs[len(leanReqs)-1]})
			}
		}
		{
			ans, err := c.lean.Ask(leanReqs)
			if err != nil {
				return err
			}
			for i := range leanReqs {
				c.res.Eval()
				op := strings.Fields(leanReqs[i])[0]
				c.res.Count("op=" + ops[i].Op)
				m := ans[i]
				if op == "gw.down" {
					// the model's port may be one no socket of ours owns (0 = never pulled): then nothing may arrive
					kv := hx.KV(m)
					mine := false
					for si := range rig.socks {
						if kv["to"] == fmt.Sprintf("%s:%d", rig.sockHost(si), rig.sockPort(si)) {
							mine = true
						}
					}
					if !mine {
						m = "none"
					}
				}
				c.res.Class(fmt.Sprintf("%s off=%v %s", ops[i].Op, checksOff, classOfGw(impl[i])))
				if impl[i] != m {
					sig := "gw-step"
					if op == "gw.down" {
						sig = "gw-downlink"
					}
					c.res.Add(hx.Finding{Kind: "mismatch", Engine: "gw", Signature: sig, Case: ops[:i+1], Impl: impl[i], Model: m})
					// the model is proved against the property statements (C15/C16/C17); a deviation
					// of the real forwarder from it in what it sends or forwards is a violation
					c.res.Add(hx.Finding{Kind: "propfail", Engine: "gw", Signature: sig + "-oracle", Case: ops[:i+1], Impl: impl[i], Spec: m,
						Note: "the forwarder's acknowledgements / forwarded packets / PULL_RESP differ from the protocol model"})
					break
				}
			}
			if seq%17 == 0 {
				c.res.Sample(ops)
			}
		}
		rig.close()
	nextSeq:
	}
	c.res.Rule = "sequences of 10..23 operations against a real GenericPacketForwarder on loopback UDP (6 client sockets on 127.0.0.1-4, 2 on ::1): register/update/delete gateways (strict or not, IPv4 and IPv6 addresses; registry calls the store must refuse; after every strict registration a PUSH_DATA for that gateway from an IPv4 and an IPv6 socket), PUSH_DATA with 0..5 rxpk entries (valid/invalid base64, boundary clocks, all channels), PULL_DATA, TX_ACK, server-bound ids, unknown ids, short packets, truncated/overflowing/foreign JSON, downlinks (boundary clocks, delays 0/1/2/5/255); both settings of DisableGatewayChecks; a class is (operation, switch, shape of the answer)"
	return nil
}

func classOfGw(s string) string {
	if strings.HasPrefix(s, "sent=") {
		kv := hx.KV(s)
		n := 0
		if kv["fwd"] != "-" {
			n = strings.Count(kv["fwd"], ",") + 1
		}
		a := "noack"
		if kv["sent"] != "-" {
			a = "ack"
		}
		return fmt.Sprintf("%s fwd=%d", a, n)
	}
	if strings.HasPrefix(s, "to=") {
		return "pullresp"
	}
	return s
}

// pullRespText renders a datagram received on (host, port) the way the Lean driver renders `emit`.
func pullRespText(d []byte, host string, port int) string {
	if len(d) < 4 {
		return "short:" + hx.H(d)
	}
	if d[3] != 3 {
		return fmt.Sprintf("unexpected id=%d", d[3])
	}
	dec := json.NewDecoder(bytes.NewReader(d[4:]))
	dec.UseNumber()
	var doc map[string]map[string]interface{}
	if err := dec.Decode(&doc); err != nil {
		return "badjson:" + string(d[4:])
	}
	t := doc["txpk"]
	get := func(k string) string {
		v, ok := t[k]
		if !ok {
			return "absent"
		}
		switch x := v.(type) {
		case bool:
			return b01(x)
		case json.Number:
			return x.String()
		case string:
			return x
		}
		return fmt.Sprint(v)
	}
	raw, err := base64.StdEncoding.DecodeString(get("data"))
	data := hx.H(raw)
	if err != nil {
		data = "badbase64"
	}
	freq := get("freq")
	if f, err := strconv.ParseFloat(freq, 32); err == nil {
		freq = f32(float32(f))
	}
	return fmt.Sprintf("to=%s:%d id=%d ver=%d tmst=%s freq=%s rfch=%s modu=%s datr=%s codr=%s ipol=%s size=%s data=%s imme=%s",
		host, port, d[3], d[0], get("tmst"), freq, get("rfch"), get("modu"), get("datr"), get("codr"), get("ipol"), get("size"), data, get("imme"))
}

// ---- header codec (C15 codec inverse, C11 for datagrams)

func gwPktText(p *gateway.GwPacket, err error) string {
	if err != nil {
		if strings.Contains(err.Error(), "too short") {
			return "err:truncated"
		}
		return "err:other"
	}
	return fmt.Sprintf("ok ver=%d tok=%d id=%d eui=%s json=%s", p.ProtocolVersion, p.Token, p.Identifier, hx.H(p.GatewayEUI.Octets[:]), hx.H([]byte(p.JSONString)))
}

func runGwCodec(c *ctx) error {
	quietLogs()
	r := c.rng
	var reqs []string
	var impl []string
	n := c.pick(30000, 600000)
	for i := 0; i < n; i++ {
		if r.Intn(2) == 0 {
			// decode direction
			ln := []int{0, 1, 2, 3, 4, 5, 11, 12, 13, r.Intn(40), r.Intn(300)}[r.Intn(11)]
			d := r.Bytes(ln)
			if ln > 3 && r.Intn(4) != 0 {
				d[3] = byte(r.Intn(7))
			}
			out := "panic"
			func() {
				defer func() { recover() }()
				var p gateway.GwPacket
				err := p.UnmarshalBinary(d)
				out = gwPktText(&p, err)
				if err == nil {
					b, e2 := p.MarshalBinary()
					if e2 != nil {
						out += " back=err"
					} else {
						out += " back=" + hx.H(b)
					}
				} else {
					out += " back=na"
				}
			}()
			reqs = append(reqs, "gw.codec "+hx.H(d))
			impl = append(impl, out)
		} else {
			// encode direction
			id := []int{0, 1, 2, 3, 4, 5, 99, r.Intn(300)}[r.Intn(8)]
			ver, tok := r.Intn(256), r.Intn(65536)
			eui := r.Bytes(8)
			js := r.Bytes([]int{0, 0, 1, 10, r.Intn(200)}[r.Intn(5)])
			for k := range js {
				js[k] = byte(32 + int(js[k])%90) // printable: JSONString is a Go string
			}
			p := gateway.GwPacket{ProtocolVersion: uint8(ver), Token: uint16(tok), Identifier: id, JSONString: string(js)}
			copy(p.GatewayEUI.Octets[:], eui)
			out := "panic"
			func() {
				defer func() { recover() }()
				b, err := p.MarshalBinary()
				if err != nil {
					out = "err:other"
					return
				}
				var q gateway.GwPacket
				e2 := q.UnmarshalBinary(b)
				out = "ok " + hx.H(b) + " rt=" + gwPktText(&q, e2)
			}()
			reqs = append(reqs, fmt.Sprintf("gw.marsh %d %d %d %s %s", ver, tok, id, hx.H(eui), hx.H(js)))
			impl = append(impl, out)
		}
	}
	ans, err := c.lean.Ask(reqs)
	if err != nil {
		return err
	}
	for i := range reqs {
		c.res.Eval()
		f := strings.Fields(reqs[i])
		c.res.Count(f[0])
		c.res.Class(f[0] + " " + strings.Fields(impl[i])[0] + " " + func() string {
			kv := hx.KV(impl[i])
			return "id=" + kv["id"]
		}())
		if i%3001 == 0 {
			c.res.Sample(reqs[i])
		}
		if impl[i] != ans[i] {
			c.res.Add(hx.Finding{Kind: "mismatch", Engine: "gwcodec", Signature: "gw-codec", Case: reqs[i], Impl: impl[i], Model: ans[i]})
		}
		if strings.HasPrefix(impl[i], "panic") {
			c.res.Add(hx.Finding{Kind: "propfail", Engine: "gwcodec", Signature: "gw-codec-panic", Case: reqs[i], Impl: impl[i], Note: "C11: datagram decoder panicked"})
		}
		// inverse laws, directly on the implementation
		if f[0] == "gw.codec" && strings.HasPrefix(impl[i], "ok ") {
			kv := hx.KV(impl[i])
			orig := hx.UnH(f[1])
			want := canonDatagram(orig)
			if kv["back"] != hx.H(want) {
				c.res.Add(hx.Finding{Kind: "propfail", Engine: "gwcodec", Signature: "gw-codec-inverse", Case: reqs[i], Impl: impl[i], Spec: hx.H(want),
					Note: "C15: marshal(unmarshal(d)) is not d (restricted to the bytes its type carries)"})
			}
		}
	}
	_ = binary.BigEndian
	c.res.Rule = "random datagrams of length 0..300 with every identifier (decode, then re-encode) and random packets of all six types plus unknown identifiers (encode, then decode); a class is (direction, outcome, identifier)"
	return nil
}

// canonDatagram: the bytes of a datagram that its packet type carries (acks: 4, PULL_DATA: 12).
func canonDatagram(d []byte) []byte {
	switch d[3] {
	case 1, 4:
		return d[:4]
	case 2:
		return d[:12]
	}
	return d
}
