package main

import (
	crand "crypto/rand"
	"fmt"
	"strings"

	"github.com/lab5e/lospan/pkg/band"
	"github.com/lab5e/lospan/pkg/protocol"

	"lospanverif/internal/hx"
)

var theBand band.FrequencyPlan

func defaultBand() band.FrequencyPlan {
	if theBand == nil {
		theBand, _ = band.NewBand(band.EU868Band)
	}
	return theBand
}

var storageOps = map[string]bool{"GetDeviceByDevAddr": true, "GetDeviceByEUI": true, "UpdateDeviceState": true, "AdvanceFCntUp": true, "NextFCntDn": true, "CreateUpstreamMessage": true,
	"GetApplicationByEUI": true, "UpdateMessageAckTime": true, "ResetActiveAcks": true, "GetNextUnsentMessage": true, "SetMessageSentTime": true,
	"AddDevNonce": true, "UpdateDevice": true}

// fixedReader replaces crypto/rand.Reader so that the AppNonce a join handler draws is known.
type fixedReader struct{ next []byte }

func (f *fixedReader) Read(p []byte) (int, error) {
	for i := range p {
		if len(f.next) > 0 {
			p[i] = f.next[0]
			f.next = f.next[1:]
		} else {
			p[i] = 0xA7
		}
	}
	return len(p), nil
}

// ---- C10: crash and single failed write at every gate position

func ctlFaults(c *ctx, file func() string) error {
	r := c.rng
	for _, scen := range []string{"uplink", "join"} {
		// find the number of gate positions with a dry run
		positions := 0
		for pos := -1; pos < 40; pos++ {
			for _, variant := range []string{"crash", "fail", "fail/unconfirmed-first-message"} {
				mode := strings.Split(variant, "/")[0]
				if pos == -1 && mode == "fail" {
					continue
				}
				if variant != mode && scen != "uplink" {
					continue
				}
				if pos >= 0 && pos >= positions {
					continue
				}
				c.res.Eval()
				h, err := newCtlRun(c, file(), 0x13, false)
				if err != nil {
					return err
				}
				rd := &fixedReader{}
				old := crand.Reader
				crand.Reader = rd
				var d *simDev
				var frame, next, m1, m2 []byte
				nextConfirmed, m1Ack := true, true
				an := []byte{1, 2, 3}
				if scen == "uplink" {
					d = h.abpDevice(false)
					if err := h.addDevice(d, 5, 9); err != nil {
						return err
					}
					m1, m2 = append([]byte{0x71}, r.Bytes(10)...), append([]byte{0x72}, r.Bytes(4)...)
					m1Ack = variant == mode
					h.submit(d, 42, m1, m1Ack)
					h.submit(d, 43, m2, pos%4 == 0)
					frame, err = h.uplinkFrame(d, 5, true, false, []byte{0xaa, byte(pos + 1), 1})
					if err != nil {
						return err
					}
					nextConfirmed = pos%2 == 0
					next, err = h.uplinkFrame(d, 6, nextConfirmed, false, []byte{0xbb, byte(pos + 1), 2})
					if err != nil {
						return err
					}
				} else {
					d = &simDev{app: h.app, otaa: true, nonces: map[uint16]bool{}, addr: 0x01aabbcc}
					copy(d.eui.Octets[:], r.Bytes(8))
					copy(d.appKey.Key[:], r.Bytes(16))
					if err := h.addDevice(d, 0, 0); err != nil {
						return err
					}
					fr, err := ask1(c, fmt.Sprintf("join.tx appkey=%s app=%s dev=%s nonce=1234", hx.H(d.appKey.Key[:]), hx.H(wire(d.app)), hx.H(wire(d.eui))))
					if err != nil {
						return err
					}
					frame = hx.UnH(strings.TrimPrefix(fr, "frame="))
					fr, err = ask1(c, fmt.Sprintf("join.tx appkey=%s app=%s dev=%s nonce=5678", hx.H(d.appKey.Key[:]), hx.H(wire(d.app)), hx.H(wire(d.eui))))
					if err != nil {
						return err
					}
					next = hx.UnH(strings.TrimPrefix(fr, "frame="))
				}
				h.g.mu.Lock()
				h.g.enabled = true
				h.g.mu.Unlock()
				rd.next = append([]byte{}, an...)
				if err := h.inject(scen+" frame", frame, an, d.addr); err != nil {
					return err
				}
				// walk to the chosen position in arrival order
				k := 0
				var opAt string
				for !h.failed {
					p := h.g.parked()
					if len(p) == 0 {
						break
					}
					if k == pos {
						opAt = p[0].op
						if mode == "crash" {
							if err := h.crash(); err != nil {
								return err
							}
						} else {
							if !storageOps[p[0].op] {
								opAt = "" // nothing to fail at an output-buffer operation
								if err := h.stepArrival(p[0], false); err != nil {
									return err
								}
							} else if err := h.stepArrival(p[0], true); err != nil {
								return err
							}
						}
						k++
						if mode == "crash" {
							break
						}
						continue
					}
					if err := h.stepArrival(p[0], false); err != nil {
						return err
					}
					k++
				}
				if pos == -1 {
					positions = k
				}
				if mode == "crash" || pos == -1 {
					// nothing parked after a crash; a completed run is quiescent
				} else if err := h.drain(); err != nil {
					return err
				}
				st1, err := h.compare(fmt.Sprintf("%s at position %d (%s)", mode, pos, opAt))
				if err != nil {
					return err
				}
				var allEmitted []string
				allEmitted = append(allEmitted, stateSections(st1)["emitted"])
				// redelivery of the same frame, then the next one
				for i, fr := range [][]byte{frame, next} {
					if h.failed {
						break
					}
					an2 := []byte{byte(9 + i), 8, 7}
					rd.next = append([]byte{}, an2...)
					if err := h.inject(fmt.Sprintf("redelivery %d", i), fr, an2, d.addr); err != nil {
						return err
					}
					if err := h.drain(); err != nil {
						return err
					}
					st, err := h.compare(fmt.Sprintf("redelivery %d after %s at %d", i, mode, pos))
					if err != nil {
						return err
					}
					allEmitted = append(allEmitted, stateSections(st)["emitted"])
					st1 = st
				}
				// ---- oracles after recovery
				if !h.failed && scen == "uplink" {
					full, _ := h.rig.stateText(h.euis)
					if dups := inboxDuplicates(full, d.eui); len(dups) > 0 {
						h.fail("propfail", "recorded-twice-after-"+mode, fmt.Sprintf("C10: after a %s at %s the uplink payload %v of a strict device is recorded twice", mode, opAt, dups), full, "")
					}
					seen := map[int]string{}
					last, acks, sentM1 := -1, 0, false
					for _, em := range allEmitted {
						ds, err := h.decodeDowns(d, em)
						if err != nil {
							return err
						}
						for _, x := range ds {
							if prev, dup := seen[x.fcnt]; dup {
								h.fail("propfail", "downlink-fcnt-reused-after-"+mode, fmt.Sprintf("C10: after a %s at %s the downlink counter %d is used for two different frames", mode, opAt, x.fcnt), x.raw, prev)
							}
							seen[x.fcnt] = x.raw
							// the counter of every frame comes from the store (it stood at 9) and grows
							if (c.prop == "C07" || c.prop == "C10") && !h.failed && (x.fcnt < 9 || x.fcnt <= last) {
								h.fail("propfail", "downlink-fcnt-not-from-store", fmt.Sprintf("%s: after a %s at %s a downlink carries counter %d although the stored counter stood at 9 and the previous frame carried %d", c.prop, mode, opAt, x.fcnt, last), x.raw, "a counter handed out by the store, above the previous one")
							}
							last = x.fcnt
							if x.ack {
								acks++
							}
							// oldest first: nothing of the second message before the first one has been transmitted
							if x.plain == hx.H(m1) {
								sentM1 = true
							}
							// (an unconfirmed first message that was marked sent and then lost with a crash or a late
							// failure is not re-queued: the order is judged when the first message requests
							// acknowledgement, or when the failure hit the handler before it picks a message)
							early := mode == "fail" && (opAt == "AdvanceFCntUp" || opAt == "CreateUpstreamMessage" || opAt == "GetApplicationByEUI" || opAt == "GetDeviceByDevAddr")
							if c.prop == "C06" && !h.failed && x.plain == hx.H(m2) && !sentM1 && (m1Ack || early) {
								h.fail("propfail", "queue-order-after-"+mode, fmt.Sprintf("C06: after a %s at %s the second queued message is transmitted although the first (older) one never was", mode, opAt), x.raw, "the message queued first")
							}
						}
					}
					// acknowledgements never outnumber the confirmed uplinks that were accepted (recorded)
					if c.prop == "C09" && !h.failed {
						owed := 0
						for _, row := range inboxData(full, d.eui) {
							if strings.HasPrefix(row, "aa") || (nextConfirmed && strings.HasPrefix(row, "bb")) {
								owed++
							}
						}
						if acks > owed {
							h.fail("propfail", "ack-not-owed-after-"+mode, fmt.Sprintf("C09: after a %s at %s %d downlinks carry the ACK flag but only %d confirmed uplinks were accepted and recorded", mode, opAt, acks, owed), fmt.Sprint(acks), fmt.Sprint(owed))
						}
					}
				}
				if !h.failed && scen == "join" {
					// a nonce that led to a join-accept must not be honoured again
					jas := map[string]int{}
					for _, em := range allEmitted {
						for _, line := range strings.Split(em, ";") {
							f := strings.Fields(line)
							if len(f) > 1 && strings.HasPrefix(f[1], "20") {
								for _, nonce := range []string{"1234", "5678"} {
									a, err := ask1(c, fmt.Sprintf("join.rx appkey=%s nonce=%s raw=%s", hx.H(d.appKey.Key[:]), nonce, f[1]))
									if err != nil {
										return err
									}
									_ = a
								}
							}
						}
					}
					_ = jas
					// the first frame was delivered twice: at most one of the two deliveries may have produced a join-accept
					n1 := strings.Count(allEmitted[0], "E 20")
					n2 := 0
					if len(allEmitted) > 1 {
						n2 = strings.Count(allEmitted[1], "E 20")
					}
					if n1+n2 > 1 {
						h.fail("propfail", "nonce-honoured-again-after-"+mode, fmt.Sprintf("C10: DevNonce 0x1234 led to a join-accept before the %s at %s and was honoured again after recovery", mode, opAt), fmt.Sprintf("%d+%d join-accepts", n1, n2), "at most one")
					}
				}
				c.res.Class(fmt.Sprintf("fault %s %s pos=%d op=%s", scen, mode, pos, opAt))
				c.res.Count("scenario=fault-" + scen + "-" + mode)
				if pos%4 == 0 {
					c.res.Sample(h.trace[len(h.trace)-min(len(h.trace), 6):])
				}
				crand.Reader = old
				h.close()
			}
		}
	}
	return nil
}

// ---- C03 / C07 / C09: copies of one uplink, and an uplink against the previous encoder

func ctlRaces(c *ctx, file func() string) error {
	r := c.rng
	nsched := c.pick(24, 600)
	for s := 0; s < nsched; s++ {
		c.res.Eval()
		h, err := newCtlRun(c, file(), 0, false)
		if err != nil {
			return err
		}
		kind := []string{"two-copies", "three-copies", "uplink-vs-encoder", "old-counter-vs-encoder"}[s%4]
		// the last kind: a relaxed device whose key warning is already stored sends an old counter
		// while the downlink for its previous uplink is being encoded
		d := h.abpDevice(kind == "old-counter-vs-encoder")
		d.warn = kind == "old-counter-vs-encoder"
		if err := h.addDevice(d, 5, 0); err != nil {
			return err
		}
		confirmed := s%2 == 0
		if kind == "two-copies" || kind == "three-copies" {
			confirmed = (s/4)%3 != 2
		}
		f5, err := h.uplinkFrame(d, 5, confirmed, false, []byte{0x55, byte(s), 1})
		if err != nil {
			return err
		}
		f6, err := h.uplinkFrame(d, 6, true, false, []byte{0x66, byte(s), 2})
		if err != nil {
			return err
		}
		if kind == "old-counter-vs-encoder" {
			// the second frame carries a counter below the stored one (accepted: relaxed device)
			f6, err = h.uplinkFrame(d, 3, true, false, []byte{0x33, byte(s), 2})
			if err != nil {
				return err
			}
		}
		h.g.mu.Lock()
		h.g.enabled = true
		h.g.mu.Unlock()
		sched := []string{}
		pickStep := func() error {
			p := h.g.parked()
			a := p[r.Intn(len(p))]
			sched = append(sched, a.op)
			return h.stepArrival(a, false)
		}
		switch kind {
		case "two-copies", "three-copies":
			copies := 2
			if kind == "three-copies" {
				copies = 3
			}
			for i := 0; i < copies; i++ {
				if err := h.inject(fmt.Sprintf("copy %d of uplink 5", i), f5, nil, 0); err != nil {
					return err
				}
			}
			if (s/4)%2 == 0 {
				// the targeted schedule: the last copy's handler reads the device, then everything else
				// runs to completion (the answer is out), then the late copy goes on with its stale view
				if p := h.g.parked(); len(p) > 0 {
					late := p[len(p)-1]
					sched = append(sched, late.op+"(late copy)")
					if err := h.stepArrival(late, false); err != nil {
						return err
					}
					for i := 0; i < 200 && !h.failed; i++ {
						var next *arrival
						for _, a := range h.g.parked() {
							if a.gid != late.gid {
								next = a
								break
							}
						}
						if next == nil {
							break
						}
						sched = append(sched, next.op)
						if err := h.stepArrival(next, false); err != nil {
							return err
						}
					}
				}
			}
		default: // "uplink-vs-encoder", "old-counter-vs-encoder"
			// confirmed uplink 5 runs until its encoder stands before the counter operation
			f5c, err := h.uplinkFrame(d, 5, true, false, []byte{0x55, byte(s), 1})
			if err != nil {
				return err
			}
			f5 = f5c
			ackedEarly := false
			if kind == "uplink-vs-encoder" && (s/4)%3 == 2 {
				// a confirmed message is picked by uplink 5; uplink 6 carries the ACK flag and is handled
				// completely while the frame that would transmit the message is still being encoded: there
				// has been no transmission yet that this ACK could follow
				if err := h.submit(d, 10+s%200, []byte{0xc8, byte(s)}, true); err != nil {
					return err
				}
				f6, err = h.uplinkFrame(d, 6, true, true, []byte{0x66, byte(s), 2})
				if err != nil {
					return err
				}
				ackedEarly = true
				c.res.Count("scenario=ack-uplink-before-transmission")
			}
			if kind == "uplink-vs-encoder" && (s/4)%3 == 1 {
				// a queued message the API accepts but the frame encoder cannot encode (FPort above 223):
				// the encoder of uplink 5 gives up after it has fetched the counter
				if err := h.submit(d, 224+s%32, []byte{0xee, byte(s)}, s%8 < 4); err != nil {
					return err
				}
				c.res.Count("scenario=unencodable-downlink")
			}
			if err := h.inject("uplink 5", f5, nil, 0); err != nil {
				return err
			}
			for !h.failed {
				p := h.g.parked()
				if len(p) == 0 {
					break
				}
				lb, err := h.labels()
				if err != nil {
					return err
				}
				encoderAtWrite := false
				for _, l := range lb {
					_ = l
				}
				// the encoder's first gate: it is about to fetch the downlink counter
				if p[0].op == "NextFCntDn" {
					encoderAtWrite = true
				}
				if encoderAtWrite {
					break
				}
				sched = append(sched, p[0].op)
				if err := h.stepArrival(p[0], false); err != nil {
					return err
				}
			}
			var held *arrival
			if p := h.g.parked(); len(p) == 1 {
				held = p[0]
			}
			if err := h.inject("uplink 6", f6, nil, 0); err != nil {
				return err
			}
			if kind == "old-counter-vs-encoder" && held != nil && s%8 < 4 {
				// the second handler reads the device, then the first encoder fetches its counter
				for _, a := range h.g.parked() {
					if a != held {
						sched = append(sched, a.op)
						if err := h.stepArrival(a, false); err != nil {
							return err
						}
						break
					}
				}
				for i := 0; i < 3 && !h.failed; i++ {
					var enc *arrival
					for _, a := range h.g.parked() {
						if a.gid == held.gid {
							enc = a
						}
					}
					if enc == nil {
						break
					}
					sched = append(sched, enc.op)
					if err := h.stepArrival(enc, false); err != nil {
						return err
					}
				}
			} else if (s%2 == 0 || ackedEarly) && held != nil {
				// the targeted schedule: uplink 6 runs to completion while the encoder of uplink 5 waits
				for i := 0; i < 100 && !h.failed; i++ {
					var next *arrival
					for _, a := range h.g.parked() {
						if a != held {
							next = a
							break
						}
					}
					if next == nil {
						break
					}
					sched = append(sched, next.op)
					if err := h.stepArrival(next, false); err != nil {
						return err
					}
				}
				stillHeld := false
				for _, a := range h.g.parked() {
					if a == held {
						stillHeld = true
					}
				}
				if ackedEarly && !h.failed && c.prop == "C08" && stillHeld {
					// the encoder that will transmit the message for the first time has not moved
					if ms, err := h.rig.st.ListDownstreamMessages(d.eui); err == nil {
						for _, m := range ms {
							if m.Ack && m.AckTime > 0 {
								h.c.res.Add(hx.Finding{Kind: "propfail", Engine: "pipectl", Signature: "acked-before-transmission", Case: append([]pipeEvent{}, h.trace...),
									Impl: fmt.Sprintf("message created=%d: sent=%d acked=%d fcnt_up=%d, the encoder of its first transmission still stands before its counter operation", m.CreatedTime, m.SentTime, m.AckTime, m.FCntUp), Spec: "not acknowledged",
									Note: "C08: a confirmed message is reported acknowledged although no transmission of it has left the server yet (the ACK uplink was handled while its first frame was still being encoded), schedule " + strings.Join(sched, ",")})
								h.failed = true
							}
						}
					}
				}
			}
		}
		if (kind == "two-copies" || kind == "three-copies") && (s/4)%2 == 1 {
			// the counter write of one copy fails once (a busy database) while the other copies are in
			// flight: that copy must stop - whatever the others do meanwhile, it was not accepted
			for i := 0; i < 60 && !h.failed; i++ {
				var adv *arrival
				for _, a := range h.g.parked() {
					if a.op == "AdvanceFCntUp" {
						adv = a
						break
					}
				}
				if adv != nil {
					sched = append(sched, "AdvanceFCntUp(fails)")
					if err := h.stepArrival(adv, true); err != nil {
						return err
					}
					c.res.Count("scenario=copies-with-failed-counter-write")
					// the other copies go first: whatever the failed handler still does comes after them
					for j := 0; j < 200 && !h.failed; j++ {
						var next *arrival
						for _, a := range h.g.parked() {
							if a.gid != adv.gid {
								next = a
								break
							}
						}
						if next == nil {
							break
						}
						sched = append(sched, next.op)
						if err := h.stepArrival(next, false); err != nil {
							return err
						}
					}
					break
				}
				if len(h.g.parked()) == 0 {
					break
				}
				if err := pickStep(); err != nil {
					return err
				}
			}
		}
		for i := 0; i < 300 && !h.failed && len(h.g.parked()) > 0; i++ {
			if err := pickStep(); err != nil {
				return err
			}
		}
		st, err := h.compare(kind + " quiescent")
		if err != nil {
			return err
		}
		emitted := []string{stateSections(st)["emitted"]}
		if kind == "uplink-vs-encoder" && !h.failed {
			// replay of uplink 6 after everything settled
			if err := h.inject("replay of uplink 6", f6, nil, 0); err != nil {
				return err
			}
			if err := h.drain(); err != nil {
				return err
			}
			st2, err := h.compare("replay of uplink 6")
			if err != nil {
				return err
			}
			emitted = append(emitted, stateSections(st2)["emitted"])
		}
		followUp := ""
		if (kind == "two-copies" || kind == "three-copies") && !h.failed {
			// afterwards: an unconfirmed uplink with nothing queued. Nothing is owed to it - not a frame,
			// and certainly not an acknowledgement left over from a copy that was not accepted
			f6u, err := h.uplinkFrame(d, 6, false, false, []byte{0x66, byte(s), 3})
			if err != nil {
				return err
			}
			if err := h.inject("unconfirmed uplink 6, nothing queued", f6u, nil, 0); err != nil {
				return err
			}
			if err := h.drain(); err != nil {
				return err
			}
			st2, err := h.compare("unconfirmed uplink 6 after the copies")
			if err != nil {
				return err
			}
			followUp = stateSections(st2)["emitted"]
			emitted = append(emitted, followUp)
		}
		// ---- oracles (the races these schedules used to expose are fixed: see known_findings.json)
		if !h.failed {
			if followUp != "" && c.prop == "C09" {
				if ds, err := h.decodeDowns(d, followUp); err == nil && len(ds) > 0 {
					h.c.res.Add(hx.Finding{Kind: "propfail", Engine: "pipectl", Signature: "unconfirmed-uplink-answered-nothing-pending", Case: append([]pipeEvent{}, h.trace...), Impl: ds[0].raw, Spec: "no downlink",
						Note: fmt.Sprintf("C09: an unconfirmed uplink with nothing queued was answered (ACK flag %v) after copies of the previous uplink were handled under schedule %s", ds[0].ack, strings.Join(sched, ","))})
				}
			}
			full, _ := h.rig.stateText(h.euis)
			if dups := inboxDuplicates(full, d.eui); len(dups) > 0 && (c.prop == "C03" || c.prop == "C10") && !d.relaxed {
				sig := "concurrent-copies-recorded-twice"
				if kind == "uplink-vs-encoder" {
					sig = "encoder-rewinds-uplink-counter"
				}
				h.c.res.Add(hx.Finding{Kind: "propfail", Engine: "pipectl", Signature: sig, Case: append([]pipeEvent{}, h.trace...), Impl: fmt.Sprint(dups),
					Note: c.prop + ": a frame of a strict-counter device is recorded twice under schedule " + strings.Join(sched, ",")})
			}
			seen := map[int]string{}
			acks := 0
			for _, em := range emitted {
				ds, err := h.decodeDowns(d, em)
				if err != nil {
					return err
				}
				for _, x := range ds {
					if x.ack {
						acks++
					}
					if prev, dup := seen[x.fcnt]; dup && c.prop == "C07" {
						h.c.res.Add(hx.Finding{Kind: "propfail", Engine: "pipectl", Signature: "concurrent-downlink-fcnt-reused", Case: append([]pipeEvent{}, h.trace...), Impl: x.raw, Spec: prev,
							Note: fmt.Sprintf("C07: downlink counter %d used for two different frames under schedule %s", x.fcnt, strings.Join(sched, ","))})
					}
					seen[x.fcnt] = x.raw
				}
			}
			if (kind == "two-copies" || kind == "three-copies") && !confirmed && acks > 0 && c.prop == "C09" {
				h.c.res.Add(hx.Finding{Kind: "propfail", Engine: "pipectl", Signature: "ack-not-owed", Case: append([]pipeEvent{}, h.trace...), Impl: fmt.Sprintf("%d ACK downlinks", acks),
					Note: "C09: an ACK downlink although no confirmed uplink was accepted, under schedule " + strings.Join(sched, ",")})
			}
			if (kind == "two-copies" || kind == "three-copies") && confirmed && acks > 1 && c.prop == "C09" {
				h.c.res.Add(hx.Finding{Kind: "propfail", Engine: "pipectl", Signature: "concurrent-copies-two-answers", Case: append([]pipeEvent{}, h.trace...), Impl: fmt.Sprintf("%d ACK downlinks", acks),
					Note: "C09: copies of one confirmed uplink of a strict device are answered more than once under schedule " + strings.Join(sched, ",")})
			}
			if (kind == "two-copies" || kind == "three-copies") && confirmed && acks == 0 && c.prop == "C09" {
				h.fail("propfail", "confirmed-uplink-unanswered", "C09: a confirmed uplink (copies delivered concurrently) got no ACK downlink under schedule "+strings.Join(sched, ","), "0 ACK downlinks", "1")
			}
		}
		c.res.Class(fmt.Sprintf("race %s conf=%v steps=%d", kind, confirmed, h.steps/4))
		c.res.Count("scenario=race-" + kind)
		if s%7 == 0 {
			c.res.Sample(sched)
		}
		h.close()
	}
	return nil
}

// ---- C04 / C10: a device with a running session joins again and the join handler is hit by a crash or
// a failed write at every position; then traffic of the old session arrives

func ctlRejoinFaults(c *ctx, file func() string) error {
	r := c.rng
	positions := 0
	for pos := -1; pos < 30; pos++ {
		for _, mode := range []string{"crash", "fail"} {
			if pos == -1 && mode == "fail" {
				continue
			}
			if pos >= 0 && pos >= positions {
				continue
			}
			c.res.Eval()
			h, err := newCtlRun(c, file(), 0x13, false)
			if err != nil {
				return err
			}
			rd := &fixedReader{}
			old := crand.Reader
			crand.Reader = rd
			restore := func() { crand.Reader = old }
			d := h.abpDevice(false)
			d.otaa = true
			d.addr &= 0x1ffffff
			copy(d.appKey.Key[:], r.Bytes(16))
			if err := h.addDevice(d, 5, 3); err != nil {
				restore()
				return err
			}
			oldNwk := hx.H(d.nwk.Key[:])
			u5, err := h.uplinkFrame(d, 5, true, false, []byte{0xa5, byte(pos + 1), 1})
			if err != nil {
				restore()
				return err
			}
			u6, err := h.uplinkFrame(d, 6, true, false, []byte{0xa6, byte(pos + 1), 2})
			if err != nil {
				restore()
				return err
			}
			fr, err := ask1(c, fmt.Sprintf("join.tx appkey=%s app=%s dev=%s nonce=2468", hx.H(d.appKey.Key[:]), hx.H(wire(d.app)), hx.H(wire(d.eui))))
			if err != nil {
				restore()
				return err
			}
			join := hx.UnH(strings.TrimPrefix(fr, "frame="))
			h.g.mu.Lock()
			h.g.enabled = true
			h.g.mu.Unlock()
			var allEmitted []string
			take := func(what string) error {
				st, err := h.compare(what)
				if err != nil {
					return err
				}
				if st != "" {
					allEmitted = append(allEmitted, stateSections(st)["emitted"])
				}
				return nil
			}
			// the session is in use: uplink 5 is accepted and answered
			if err := h.inject("uplink 5 of the running session", u5, nil, 0); err != nil {
				restore()
				return err
			}
			if err := h.drain(); err != nil {
				restore()
				return err
			}
			if err := take("uplink 5"); err != nil {
				restore()
				return err
			}
			// the join-request, hit at position pos
			an := []byte{7, 7, byte(pos + 1)}
			rd.next = append([]byte{}, an...)
			if err := h.inject("join-request of the device", join, an, d.addr); err != nil {
				restore()
				return err
			}
			k := 0
			opAt := ""
			for !h.failed {
				p := h.g.parked()
				if len(p) == 0 {
					break
				}
				if p[0].op == "AddDevNonce" {
					rd.next = append([]byte{}, an...)
				}
				if k == pos {
					opAt = p[0].op
					if mode == "crash" {
						if err := h.crash(); err != nil {
							restore()
							return err
						}
						k++
						break
					}
					fault := storageOps[p[0].op]
					if !fault {
						opAt = ""
					}
					if err := h.stepArrival(p[0], fault); err != nil {
						restore()
						return err
					}
					k++
					continue
				}
				if err := h.stepArrival(p[0], false); err != nil {
					restore()
					return err
				}
				k++
			}
			if pos == -1 {
				positions = k
			}
			if mode != "crash" {
				if err := h.drain(); err != nil {
					restore()
					return err
				}
			}
			if err := take(fmt.Sprintf("join with %s at position %d (%s)", mode, pos, opAt)); err != nil {
				restore()
				return err
			}
			// traffic of the old session: the frame already handled, then the next one
			for i, f := range [][]byte{u5, u6} {
				if h.failed {
					break
				}
				if err := h.inject(fmt.Sprintf("old-session uplink %d after the join attempt", 5+i), f, nil, 0); err != nil {
					restore()
					return err
				}
				if err := h.drain(); err != nil {
					restore()
					return err
				}
				if err := take(fmt.Sprintf("old-session uplink %d", 5+i)); err != nil {
					restore()
					return err
				}
			}
			restore()
			if !h.failed {
				full, _ := h.rig.stateText(h.euis)
				sd, err := h.rig.st.GetDeviceByEUI(d.eui)
				if err != nil {
					return err
				}
				sessionKept := hx.H(sd.NwkSKey.Key[:]) == oldNwk
				if dups := inboxDuplicates(full, d.eui); len(dups) > 0 && (c.prop == "C10" || c.prop == "C03") {
					h.fail("propfail", "recorded-twice-after-join-"+mode, fmt.Sprintf("%s: after a %s at %s of the join handler an uplink of the old session is recorded twice", c.prop, mode, opAt), fmt.Sprint(dups), "")
				}
				seen := map[int]string{}
				lastJA := ""
				for _, em := range allEmitted {
					ds, err := h.decodeDowns(d, em)
					if err != nil {
						return err
					}
					for _, x := range ds {
						if prev, dup := seen[x.fcnt]; dup && !h.failed && (c.prop == "C10" || c.prop == "C07") {
							h.fail("propfail", "downlink-fcnt-reused-after-join-"+mode, fmt.Sprintf("%s: after a %s at %s of the join handler the downlink counter %d is used twice under the old session keys", c.prop, mode, opAt, x.fcnt), x.raw, prev)
						}
						seen[x.fcnt] = x.raw
					}
					for _, line := range strings.Split(em, ";") {
						f := strings.Fields(line)
						if len(f) > 1 && strings.HasPrefix(f[1], "20") {
							lastJA = f[1]
						}
					}
				}
				if (c.prop == "C04" || c.prop == "C05") && !h.failed && lastJA != "" {
					if sessionKept {
						h.fail("propfail", "join-accept-without-session", fmt.Sprintf("C04: the join-request was not honoured (%s at %s: the stored session is the old one) and yet a join-accept was sent", mode, opAt), lastJA, "no join-accept")
					} else if a, err := ask1(c, fmt.Sprintf("join.rx appkey=%s nonce=2468 raw=%s", hx.H(d.appKey.Key[:]), lastJA)); err == nil {
						if kv := hx.KV(a); kv["nwk"] != hx.H(sd.NwkSKey.Key[:]) || kv["apps"] != hx.H(sd.AppSKey.Key[:]) {
							h.fail("propfail", "session-differs-from-join-accept", fmt.Sprintf("C04: after a %s at %s the stored session keys are not those the device derives from the join-accept it was sent", mode, opAt), hx.H(sd.NwkSKey.Key[:]), kv["nwk"])
						}
					}
				}
			}
			c.res.Class(fmt.Sprintf("rejoin %s pos=%d op=%s", mode, pos, opAt))
			c.res.Count("scenario=rejoin-" + mode)
			h.close()
		}
	}
	return nil
}

// ---- C17: a join-request of a device whose data uplink is still waiting for its receive window

// delayOracle: every frame handed to the gateway is timed by what it is - a join-accept five seconds
// after the uplink, a data frame one second.
func delayOracle(emitted string) (string, string) {
	for _, line := range strings.Split(emitted, ";") {
		f := strings.Fields(line)
		if len(f) < 4 || f[0] != "E" || len(f[1]) < 2 {
			continue
		}
		raw := hx.UnH(f[1])
		if len(raw) == 0 {
			continue
		}
		want := "delay=1"
		if raw[0]>>5 == 1 {
			want = "delay=5"
		}
		for _, x := range f[2:] {
			if strings.HasPrefix(x, "delay=") && x != want {
				return line, want
			}
		}
	}
	return "", ""
}

func ctlUplinkThenJoin(c *ctx, file func() string) error {
	r := c.rng
	nsched := c.pick(6, 120)
	for s := 0; s < nsched; s++ {
		c.res.Eval()
		h, err := newCtlRun(c, file(), 0x21, false)
		if err != nil {
			return err
		}
		rd := &fixedReader{}
		old := crand.Reader
		crand.Reader = rd
		restore := func() { crand.Reader = old }
		d := h.abpDevice(false)
		d.otaa = true
		d.addr &= 0x1ffffff
		copy(d.appKey.Key[:], r.Bytes(16))
		if err := h.addDevice(d, 5, uint16(r.Intn(9))); err != nil {
			restore()
			return err
		}
		confirmed := s%2 == 0
		if !confirmed {
			if err := h.submit(d, 1+r.Intn(200), r.Bytes(1+r.Intn(20)), s%4 == 1); err != nil {
				restore()
				return err
			}
		}
		f5, err := h.uplinkFrame(d, 5, confirmed, false, []byte{0x55, byte(s), 7})
		if err != nil {
			restore()
			return err
		}
		fr, err := ask1(c, fmt.Sprintf("join.tx appkey=%s app=%s dev=%s nonce=%04x", hx.H(d.appKey.Key[:]), hx.H(wire(d.app)), hx.H(wire(d.eui)), 0x1000+s))
		if err != nil {
			restore()
			return err
		}
		join := hx.UnH(strings.TrimPrefix(fr, "frame="))
		h.g.mu.Lock()
		h.g.enabled = true
		h.g.mu.Unlock()
		if err := h.inject("uplink 5", f5, nil, 0); err != nil {
			restore()
			return err
		}
		// the data uplink is handled up to the point where its answer waits for the receive window
		var held *arrival
		for i := 0; i < 100 && !h.failed; i++ {
			p := h.g.parked()
			if len(p) == 0 {
				break
			}
			var next *arrival
			for _, a := range p {
				if a.op == "GetPHYPayloadForDevice" {
					held = a
				} else if next == nil {
					next = a
				}
			}
			if next == nil {
				break
			}
			if err := h.stepArrival(next, false); err != nil {
				restore()
				return err
			}
		}
		// now the device joins again: the request is honoured, its notification finds a send scheduled
		an := []byte{byte(0x30 + s), 1, 2}
		rd.next = append([]byte{}, an...)
		if err := h.inject("join-request while the answer to uplink 5 is scheduled", join, an, d.addr); err != nil {
			restore()
			return err
		}
		for i := 0; i < 100 && !h.failed; i++ {
			var next *arrival
			for _, a := range h.g.parked() {
				if held == nil || a.gid != held.gid {
					next = a
					break
				}
			}
			if next == nil {
				break
			}
			if next.op == "AddDevNonce" {
				rd.next = append([]byte{}, an...)
			}
			if err := h.stepArrival(next, false); err != nil {
				restore()
				return err
			}
		}
		if err := h.drain(); err != nil {
			restore()
			return err
		}
		st, err := h.compare("join while a send is scheduled")
		restore()
		if err != nil {
			return err
		}
		if !h.failed && st != "" {
			if line, want := delayOracle(stateSections(st)["emitted"]); line != "" {
				h.c.res.Add(hx.Finding{Kind: "propfail", Engine: "pipectl", Signature: "rx1-delay-not-by-frame-type", Case: append([]pipeEvent{}, h.trace...), Impl: line, Spec: want,
					Note: "C17: a frame was handed to the gateway with the receive-window delay of another kind of frame (a join-accept goes out five seconds after the uplink, a data frame one second)"})
			}
		}
		c.res.Class(fmt.Sprintf("uplink-then-join conf=%v held=%v", confirmed, held != nil))
		c.res.Count("scenario=uplink-then-join")
		h.close()
	}
	return nil
}

// ---- C05: copies of one join-request

func ctlJoinCopies(c *ctx, file func() string) error {
	r := c.rng
	nsched := c.pick(20, 500)
	for s := 0; s < nsched; s++ {
		c.res.Eval()
		nonceOff := s%5 == 4
		h, err := newCtlRun(c, file(), 0x21, nonceOff)
		if err != nil {
			return err
		}
		rd := &fixedReader{}
		old := crand.Reader
		crand.Reader = rd
		d := &simDev{app: h.app, otaa: true, nonces: map[uint16]bool{}, addr: 0x00112233}
		copy(d.eui.Octets[:], r.Bytes(8))
		copy(d.appKey.Key[:], r.Bytes(16))
		if err := h.addDevice(d, 3, 4); err != nil {
			return err
		}
		fr, err := ask1(c, fmt.Sprintf("join.tx appkey=%s app=%s dev=%s nonce=beef", hx.H(d.appKey.Key[:]), hx.H(wire(d.app)), hx.H(wire(d.eui))))
		if err != nil {
			return err
		}
		frame := hx.UnH(strings.TrimPrefix(fr, "frame="))
		h.g.mu.Lock()
		h.g.enabled = true
		h.g.mu.Unlock()
		copies := 2 + s%2
		for i := 0; i < copies; i++ {
			// every copy draws AppNonce (10+i, i, i) when it gets that far: the reader hands out the
			// nonce of whichever copy asks, so all copies are given the same value per draw order
			if nonceOff {
				rd.next = []byte{byte(0x10 + i), byte(i), byte(i)}
			}
			if err := h.inject(fmt.Sprintf("copy %d of the join-request", i), frame, []byte{byte(0x10 + i), byte(i), byte(i)}, d.addr); err != nil {
				return err
			}
			if nonceOff {
				// the property quantifies over interleavings only with the check on; with the switch off
				// the copies are handled one after the other (reuse is honoured, agreement is required)
				if err := h.drain(); err != nil {
					return err
				}
			}
		}
		sched := []string{}
		for i := 0; i < 300 && !h.failed && len(h.g.parked()) > 0; i++ {
			p := h.g.parked()
			a := p[r.Intn(len(p))]
			// the AppNonce is drawn in the step that follows the nonce insert (or the application
			// lookup when the check is off): give the real handler the value its model thread carries
			if (a.op == "AddDevNonce" && !nonceOff) || (a.op == "GetApplicationByEUI" && nonceOff) {
				// the model threads of the copies are 0..copies-1 in delivery order
				copyNo := 0
				if v, ok := h.gid2idx[a.gid]; ok && v < copies {
					copyNo = v
				}
				rd.next = []byte{byte(0x10 + copyNo), byte(copyNo), byte(copyNo)}
			}
			sched = append(sched, a.op)
			if err := h.stepArrival(a, false); err != nil {
				return err
			}
		}
		st, err := h.compare("join copies quiescent")
		if err != nil {
			return err
		}
		if !h.failed {
			em := stateSections(st)["emitted"]
			nja := strings.Count(em, "E 20")
			if !nonceOff && nja > 1 {
				h.fail("propfail", "nonce-honoured-twice", fmt.Sprintf("C05: %d copies of one join-request produced %d join-accepts under schedule %s", copies, nja, strings.Join(sched, ",")), em, "at most one")
			}
			// stored session = the one conveyed by the last join-accept emitted
			sd, err := h.rig.st.GetDeviceByEUI(d.eui)
			if err != nil {
				return err
			}
			last := ""
			for _, line := range strings.Split(em, ";") {
				f := strings.Fields(line)
				if len(f) > 1 && strings.HasPrefix(f[1], "20") {
					last = f[1]
				}
			}
			if last != "" {
				a, err := ask1(c, fmt.Sprintf("join.rx appkey=%s nonce=beef raw=%s", hx.H(d.appKey.Key[:]), last))
				if err != nil {
					return err
				}
				kv := hx.KV(a)
				if !nonceOff || nja == 1 {
					if kv["nwk"] != hx.H(sd.NwkSKey.Key[:]) || kv["apps"] != hx.H(sd.AppSKey.Key[:]) {
						h.fail("propfail", "session-differs-from-join-accept", "C05: at quiescence the stored session keys are not the ones conveyed by the join-accept emitted, schedule "+strings.Join(sched, ","),
							hx.H(sd.NwkSKey.Key[:]), kv["nwk"])
					}
				}
			} else if hx.H(sd.NwkSKey.Key[:]) != hx.H(d.nwk.Key[:]) {
				h.fail("propfail", "keys-changed-without-join-accept", "C05: keys changed but no join-accept was emitted", hx.H(sd.NwkSKey.Key[:]), "unchanged")
			}
		}
		c.res.Class(fmt.Sprintf("joincopies n=%d off=%v steps=%d", copies, nonceOff, h.steps/4))
		c.res.Count("scenario=join-copies")
		if s%7 == 0 {
			c.res.Sample(sched)
		}
		crand.Reader = old
		h.close()
	}
	return nil
}

// inboxData: the recorded payloads of a device, in the order of the listing.
func inboxData(state string, eui protocol.EUI) []string {
	var out []string
	for _, l := range strings.Split(stateSections(state)["inbox"], ";") {
		f := strings.Fields(l)
		if len(f) < 4 || f[1] != hx.H(eui.Octets[:]) {
			continue
		}
		out = append(out, strings.TrimPrefix(f[3], "data="))
	}
	return out
}

// ---- one frame authenticating for two devices (same DevAddr, same NwkSKey): canonical schedule

func ctlSharedKey(c *ctx, file func() string) error {
	r := c.rng
	nh := c.pick(12, 300)
	for s := 0; s < nh; s++ {
		c.res.Eval()
		h, err := newCtlRun(c, file(), 0, false)
		if err != nil {
			return err
		}
		a := h.abpDevice(r.Intn(2) == 0)
		b := h.abpDevice(r.Intn(2) == 0)
		b.addr, b.nwk = a.addr, a.nwk
		if err := h.addDevice(a, uint16(r.Intn(4)), uint16(r.Intn(9))); err != nil {
			return err
		}
		if err := h.addDevice(b, uint16(r.Intn(4)), uint16(100+r.Intn(9))); err != nil {
			return err
		}
		h.g.mu.Lock()
		h.g.enabled = true
		h.g.mu.Unlock()
		fc := 4
		prevState := ""
		// every second history: the encoders of an uplink's answers are held before their counter operation
		// until the handler of the next uplink has read its device copies (then they go first)
		overlap := s%2 == 1
		heldGids := map[int]bool{}
		var allEmitted []string
		for ev := 0; ev < 6+r.Intn(6) && !h.failed; ev++ {
			d := []*simDev{a, b}[r.Intn(2)]
			switch r.Intn(4) {
			case 0:
				h.g.mu.Lock()
				h.g.enabled = false
				h.g.mu.Unlock()
				if err := h.submit(d, 1+r.Intn(200), r.Bytes(1+r.Intn(30)), r.Intn(2) == 0); err != nil {
					return err
				}
				h.g.mu.Lock()
				h.g.enabled = true
				h.g.mu.Unlock()
				continue
			default:
				fc += r.Intn(3)
				plain := []byte{byte(ev), byte(s), 3}
				fr, err := h.uplinkFrame(d, fc, r.Intn(2) == 0, r.Intn(3) == 0, plain)
				if err != nil {
					return err
				}
				before := prevState
				if err := h.inject(fmt.Sprintf("uplink fcnt=%d", fc), fr, nil, 0); err != nil {
					return err
				}
				if overlap {
					// the new handler reads the devices; then the encoders held from the previous uplink run
					for _, a := range h.g.parked() {
						if a.op == "GetDeviceByDevAddr" {
							if err := h.stepArrival(a, false); err != nil {
								return err
							}
							break
						}
					}
					for i := 0; i < 60 && !h.failed && len(heldGids) > 0; i++ {
						var next *arrival
						for _, a := range h.g.parked() {
							if heldGids[a.gid] {
								next = a
								break
							}
						}
						if next == nil {
							break
						}
						if err := h.stepArrival(next, false); err != nil {
							return err
						}
					}
					heldGids = map[int]bool{}
					// everything else, except that this uplink's encoders stop before their counter operation
					for i := 0; i < 200 && !h.failed; i++ {
						var next *arrival
						for _, a := range h.g.parked() {
							if a.op == "NextFCntDn" {
								heldGids[a.gid] = true
								continue
							}
							next = a
							break
						}
						if next == nil {
							break
						}
						if err := h.stepArrival(next, false); err != nil {
							return err
						}
					}
					c.res.Count("scenario=shared-key-overlap")
					continue
				}
				if err := h.drain(); err != nil {
					return err
				}
				after, err := h.compare(fmt.Sprintf("uplink fcnt=%d (two devices authenticate)", fc))
				if err != nil {
					return err
				}
				if after != "" {
					allEmitted = append(allEmitted, stateSections(after)["emitted"])
				}
				if after != "" {
					prevState = after
				}
				// the sender's own record: when the frame was recorded for the device that sent it, what
				// is recorded is that device's plaintext (the twin's record is that twin's decryption)
				if nb, na := inboxData(before, d.eui), inboxData(after, d.eui); !h.failed && after != "" && len(na) > len(nb) {
					found := false
					for _, x := range na[len(nb):] {
						if x == hx.H(plain) {
							found = true
						}
					}
					if !found && c.prop == "C02" {
						h.c.res.Add(hx.Finding{Kind: "propfail", Engine: "pipectl", Signature: "uplink-not-recovered", Case: append([]pipeEvent{}, h.trace...),
							Impl: strings.Join(na[len(nb):], ","), Spec: hx.H(plain),
							Note: "C02: the frame was accepted and recorded for the device that sent it, but what is recorded is not the payload the device encrypted (a second device shares its address and network session key)"})
						h.failed = true
					}
				}
			}
		}
		if overlap && !h.failed {
			if err := h.drain(); err != nil {
				return err
			}
			st, err := h.compare("shared-key history with overlapping encoders, quiescent")
			if err != nil {
				return err
			}
			if st != "" {
				allEmitted = append(allEmitted, stateSections(st)["emitted"])
			}
		}
		if !h.failed && c.prop == "C07" {
			// the two devices' counters live in disjoint ranges (below / from 100): no counter twice
			seen := map[int]string{}
			for _, em := range allEmitted {
				ds, err := h.decodeDowns(a, em)
				if err != nil {
					return err
				}
				for _, x := range ds {
					if prev, dup := seen[x.fcnt]; dup && prev != x.raw {
						h.c.res.Add(hx.Finding{Kind: "propfail", Engine: "pipectl", Signature: "twin-downlink-fcnt-reused", Case: append([]pipeEvent{}, h.trace...), Impl: x.raw, Spec: prev,
							Note: fmt.Sprintf("C07: downlink counter %d is used for two different frames of one device (two devices share address and network session key; encoders overlapping with the next uplink's handler=%v)", x.fcnt, overlap)})
						h.failed = true
					}
					seen[x.fcnt] = x.raw
				}
			}
		}
		c.res.Class(fmt.Sprintf("sharedkey relaxed=%v/%v overlap=%v", a.relaxed, b.relaxed, overlap))
		c.res.Count("scenario=shared-key")
		if s%5 == 0 {
			c.res.Sample(h.trace[len(h.trace)-min(len(h.trace), 5):])
		}
		h.close()
	}
	return nil
}
