package main

import (
	"bytes"
	"fmt"

	"github.com/lab5e/lospan/pkg/cmac"

	"lospanverif/internal/hx"
)

func init() { engines["cmac"] = runCmac }

type cmacCase struct {
	Key   string `json:"key"`
	Msg   string `json:"msg"`
	Pre   int    `json:"pre"`
	Spare int    `json:"spare"`
}

// runCmac: C14. AESCMAC on messages presented as sub-slices of a larger backing array that is
// filled with sentinel bytes; compares the tag with the Lean model (tie) and the Lean RFC 4493
// spec (property) and checks that no byte of the backing array changed (purity).
func runCmac(c *ctx) error {
	var cases []cmacCase
	add := func(key []byte, n, pre, spare int) {
		cases = append(cases, cmacCase{hx.H(key), hx.H(c.rng.Bytes(n)), pre, spare})
	}
	// corpus: the round-0 witness (5-byte message, 35 bytes spare capacity) and RFC lengths
	add(make([]byte, 16), 5, 0, 35)
	for _, n := range []int{0, 16, 40, 64} {
		add(hx.UnH("2b7e151628aed2a6abf7158809cf4f3c"), n, 0, 0)
	}
	maxLen := 1024 // every length of the property's range in both tiers (once each above 96 in the quick tier)
	for n := 0; n <= maxLen; n++ {
		reps := c.pick(3, 4)
		if n > 96 && !c.thorough() {
			reps = 1
		}
		for i := 0; i < reps; i++ {
			spare := 0
			switch c.rng.Intn(4) {
			case 1:
				spare = 1 + c.rng.Intn(15)
			case 2:
				spare = 16 + c.rng.Intn(49)
			case 3:
				spare = 16 - n%16
			}
			add(c.rng.Key16(), n, c.rng.Intn(3)*c.rng.Intn(20), spare)
		}
	}
	if c.thorough() {
		for n := 0; n <= 80; n++ {
			for spare := 0; spare <= 64; spare++ {
				add(c.rng.Key16(), n, 0, spare)
			}
		}
	} else {
		for n := 0; n <= 33; n++ {
			for _, spare := range []int{0, 1, 15, 16, 17, 64} {
				add(c.rng.Key16(), n, 0, spare)
			}
		}
	}
	reqs := make([]string, len(cases))
	for i, k := range cases {
		reqs[i] = fmt.Sprintf("cmac %s %s", k.Key, k.Msg)
	}
	ans, err := c.lean.Ask(reqs)
	if err != nil {
		return err
	}
	// purity also means: no memory of earlier calls. Two thirds of the calls hand the key over in
	// one and the same caller-owned buffer that is overwritten in place between calls.
	shared := make([]byte, 24)
	for i, k := range cases {
		key, msg := hx.UnH(k.Key), hx.UnH(k.Msg)
		if i%3 != 0 {
			copy(shared[4:20], key)
			key = shared[4:20:20]
			c.res.Count("key-in-reused-buffer")
		}
		keyBefore := append([]byte{}, key...)
		post := 8
		back := make([]byte, k.Pre+len(msg)+k.Spare+post)
		for j := range back {
			back[j] = 0xA5
		}
		copy(back[k.Pre:], msg)
		before := append([]byte{}, back...)
		view := back[k.Pre : k.Pre+len(msg) : k.Pre+len(msg)+k.Spare]
		impl := "panic"
		func() {
			defer func() { recover() }()
			tag, err := cmac.AESCMAC(key, view)
			if err != nil {
				impl = "err"
				return
			}
			impl = hx.H(tag)
		}()
		c.res.Eval()
		c.res.Count(fmt.Sprintf("len%%16=%d", len(msg)%16))
		c.res.Count(fmt.Sprintf("blocks=%d", (len(msg)+15)/16))
		if k.Spare > 0 {
			c.res.Count("spare>0")
		}
		c.res.Class(fmt.Sprintf("len=%d spare=%v", len(msg), k.Spare > 0))
		c.res.Sample(k)
		kv := hx.KV(ans[i])
		if impl != kv["model"] {
			c.res.Add(hx.Finding{Kind: "mismatch", Engine: "cmac", Signature: "cmac-tag", Case: k, Impl: impl, Model: kv["model"], Spec: kv["spec"]})
		}
		if impl != kv["spec"] {
			c.res.Add(hx.Finding{Kind: "propfail", Engine: "cmac", Signature: "cmac-not-rfc4493", Case: k, Impl: impl, Spec: kv["spec"],
				Note: "AESCMAC differs from RFC 4493 (call " + fmt.Sprint(i) + " of the sequence; keys of two calls in three are passed in one reused buffer)"})
		}
		if !bytes.Equal(keyBefore, key) {
			c.res.Add(hx.Finding{Kind: "propfail", Engine: "cmac", Signature: "cmac-impure", Case: k, Impl: hx.H(key), Spec: hx.H(keyBefore),
				Note: "AESCMAC modified the caller's key"})
		}
		if !bytes.Equal(before, back) {
			c.res.Add(hx.Finding{Kind: "propfail", Engine: "cmac", Signature: "cmac-impure", Case: k, Impl: hx.H(back), Spec: hx.H(before),
				Note: "AESCMAC modified the caller's backing array"})
			// the model never writes to the caller's memory: this is also a broken correspondence
			c.res.Add(hx.Finding{Kind: "mismatch", Engine: "cmac", Signature: "cmac-mem", Case: k, Impl: hx.H(back), Model: hx.H(before)})
		}
	}
	c.res.Rule = "keys structured+random; every length 0..max several times with 0..64 bytes of spare capacity behind the message and sentinel bytes around it; a class is (length, has spare capacity)"
	return nil
}
