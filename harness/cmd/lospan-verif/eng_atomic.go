package main

// atomic: the storage operations the pipeline model treats as one indivisible step each
// (Model/Pipeline.lean DB.nextFCntDn, DB.advanceFCntUp, DB.addNonce; their lock / transaction /
// single-statement shape is tied by Tie/Storage.lean) are called from many goroutines at once on
// the real store. No gate sits inside them, so this is the only place where their atomicity is
// exercised rather than read off the source:
//   NextFCntDn     no counter is handed out twice, and the stored counter moved once per success
//   AdvanceFCntUp  of all concurrent calls for one counter value exactly one succeeds
//   AddDevNonce    of all concurrent inserts of one (device, nonce) exactly one succeeds
// Calls that fail (a busy database) are allowed; a duplicate is not.

import (
	"database/sql"
	"fmt"
	"os"
	"path/filepath"
	"sort"
	"sync"

	"github.com/lab5e/lospan/pkg/model"
	"github.com/lab5e/lospan/pkg/protocol"
	"github.com/lab5e/lospan/pkg/storage"
	"lospanverif/internal/hx"
)

func init() { engines["atomic"] = runAtomic }

func runAtomic(c *ctx) error {
	quietLogs()
	r := c.rng
	dir := filepath.Join(c.tmp, "atomic")
	os.MkdirAll(dir, 0o755)
	rounds := c.pick(6, 60)
	for round := 0; round < rounds; round++ {
		file := filepath.Join(dir, fmt.Sprintf("a%d.db", round))
		st, err := storage.CreateStorage(file)
		if err != nil {
			return err
		}
		var app, eui protocol.EUI
		copy(app.Octets[:], r.Bytes(8))
		copy(eui.Octets[:], r.Bytes(8))
		if round%3 == 0 {
			eui.Octets[0] |= 0x80
		}
		st.CreateApplication(model.Application{AppEUI: app})
		startDn := r.Intn(60000)
		dev := model.Device{DeviceEUI: eui, AppEUI: app, DevAddr: protocol.DevAddrFromUint32(r.Uint32()), State: model.PersonalizedDevice,
			FCntUp: 10, FCntDn: uint16(startDn)}
		copy(dev.NwkSKey.Key[:], r.Key16())
		copy(dev.AppSKey.Key[:], r.Key16())
		if err := st.CreateDevice(dev, app); err != nil {
			return err
		}
		workers := 4 + r.Intn(9)
		per := c.pick(40, 150)
		withReaders := round%2 == 1
		stop := make(chan struct{})
		var rd sync.WaitGroup
		if withReaders {
			for i := 0; i < 2; i++ {
				rd.Add(1)
				go func() {
					defer rd.Done()
					for {
						select {
						case <-stop:
							return
						default:
							st.GetDeviceByEUI(eui)
						}
					}
				}()
			}
		}
		// ---- NextFCntDn
		var mu sync.Mutex
		var got []int
		fails := 0
		var wg sync.WaitGroup
		for w := 0; w < workers; w++ {
			wg.Add(1)
			go func() {
				defer wg.Done()
				for k := 0; k < per; k++ {
					v, err := st.NextFCntDn(eui)
					mu.Lock()
					if err == nil {
						got = append(got, int(v))
					} else {
						fails++
					}
					mu.Unlock()
				}
			}()
		}
		wg.Wait()
		c.res.Eval()
		for i := 0; i < fails; i++ {
			c.res.Count("NextFCntDn failed (busy)")
		}
		for range got {
			c.res.Count("NextFCntDn ok")
		}
		sort.Ints(got)
		for i := 1; i < len(got); i++ {
			if got[i] == got[i-1] {
				c.res.Add(hx.Finding{Kind: "propfail", Engine: "atomic", Signature: "concurrent-downlink-fcnt-reused",
					Case: fmt.Sprintf("%d goroutines x %d calls of Storage.NextFCntDn on one device (stored counter %d at the start, concurrent readers=%v)", workers, per, startDn, withReaders),
					Impl: fmt.Sprintf("counter %d handed out twice", got[i]), Spec: "every hand-out distinct",
					Note: "C07: the downlink counter operation is not atomic: two concurrent encoders of one device get the same counter"})
				break
			}
		}
		if d, err := st.GetDeviceByEUI(eui); err == nil && len(got) > 0 {
			if want := (startDn + len(got)) % 65536; int(d.FCntDn) != want {
				c.res.Add(hx.Finding{Kind: "propfail", Engine: "atomic", Signature: "downlink-fcnt-not-advanced-per-handout",
					Case: fmt.Sprintf("%d goroutines x %d calls of Storage.NextFCntDn (start %d, %d successful)", workers, per, startDn, len(got)),
					Impl: fmt.Sprintf("stored fcnt_dn=%d", d.FCntDn), Spec: fmt.Sprint(want),
					Note: "C07: the stored downlink counter did not move once per counter handed out"})
			}
		}
		// ---- AllocateKeys: concurrent reservations on one sequence never overlap
		if c.prop == "C19" {
			seqName := fmt.Sprintf("atomic/%d", round)
			var blocks [][]uint64
			var wgk sync.WaitGroup
			for w := 0; w < workers; w++ {
				wgk.Add(1)
				go func() {
					defer wgk.Done()
					for k := 0; k < c.pick(30, 100); k++ {
						ch, err := st.AllocateKeys(seqName, 3, 1)
						if err != nil {
							continue
						}
						var b []uint64
						for v := range ch {
							b = append(b, v)
						}
						mu.Lock()
						blocks = append(blocks, b)
						mu.Unlock()
					}
				}()
			}
			wgk.Wait()
			c.res.Eval()
			c.res.Count("AllocateKeys rounds")
			seenID := map[uint64]bool{}
			dup := false
			for _, b := range blocks {
				for _, v := range b {
					if seenID[v] && !dup {
						dup = true
						c.res.Add(hx.Finding{Kind: "propfail", Engine: "atomic", Signature: "concurrent-reservations-overlap",
							Case: fmt.Sprintf("%d goroutines reserving blocks of 3 on one sequence through Storage.AllocateKeys (concurrent readers=%v)", workers, withReaders),
							Impl: fmt.Sprintf("identifier %d handed out in two blocks", v), Spec: "disjoint blocks",
							Note: "C19: the reservation is not atomic: two concurrent requesters are given the same identifiers"})
					}
					seenID[v] = true
				}
			}
		}
		// ---- AdvanceFCntUp: for each of a few counter values, all workers try the same value
		for f := 10; f < 10+c.pick(8, 30); f++ {
			oks, others := 0, 0
			var wg2 sync.WaitGroup
			for w := 0; w < workers; w++ {
				wg2.Add(1)
				go func() {
					defer wg2.Done()
					err := st.AdvanceFCntUp(eui, uint16(f), false)
					mu.Lock()
					if err == nil {
						oks++
					} else if err != storage.ErrNotFound {
						others++
					}
					mu.Unlock()
				}()
			}
			wg2.Wait()
			c.res.Eval()
			c.res.Count("AdvanceFCntUp rounds")
			if oks > 1 || (oks == 0 && others == 0) {
				c.res.Add(hx.Finding{Kind: "propfail", Engine: "atomic", Signature: "concurrent-copies-accepted-twice",
					Case: fmt.Sprintf("%d concurrent Storage.AdvanceFCntUp(eui, %d) on a device whose stored counter is %d", workers, f, f),
					Impl: fmt.Sprintf("%d calls succeeded", oks), Spec: "exactly one",
					Note: "C03: the uplink counter check-and-move is not atomic: copies of one frame are accepted more than once (or none is)"})
				break
			}
			if oks == 0 {
				break // every call failed with a storage error: the counter did not move, stop this part
			}
		}
		// ---- AddDevNonce
		for n := 0; n < c.pick(6, 20); n++ {
			nonce := uint16(r.Intn(65536))
			oks := 0
			var wg3 sync.WaitGroup
			for w := 0; w < workers; w++ {
				wg3.Add(1)
				go func() {
					defer wg3.Done()
					if err := st.AddDevNonce(dev, nonce); err == nil {
						mu.Lock()
						oks++
						mu.Unlock()
					}
				}()
			}
			wg3.Wait()
			c.res.Eval()
			c.res.Count("AddDevNonce rounds")
			if oks > 1 {
				c.res.Add(hx.Finding{Kind: "propfail", Engine: "atomic", Signature: "concurrent-nonce-inserted-twice",
					Case: fmt.Sprintf("%d concurrent Storage.AddDevNonce(device, %d)", workers, nonce), Impl: fmt.Sprintf("%d inserts succeeded", oks), Spec: "at most one",
					Note: "C05: the nonce insert does not arbitrate between concurrent copies of one join-request"})
				break
			}
		}
		close(stop)
		rd.Wait()
		// ---- a commit that cannot go through: another connection to the database file (a backup, a
		// report, one of the server's own unserialised reads) holds a read cursor open while the counter is
		// fetched. Whatever NextFCntDn answers: a counter it hands out may be on the air, so after a
		// restart the stored counter must be past it.
		if db2, err := sql.Open("sqlite", file); err == nil {
			handed := -1
			for k := 0; k < 3; k++ {
				rows, qerr := db2.Query("SELECT eui FROM lora_devices")
				held := qerr == nil && rows.Next()
				v1, err1 := st.NextFCntDn(eui)
				if rows != nil {
					rows.Close()
				}
				c.res.Eval()
				if err1 != nil {
					c.res.Count("NextFCntDn under a foreign read cursor: refused")
				} else {
					c.res.Count("NextFCntDn under a foreign read cursor: ok")
					if held {
						handed = int(v1)
					}
				}
			}
			db2.Close()
			if handed >= 0 {
				// the process dies (its connections, and any transaction still open on them, are gone) and a
				// new one opens the file
				st.VerifAbandon()
				st2, err := storage.CreateStorage(file)
				if err != nil {
					return err
				}
				st = st2
				if d, err := st.GetDeviceByEUI(eui); err == nil && (int(d.FCntDn)-handed+65536)%65536 == 0 {
					c.res.Add(hx.Finding{Kind: "propfail", Engine: "atomic", Signature: "downlink-fcnt-handed-out-not-durable",
						Case: fmt.Sprintf("Storage.NextFCntDn while another connection to the database file holds an open read cursor (SELECT eui FROM lora_devices, one row fetched); then the store is closed and the file opened again"),
						Impl: fmt.Sprintf("NextFCntDn returned counter %d without an error; after reopening fcnt_dn=%d", handed, d.FCntDn), Spec: fmt.Sprintf("an error, or fcnt_dn=%d after reopening", (handed+1)%65536),
						Note: "C07/C10: a counter was handed out although the write that protects it did not go through: after a restart the same counter is used again under the same session keys"})
				}
			}
		}
		c.res.Class(fmt.Sprintf("workers=%d readers=%v", workers, withReaders))
		st.Close()
		os.Remove(file)
		os.Remove(file + "-wal")
		os.Remove(file + "-shm")
	}
	c.res.Rule = "per round a fresh SQLite file and one device; 4..12 goroutines call Storage.NextFCntDn 40 (150) times each, then all of them AdvanceFCntUp with one counter value for 8 (30) successive values, then AddDevNonce with one nonce for 6 (20) nonces; every second round with two goroutines reading the device row all the time; at the end of every round NextFCntDn is called three times while a second connection to the file holds an open read cursor (the commit cannot go through), the store is abandoned and reopened, and the stored counter is compared with what was handed out; a class is (number of goroutines, readers)"
	return nil
}
