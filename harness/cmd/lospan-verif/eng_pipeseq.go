package main

import (
	"fmt"
	"os"
	"path/filepath"
	"strings"
	"time"

	"github.com/lab5e/lospan/pkg/model"
	"github.com/lab5e/lospan/pkg/protocol"
	"github.com/lab5e/lospan/pkg/server"

	"lospanverif/internal/hx"
)

func init() { engines["pipeseq"] = runPipeSeq }

type pipeEvent struct {
	Kind  string `json:"kind"`
	Lean  string `json:"lean,omitempty"`
	Note  string `json:"note,omitempty"`
	Frame string `json:"frame,omitempty"`
}

var dataRates = []string{"SF12BW125", "SF9BW125", "SF7BW125", "SF8BW125", "SF7BW250"}
var drLimit = map[string]int{"SF12BW125": 59, "SF9BW125": 123, "SF7BW125": 230, "SF8BW125": 230, "SF7BW250": 230}

func ask1(c *ctx, req string) (string, error) {
	a, err := c.lean.Ask([]string{req})
	if err != nil {
		return "", err
	}
	return a[0], nil
}

func wire(e protocol.EUI) []byte {
	w := make([]byte, 8)
	for i := 0; i < 8; i++ {
		w[i] = e.Octets[7-i]
	}
	return w
}

// seqHistory runs one sequential history on a fresh rig and on the Lean model.
type forcedUplink struct {
	d         *simDev
	confirmed bool
	submit    bool // not an uplink: an unconfirmed message of ordinary size is queued for d
	gap       int  // the uplink skips this many counters (lost frames)
	ack       int  // 0: random ACK flag, 1: set, 2: clear
}

type seqHistory struct {
	c      *ctx
	rig    *pipeRig
	devs   []*simDev
	euis   []protocol.EUI
	trace  []pipeEvent
	ts     int64
	failed bool
	// oracle bookkeeping
	downFcnt map[string]map[int]bool // (dev eui + nwk key) -> downlink counters seen (C07)
	accepted map[string]map[int]bool // (dev eui + nwk key) -> uplink counters recorded (C03)
	queued   map[protocol.EUI][]queuedMsg
	// creation stamps of queued messages: the last one per device and the last one of all
	lastCreated    map[protocol.EUI]int64
	lastCreatedAny int64
	lastJAKeys     map[protocol.EUI]string
	refs           map[protocol.EUI]*refDev
	search         bool // the correspondence with the model broke: keep driving the implementation alone and judge it with the reference observer
}

type queuedMsg struct {
	created int64
	port    int
	data    []byte
	ack     bool
}

func (h *seqHistory) fail(kind, sig, note, impl, want string) {
	if kind == "mismatch" {
		// the tie is broken: report it once, then keep driving the implementation alone and let the
		// reference observer look for a history on which a property fails
		if !h.search && !h.failed {
			h.c.res.Add(hx.Finding{Kind: kind, Engine: "pipeseq", Signature: sig, Case: append([]pipeEvent{}, h.trace...), Impl: impl, Model: want, Spec: want, Note: note})
		}
		h.search = true
		return
	}
	h.c.res.Add(hx.Finding{Kind: kind, Engine: "pipeseq", Signature: sig, Case: append([]pipeEvent{}, h.trace...), Impl: impl, Model: want, Spec: want, Note: note})
	h.failed = true
}

func (h *seqHistory) lean(kind, req string) (string, error) {
	h.trace = append(h.trace, pipeEvent{Kind: kind, Lean: req})
	if h.search {
		return "", nil
	}
	return ask1(h.c, req)
}

// compare the observable state of implementation and model.
func (h *seqHistory) compare(what string) (string, error) {
	impl, err := h.rig.stateText(h.euis)
	if err != nil {
		h.fail("propfail", "store-unreadable", "C18/C01: reading the state back failed: "+err.Error(), err.Error(), "")
		return "", nil
	}
	if h.search {
		return impl, nil
	}
	m, err := ask1(h.c, "pipe.state")
	if err != nil {
		return "", err
	}
	if impl != m && !h.failed {
		// point at the first differing section
		ki, km := stateSections(impl), stateSections(m)
		sec := ""
		for _, k := range []string{"devices", "inbox", "outbox", "emitted", "published"} {
			if ki[k] != km[k] {
				sec = k
				break
			}
		}
		h.fail("mismatch", "pipe-state:"+sec, "after "+what, sec+"="+ki[sec], sec+"="+km[sec])
	}
	return impl, nil
}

// stateSections splits "devices=… inbox=… outbox=… emitted=… published=…" (sections contain spaces).
func stateSections(s string) map[string]string {
	keys := []string{"devices", "inbox", "outbox", "emitted", "published"}
	res := map[string]string{}
	for i, k := range keys {
		a := strings.Index(s, k+"=")
		if a < 0 {
			continue
		}
		b := len(s)
		if i+1 < len(keys) {
			if x := strings.Index(s, " "+keys[i+1]+"="); x >= 0 {
				b = x
			}
		}
		res[k] = s[a+len(k)+1 : b]
	}
	return res
}

func runPipeSeq(c *ctx) error {
	quietLogs()
	r := c.rng
	dir := filepath.Join(c.tmp, "pipeseq")
	os.MkdirAll(dir, 0o755)
	nh := c.pick(140, 4000)
	if c.prop == "C01" || c.prop == "C02" {
		nh = c.pick(100, 3000)
	}
	for hi := 0; hi < nh; hi++ {
		file := filepath.Join(dir, fmt.Sprintf("h%d.db", hi))
		nonceOff := r.Intn(5) == 0
		netID := uint(r.Intn(1 << 24))
		if r.Intn(3) == 0 {
			netID = uint([]int{0, 1, 0xffffff, 0x800000}[r.Intn(4)])
		}
		rig, err := newPipeRig(file, netID, nonceOff)
		if err != nil {
			return err
		}
		h := &seqHistory{c: c, rig: rig, ts: 1000, downFcnt: map[string]map[int]bool{}, accepted: map[string]map[int]bool{},
			queued: map[protocol.EUI][]queuedMsg{}, lastJAKeys: map[protocol.EUI]string{}}
		if _, err := h.lean("reset", fmt.Sprintf("pipe.reset netid=%d noncecheckoff=%s", netID, b01(nonceOff))); err != nil {
			return err
		}
		// population
		var app protocol.EUI
		copy(app.Octets[:], r.Bytes(8))
		rig.st.CreateApplication(model.Application{AppEUI: app})
		rig.subscribe(app)
		h.lean("app", "pipe.app "+hx.H(app.Octets[:]))
		nd := 1 + r.Intn(3)
		sharedAddr := r.Uint32()
		for i := 0; i < nd; i++ {
			d := &simDev{app: app, relaxed: r.Intn(3) == 0, nonces: map[uint16]bool{}}
			copy(d.eui.Octets[:], r.Bytes(8))
			if r.Intn(4) == 0 {
				d.eui.Octets[0] |= 0x80
			}
			switch r.Intn(5) {
			case 0, 1: // OTAA, not yet joined
				d.otaa = true
				copy(d.appKey.Key[:], r.Key16())
				if r.Intn(4) == 0 {
					d.addr = r.Uint32() & 0x1ffffff // a previously assigned address
				}
			default: // ABP
				copy(d.nwk.Key[:], r.Bytes(16))
				copy(d.apps.Key[:], r.Key16())
				d.addr = r.Uint32()
				if r.Intn(3) == 0 {
					d.addr = sharedAddr // several devices on one DevAddr (different keys; the same-key case,
					// where one frame starts two concurrent downlink chains, runs under the gate controller: engine pipectl)
				}
				if r.Intn(4) == 0 {
					d.addr |= 0x80000000
				}
				d.joined = true
			}
			up := uint16([]int{0, 0, 5, 100, 65530}[r.Intn(5)])
			dn := uint16([]int{0, 0, 7, 65534}[r.Intn(4)])
			d.fcntUp = int(up)
			if err := rig.st.CreateDevice(mkDevice(d, up, dn), app); err != nil {
				return err
			}
			h.devs = append(h.devs, d)
			h.euis = append(h.euis, d.eui)
			h.ref(d).fcntDn = int(dn)
			h.lean("dev", leanDev(d, up, dn))
		}
		if _, err := h.compare("population"); err != nil {
			return err
		}
		var gwEUI protocol.EUI
		copy(gwEUI.Octets[:], r.Bytes(8))
		nev := 8 + r.Intn(22)
		var lastFrames [][]byte
		var forcedUps []forcedUplink
		extended := false
		for ev := 0; ev < nev && !h.failed; ev++ {
			if h.search && !extended {
				nev += 30 // search for a failing history behind the broken correspondence
				extended = true
			}
			var rev *refEvent
			c.res.Eval()
			d := h.devs[r.Intn(len(h.devs))]
			h.ts += int64(1 + r.Intn(5))
			dr := dataRates[r.Intn(len(dataRates))]
			// after an over-long message was queued: a confirmed uplink and two unconfirmed ones of that device at
			// the slowest data rate (the message leaves in pieces; the acknowledgement rides on the first only)
			var forcedUp *forcedUplink
			if len(forcedUps) > 0 {
				forcedUp = &forcedUps[0]
				forcedUps = forcedUps[1:]
				if forcedUp.d.joined {
					d, dr = forcedUp.d, "SF12BW125"
				} else {
					forcedUp = nil
				}
			}
			rssi, snr, freq := int32(r.Intn(120)-130), float32(r.Intn(80)-40)/4, float32(868.1)
			clock := r.Uint32()
			radio := radioTok(rssi, snr, freq) + "/" + dr
			pkt := func(raw []byte) server.GatewayPacket {
				return server.GatewayPacket{RawMessage: raw, Radio: server.RadioContext{Frequency: freq, DataRate: dr, Band: rig.band, RSSI: rssi, SNR: snr},
					Gateway:    server.GatewayContext{GatewayEUI: gwEUI, GatewayHost: "127.0.0.1", GatewayPort: 1700, GatewayClock: clock, ProtocolVersion: 2},
					ReceivedAt: time.Unix(0, h.ts)}
			}
			deliverBoth := func(kind string, raw []byte, an []byte, na uint32) (string, string, error) {
				before, err := rig.stateText(h.euis)
				if err != nil {
					return "", "", err
				}
				rig.takeEmitted()
				c.inflight("pipeseq", append(append([]pipeEvent{}, h.trace...), pipeEvent{Kind: "in flight: " + kind, Frame: hx.H(raw)}))
				if err := rig.deliver(pkt(append([]byte{}, raw...))); err != nil {
					h.fail("propfail", "pipeline-stuck", "C11: "+err.Error(), err.Error(), "")
					return "", "", nil
				}
				// environment inputs of a join, read back from what the implementation did
				if an == nil {
					an = []byte{0, 0, 0}
				}
				req := fmt.Sprintf("pipe.deliver raw=%s gw=%s ts=%d radio=%s dr=%s clock=%d an=%s na=%d", hx.H(raw), hx.H(gwEUI.Octets[:]), h.ts, radio, dr, clock, hx.H(an), na)
				h.trace = append(h.trace, pipeEvent{Kind: kind, Lean: req, Frame: hx.H(raw)})
				return before, req, nil
			}
			ek := r.Intn(20)
			perturb := r.Intn(8)
			if forcedUp != nil {
				ek, perturb = 0, 7
				if forcedUp.submit {
					ek = 12
				}
			}
			switch {
			case ek < 9 && d.joined: // valid uplink
				fc := d.fcntUp
				switch perturb {
				case 0:
					fc += 1 + r.Intn(5) // gap (lost frames)
				case 1:
					if fc > 0 {
						fc -= 1 + r.Intn(min(fc, 3)) // old counter
					}
				case 2:
					fc = []int{0, 65534, 65535, 1}[r.Intn(4)]
				}
				confirmed := r.Intn(3) == 0
				if forcedUp != nil {
					confirmed = forcedUp.confirmed
					fc += forcedUp.gap
					c.res.Count("event=uplink-after-over-long-message")
				}
				mt := 2
				if confirmed {
					mt = 4
				}
				ackFlag := r.Intn(3) == 0
				if forcedUp != nil && forcedUp.ack != 0 {
					ackFlag = forcedUp.ack == 1
				}
				n := []int{0, 1, 5, 16, 17, 40, r.Intn(200)}[r.Intn(7)]
				port := 1 + r.Intn(223)
				ports := fmt.Sprint(port)
				if n == 0 && r.Intn(2) == 0 {
					ports = "none"
				}
				plain := r.Bytes(n)
				fol := []int{0, 0, 0, 1, 3, 15}[r.Intn(6)]
				fr, err := ask1(c, fmt.Sprintf("dev.tx nwk=%s app=%s mt=%d addr=%d adr=%d aar=0 ack=%s b4=0 fcnt=%d fopts=%s port=%s plain=%s",
					hx.H(d.nwk.Key[:]), hx.H(d.apps.Key[:]), mt, d.addr, r.Intn(2), b01(ackFlag), fc, hx.H(macLike(r, fol, true)), ports, hx.H(plain)))
				if err != nil {
					return err
				}
				raw := hx.UnH(strings.TrimPrefix(strings.Fields(fr)[0], "frame="))
				lastFrames = append(lastFrames, raw)
				if _, _, err := deliverBoth(fmt.Sprintf("uplink dev=%s fcnt=%d conf=%v ack=%v", d.eui, fc, confirmed, ackFlag), raw, nil, 0); err != nil {
					return err
				}
				c.res.Count("event=uplink")
				rev = &refEvent{kind: "uplink", d: d, fc: fc, confirmed: confirmed, ackFlag: ackFlag, hasPort: ports != "none", plain: plain, dr: dr,
					accept: fc >= d.fcntUp || d.relaxed, radio: radio, gw: hx.H(gwEUI.Octets[:])}
				if fc > 65535 {
					h.ref(d).exhausted = true // the 16-bit uplink counter has wrapped: every property excuses what follows
				}
				if h.ref(d).exhausted {
					h.ref(d).off = true
					rev = &refEvent{kind: "other"}
				}
				if fc == 65535 {
					h.ref(d).exhausted = true // the last counter of the session: still judged, nothing after it
				}
				if fc >= d.fcntUp || d.relaxed {
					if fc >= d.fcntUp {
						d.fcntUp = (fc + 1) % 65536
					}
				}
			case ek < 12: // corrupted / unauthentic frame: must have no effect at all (C01)
				var raw []byte
				note := ""
				if len(lastFrames) > 0 && r.Intn(5) != 0 {
					raw = append([]byte{}, lastFrames[r.Intn(len(lastFrames))]...)
					switch r.Intn(7) {
					case 0, 1:
						bit := r.Intn(len(raw) * 8)
						raw[bit/8] ^= 1 << uint(bit%8)
						note = fmt.Sprintf("bit %d flipped", bit)
					case 2:
						raw = raw[:r.Intn(len(raw))]
						note = "truncated"
					case 3:
						raw = append(raw, r.Bytes(1+r.Intn(4))...)
						note = "extended"
					case 4:
						nm := byte(r.Intn(8))
						for nm == raw[0]>>5 {
							nm = byte(r.Intn(8))
						}
						raw[0] = raw[0]&0x1f | nm<<5
						note = fmt.Sprintf("message type rewritten to %d", nm)
					case 5:
						copy(raw[len(raw)-4:], r.Bytes(4))
						note = "random MIC"
					default:
						for k := 0; k < 3; k++ {
							raw[r.Intn(len(raw))] ^= byte(1 + r.Intn(255))
						}
						note = "multi-byte mask"
					}
				} else {
					// MIC made with a foreign or the all-zero key, an unknown address, a frame of a
					// downlink type that verifies under the device's own key (the server's own
					// downlink overheard by another gateway), or a magic value in the MIC field
					key := r.Bytes(16)
					addr := d.addr
					mt := 2
					magic := []byte(nil)
					switch r.Intn(6) {
					case 3, 4:
						if d.joined {
							key = d.nwk.Key[:]
							mt = []int{3, 5, 3, 5, 1, 6, 7}[r.Intn(7)]
							note = fmt.Sprintf("message type %d, MIC valid under the device's key", mt)
						} else {
							key = make([]byte, 16)
							magic = [][]byte{{0, 0, 0, 0}, {0xff, 0xff, 0xff, 0xff}}[r.Intn(2)]
							note = "MIC field " + hx.H(magic) + " to a device without a session"
						}
					case 5:
						magic = [][]byte{{0, 0, 0, 0}, {0xff, 0xff, 0xff, 0xff}, {0, 0, 0, 1}}[r.Intn(3)]
						if d.joined {
							key = d.nwk.Key[:]
						}
						note = "MIC field " + hx.H(magic)
					case 0:
						key = make([]byte, 16)
						note = "MIC under the all-zero key"
						if d.otaa && !d.joined {
							addr = d.addr // unjoined OTAA device: zero keys
						}
					case 1:
						addr = r.Uint32()
						note = "unknown DevAddr"
						key = d.nwk.Key[:]
					default:
						note = "MIC under a foreign key"
					}
					fr, err := ask1(c, fmt.Sprintf("dev.tx nwk=%s app=%s mt=%d addr=%d adr=0 aar=0 ack=0 b4=0 fcnt=%d fopts=- port=5 plain=%s",
						hx.H(key), hx.H(d.apps.Key[:]), mt, addr, d.fcntUp, hx.H(r.Bytes(4))))
					if err != nil {
						return err
					}
					raw = hx.UnH(strings.TrimPrefix(strings.Fields(fr)[0], "frame="))
					if magic != nil {
						copy(raw[len(raw)-4:], magic)
					}
				}
				before, _, err := deliverBoth("corrupt: "+note, raw, nil, 0)
				if err != nil {
					return err
				}
				c.res.Count("event=corrupt")
				h.ts++ // keep timestamps unique even if it was (by collision) accepted
				// direct oracle: unauthentic => nothing changes, nothing is emitted. A corruption can by
				// chance be authentic (e.g. flipped bit restored); the Lean spec decides authenticity.
				auth := false
				for _, dd := range h.devs {
					if !dd.joined {
						continue
					}
					a, err := ask1(c, fmt.Sprintf("dev.rx %s %s %s", hx.H(dd.nwk.Key[:]), hx.H(dd.apps.Key[:]), hx.H(raw)))
					if err != nil {
						return err
					}
					if strings.HasPrefix(a, "mic=1") {
						kv := hx.KV(a)
						sp := strings.Join(strings.Fields(a)[2:], " ")
						if (specField(sp, "mt") == "2" || specField(sp, "mt") == "4") && specField(sp, "addr") == fmt.Sprint(dd.addr) {
							auth = true
						}
						_ = kv
					}
				}
				if !auth {
					rev = &refEvent{kind: "noeffect"}
				}
				if !auth && !h.failed {
					after, err := rig.stateText(h.euis)
					if err != nil {
						return err
					}
					// stateText consumes emitted/published: push them back for the comparison with the model
					if after != before {
						h.fail("propfail", "unauthentic-frame-effect", "C01: an unauthentic frame ("+note+") changed state or produced output", after, before)
					}
					// re-inject nothing: both calls drained the (empty) queues
				}
			case ek < 14: // queue a downlink message through the API object
				n := 1 + r.Intn(60)
				overLong := r.Intn(8) == 0
				if forcedUp != nil {
					overLong, n = false, 1+r.Intn(20)
				}
				if overLong {
					n = 55 + r.Intn(200) // around and over the payload limits of the data rates (59 / 123 / 230)
				}
				m := queuedMsg{created: h.ts, port: 1 + r.Intn(223), data: r.Bytes(n), ack: r.Intn(2) == 0}
				if forcedUp != nil {
					m.ack = false
				}
				if lc, ok := h.lastCreated[d.eui]; (!ok || lc != h.lastCreatedAny) && h.lastCreatedAny != 0 && r.Intn(3) == 0 {
					// the same creation stamp as the last message queued for another device (a fan-out within one
					// millisecond): the queue is keyed by device and stamp, the devices have nothing to do with each other
					m.created = h.lastCreatedAny
				}
				if h.lastCreated == nil {
					h.lastCreated = map[protocol.EUI]int64{}
				}
				err := rig.st.CreateDownstreamMessage(d.eui, model.DownstreamMessage{DeviceEUI: d.eui, Data: fmt.Sprintf("%x", m.data), Port: uint8(m.port), Ack: m.ack, CreatedTime: m.created})
				a, lerr := h.lean("submit", fmt.Sprintf("pipe.submit dev=%s created=%d port=%d data=%s ack=%s", hx.H(d.eui.Octets[:]), m.created, m.port, hx.H(m.data), b01(m.ack)))
				if lerr != nil {
					return lerr
				}
				if !h.search && (err == nil) != (a == "ok=1") {
					h.fail("mismatch", "pipe-submit", "submission accepted by one side only", fmt.Sprint(err), a)
				}
				if err == nil {
					h.lastCreated[d.eui], h.lastCreatedAny = m.created, m.created
					if overLong && n > 60 && d.joined && len(forcedUps) == 0 {
						forcedUps = append(forcedUps, forcedUplink{d: d, confirmed: true}, forcedUplink{d: d}, forcedUplink{d: d})
					} else if !overLong && forcedUp == nil && m.ack && d.joined && len(forcedUps) == 0 && r.Intn(3) == 0 {
						// a confirmed message of ordinary size, an unconfirmed one right behind it, and two uplinks in a
						// row: each message leaves with its own type
						forcedUps = append(forcedUps, forcedUplink{d: d, submit: true}, forcedUplink{d: d}, forcedUplink{d: d})
					} else if !overLong && forcedUp == nil && m.ack && d.joined && len(forcedUps) == 0 && r.Intn(2) == 0 {
						// a confirmed message is transmitted, the next uplink is lost, the one after it carries an ACK
						// (which cannot be for this transmission: the server matches by counter), then uplinks
						// without ACK: the message is due again
						forcedUps = append(forcedUps, forcedUplink{d: d, ack: 2}, forcedUplink{d: d, gap: 1, ack: 1}, forcedUplink{d: d, ack: 2}, forcedUplink{d: d, ack: 2})
					}
					if m.created != h.ts {
						c.res.Count("submit=shared-creation-stamp")
					}

					h.queued[d.eui] = append(h.queued[d.eui], m)
					h.refSubmit(d, m)
				}
				c.res.Count("event=submit")
				continue
			case ek < 18 && d.otaa: // join request
				nonce := r.Bytes(2)
				note := "fresh"
				if len(d.nonces) > 0 && r.Intn(3) == 0 {
					for n := range d.nonces {
						nonce = []byte{byte(n >> 8), byte(n)}
						break
					}
					note = "reused nonce"
				}
				if r.Intn(6) == 0 {
					nonce = [][]byte{{0, 0}, {0xff, 0xff}, {0, 1}, {0x80, 0}}[r.Intn(4)]
				}
				key := d.appKey.Key[:]
				appW, devW := wire(d.app), wire(d.eui)
				switch r.Intn(9) {
				case 0:
					key = r.Bytes(16)
					note += ", MIC under a wrong key"
				case 1:
					appW, devW = devW, appW
					note += ", EUIs swapped"
				}
				fr, err := ask1(c, fmt.Sprintf("join.tx appkey=%s app=%s dev=%s nonce=%s", hx.H(key), hx.H(appW), hx.H(devW), hx.H(nonce)))
				if err != nil {
					return err
				}
				raw := hx.UnH(strings.TrimPrefix(fr, "frame="))
				switch r.Intn(12) {
				case 0:
					bit := r.Intn(len(raw) * 8)
					raw[bit/8] ^= 1 << uint(bit%8)
					note += fmt.Sprintf(", bit %d flipped", bit)
				case 1:
					raw = append(raw, 0)
					note += ", 24 bytes"
				case 2:
					raw = raw[:22]
					note += ", 22 bytes"
				}
				// run the implementation first, then learn AppNonce/DevAddr from what it emitted/stored
				before, err := rig.stateText(h.euis)
				if err != nil {
					return err
				}
				_ = before
				rig.takeEmitted()
				c.inflight("pipeseq", append(append([]pipeEvent{}, h.trace...), pipeEvent{Kind: "in flight: join " + note, Frame: hx.H(raw)}))
				if err := rig.deliver(pkt(append([]byte{}, raw...))); err != nil {
					h.fail("propfail", "pipeline-stuck", "C11: "+err.Error(), err.Error(), "")
					break
				}
				an := []byte{0, 0, 0}
				sd, err := rig.st.GetDeviceByEUI(d.eui)
				if err != nil {
					return err
				}
				var ja map[string]string
				jaCount := 0
				for _, e := range rig.emitted {
					if len(e.RawMessage) > 0 && e.RawMessage[0]>>5 == 1 {
						jaCount++
						a, err := ask1(c, fmt.Sprintf("join.rx appkey=%s nonce=%s raw=%s", hx.H(d.appKey.Key[:]), hx.H(nonce), hx.H(e.RawMessage)))
						if err != nil {
							return err
						}
						if a == "none" {
							h.fail("propfail", "join-accept-undecodable", "C04: a conformant device cannot decrypt/verify the join-accept "+hx.H(e.RawMessage), a, "")
						} else {
							ja = hx.KV(a)
							an = hx.UnH(ja["an"])
						}
					}
				}
				req := fmt.Sprintf("pipe.deliver raw=%s gw=%s ts=%d radio=%s dr=%s clock=%d an=%s na=%d", hx.H(raw), hx.H(gwEUI.Octets[:]), h.ts, radio, dr, clock, hx.H(an), sd.DevAddr.ToUint32())
				h.trace = append(h.trace, pipeEvent{Kind: "join: " + note, Lean: req, Frame: hx.H(raw)})
				c.res.Count("event=join")
				// ---- C04 / C05 oracles
				nv := uint16(nonce[0])<<8 | uint16(nonce[1])
				valid := note == "fresh" || note == "reused nonce"
				honoured := fmt.Sprintf("%x/%x", sd.NwkSKey.Key, sd.AppSKey.Key) != fmt.Sprintf("%x/%x", d.nwk.Key, d.apps.Key)
				if honoured && !valid {
					h.fail("propfail", "forged-join-honoured", "C04: a join-request that is not authentic ("+note+") changed the session keys", "keys changed", "no change")
				}
				if jaCount > 0 && !valid {
					h.fail("propfail", "forged-join-answered", "C04: a join-request that is not authentic ("+note+") was answered", "join-accept emitted", "nothing")
				}
				if valid && d.nonces[nv] && !nonceOff && (honoured || jaCount > 0) {
					h.fail("propfail", "nonce-honoured-twice", "C05: a reused DevNonce was honoured", fmt.Sprintf("keys changed=%v join-accepts=%d", honoured, jaCount), "ignored")
				}
				if valid && (!d.nonces[nv] || nonceOff) {
					if jaCount != 1 || !honoured {
						h.fail("propfail", "join-not-answered", fmt.Sprintf("C04: a valid join-request (%s) got %d join-accepts, keys changed=%v", note, jaCount, honoured), "", "one join-accept")
					} else if ja != nil {
						got := fmt.Sprintf("nwk=%s apps=%s addr=%d up=%d dn=%d", hx.H(sd.NwkSKey.Key[:]), hx.H(sd.AppSKey.Key[:]), sd.DevAddr.ToUint32(), sd.FCntUp, sd.FCntDn)
						want := fmt.Sprintf("nwk=%s apps=%s addr=%s up=0 dn=0", ja["nwk"], ja["apps"], ja["addr"])
						if got != want {
							h.fail("propfail", "session-differs-from-join-accept", "C04/C05: the session the server holds is not the one the device derives from the join-accept on the air", got, want)
						}
					}
					d.nonces[nv] = true
				}
				rev = &refEvent{kind: "join", d: d}
				if honoured {
					d.nwk, d.apps, d.addr, d.joined, d.fcntUp = sd.NwkSKey, sd.AppSKey, sd.DevAddr.ToUint32(), true, 0
					h.ref(d).fcntDn = 0
				}
			case ek == 18 && r.Intn(3) == 0: // restart at a quiescent point
				rig.carry = rig.takePublished()
				if err := rig.restart(); err != nil {
					return err
				}
				rig.subscribe(app)
				if _, err := h.lean("restart", "pipe.crash"); err != nil {
					return err
				}
				c.res.Count("event=restart")
				continue
			default:
				continue
			}
			if h.failed {
				break
			}
			// model: deliver + quiesce, then compare
			last := h.trace[len(h.trace)-1]
			if strings.HasPrefix(last.Lean, "pipe.deliver") && !h.search {
				if _, err := ask1(c, last.Lean); err != nil {
					return err
				}
				if _, err := ask1(c, "pipe.quiesce"); err != nil {
					return err
				}
			}
			impl, err := h.compare(last.Kind)
			if err != nil {
				return err
			}
			h.downlinkOracles(impl)
			if rev == nil {
				rev = &refEvent{kind: "other"}
			}
			h.refCheck(rev, impl)
		}
		// C04: every single-bit corruption, truncation and extension of a valid join-request, one after
		// the other, must leave no trace (the MIC covers every bit of the first 19 octets)
		if !h.failed && (c.prop == "C04" && hi%6 == 0 || c.prop != "C04" && hi%40 == 0) {
			for _, d := range h.devs {
				if !d.otaa {
					continue
				}
				nonce := r.Bytes(2)
				fr, err := ask1(c, fmt.Sprintf("join.tx appkey=%s app=%s dev=%s nonce=%s", hx.H(d.appKey.Key[:]), hx.H(wire(d.app)), hx.H(wire(d.eui)), hx.H(nonce)))
				if err != nil {
					return err
				}
				valid := hx.UnH(strings.TrimPrefix(fr, "frame="))
				var variants [][]byte
				var notes []string
				for bit := 0; bit < len(valid)*8; bit++ {
					v := append([]byte{}, valid...)
					v[bit/8] ^= 1 << uint(bit%8)
					variants, notes = append(variants, v), append(notes, fmt.Sprintf("bit %d flipped", bit))
				}
				for n := 0; n < len(valid); n++ {
					variants, notes = append(variants, append([]byte{}, valid[:n]...)), append(notes, fmt.Sprintf("truncated to %d", n))
				}
				for n := 1; n <= 3; n++ {
					variants, notes = append(variants, append(append([]byte{}, valid...), r.Bytes(n)...)), append(notes, fmt.Sprintf("extended by %d", n))
				}
				before, err := rig.stateText(h.euis)
				if err != nil {
					return err
				}
				for i, v := range variants {
					c.res.Eval()
					c.res.Count("event=join-corruption-sweep")
					h.ts++
					gp := server.GatewayPacket{RawMessage: v, Radio: server.RadioContext{Frequency: 868.1, DataRate: "SF7BW125", Band: rig.band},
						Gateway:    server.GatewayContext{GatewayEUI: gwEUI, GatewayHost: "127.0.0.1", GatewayPort: 1700, ProtocolVersion: 2},
						ReceivedAt: time.Unix(0, h.ts)}
					if err := rig.deliver(gp); err != nil {
						h.fail("propfail", "pipeline-stuck", "C11: "+err.Error(), err.Error(), "")
						break
					}
					after, err := rig.stateText(h.euis)
					if err != nil {
						return err
					}
					if after != before {
						h.trace = append(h.trace, pipeEvent{Kind: "altered join-request: " + notes[i], Frame: hx.H(v)})
						h.fail("propfail", "forged-join-honoured", "C04: an altered join-request ("+notes[i]+" of "+hx.H(valid)+") had an effect", after, before)
						break
					}
				}
				break
			}
		}
		c.res.Class(fmt.Sprintf("devs=%d events=%d nonceoff=%v", len(h.devs), len(h.trace)/4, nonceOff))
		if hi%23 == 0 {
			c.res.Sample(h.trace[:min(len(h.trace), 10)])
		}
		rig.st.Close()
		os.Remove(file)
	}
	c.res.Rule = "sequential histories on a real pipeline over a SQLite file: 1..3 devices (ABP, OTAA joining through the pipeline, shared DevAddr with equal/different keys, strict/relaxed, top-bit addresses), 8..29 events: valid uplinks built by the Lean LoRaWAN device (gaps, old counters, 0/65534/65535, confirmed, ACK flag, FOpts, all payload lengths), corrupted/unauthentic frames (bit flips, truncation, extension, type rewrite, random MIC, masks, zero/foreign key, unknown address), join-requests (fresh/reused/boundary nonces, wrong key, swapped EUIs, bit flips, wrong length), queued downlinks, restarts; after every event the whole observable state and every emitted frame are compared with the Lean model; a class is (devices, length bucket, nonce switch)"
	return nil
}

// downlinkOracles checks what left the server in this step against the Spec device (C06/C07/C09 basics).
func (h *seqHistory) downlinkOracles(impl string) {
	kv := stateSections(impl)
	if kv["emitted"] == "-" || kv["emitted"] == "" {
		return
	}
	for _, line := range strings.Split(kv["emitted"], ";") {
		f := strings.Fields(line)
		if len(f) < 2 {
			continue
		}
		raw := hx.UnH(f[1])
		if len(raw) == 0 || raw[0]>>5 == 1 {
			continue
		}
		// which device is it for?
		for _, d := range h.devs {
			if !d.joined {
				continue
			}
			a, err := ask1(h.c, fmt.Sprintf("dev.rx %s %s %s", hx.H(d.nwk.Key[:]), hx.H(d.apps.Key[:]), hx.H(raw)))
			if err != nil || !strings.HasPrefix(a, "mic=1") {
				continue
			}
			sp := strings.Join(strings.Fields(a)[2:], " ")
			if specField(sp, "addr") != fmt.Sprint(d.addr) {
				continue
			}
			key := fmt.Sprintf("%s/%x", d.eui, d.nwk.Key)
			fc := atoi(specField(sp, "fcnt"))
			if h.downFcnt[key] == nil {
				h.downFcnt[key] = map[int]bool{}
			}
			if h.downFcnt[key][fc] {
				h.fail("propfail", "downlink-fcnt-reused", fmt.Sprintf("C07: downlink counter %d used twice in one session of %s", fc, d.eui), line, "")
			}
			h.downFcnt[key][fc] = true
			break
		}
	}
}
