package main

import (
	"encoding/binary"
	"fmt"
	"sort"
	"strings"

	"github.com/lab5e/lospan/pkg/protocol"

	"lospanverif/internal/hx"
)

func init() {
	engines["mac"] = runMac
	engines["macset"] = runMacSet
}

type macCase struct {
	Cmd  string `json:"cmd"`
	Mode string `json:"mode"`
}

// implEncodeCmd encodes one command through the public path: a frame of the command's direction
// with the command as the only FOpts entry; the FOpts octets of MarshalBinary are the command's.
func implEncodeCmd(text string) (string, error) {
	c, err := cmdFromText(text)
	if err != nil {
		return "", err
	}
	mt := protocol.UnconfirmedDataDown
	if c.Uplink() {
		mt = protocol.UnconfirmedDataUp
	}
	res := "panic"
	func() {
		defer func() { recover() }()
		p := protocol.NewPHYPayload(mt)
		if !p.MACPayload.FHDR.FOpts.Add(c) {
			res = "rejected"
			return
		}
		b, err := p.MarshalBinary()
		if err != nil {
			res = errName(err)
			return
		}
		if len(b) < 12 || int(b[5]&0xf) != len(b)-12 {
			res = "bad-frame:" + hx.H(b)
			return
		}
		res = hx.H(b[8 : len(b)-4])
	}()
	return res, nil
}

// implDecodeCmd decodes octets as FOpts of a frame of the given direction and lists the commands.
func implDecodeFOpts(uplink bool, fopts []byte) string {
	mh := byte(protocol.UnconfirmedDataDown) << 5
	if uplink {
		mh = byte(protocol.UnconfirmedDataUp) << 5
	}
	f := []byte{mh, 1, 2, 3, 4, byte(len(fopts)), 9, 0}
	f = append(f, fopts...)
	f = append(f, 0xEE, 0xEE, 0xEE, 0xEE)
	res := "panic"
	func() {
		defer func() { recover() }()
		p := protocol.NewPHYPayload(protocol.Proprietary)
		if err := p.UnmarshalBinary(f); err != nil {
			res = errName(err)
			return
		}
		res = cmdsText(p.MACPayload.FHDR.FOpts.List())
		// the commands of the frame decoded before this one are values of their own: decoding another
		// frame does not change them
		if prevCmds != nil && cmdsText(prevCmds) != prevCmdsText {
			aliased = fmt.Sprintf("commands of the previous frame read %s, after decoding %s they read %s", prevCmdsText, hx.H(f), cmdsText(prevCmds))
		}
		prevCmds, prevCmdsText = p.MACPayload.FHDR.FOpts.List(), res
	}()
	return res
}

// the command list of the last successfully decoded frame, and how it read then
var prevCmds []protocol.MACCommand
var prevCmdsText string
var aliased string

func runMac(c *ctx) error {
	r := c.rng
	var cases []macCase
	seen := map[string]bool{}
	add := func(t, mode string) {
		if !seen[t] {
			seen[t] = true
			cases = append(cases, macCase{t, mode})
		}
	}
	for i := range cmdSpecs {
		sp := &cmdSpecs[i]
		bits := 0
		for _, w := range sp.widths {
			if w == 0 {
				bits++
			} else {
				bits += w
			}
		}
		// exhaustive when the wire fields total few enough bits (<= 12 quick, <= 16 thorough: 24 bits
		// meant 16.7 million cases per command, all held in memory - 15 GB and no end in sight)
		lim := c.pick(12, 16)
		if bits <= lim {
			total := 1 << uint(bits)
			for v := 0; v < total; v++ {
				parts := []string{sp.name}
				x := v
				for _, w := range sp.widths {
					ww := w
					if ww == 0 {
						ww = 1
					}
					parts = append(parts, fmt.Sprint(x&(1<<uint(ww)-1)))
					x >>= uint(ww)
				}
				add(strings.Join(parts, ":"), "exhaustive")
			}
		} else {
			n := c.pick(3000, 60000)
			for k := 0; k < n; k++ {
				add(randCmdText(r, sp, 0), "fits")
			}
			// one field exhaustive (up to 16 bits), others random
			for fi, w := range sp.widths {
				if w == 0 || w > 16 {
					continue
				}
				for v := 0; v < 1<<uint(w); v++ {
					parts := strings.Split(randCmdText(r, sp, 0), ":")
					parts[fi+1] = fmt.Sprint(v)
					add(strings.Join(parts, ":"), "one-field")
				}
			}
		}
		for k := 0; k < 200; k++ {
			add(randCmdText(r, sp, 2), "boundary")
		}
		// values that do not fit the wire field but fit the Go field: layout is not claimed, correspondence is
		for k := 0; k < c.pick(300, 5000); k++ {
			add(randCmdText(r, sp, 1), "gotype")
		}
	}
	reqs := make([]string, len(cases))
	for i, k := range cases {
		reqs[i] = "mac.enc " + k.Cmd
	}
	ans, err := c.lean.Ask(reqs)
	if err != nil {
		return err
	}
	// decode requests: the model's view of the frame carrying the implementation's octets
	type dec struct {
		i     int
		frame []byte
	}
	var decs []dec
	var dreqs []string
	implEnc := make([]string, len(cases))
	for i, k := range cases {
		enc, err := implEncodeCmd(k.Cmd)
		if err != nil {
			return err
		}
		implEnc[i] = enc
		kv := hx.KV(ans[i])
		c.res.Eval()
		name := strings.Split(k.Cmd, ":")[0]
		c.res.Count("cmd=" + name)
		c.res.Count("mode=" + k.Mode)
		c.res.Class(name + "/" + k.Mode + "/fits=" + kv["fits"])
		if i%2003 == 0 {
			c.res.Sample(k)
		}
		if enc != kv["model"] {
			c.res.Add(hx.Finding{Kind: "mismatch", Engine: "mac", Signature: "mac-encode:" + name, Case: k, Impl: enc, Model: kv["model"], Spec: kv["spec"]})
		}
		if kv["fits"] == "1" {
			if enc != kv["spec"] {
				c.res.Add(hx.Finding{Kind: "propfail", Engine: "mac", Signature: "mac-layout:" + name, Case: k, Impl: enc, Spec: kv["spec"],
					Note: "C13: encoded octets differ from the LoRaWAN layout"})
			} else if fmt.Sprint(len(hx.UnH(enc))) != kv["len"] {
				c.res.Add(hx.Finding{Kind: "propfail", Engine: "mac", Signature: "mac-length:" + name, Case: k, Impl: enc, Spec: kv["len"]})
			}
		}
		body := hx.UnH(kv["spec"])
		if kv["fits"] != "1" {
			body = hx.UnH(kv["model"])
		}
		up := kv["up"] == "1"
		mh := byte(3) << 5
		if up {
			mh = byte(2) << 5
		}
		f := []byte{mh, 1, 2, 3, 4, byte(len(body)), 9, 0}
		f = append(f, body...)
		f = append(f, 0xEE, 0xEE, 0xEE, 0xEE)
		decs = append(decs, dec{i, f})
		dreqs = append(dreqs, "phy.dec "+hx.H(f))
	}
	dans, err := c.lean.Ask(dreqs)
	if err != nil {
		return err
	}
	for j, d := range decs {
		k := cases[d.i]
		kv := hx.KV(ans[d.i])
		name := strings.Split(k.Cmd, ":")[0]
		body := d.frame[8 : len(d.frame)-4]
		impl := implDecodeFOpts(kv["up"] == "1", body)
		c.res.Eval()
		model := "?"
		a := dans[j]
		if sp := strings.Index(a, " spec="); sp >= 0 {
			a = a[:sp]
		}
		if strings.HasPrefix(a, "ok ") {
			model = hx.KV(a)["fopts"]
		} else {
			model = a
		}
		if impl != model {
			c.res.Add(hx.Finding{Kind: "mismatch", Engine: "mac", Signature: "mac-decode:" + name, Case: k, Impl: impl, Model: model})
		}
		if kv["fits"] == "1" && impl != k.Cmd {
			c.res.Add(hx.Finding{Kind: "propfail", Engine: "mac", Signature: "mac-roundtrip:" + name, Case: k, Impl: impl, Spec: k.Cmd,
				Note: "C13: decoding the specified layout does not give the field values back"})
		}
	}
	if aliased != "" {
		c.res.Add(hx.Finding{Kind: "propfail", Engine: "mac", Signature: "mac-decoded-commands-shared", Case: "two frames decoded one after the other", Impl: aliased,
			Note: "C13: the field values of a decoded command changed when another frame was decoded (commands of one identifier share storage)"})
		aliased = ""
	}
	c.res.Rule = "22 commands; exhaustive over all wire-field values when they total <= 12 bits (quick) / <= 16 bits (thorough), otherwise random fitting values + each field <= 16 bits exhaustive with the others random + boundary values; plus values that only fit the Go field type (correspondence only); every case encoded through FOpts/MarshalBinary and decoded through UnmarshalBinary; a class is (command, generator mode, fits)"
	return nil
}

type setCase struct {
	Message int    `json:"message"`
	Max     int    `json:"max"`
	Offers  string `json:"offers"`
}

func runMacSet(c *ctx) error {
	r := c.rng
	var cases []setCase
	n := c.pick(20000, 400000)
	for i := 0; i < n; i++ {
		msg := []int{2, 3, 4, 5, 0, 1, 6, 7}[r.Intn(8)]
		if r.Intn(4) != 0 {
			msg = []int{2, 3, 4, 5}[r.Intn(4)]
		}
		max := r.Intn(17)
		if r.Intn(5) == 0 {
			max = 255
		}
		k := r.Intn(8)
		offers := []string{}
		for j := 0; j < k; j++ {
			sp := &cmdSpecs[r.Intn(len(cmdSpecs))]
			// mostly the set's own direction
			if r.Intn(4) != 0 {
				for tries := 0; tries < 8 && sp.uplink != (msg == 0 || msg == 2 || msg == 4); tries++ {
					sp = &cmdSpecs[r.Intn(len(cmdSpecs))]
				}
			}
			offers = append(offers, randCmdText(r, sp, 0))
		}
		o := "-"
		if len(offers) > 0 {
			o = strings.Join(offers, ",")
		}
		cases = append(cases, setCase{msg, max, o})
	}
	// every subset and insertion order of three commands of lengths 1,2,3 under limits 0..6
	base := []string{"LinkCheckReq", "LinkADRAns:1:0:1", "DevStatusAns:200:33"}
	perms := [][]int{{0, 1, 2}, {0, 2, 1}, {1, 0, 2}, {1, 2, 0}, {2, 0, 1}, {2, 1, 0}}
	for max := 0; max <= 15; max++ {
		for mask := 1; mask < 8; mask++ {
			for _, pm := range perms {
				o := []string{}
				for _, ix := range pm {
					if mask&(1<<uint(ix)) != 0 {
						o = append(o, base[ix])
					}
				}
				cases = append(cases, setCase{2, max, strings.Join(o, ",")})
			}
		}
	}
	reqs := make([]string, len(cases))
	for i, k := range cases {
		reqs[i] = fmt.Sprintf("set.ops %d %d %s", k.Message, k.Max, k.Offers)
	}
	ans, err := c.lean.Ask(reqs)
	if err != nil {
		return err
	}
	for i, k := range cases {
		c.res.Eval()
		impl := "panic"
		var list []protocol.MACCommand
		encLen := -1
		okState := false
		func() {
			defer func() { recover() }()
			s := protocol.NewMACCommandSet(protocol.MType(k.Message), k.Max)
			flags := ""
			if k.Offers != "-" {
				for _, t := range strings.Split(k.Offers, ",") {
					cmd, err := cmdFromText(t)
					if err != nil {
						impl = "bad"
						return
					}
					if s.Add(cmd) {
						flags += "1"
					} else {
						flags += "0"
					}
				}
			}
			if flags == "" {
				flags = "-"
			}
			list = s.List()
			impl = fmt.Sprintf("flags=%s list=%s len=%d size=%d", flags, cmdsText(list), s.EncodedLength(), s.Size())
			// two listings must agree (deterministic order)
			if cmdsText(s.List()) != cmdsText(list) {
				impl += " nondeterministic-list"
			}
			okState = true
			// what the set writes when it is a frame's FOpts
			if s.EncodedLength() <= 15 && (k.Message >= 2 && k.Message <= 5) {
				p := protocol.NewPHYPayload(protocol.MType(k.Message))
				p.MACPayload.FHDR.FOpts = s
				if b, err := p.MarshalBinary(); err == nil {
					encLen = len(b) - 12
					if int(b[5]&0xf) != s.EncodedLength() {
						encLen = -100 - int(b[5]&0xf)
					}
				}
			}
		}()
		c.res.Count(fmt.Sprintf("max=%d", k.Max))
		c.res.Class(fmt.Sprintf("msg=%d max=%d n=%d", k.Message, k.Max, strings.Count(k.Offers, ",")+1))
		if i%4001 == 0 {
			c.res.Sample(k)
		}
		if impl != ans[i] {
			c.res.Add(hx.Finding{Kind: "mismatch", Engine: "macset", Signature: "set-ops", Case: k, Impl: impl, Model: ans[i]})
		}
		if !okState {
			if impl == "panic" {
				c.res.Add(hx.Finding{Kind: "propfail", Engine: "macset", Signature: "set-panic", Case: k, Impl: impl})
			}
			continue
		}
		// oracle: limit, direction, order, reported length
		bad := []string{}
		total := 0
		upl := k.Message == 0 || k.Message == 2 || k.Message == 4
		ids := []int{}
		for _, cmd := range list {
			total += cmd.Length()
			if cmd.Uplink() != upl {
				bad = append(bad, "holds a command of the other direction: "+cmdText(cmd))
			}
			ids = append(ids, int(cmd.ID()))
		}
		if total > k.Max {
			bad = append(bad, fmt.Sprintf("holds %d bytes, limit %d", total, k.Max))
		}
		if !sort.IntsAreSorted(ids) {
			bad = append(bad, "List() not in CID order")
		}
		if hx.KV(impl)["len"] != fmt.Sprint(total) {
			bad = append(bad, fmt.Sprintf("EncodedLength %s but the listed commands take %d", hx.KV(impl)["len"], total))
		}
		if encLen != -1 && encLen != total {
			bad = append(bad, fmt.Sprintf("writes %d bytes as FOpts, reports %d", encLen, total))
		}
		if strings.Contains(impl, "nondeterministic") {
			bad = append(bad, "List() order changes between calls")
		}
		if len(bad) > 0 {
			c.res.Add(hx.Finding{Kind: "propfail", Engine: "macset", Signature: "set-invariant", Case: k, Impl: impl, Note: "C13: " + strings.Join(bad, "; ")})
		}
	}
	_ = binary.LittleEndian
	c.res.Rule = "random offer sequences (0..7 commands, both directions, repeated CIDs) to sets of every limit 0..16 and 255 and every message type, plus every subset and insertion order of three commands under every limit 0..15; a class is (message type, limit, number of offers)"
	return nil
}
