package main

import (
	"fmt"
	"strings"
	"sync"
	"time"

	"github.com/lab5e/lospan/pkg/server"

	"lospanverif/internal/hx"
)

func init() {
	engines["router"] = runRouter
	engines["routerconc"] = runRouterConc
}

func drain(ch <-chan int) (vals []int, closed bool) {
	for {
		select {
		case v, ok := <-ch:
			if !ok {
				return vals, true
			}
			vals = append(vals, v)
		default:
			return vals, false
		}
	}
}

func intsText(v []int) string {
	if len(v) == 0 {
		return "-"
	}
	p := make([]string, len(v))
	for i, x := range v {
		p[i] = fmt.Sprint(x)
	}
	return strings.Join(p, ",")
}

// runRouter: sequential operation sequences against the real EventRouter and the Lean model.
func runRouter(c *ctx) error {
	r := c.rng
	const capLen = 5
	nseq := c.pick(2500, 60000)
	for seq := 0; seq < nseq; seq++ {
		router := server.NewEventRouter[int, int](capLen)
		var chans []<-chan int
		var ids []int
		pending := map[int]int{}
		open := map[int]bool{}
		reqs := []string{"rt.reset"}
		impl := []string{"ok"}
		nops := 5 + r.Intn(30)
		ev := 1000 * (seq % 1000)
		panicked := ""
		func() {
			defer func() {
				if x := recover(); x != nil {
					panicked = fmt.Sprint(x)
				}
			}()
			for k := 0; k < nops; k++ {
				switch op := r.Intn(10); {
				case op < 2 || len(chans) == 0:
					id := r.Intn(4)
					ch := router.Subscribe(id)
					chans = append(chans, ch)
					ids = append(ids, id)
					open[len(chans)-1] = true
					reqs = append(reqs, fmt.Sprintf("rt.sub %d", id))
					impl = append(impl, fmt.Sprintf("ch=%d", len(chans)-1))
				case op == 2:
					i := r.Intn(len(chans) + 1) // sometimes a channel that was never subscribed
					if i < len(chans) {
						router.Unsubscribe(chans[i])
						open[i] = false
					} else {
						router.Unsubscribe(make(chan int))
					}
					reqs = append(reqs, fmt.Sprintf("rt.unsub %d", i))
					impl = append(impl, "ok")
				case op < 7:
					id := r.Intn(4)
					// keep every subscriber of id reading so the publisher never waits for the 10 s escape
					for i := range chans {
						if open[i] && ids[i] == id && pending[i] >= capLen {
							v, cl := drain(chans[i])
							pending[i] = 0
							reqs = append(reqs, fmt.Sprintf("rt.read %d", i))
							impl = append(impl, fmt.Sprintf("new=%s closed=%s", intsText(v), b01(cl)))
						}
					}
					ev++
					router.Publish(id, ev)
					for i := range chans {
						if open[i] && ids[i] == id {
							pending[i]++
						}
					}
					reqs = append(reqs, fmt.Sprintf("rt.pub %d %d", id, ev))
					impl = append(impl, "ok")
				default:
					i := r.Intn(len(chans))
					v, cl := drain(chans[i])
					pending[i] = 0
					reqs = append(reqs, fmt.Sprintf("rt.read %d", i))
					impl = append(impl, fmt.Sprintf("new=%s closed=%s", intsText(v), b01(cl)))
				}
			}
			for i := range chans {
				v, cl := drain(chans[i])
				reqs = append(reqs, fmt.Sprintf("rt.read %d", i))
				impl = append(impl, fmt.Sprintf("new=%s closed=%s", intsText(v), b01(cl)))
			}
		}()
		if panicked != "" {
			c.res.Add(hx.Finding{Kind: "propfail", Engine: "router", Signature: "router-panic", Case: reqs, Impl: panicked, Note: "C20: router panicked"})
			impl = impl[:min(len(impl), len(reqs))]
			reqs = reqs[:len(impl)]
		}
		ans, err := c.lean.Ask(reqs)
		if err != nil {
			return err
		}
		for i := range reqs {
			c.res.Eval()
			c.res.Count(strings.Fields(reqs[i])[0])
			if impl[i] != ans[i] {
				c.res.Add(hx.Finding{Kind: "mismatch", Engine: "router", Signature: "router-seq", Case: reqs[:i+1], Impl: impl[i], Model: ans[i]})
				// the model is proved to deliver exactly the owed events (C20_delivery): a different
				// delivery is a violation
				c.res.Add(hx.Finding{Kind: "propfail", Engine: "router", Signature: "router-delivery", Case: reqs[:i+1], Impl: impl[i], Spec: ans[i],
					Note: "C20: subscriber received something else than the events published for its identifier while subscribed"})
				break
			}
		}
		c.res.Class(fmt.Sprintf("subs=%d ops=%d", len(chans), nops/5))
		if seq%499 == 0 {
			c.res.Sample(reqs)
		}
	}
	c.res.Rule = "sequences of 5..34 subscribe/unsubscribe (incl. repeated and foreign channels)/publish/read operations over 4 identifiers on a real EventRouter[int,int] with buffer 5, every subscriber drained before its buffer fills; a class is (number of subscriptions, length bucket)"
	return nil
}

type rtLog struct {
	op string
	id int
	ch interface{}
	ev int
}

// runRouterConc: concurrent executions; the verif hook records the order of the critical sections,
// the recorded history is replayed through the Lean model and every reader's view compared.
func runRouterConc(c *ctx) error {
	r := c.rng
	nrun := c.pick(60, 1500)
	// a router that has been alive for a while when it is used (created now, used at the end of the engine)
	aged := server.NewEventRouter[int, int](5)
	agedAt := time.Now()
	stuck := 0 // runs in which a reader had to be given up (each costs a timeout per reader)
	for run := 0; run < nrun && stuck < 3; run++ {
		router := server.NewEventRouter[int, int](5)
		var mu sync.Mutex
		var log []rtLog
		server.VerifRouterHook = func(op string, id any, ch any) {
			// called with the router's lock held: the order here is the linearisation order
			e := rtLog{op: op}
			switch op {
			case "subscribe":
				e.id = id.(int)
				e.ch = ch
			case "unsubscribe":
				e.ch = ch
			case "publish":
				e.id = id.(int)
				e.ev = ch.(int)
			}
			mu.Lock()
			log = append(log, e)
			mu.Unlock()
		}
		type sub struct {
			ch   <-chan int
			got  []int
			done chan struct{}
		}
		var subsMu sync.Mutex
		var subs []*sub
		panicked := make(chan string, 16)
		var wg sync.WaitGroup
		workers := 3 + r.Intn(4)
		seeds := make([]int64, workers)
		for w := range seeds {
			seeds[w] = r.Int63()
		}
		for w := 0; w < workers; w++ {
			wg.Add(1)
			go func(w int) {
				defer wg.Done()
				defer func() {
					if x := recover(); x != nil {
						panicked <- fmt.Sprint(x)
					}
				}()
				lr := hx.NewRng(seeds[w])
				var mine []*sub
				for k := 0; k < 40; k++ {
					switch op := lr.Intn(10); {
					case op < 2:
						s := &sub{ch: router.Subscribe(lr.Intn(3)), done: make(chan struct{})}
						subsMu.Lock()
						subs = append(subs, s)
						subsMu.Unlock()
						mine = append(mine, s)
						go func() { // a subscriber that keeps reading
							for v := range s.ch {
								s.got = append(s.got, v)
							}
							close(s.done)
						}()
					case op == 2 && len(mine) > 0:
						router.Unsubscribe(mine[lr.Intn(len(mine))].ch)
					default:
						router.Publish(lr.Intn(3), w*100000+k)
					}
					if lr.Intn(4) == 0 {
						time.Sleep(time.Duration(lr.Intn(50)) * time.Microsecond)
					}
				}
			}(w)
		}
		wg.Wait()
		// close what is still open so that every reader finishes
		subsMu.Lock()
		all := append([]*sub{}, subs...)
		subsMu.Unlock()
		for _, s := range all {
			router.Unsubscribe(s.ch)
		}
		runStuck := false
		for _, s := range all {
			wait := 5 * time.Second
			if runStuck {
				wait = 200 * time.Millisecond // one reader of this run was already given up
			}
			select {
			case <-s.done:
			case <-time.After(wait):
				c.res.Add(hx.Finding{Kind: "propfail", Engine: "routerconc", Signature: "router-reader-stuck", Case: run, Impl: "a subscriber's channel was never closed"})
				runStuck = true
			}
		}
		if runStuck {
			stuck++
		}
		server.VerifRouterHook = nil
		select {
		case p := <-panicked:
			c.res.Add(hx.Finding{Kind: "propfail", Engine: "routerconc", Signature: "router-panic", Case: fmt.Sprintf("seed=%d run=%d", c.seed, run), Impl: p,
				Note: "C20: panic under concurrent subscribe/unsubscribe/publish"})
			continue
		default:
		}
		// replay the recorded history through the model
		index := map[interface{}]int{}
		reqs := []string{"rt.reset"}
		for _, e := range log {
			switch e.op {
			case "subscribe":
				index[e.ch] = len(index)
				reqs = append(reqs, fmt.Sprintf("rt.sub %d", e.id))
			case "unsubscribe":
				i, ok := index[e.ch]
				if !ok {
					i = 1 << 20
				}
				reqs = append(reqs, fmt.Sprintf("rt.unsub %d", i))
			case "publish":
				reqs = append(reqs, fmt.Sprintf("rt.pub %d %d", e.id, e.ev))
			}
		}
		first := len(reqs)
		for _, s := range all {
			reqs = append(reqs, fmt.Sprintf("rt.read %d", index[s.ch]))
		}
		reqs = append(reqs, "rt.state")
		ans, err := c.lean.Ask(reqs)
		if err != nil {
			return err
		}
		c.res.Eval()
		c.res.Class(fmt.Sprintf("workers=%d subs=%d", workers, len(all)/3))
		c.res.Count(fmt.Sprintf("workers=%d", workers))
		for j, s := range all {
			want := ans[first+j]
			got := fmt.Sprintf("new=%s closed=1", intsText(s.got))
			if got != want {
				c.res.Add(hx.Finding{Kind: "mismatch", Engine: "routerconc", Signature: "router-conc", Case: reqs[:first], Impl: got, Model: want})
				c.res.Add(hx.Finding{Kind: "propfail", Engine: "routerconc", Signature: "router-conc-delivery", Case: reqs[:first], Impl: got, Spec: want,
					Note: "C20: under concurrency a subscriber's events differ from the sequential model in lock order"})
				break
			}
		}
		if !strings.Contains(ans[len(ans)-1], "bad=0") {
			c.res.Add(hx.Finding{Kind: "propfail", Engine: "routerconc", Signature: "router-send-on-closed", Case: reqs[:first], Impl: ans[len(ans)-1]})
		}
		if run%37 == 0 {
			c.res.Sample(reqs[:min(len(reqs), 30)])
		}
	}
	// ---- the aged router: more than ten seconds after its creation a subscriber falls briefly behind
	// (its buffer is full when the next event is published, it resumes reading a moment later). It
	// keeps reading, so it must get every event, in order.
	if stuck == 0 {
		if d := 10300*time.Millisecond - time.Since(agedAt); d > 0 {
			time.Sleep(d)
		}
		ch := aged.Subscribe(7)
		var got []int
		fin := make(chan struct{})
		go func() {
			time.Sleep(300 * time.Millisecond)
			for v := range ch {
				got = append(got, v)
			}
			close(fin)
		}()
		pubDone := make(chan struct{})
		go func() {
			for ev := 1; ev <= 8; ev++ {
				aged.Publish(7, ev)
			}
			close(pubDone)
		}()
		select {
		case <-pubDone:
		case <-time.After(15 * time.Second):
		}
		time.Sleep(100 * time.Millisecond)
		aged.Unsubscribe(ch)
		select {
		case <-fin:
		case <-time.After(5 * time.Second):
		}
		c.res.Eval()
		c.res.Count("aged-router")
		c.res.Class("aged-router")
		if intsText(got) != intsText([]int{1, 2, 3, 4, 5, 6, 7, 8}) {
			c.res.Add(hx.Finding{Kind: "propfail", Engine: "routerconc", Signature: "router-delivery-aged",
				Case: "a router created 10.3 s earlier; Subscribe(7) with buffer 5; the reader starts 300 ms after 8 events are published in a row, then reads without pause",
				Impl: intsText(got), Spec: "1,2,3,4,5,6,7,8",
				Note: "C20: a subscriber that keeps reading did not receive every event published for its identifier, in order"})
		}
	}
	c.res.Rule = "3..6 goroutines x 40 random subscribe/unsubscribe/publish operations over 3 identifiers with randomised pauses, every subscriber read by its own goroutine; the order of critical sections recorded by the verif router hook is replayed through the Lean model and every subscriber's received sequence compared; one router is used only when it is more than ten seconds old, by a subscriber that falls behind by one buffer and then keeps reading; a class is (workers, subscription count bucket)"
	return nil
}
