package main

import (
	"fmt"
	"strings"

	"github.com/lab5e/lospan/pkg/protocol"

	"lospanverif/internal/hx"
)

func init() { engines["uplink"] = runUplink }

type upCase struct {
	Req string `json:"device_frame_fields"`
}

// runUplink: C02, codec level. The Lean Spec device builds the frame (FRMPayload encrypted in
// counter mode with AppSKey, MIC per §4.4, arbitrary FOpts octets); the library must decode it,
// verify the MIC over exactly the received bytes and recover exactly the plaintext and port.
func runUplink(c *ctx) error {
	r := c.rng
	var cases []upCase
	addrs := []uint32{0, 1, 0x7fffffff, 0x80000000, 0xffffffff, 0x01020304}
	fcnts := []int{0, 1, 255, 256, 32767, 32768, 65534, 65535}
	mk := func(n int, port int) {
		mt := []int{2, 4}[r.Intn(2)]
		addr := r.Uint32()
		if r.Intn(3) == 0 {
			addr = addrs[r.Intn(len(addrs))]
		}
		fcnt := r.Intn(65536)
		if r.Intn(3) == 0 {
			fcnt = fcnts[r.Intn(len(fcnts))]
		}
		fol := []int{0, 0, 1, 2, 3, 7, 15, r.Intn(16)}[r.Intn(8)]
		var fopts []byte
		if r.Intn(2) == 0 {
			fopts = macLike(r, fol, true)
		} else {
			fopts = r.Bytes(fol)
		}
		if n+fol > 242 {
			n = 242 - fol
		}
		ports := "none"
		if port >= 0 {
			ports = fmt.Sprint(port)
		}
		cases = append(cases, upCase{fmt.Sprintf("nwk=%s app=%s mt=%d addr=%d adr=%d aar=%d ack=%d b4=%d fcnt=%d fopts=%s port=%s plain=%s",
			hx.H(r.Key16()), hx.H(r.Key16()), mt, addr, r.Intn(2), r.Intn(2), r.Intn(2), r.Intn(2), fcnt, hx.H(fopts), ports, hx.H(r.Bytes(n)))})
	}
	// every length 0..242 (length 0 both without FPort and with FPort and an empty FRMPayload)
	for rep := 0; rep < c.pick(4, 40); rep++ {
		for n := 1; n <= 242; n++ {
			mk(n, 1+r.Intn(223))
		}
		mk(0, -1)
		mk(0, 1+r.Intn(223)) // FPort present, empty FRMPayload
	}
	// every port 1..223
	for rep := 0; rep < c.pick(2, 30); rep++ {
		for port := 1; port <= 223; port++ {
			mk([]int{1, 15, 16, 17, 32, 51, 1 + r.Intn(242)}[r.Intn(7)], port)
		}
	}
	for i := 0; i < c.pick(2000, 100000); i++ {
		mk(1+r.Intn(242), 1+r.Intn(223))
	}
	reqs := make([]string, len(cases))
	for i, k := range cases {
		reqs[i] = "dev.tx " + k.Req
	}
	ans, err := c.lean.Ask(reqs)
	if err != nil {
		return err
	}
	for i, k := range cases {
		c.res.Eval()
		a := ans[i]
		sp := strings.Index(a, " ")
		frame := hx.UnH(strings.TrimPrefix(a[:sp], "frame="))
		model := a[sp+1:]
		want := fmt.Sprintf("ok mic=1 port=%s plain=%s", strings.Replace(kvGet(k.Req, "port"), "none", "0", 1), kvGet(k.Req, "plain"))
		impl := "panic"
		func() {
			defer func() { recover() }()
			p := protocol.NewPHYPayload(protocol.Proprietary)
			if err := p.UnmarshalBinary(frame); err != nil {
				impl = errName(err)
				return
			}
			var nk, ak protocol.AESKey
			copy(nk.Key[:], hx.UnH(kvGet(k.Req, "nwk")))
			copy(ak.Key[:], hx.UnH(kvGet(k.Req, "app")))
			mic, err := p.CalculateMIC(nk, frame[:len(frame)-4])
			if err != nil {
				impl = "err:mic-calc"
				return
			}
			p.Decrypt(nk, ak)
			impl = fmt.Sprintf("ok mic=%s port=%d plain=%s", b01(mic == p.MIC), p.MACPayload.FPort, hx.H(p.MACPayload.FRMPayload))
		}()
		n := len(hx.UnH(kvGet(k.Req, "plain")))
		c.res.Count(fmt.Sprintf("len%%16=%d", n%16))
		c.res.Class(fmt.Sprintf("len=%d fol=%d", n, len(hx.UnH(kvGet(k.Req, "fopts")))))
		if i%1777 == 0 {
			c.res.Sample(k)
		}
		if impl != model {
			c.res.Add(hx.Finding{Kind: "mismatch", Engine: "uplink", Signature: "uplink-codec", Case: k, Impl: impl, Model: model, Spec: want})
		}
		if impl != want {
			c.res.Add(hx.Finding{Kind: "propfail", Engine: "uplink", Signature: "uplink-not-recovered", Case: k, Impl: impl, Spec: want,
				Note: "C02: a conformant device's frame (" + hx.H(frame) + ") is not accepted / verified / decrypted to its plaintext"})
		}
	}
	c.res.Rule = "frames built by the Lean LoRaWAN device (Spec.Lorawan.buildFrame): every payload length 1..242 and the empty frame, every port 1..223, both uplink types, all flag combinations, boundary and random addresses (top bit set) and counters, FOpts of known/unknown/random octets, structured+random keys; a class is (payload length, FOptsLen)"
	return nil
}
