package main

import (
	"fmt"
	"sort"
	"strings"

	"github.com/lab5e/lospan/pkg/protocol"

	"lospanverif/internal/hx"
)

// The reference observer of a sequential history. It knows only what the harness did as the
// outside world (which frames a conformant device sent, what the application queued) and judges
// what the server shows (inbox, outbox flags, frames handed to the gateway, application events)
// directly against the property texts C02, C03, C06, C07, C08, C09. It does not use the Lean
// pipeline model, so it keeps judging after the correspondence with the model has broken: that
// is the search for a failing history.

type refMsg struct {
	created int64
	port    int
	data    []byte
	ack     bool
	sent    bool
	acked   bool
	tx      int
}

type refDev struct {
	fcntDn    int  // next downlink counter of the session
	rows      int  // inbox rows seen so far
	off       bool // judgement of the downlink side suspended (counter exhausted)
	pieces    bool // a message over the data-rate limit is being sent in pieces: content, order and counters are outside C06's quantifier from here on, C09 (answer count, ACK bit) is not
	exhausted bool // the uplink counter reached 65535
	msgs      []*refMsg
	session   string
}

type refEvent struct {
	kind      string // "uplink" | "noeffect" | "join" | "other"
	d         *simDev
	fc        int
	confirmed bool
	ackFlag   bool
	hasPort   bool
	plain     []byte
	dr        string
	accept    bool // by the property: strict => fc >= expected; relaxed => always
	radio     string
	gw        string
}

func (h *seqHistory) ref(d *simDev) *refDev {
	if h.refs == nil {
		h.refs = map[protocol.EUI]*refDev{}
	}
	r := h.refs[d.eui]
	if r == nil {
		r = &refDev{}
		h.refs[d.eui] = r
	}
	return r
}

func (h *seqHistory) refFail(sig, note, impl, want string) {
	h.fail("propfail", sig, note, impl, want)
}

type seenDown struct {
	raw   string
	mt    int
	ack   bool
	fcnt  int
	port  string
	plain string
}

// refCheck judges the state reached after the event `ev`.
func (h *seqHistory) refCheck(ev *refEvent, impl string) {
	if ev == nil || impl == "" {
		return
	}
	sec := stateSections(impl)
	lines := func(k string) []string {
		if sec[k] == "-" || sec[k] == "" {
			return nil
		}
		return strings.Split(sec[k], ";")
	}
	// ---- inbox rows per device
	rows := map[string][]string{}
	for _, l := range lines("inbox") {
		f := strings.Fields(l)
		if len(f) > 1 {
			rows[f[1]] = append(rows[f[1]], l)
		}
	}
	// ---- frames handed to the gateway, attributed to the device whose keys verify them
	downs := map[protocol.EUI][]seenDown{}
	foreign := 0
	joinAccepts := 0
	for _, l := range lines("emitted") {
		f := strings.Fields(l)
		if len(f) < 2 {
			continue
		}
		raw := hx.UnH(f[1])
		if len(raw) > 0 && raw[0]>>5 == 1 {
			joinAccepts++
			continue
		}
		owner := false
		for _, d := range h.devs {
			if !d.joined {
				continue
			}
			a, err := ask1(h.c, fmt.Sprintf("dev.rx %s %s %s", hx.H(d.nwk.Key[:]), hx.H(d.apps.Key[:]), f[1]))
			if err != nil || !strings.HasPrefix(a, "mic=1") {
				continue
			}
			kv := hx.KV(a)
			sp := strings.Join(strings.Fields(a)[2:], " ")
			if specField(sp, "addr") != fmt.Sprint(d.addr) {
				continue
			}
			pl := kv["plain"]
			if pl == "-" {
				pl = ""
			}
			downs[d.eui] = append(downs[d.eui], seenDown{raw: f[1], mt: atoi(specField(sp, "mt")), ack: specField(sp, "ack") == "1", fcnt: atoi(specField(sp, "fcnt")),
				port: specField(sp, "port"), plain: pl})
			owner = true
			break
		}
		if !owner {
			foreign++
		}
	}
	if foreign > 0 {
		h.refFail("downlink-for-nobody", "C06: a frame was handed to the gateway that no registered device can verify under its address and network session key", sec["emitted"], "")
	}
	// ---- what the store reports about the queued messages (C08)
	type flags struct{ sent, acked bool }
	rep := map[string]flags{}
	for _, l := range lines("outbox") {
		f := strings.Fields(l)
		if len(f) < 3 {
			continue
		}
		kv := hx.KV(strings.Join(f[2:], " "))
		rep[f[1]+"/"+kv["created"]] = flags{kv["sent"] == "+", kv["acked"] == "+"}
	}
	pub := lines("published")
	for _, d := range h.devs {
		r := h.ref(d)
		e := hx.H(d.eui.Octets[:])
		newRows := len(rows[e]) - r.rows
		isEv := ev.d == d
		if ev.kind == "other" {
			r.rows = len(rows[e])
			continue
		}
		// ---------- the device the event was not about: nothing may happen to it
		if !isEv || ev.kind == "noeffect" || (ev.kind == "uplink" && !ev.accept) {
			why := "the event concerned another device"
			if isEv {
				why = "the frame was not acceptable (" + ev.kind + ")"
			}
			if newRows != 0 {
				sig := "effect-on-other-device"
				if isEv && ev.kind == "uplink" {
					sig = "old-counter-recorded"
				}
				h.refFail(sig, fmt.Sprintf("C03/C01: %d new inbox row(s) for %s although %s", newRows, d.eui, why), strings.Join(rows[e], ";"), fmt.Sprintf("%d rows", r.rows))
			}
			if len(downs[d.eui]) != 0 && !(isEv && ev.kind == "join") {
				h.refFail("unexpected-downlink", fmt.Sprintf("C06/C09: a downlink for %s was emitted although %s", d.eui, why), downs[d.eui][0].raw, "none")
			}
			r.rows = len(rows[e])
			continue
		}
		if ev.kind != "uplink" {
			r.rows = len(rows[e])
			continue
		}
		// ---------- an accepted uplink of d
		if newRows != 1 {
			h.refFail("uplink-not-recorded-once", fmt.Sprintf("C02/C03: an acceptable uplink (fcnt %d) of %s produced %d inbox rows", ev.fc, d.eui, newRows), strings.Join(rows[e], ";"), "exactly one new row")
		} else {
			// (a frame without a port carries no payload: what is recorded and published is empty, not
			// something left over from an earlier frame)
			if !ev.hasPort {
				ev.plain = nil
			}
			want := fmt.Sprintf("data=%s gw=%s addr=%d radio=%s", hx.H(ev.plain), ev.gw, d.addr, ev.radio)
			found := false
			for _, l := range rows[e] {
				if strings.HasSuffix(l, want) {
					found = true
				}
			}
			if !found {
				h.refFail("uplink-not-recovered", "C02: the inbox does not hold the device's plaintext with the reception's gateway and radio metadata", strings.Join(rows[e], ";"), want)
			}
			wantP := fmt.Sprintf("dev=%s payload=%s", e, hx.H(ev.plain))
			np := 0
			for _, p := range pub {
				if strings.HasSuffix(p, wantP) {
					np++
				}
			}
			if np != 1 || len(pub) != 1 {
				h.refFail("application-event", "C02: the application did not receive exactly the device's plaintext once", strings.Join(pub, ";"), wantP)
			}
		}
		r.rows = len(rows[e])
		if r.off {
			continue
		}
		if r.pieces {
			// C09 for a device whose answers are pieces of an over-long message: at most one answer per
			// accepted uplink, exactly one for a confirmed uplink, and the ACK flag exactly then (it is
			// never repeated on a later piece)
			ds := downs[d.eui]
			if len(ds) > 1 || (ev.confirmed && len(ds) != 1) {
				h.refFail("answer-count", fmt.Sprintf("C09: accepted uplink fcnt %d of %s (confirmed=%v, pieces of an over-long message pending) was answered by %d downlinks", ev.fc, d.eui, ev.confirmed, len(ds)), fmt.Sprint(len(ds)), "1")
			} else if len(ds) == 1 && ds[0].ack != ev.confirmed {
				h.refFail("ack-bit", fmt.Sprintf("C09: ACK bit of the answer is %v for an uplink with confirmed=%v (piece of an over-long message)", ds[0].ack, ev.confirmed), ds[0].raw, "")
			}
			continue
		}
		// life-cycle of the queued messages (C08), then the answer (C06, C09, C07).
		// An uplink with the ACK flag may acknowledge a transmitted confirmed message (the server
		// matches it to the transmission by the uplink counter, so after a lost frame it may not:
		// "only after", not "whenever") - what the store reports decides; an uplink without the flag
		// makes every transmitted, unacknowledged confirmed message due again.
		for _, m := range r.msgs {
			if m.sent && !m.acked {
				if ev.ackFlag {
					// (the store also stamps an unconfirmed message that was transmitted just before
					// an ACK uplink; C08 speaks about messages that request acknowledgement only)
					if g, ok := rep[fmt.Sprintf("%s/%d", e, m.created)]; ok && g.acked {
						m.acked = true
					}
				} else if m.ack {
					m.sent = false
				}
			}
		}
		var next *refMsg
		for _, m := range r.msgs {
			if !m.sent {
				next = m // oldest first; a retransmission is older than any message not yet sent
				break
			}
		}
		ds := downs[d.eui]
		if next != nil && len(next.data) > drLimit[ev.dr] {
			// over the limit of this uplink's data rate: outside C06's quantifier (the message is sent
			// in pieces); C09 still holds for this answer: one frame, ACK exactly for a confirmed uplink
			r.pieces = true
			if len(ds) != 1 {
				h.refFail("answer-count", fmt.Sprintf("C09: accepted uplink fcnt %d of %s (over-long message pending) was answered by %d downlinks", ev.fc, d.eui, len(ds)), fmt.Sprint(len(ds)), "1")
			} else if ds[0].ack != ev.confirmed {
				h.refFail("ack-bit", fmt.Sprintf("C09: ACK bit of the answer is %v for an uplink with confirmed=%v (over-long message pending)", ds[0].ack, ev.confirmed), ds[0].raw, "")
			}
			continue
		}
		wantFrames := 0
		if next != nil || ev.confirmed {
			wantFrames = 1
		}
		if len(ds) != wantFrames {
			what := "nothing pending"
			if next != nil {
				what = fmt.Sprintf("message created=%d pending", next.created)
			}
			if ev.confirmed {
				what += ", uplink confirmed"
			}
			h.refFail("answer-count", fmt.Sprintf("C09/C06: accepted uplink fcnt %d of %s (%s) was answered by %d downlinks", ev.fc, d.eui, what, len(ds)), fmt.Sprint(len(ds)), fmt.Sprint(wantFrames))
			continue
		}
		if wantFrames == 0 {
			continue
		}
		got := ds[0]
		if got.fcnt != r.fcntDn%65536 {
			h.refFail("downlink-fcnt", fmt.Sprintf("C07: downlink to %s carries counter %d, the session stands at %d", d.eui, got.fcnt, r.fcntDn), fmt.Sprint(got.fcnt), fmt.Sprint(r.fcntDn))
		}
		r.fcntDn++
		if r.fcntDn >= 65536 {
			r.off = true // counter exhausted
		}
		if got.ack != ev.confirmed {
			h.refFail("ack-bit", fmt.Sprintf("C09: ACK bit of the answer is %v for an uplink with confirmed=%v", got.ack, ev.confirmed), got.raw, "")
		}
		if next == nil {
			// (the frame type of an empty answer is not prescribed by C06/C09: the server re-uses the
			// type of the last message it sent to the device)
			if got.port != "none" || got.plain != "" {
				h.refFail("ack-only-frame", "C09/C06: nothing was queued, the answer must be an empty downlink with ACK", got.raw, "")
			}
			continue
		}
		wantMt := 3
		if next.ack {
			wantMt = 5
		}
		if got.port != fmt.Sprint(next.port) || got.plain != hx.H(next.data) || got.mt != wantMt {
			h.refFail("downlink-content", fmt.Sprintf("C06/C08: the answer must carry the message created=%d (port %d, %d bytes, confirmed=%v)", next.created, next.port, len(next.data), next.ack),
				fmt.Sprintf("mt=%d port=%s plain=%s", got.mt, got.port, got.plain), fmt.Sprintf("mt=%d port=%d plain=%s", wantMt, next.port, hx.H(next.data)))
		}
		next.sent = true
		next.tx++
	}
	for _, d := range h.devs {
		r := h.ref(d)
		if r.off || r.pieces {
			continue
		}
		for _, m := range r.msgs {
			k := fmt.Sprintf("%s/%d", hx.H(d.eui.Octets[:]), m.created)
			g, ok := rep[k]
			if !ok {
				h.refFail("message-lost", "C18/C08: a queued message is no longer listed", k, "")
				continue
			}
			if g.acked && !m.acked {
				h.refFail("acked-without-ack", fmt.Sprintf("C08: message created=%d of %s is reported acknowledged without an ACK uplink after a transmission", m.created, d.eui), "acked", "not acked")
			}
			// "sent" is cleared again while a retransmission is due: only the never-transmitted case is judged
			if g.sent && m.tx == 0 {
				h.refFail("sent-without-uplink", fmt.Sprintf("C08: message created=%d of %s is reported sent although it was never transmitted", m.created, d.eui), "sent", "unsent")
			}
		}
	}
}

func (h *seqHistory) refSubmit(d *simDev, m queuedMsg) {
	r := h.ref(d)
	r.msgs = append(r.msgs, &refMsg{created: m.created, port: m.port, data: m.data, ack: m.ack})
	sort.SliceStable(r.msgs, func(i, j int) bool { return r.msgs[i].created < r.msgs[j].created })
}
