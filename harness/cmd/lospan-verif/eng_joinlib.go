package main

import (
	"fmt"

	"github.com/lab5e/lospan/pkg/protocol"

	"lospanverif/internal/hx"
)

func init() { engines["joinlib"] = runJoinLib }

// runJoinLib: C04, library level. The device-side join-request encoder and join-accept decoder
// and the server-side join-accept encoder against the Lean spec device and the model.
func runJoinLib(c *ctx) error {
	r := c.rng
	n := c.pick(3000, 60000)
	type jc struct {
		Kind string `json:"kind"`
		Req  string `json:"req"`
	}
	for i := 0; i < n; i++ {
		c.res.Eval()
		var appKey protocol.AESKey
		copy(appKey.Key[:], r.Key16())
		if i%2 == 0 {
			// join-request encoder
			p := protocol.NewPHYPayload(protocol.JoinRequest)
			copy(p.JoinRequestPayload.AppEUI.Octets[:], r.Bytes(8))
			copy(p.JoinRequestPayload.DevEUI.Octets[:], r.Bytes(8))
			if r.Intn(4) == 0 {
				p.JoinRequestPayload.DevEUI.Octets[0] |= 0x80
				p.JoinRequestPayload.AppEUI.Octets[r.Intn(8)] = 0
			}
			p.JoinRequestPayload.DevNonce = uint16([]int{0, 1, 0xffff, 0x8000, 0x00ff, 0xff00, r.Intn(65536)}[r.Intn(7)])
			req := fmt.Sprintf("join.tx appkey=%s app=%s dev=%s nonce=%s", hx.H(appKey.Key[:]), hx.H(wire(p.JoinRequestPayload.AppEUI)), hx.H(wire(p.JoinRequestPayload.DevEUI)),
				hx.H([]byte{byte(p.JoinRequestPayload.DevNonce >> 8), byte(p.JoinRequestPayload.DevNonce)}))
			impl := "panic"
			func() {
				defer func() { recover() }()
				b, err := p.EncodeJoinRequest(appKey)
				if err != nil {
					impl = errName(err)
					return
				}
				impl = "frame=" + hx.H(b)
			}()
			a, err := ask1(c, req)
			if err != nil {
				return err
			}
			c.res.Class(fmt.Sprintf("jr nonce=%d", p.JoinRequestPayload.DevNonce>>12))
			if impl != a {
				c.res.Add(hx.Finding{Kind: "propfail", Engine: "joinlib", Signature: "join-request-encoder", Case: jc{"join-request", req}, Impl: impl, Spec: a,
					Note: "C04: EncodeJoinRequest differs from the LoRaWAN 1.0 join-request"})
			}
			if i%1001 == 0 {
				c.res.Sample(jc{"join-request", req})
			}
			continue
		}
		// join-accept: server encoder, spec device, library device decoder
		an := r.Bytes(3)
		netid := r.Intn(1 << 24)
		nwkid, nwkaddr := r.Intn(128), r.Intn(1<<25)
		rx1, rx2, rxd := r.Intn(8), r.Intn(16), r.Intn(256)
		p := protocol.NewPHYPayload(protocol.JoinAccept)
		copy(p.JoinAcceptPayload.AppNonce[:], an)
		p.JoinAcceptPayload.NetID = uint32(netid)
		p.JoinAcceptPayload.DevAddr = protocol.DevAddr{NwkID: uint8(nwkid), NwkAddr: uint32(nwkaddr)}
		p.JoinAcceptPayload.DLSettings = protocol.DLSettings{RX1DRoffset: uint8(rx1), RX2DataRate: uint8(rx2)}
		p.JoinAcceptPayload.RxDelay = uint8(rxd)
		req := fmt.Sprintf("join.enc appkey=%s an=%s netid=%d nwkid=%d nwkaddr=%d rx1=%d rx2=%d rxd=%d", hx.H(appKey.Key[:]), hx.H(an), netid, nwkid, nwkaddr, rx1, rx2, rxd)
		impl := "panic"
		var raw []byte
		func() {
			defer func() { recover() }()
			b, err := p.EncodeJoinAccept(appKey)
			if err != nil {
				impl = errName(err)
				return
			}
			raw = b
			impl = "ok " + hx.H(b)
		}()
		a, err := ask1(c, req)
		if err != nil {
			return err
		}
		c.res.Class(fmt.Sprintf("ja nwkid=%d", nwkid>>4))
		if impl != a {
			c.res.Add(hx.Finding{Kind: "mismatch", Engine: "joinlib", Signature: "join-accept-encoder", Case: jc{"join-accept", req}, Impl: impl, Model: a})
		}
		if raw == nil {
			continue
		}
		sp, err := ask1(c, fmt.Sprintf("join.rx appkey=%s nonce=0000 raw=%s", hx.H(appKey.Key[:]), hx.H(raw)))
		if err != nil {
			return err
		}
		want := fmt.Sprintf("an=%s netid=%s addr=%d dl=%d rxd=%d", hx.H(an), hx.H([]byte{byte(netid >> 16), byte(netid >> 8), byte(netid)}), uint32(nwkid)<<25|uint32(nwkaddr), rx1<<4|rx2, rxd)
		if sp == "none" || fmt.Sprintf("an=%s netid=%s addr=%s dl=%s rxd=%s", hx.KV(sp)["an"], hx.KV(sp)["netid"], hx.KV(sp)["addr"], hx.KV(sp)["dl"], hx.KV(sp)["rxd"]) != want {
			c.res.Add(hx.Finding{Kind: "propfail", Engine: "joinlib", Signature: "join-accept-undecodable", Case: jc{"join-accept", req}, Impl: sp, Spec: want,
				Note: "C04: a conformant device does not recover the join-accept the library encoded"})
		}
		// the library's own device-side decoder
		dec := "panic"
		func() {
			defer func() { recover() }()
			q := protocol.NewPHYPayload(protocol.Proprietary)
			buf := append([]byte{}, raw...)
			if err := q.UnmarshalBinary(buf); err != nil {
				dec = "unmarshal:" + errName(err)
				return
			}
			if err := q.DecodeJoinAccept(appKey, buf); err != nil {
				dec = errName(err)
				return
			}
			j := q.JoinAcceptPayload
			dec = fmt.Sprintf("an=%s netid=%s addr=%d dl=%d rxd=%d", hx.H(j.AppNonce[:]), hx.H([]byte{byte(j.NetID >> 16), byte(j.NetID >> 8), byte(j.NetID)}),
				j.DevAddr.ToUint32(), int(j.DLSettings.RX1DRoffset)<<4|int(j.DLSettings.RX2DataRate), j.RxDelay)
		}()
		if dec != want {
			c.res.Add(hx.Finding{Kind: "propfail", Engine: "joinlib", Signature: "join-accept-decoder", Case: jc{"join-accept", req}, Impl: dec, Spec: want,
				Note: "C04: DecodeJoinAccept disagrees with the specification's device"})
		}
		if i%1001 == 0 {
			c.res.Sample(jc{"join-accept", req})
		}
	}
	c.res.Rule = "random and structured AppKeys; join-requests with EUIs incl. top-bit/zero octets and boundary DevNonces through EncodeJoinRequest vs the Lean spec; join-accepts with random AppNonce/NetID(24 bit)/DevAddr/DLSettings/RxDelay through EncodeJoinAccept vs the model, decoded by the Lean spec device and by DecodeJoinAccept; a class is (kind, nonce / NwkID bucket)"
	return nil
}
