package main

import (
	"bytes"
	"fmt"
	"strings"

	"github.com/lab5e/lospan/pkg/protocol"

	"lospanverif/internal/hx"
)

func init() {
	engines["phyenc"] = runPhyEnc
}

type encCase struct {
	KV   string `json:"fields"`
	Nwk  string `json:"nwk,omitempty"`
	App  string `json:"app,omitempty"`
	Kind string `json:"kind"`
}

func kvGet(s, k string) string {
	for _, f := range strings.Fields(s) {
		if strings.HasPrefix(f, k+"=") {
			return f[len(k)+1:]
		}
	}
	return ""
}

func atoi(s string) int {
	n := 0
	fmt.Sscanf(s, "%d", &n)
	return n
}

// buildPHY makes the library struct from the case text. Returns nil when a command is malformed.
func buildPHY(kv string) *protocol.PHYPayload {
	mt := protocol.MType(atoi(kvGet(kv, "mt")))
	p := protocol.NewPHYPayload(mt)
	p.MHDR.MajorVersion = uint8(atoi(kvGet(kv, "maj")))
	p.MACPayload.FHDR.DevAddr = protocol.DevAddr{NwkID: uint8(atoi(kvGet(kv, "nwkid"))), NwkAddr: uint32(atoi(kvGet(kv, "nwkaddr")))}
	fc := &p.MACPayload.FHDR.FCtrl
	fc.ADR, fc.ADRACKReq, fc.ACK, fc.FPending, fc.ClassB = kvGet(kv, "adr") == "1", kvGet(kv, "aar") == "1", kvGet(kv, "ack") == "1", kvGet(kv, "fp") == "1", kvGet(kv, "cb") == "1"
	p.MACPayload.FHDR.FCnt = uint16(atoi(kvGet(kv, "fcnt")))
	p.MACPayload.FHDR.FOpts = protocol.NewMACCommandSet(mt, atoi(kvGet(kv, "foptsmax")))
	if t := kvGet(kv, "fopts"); t != "-" && t != "" {
		for _, ct := range strings.Split(t, ",") {
			c, err := cmdFromText(ct)
			if err != nil {
				return nil
			}
			p.MACPayload.FHDR.FOpts.Add(c)
		}
	}
	p.MACPayload.MACCommands = protocol.NewMACCommandSet(mt, atoi(kvGet(kv, "macmax")))
	if t := kvGet(kv, "mac"); t != "-" && t != "" {
		for _, ct := range strings.Split(t, ",") {
			c, err := cmdFromText(ct)
			if err != nil {
				return nil
			}
			p.MACPayload.MACCommands.Add(c)
		}
	}
	p.MACPayload.FPort = uint8(atoi(kvGet(kv, "port")))
	p.MACPayload.FRMPayload = hx.UnH(kvGet(kv, "frm"))
	p.MIC = uint32(atoi(kvGet(kv, "mic")))
	return &p
}

func runPhyEnc(c *ctx) error {
	r := c.rng
	var cases []encCase
	mk := func(kind string, withKeys bool) {
		mt := []int{2, 3, 4, 5}[r.Intn(4)]
		switch r.Intn(40) {
		case 0:
			mt = 6
		case 1:
			mt = []int{0, 1, 7}[r.Intn(3)]
		}
		uplink := mt == 0 || mt == 2 || mt == 4
		nf := []int{0, 0, 1, 2, 3, 5}[r.Intn(6)]
		fo := []string{}
		for i := 0; i < nf; i++ {
			sp := &cmdSpecs[r.Intn(len(cmdSpecs))]
			for tries := 0; tries < 10 && sp.uplink != uplink; tries++ {
				sp = &cmdSpecs[r.Intn(len(cmdSpecs))]
			}
			fo = append(fo, randCmdText(r, sp, 0))
		}
		fopts := "-"
		if len(fo) > 0 {
			fopts = strings.Join(fo, ",")
		}
		foptsmax := 15
		if r.Intn(30) == 0 {
			foptsmax = 255
		}
		port := 1 + r.Intn(223)
		switch r.Intn(25) {
		case 0:
			port = 0
		case 1:
			port = 224 + r.Intn(32)
		case 2:
			port = []int{1, 223}[r.Intn(2)]
		}
		n := []int{0, 1, 2, 15, 16, 17, 31, 32, 33, r.Intn(64), r.Intn(243), r.Intn(230), 225 + r.Intn(31), 242, 241, 243}[r.Intn(16)]
		if kind == "all-lengths" {
			n = len(cases) % 256
		}
		mac := "-"
		if r.Intn(12) == 0 {
			sp := &cmdSpecs[r.Intn(len(cmdSpecs))]
			for tries := 0; tries < 10 && sp.uplink != uplink; tries++ {
				sp = &cmdSpecs[r.Intn(len(cmdSpecs))]
			}
			mac = randCmdText(r, sp, 0)
			if r.Intn(2) == 0 {
				n = 0
			}
		}
		nwkid := r.Intn(128)
		if r.Intn(30) == 0 {
			nwkid = 128 + r.Intn(128)
		}
		nwkaddr := r.Intn(1 << 25)
		if r.Intn(30) == 0 {
			nwkaddr = int(r.Uint32())
		}
		fcnt := []int{0, 1, 255, 256, 32767, 32768, 65534, 65535, r.Intn(65536)}[r.Intn(9)]
		kv := fmt.Sprintf("mt=%d maj=%d nwkid=%d nwkaddr=%d adr=%d aar=%d ack=%d fp=%d cb=%d fcnt=%d fopts=%s foptsmax=%d port=%d frm=%s macmax=222 mac=%s mic=%d",
			mt, []int{0, 0, 0, 0, 0, 0, 0, 0, 0, 1, 2, 3}[r.Intn(12)], nwkid, nwkaddr, r.Intn(2), r.Intn(2), r.Intn(2), r.Intn(2), r.Intn(2), fcnt, fopts, foptsmax, port,
			hx.H(r.Bytes(n)), mac, r.Uint32())
		k := encCase{KV: kv, Kind: kind}
		if withKeys {
			k.Nwk, k.App = hx.H(r.Key16()), hx.H(r.Key16())
		}
		cases = append(cases, k)
	}
	for i := 0; i < c.pick(15000, 400000); i++ {
		mk("marshal", false)
	}
	for i := 0; i < c.pick(512, 4096); i++ {
		mk("all-lengths", true)
	}
	for i := 0; i < c.pick(6000, 150000); i++ {
		mk("message", true)
	}
	reqs := make([]string, len(cases))
	for i, k := range cases {
		if k.Nwk != "" {
			reqs[i] = fmt.Sprintf("phy.msg nwk=%s app=%s %s", k.Nwk, k.App, k.KV)
		} else {
			reqs[i] = "phy.enc " + k.KV
		}
	}
	ans, err := c.lean.Ask(reqs)
	if err != nil {
		return err
	}
	// the previous encoded frame as returned and a copy of it taken at once: a frame handed to the
	// caller (the encoder hands it on to the gateway) must not change when the next frame is encoded
	var prevFrame, prevCopy []byte
	var prevCase interface{}
	for i, k := range cases {
		c.res.Eval()
		impl := "panic"
		func() {
			defer func() { recover() }()
			p := buildPHY(k.KV)
			if p == nil {
				impl = "bad"
				return
			}
			var b []byte
			var err error
			if k.Nwk != "" {
				var nk, ak protocol.AESKey
				copy(nk.Key[:], hx.UnH(k.Nwk))
				copy(ak.Key[:], hx.UnH(k.App))
				b, err = p.EncodeMessage(nk, ak)
			} else {
				b, err = p.MarshalBinary()
			}
			if err != nil {
				impl = errName(err)
				return
			}
			impl = "ok " + hx.H(b)
			if prevFrame != nil && !bytes.Equal(prevFrame, prevCopy) {
				c.res.Add(hx.Finding{Kind: "propfail", Engine: "phyenc", Signature: "encoded-frame-changed-by-next-encoding", Case: []interface{}{prevCase, k},
					Impl: hx.H(prevFrame), Spec: hx.H(prevCopy),
					Note: "C06/C12: the octets of a frame returned by the encoder changed when the next frame was encoded (the result aliases a shared buffer): a frame waiting for the gateway is overwritten by the next device's frame"})
			}
			prevFrame, prevCopy, prevCase = b, append([]byte{}, b...), k
		}()
		a := ans[i]
		model, spec := a, "na"
		if sp := strings.Index(a, " spec="); sp >= 0 {
			model, spec = a[:sp], a[sp+6:]
		}
		outcome := strings.Fields(impl)[0]
		n := len(hx.UnH(kvGet(k.KV, "frm")))
		c.res.Count("kind=" + k.Kind)
		c.res.Count("outcome=" + outcome)
		c.res.Class(fmt.Sprintf("%s mt=%s len=%d fopts=%d %s", k.Kind, kvGet(k.KV, "mt"), n, strings.Count(kvGet(k.KV, "fopts"), ",")+1, outcome))
		if i%1999 == 0 {
			c.res.Sample(k)
		}
		sig := "phy-marshal"
		if k.Nwk != "" {
			sig = "phy-encode-message"
		}
		if impl != model {
			c.res.Add(hx.Finding{Kind: "mismatch", Engine: "phyenc", Signature: sig, Case: k, Impl: impl, Model: model, Spec: spec})
		}
		if outcome == "ok" && spec != "na" && impl != "ok "+spec {
			c.res.Add(hx.Finding{Kind: "propfail", Engine: "phyenc", Signature: sig + "-layout", Case: k, Impl: impl, Spec: spec,
				Note: "encoded frame differs from the LoRaWAN 1.0 layout/crypto for the same fields and keys"})
		}
		// round trip through the library's own decoder for accepted, fitting field combinations
		if outcome == "ok" && spec != "na" && c.prop == "C12" && kvGet(k.KV, "maj") == "0" {
			b := hx.UnH(strings.Fields(impl)[1])
			dec, _, _ := implDecode(b, 0)
			if !strings.HasPrefix(dec, "ok ") {
				c.res.Add(hx.Finding{Kind: "propfail", Engine: "phyenc", Signature: "roundtrip-reject", Case: k, Impl: dec, Note: "C12: the library rejects its own encoding"})
				continue
			}
			d := hx.KV(dec)
			bad := []string{}
			exp := func(key, want string) {
				if d[key] != want {
					bad = append(bad, fmt.Sprintf("%s=%s want %s", key, d[key], want))
				}
			}
			exp("mt", kvGet(k.KV, "mt"))
			exp("fcnt", kvGet(k.KV, "fcnt"))
			exp("addr", fmt.Sprint(atoi(kvGet(k.KV, "nwkid"))<<25|atoi(kvGet(k.KV, "nwkaddr"))))
			exp("adr", kvGet(k.KV, "adr"))
			exp("aar", kvGet(k.KV, "aar"))
			exp("ack", kvGet(k.KV, "ack"))
			b4 := "0"
			if kvGet(k.KV, "fp") == "1" || kvGet(k.KV, "cb") == "1" {
				b4 = "1"
			}
			exp("fp", b4)
			exp("cb", b4)
			if k.Nwk == "" {
				exp("mic", kvGet(k.KV, "mic"))
				if n > 0 {
					exp("port", kvGet(k.KV, "port"))
					exp("frm", kvGet(k.KV, "frm"))
				}
			}
			if len(bad) > 0 {
				c.res.Add(hx.Finding{Kind: "propfail", Engine: "phyenc", Signature: "roundtrip-fields", Case: k, Impl: dec, Note: "C12: " + strings.Join(bad, "; ")})
			}
		}
	}
	c.res.Rule = "random field combinations: 4 data types (+RFU, +unencodable types), all flag combinations, FOpts of 0..5 commands, ports 0..255, payload lengths 0..255 (every length in the all-lengths stream), boundary counters and addresses; MarshalBinary and EncodeMessage (random + structured keys); a class is (stream, MType, payload length, FOpts count, outcome)"
	return nil
}
