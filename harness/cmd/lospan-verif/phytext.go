package main

import (
	"errors"
	"fmt"
	"strconv"
	"strings"

	"github.com/lab5e/lospan/pkg/protocol"

	"lospanverif/internal/hx"
)

func b01(b bool) string {
	if b {
		return "1"
	}
	return "0"
}

// cmdText renders a MAC command exactly as the Lean driver's cmdText does.
func cmdText(c protocol.MACCommand) string {
	switch m := c.(type) {
	case *protocol.MACLinkCheckReq:
		return "LinkCheckReq"
	case *protocol.MACLinkCheckAns:
		return fmt.Sprintf("LinkCheckAns:%d:%d", m.Margin, m.GwCnt)
	case *protocol.MACLinkADRReq:
		return fmt.Sprintf("LinkADRReq:%d:%d:%d:%d", m.DataRate, m.TXPower, m.ChMask, m.Redundancy)
	case *protocol.MACLinkADRAns:
		return fmt.Sprintf("LinkADRAns:%s:%s:%s", b01(m.PowerACK), b01(m.DataRateACK), b01(m.ChannelMaskACK))
	case *protocol.MACDutyCycleReq:
		return fmt.Sprintf("DutyCycleReq:%d", m.MaxDCycle)
	case *protocol.MACDutyCycleAns:
		return "DutyCycleAns"
	case *protocol.MACRXParamSetupReq:
		return fmt.Sprintf("RXParamSetupReq:%d:%d:%d", m.RX1DRoffset, m.RX2DataRate, m.Frequency)
	case *protocol.MACRXParamSetupAns:
		return fmt.Sprintf("RXParamSetupAns:%s:%s:%s", b01(m.RX1DRoffsetACK), b01(m.RX2DataRateACK), b01(m.ChannelACK))
	case *protocol.MACDevStatusReq:
		return "DevStatusReq"
	case *protocol.MACDevStatusAns:
		return fmt.Sprintf("DevStatusAns:%d:%d", m.Battery, m.Margin)
	case *protocol.MACNewChannelReq:
		return fmt.Sprintf("NewChannelReq:%d:%d:%d:%d", m.ChIndex, m.Freq, m.MaxDR, m.MinDR)
	case *protocol.MACNewChannelAns:
		return fmt.Sprintf("NewChannelAns:%s:%s", b01(m.DataRangeOK), b01(m.ChannelFrequencyOK))
	case *protocol.MACRXTimingSetupReq:
		return fmt.Sprintf("RXTimingSetupReq:%d", m.Del)
	case *protocol.MACRXTimingSetupAns:
		return "RXTimingSetupAns"
	case *protocol.MACPingSlotInfoReq:
		return fmt.Sprintf("PingSlotInfoReq:%d:%d", m.Periodicity, m.DataRate)
	case *protocol.MACPingSlotInfoAns:
		return "PingSlotInfoAns"
	case *protocol.MACPingSlotChannelReq:
		return fmt.Sprintf("PingSlotChannelReq:%d:%d:%d", m.Frequency, m.MaxDR, m.MinDR)
	case *protocol.MACPingSlotFreqAns:
		return fmt.Sprintf("PingSlotFreqAns:%s:%s", b01(m.DataRangeOK), b01(m.ChannelFrequencyOK))
	case *protocol.MACBeaconTimingReq:
		return "BeaconTimingReq"
	case *protocol.MACBeaconTimingAns:
		return fmt.Sprintf("BeaconTimingAns:%d:%d", m.Delay, m.Channel)
	case *protocol.MACBeaconFreqReq:
		return fmt.Sprintf("BeaconFreqReq:%d", m.Frequency)
	case *protocol.MACBeaconFreqAns:
		return "BeaconFreqAns"
	}
	return fmt.Sprintf("?%T", c)
}

func cmdsText(cs []protocol.MACCommand) string {
	if len(cs) == 0 {
		return "-"
	}
	parts := make([]string, len(cs))
	for i, c := range cs {
		parts[i] = cmdText(c)
	}
	return strings.Join(parts, ",")
}

type cmdSpec struct {
	name   string
	cid    protocol.CID
	uplink bool
	widths []int // field widths in bits as the *wire* defines them (0 = bool)
	gotyp  []int // Go field width in bits
}

// The 22 commands: wire widths from LoRaWAN 1.0 §5/§14 (generator knowledge only, the oracle is the Lean spec).
var cmdSpecs = []cmdSpec{
	{"LinkCheckReq", 0x02, true, nil, nil},
	{"LinkCheckAns", 0x02, false, []int{8, 8}, []int{8, 8}},
	{"LinkADRReq", 0x03, false, []int{4, 4, 16, 8}, []int{8, 8, 16, 8}},
	{"LinkADRAns", 0x03, true, []int{0, 0, 0}, []int{0, 0, 0}},
	{"DutyCycleReq", 0x04, false, []int{8}, []int{8}},
	{"DutyCycleAns", 0x04, true, nil, nil},
	{"RXParamSetupReq", 0x05, false, []int{3, 4, 24}, []int{8, 8, 32}},
	{"RXParamSetupAns", 0x05, true, []int{0, 0, 0}, []int{0, 0, 0}},
	{"DevStatusReq", 0x06, false, nil, nil},
	{"DevStatusAns", 0x06, true, []int{8, 6}, []int{8, 8}},
	{"NewChannelReq", 0x07, false, []int{8, 24, 4, 4}, []int{8, 32, 8, 8}},
	{"NewChannelAns", 0x07, true, []int{0, 0}, []int{0, 0}},
	{"RXTimingSetupReq", 0x08, false, []int{4}, []int{8}},
	{"RXTimingSetupAns", 0x08, true, nil, nil},
	{"PingSlotInfoReq", 0x10, true, []int{3, 4}, []int{8, 8}},
	{"PingSlotInfoAns", 0x10, false, nil, nil},
	{"PingSlotChannelReq", 0x11, false, []int{24, 4, 4}, []int{32, 8, 8}},
	{"PingSlotFreqAns", 0x11, true, []int{0, 0}, []int{0, 0}},
	{"BeaconTimingReq", 0x12, true, nil, nil},
	{"BeaconTimingAns", 0x12, false, []int{16, 8}, []int{16, 8}},
	{"BeaconFreqReq", 0x13, false, []int{24}, []int{32}},
	{"BeaconFreqAns", 0x13, true, nil, nil},
}

func specByName(n string) *cmdSpec {
	for i := range cmdSpecs {
		if cmdSpecs[i].name == n {
			return &cmdSpecs[i]
		}
	}
	return nil
}

// cmdFromText builds the library's command value from "Name:f1:f2".
func cmdFromText(s string) (protocol.MACCommand, error) {
	parts := strings.Split(s, ":")
	sp := specByName(parts[0])
	if sp == nil {
		return nil, errors.New("unknown command " + s)
	}
	var c protocol.MACCommand
	if sp.uplink {
		c = protocol.NewUplinkMACCommand(sp.cid)
	} else {
		c = protocol.NewDownlinkMACCommand(sp.cid)
	}
	if c == nil {
		return nil, errors.New("constructor returned nil for " + s)
	}
	f := make([]uint64, len(parts)-1)
	for i, p := range parts[1:] {
		v, err := strconv.ParseUint(p, 10, 64)
		if err != nil {
			return nil, err
		}
		f[i] = v
	}
	bl := func(i int) bool { return f[i] != 0 }
	switch m := c.(type) {
	case *protocol.MACLinkCheckAns:
		m.Margin, m.GwCnt = uint8(f[0]), uint8(f[1])
	case *protocol.MACLinkADRReq:
		m.DataRate, m.TXPower, m.ChMask, m.Redundancy = uint8(f[0]), uint8(f[1]), uint16(f[2]), uint8(f[3])
	case *protocol.MACLinkADRAns:
		m.PowerACK, m.DataRateACK, m.ChannelMaskACK = bl(0), bl(1), bl(2)
	case *protocol.MACDutyCycleReq:
		m.MaxDCycle = uint8(f[0])
	case *protocol.MACRXParamSetupReq:
		m.RX1DRoffset, m.RX2DataRate, m.Frequency = uint8(f[0]), uint8(f[1]), uint32(f[2])
	case *protocol.MACRXParamSetupAns:
		m.RX1DRoffsetACK, m.RX2DataRateACK, m.ChannelACK = bl(0), bl(1), bl(2)
	case *protocol.MACDevStatusAns:
		m.Battery, m.Margin = uint8(f[0]), uint8(f[1])
	case *protocol.MACNewChannelReq:
		m.ChIndex, m.Freq, m.MaxDR, m.MinDR = uint8(f[0]), uint32(f[1]), uint8(f[2]), uint8(f[3])
	case *protocol.MACNewChannelAns:
		m.DataRangeOK, m.ChannelFrequencyOK = bl(0), bl(1)
	case *protocol.MACRXTimingSetupReq:
		m.Del = uint8(f[0])
	case *protocol.MACPingSlotInfoReq:
		m.Periodicity, m.DataRate = uint8(f[0]), uint8(f[1])
	case *protocol.MACPingSlotChannelReq:
		m.Frequency, m.MaxDR, m.MinDR = uint32(f[0]), uint8(f[1]), uint8(f[2])
	case *protocol.MACPingSlotFreqAns:
		m.DataRangeOK, m.ChannelFrequencyOK = bl(0), bl(1)
	case *protocol.MACBeaconTimingAns:
		m.Delay, m.Channel = uint16(f[0]), uint8(f[1])
	case *protocol.MACBeaconFreqReq:
		m.Frequency = uint32(f[0])
	}
	return c, nil
}

// randCmdText makes a command text. mode 0: values that fit the wire fields; 1: any value of the Go field type;
// 2: boundary values.
func randCmdText(r *hx.Rng, sp *cmdSpec, mode int) string {
	parts := []string{sp.name}
	for i, w := range sp.widths {
		if w == 0 {
			parts = append(parts, strconv.Itoa(r.Intn(2)))
			continue
		}
		bits := w
		if mode == 1 {
			bits = sp.gotyp[i]
		}
		max := uint64(1)<<uint(bits) - 1
		var v uint64
		switch {
		case mode == 2:
			v = []uint64{0, 1, max, max - 1, max / 2, max/2 + 1}[r.Intn(6)]
		default:
			v = r.Uint64() & max
		}
		parts = append(parts, strconv.FormatUint(v, 10))
	}
	return strings.Join(parts, ":")
}

func errName(err error) string {
	switch {
	case err == nil:
		return "ok"
	case errors.Is(err, protocol.ErrBufferTruncated):
		return "err:truncated"
	case errors.Is(err, protocol.ErrNilError):
		return "err:nil"
	case errors.Is(err, protocol.ErrParameterOutOfRange):
		return "err:range"
	case errors.Is(err, protocol.ErrInvalidParameterFormat):
		return "err:format"
	case errors.Is(err, protocol.ErrInvalidSource):
		return "err:source"
	case errors.Is(err, protocol.ErrInvalidMessageType):
		return "err:mtype"
	case errors.Is(err, protocol.ErrInvalidLoRaWANVersion):
		return "err:version"
	case errors.Is(err, protocol.ErrInvalidMIC):
		return "err:mic"
	}
	return "err:other"
}

// phyText renders a decoded PHYPayload exactly as the Lean driver's phyText does.
func phyText(p *protocol.PHYPayload) string {
	t := p.MHDR.MType
	switch {
	case t == protocol.UnconfirmedDataUp || t == protocol.ConfirmedDataUp || t == protocol.UnconfirmedDataDown || t == protocol.ConfirmedDataDown:
		f := p.MACPayload.FHDR
		return fmt.Sprintf("mt=%d maj=%d addr=%d adr=%s aar=%s ack=%s fp=%s cb=%s fol=%d fcnt=%d fopts=%s port=%d frm=%s mac=%s mic=%d",
			t, p.MHDR.MajorVersion, f.DevAddr.ToUint32(), b01(f.FCtrl.ADR), b01(f.FCtrl.ADRACKReq), b01(f.FCtrl.ACK), b01(f.FCtrl.FPending),
			b01(f.FCtrl.ClassB), f.FCtrl.FOptsLen, f.FCnt, cmdsText(f.FOpts.List()), p.MACPayload.FPort, hx.H(p.MACPayload.FRMPayload),
			cmdsText(p.MACPayload.MACCommands.List()), p.MIC)
	case t == protocol.JoinRequest:
		return fmt.Sprintf("mt=%d maj=%d app=%s dev=%s nonce=%d mic=%d", t, p.MHDR.MajorVersion,
			hx.H(p.JoinRequestPayload.AppEUI.Octets[:]), hx.H(p.JoinRequestPayload.DevEUI.Octets[:]), p.JoinRequestPayload.DevNonce, p.MIC)
	default:
		j := p.JoinAcceptPayload
		return fmt.Sprintf("mt=%d maj=%d an=%s netid=%d addr=%d rx1=%d rx2=%d rxd=%d mic=%d", t, p.MHDR.MajorVersion,
			hx.H(j.AppNonce[:]), j.NetID, j.DevAddr.ToUint32(), j.DLSettings.RX1DRoffset, j.DLSettings.RX2DataRate, j.RxDelay, p.MIC)
	}
}
