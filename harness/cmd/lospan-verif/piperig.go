package main

import (
	"encoding/hex"
	"fmt"
	"math"
	"sort"
	"strings"
	"sync"
	"sync/atomic"
	"time"

	"github.com/lab5e/lospan/pkg/band"
	"github.com/lab5e/lospan/pkg/events/gwevents"
	"github.com/lab5e/lospan/pkg/model"
	"github.com/lab5e/lospan/pkg/processor"
	"github.com/lab5e/lospan/pkg/protocol"
	"github.com/lab5e/lospan/pkg/server"
	"github.com/lab5e/lospan/pkg/storage"

	"lospanverif/internal/hx"
)

// fakeFwd is the gateway side of the pipeline: the harness injects received frames and takes
// the downlinks the encoder hands over.
type fakeFwd struct {
	in  chan server.GatewayPacket // to the gateway (downlinks)
	out chan server.GatewayPacket // from the gateway (uplinks)
}

func (f *fakeFwd) Start()                              {}
func (f *fakeFwd) Stop()                               {}
func (f *fakeFwd) Input() chan<- server.GatewayPacket  { return f.in }
func (f *fakeFwd) Output() <-chan server.GatewayPacket { return f.out }

// pipeRig is a real processing pipeline (real Start loops) on a SQLite file.
type pipeRig struct {
	file     string
	st       *storage.Storage
	fob      *server.FrameOutputBuffer
	cfg      *server.Parameters
	ctx      *server.Context
	fwd      *fakeFwd
	pipe     *processor.Pipeline
	inflight int64
	zero     chan struct{}
	emitted  []server.GatewayPacket
	subs     map[protocol.EUI]<-chan *server.PayloadMessage
	router   *server.EventRouter[protocol.EUI, *server.PayloadMessage]
	band     band.FrequencyPlan
	stageMu  sync.Mutex
	stageLog []string
	gate     *gateCtl
	carry    []string                // events published to subscribers of a server that was abandoned since
	rxDelay  time.Duration           // receive window (0 in all engines but rxwindow)
	onStage  func(event, key string) // observer of stage events (rxwindow)
}

func newPipeRig(file string, netID uint, nonceCheckOff bool) (*pipeRig, error) {
	r := &pipeRig{file: file, zero: make(chan struct{}, 1), cfg: &server.Parameters{NetworkID: netID, DisableNonceCheck: nonceCheckOff}}
	r.band, _ = band.NewBand(band.EU868Band)
	if err := r.start(); err != nil {
		return nil, err
	}
	return r, nil
}

func (r *pipeRig) stage(event, key string) {
	d := int64(0)
	switch event {
	case "decoder.reject", "decrypter.done", "join.done", "sched.dup", "sendat.done", "encoder.done":
		d = -1
	case "decrypter.emit", "sendat.emit":
		d = 1
	}
	if d != 0 {
		if atomic.AddInt64(&r.inflight, d) == 0 {
			select {
			case r.zero <- struct{}{}:
			default:
			}
		}
	}
	if r.onStage != nil {
		r.onStage(event, key)
	}
	// only now tell the controller (it re-reads the counter when woken)
	if r.gate != nil {
		r.gate.stage(event, key)
	}
}

// start opens the storage and launches a fresh pipeline on it (also used for restarts).
func (r *pipeRig) start() error {
	st, err := storage.CreateStorage(r.file)
	if err != nil {
		return err
	}
	r.st = st
	fob := server.NewFrameOutputBuffer()
	r.fob = &fob
	router := server.NewEventRouter[protocol.EUI, *server.PayloadMessage](256)
	r.router = &router
	gwr := server.NewEventRouter[protocol.EUI, gwevents.GwEvent](5)
	r.ctx = &server.Context{Storage: st, FrameOutput: r.fob, Config: r.cfg, AppRouter: r.router, GwEventRouter: &gwr}
	r.fwd = &fakeFwd{in: make(chan server.GatewayPacket), out: make(chan server.GatewayPacket)}
	r.pipe = processor.NewPipeline(r.ctx, r.fwd)
	r.pipe.Scheduler.SetRXDelay(r.rxDelay)
	r.subs = map[protocol.EUI]<-chan *server.PayloadMessage{}
	atomic.StoreInt64(&r.inflight, 0)
	processor.VerifStage = r.stage
	r.pipe.Start()
	return nil
}

// restart abandons the running pipeline (its goroutines idle on their channels) and starts a
// fresh server on the same database file; the output buffer and the scheduler state are gone.
func (r *pipeRig) restart() error {
	r.st.Close()
	return r.start()
}

func (r *pipeRig) subscribe(app protocol.EUI) {
	if _, ok := r.subs[app]; !ok {
		r.subs[app] = r.router.Subscribe(app)
	}
}

// deliver injects a frame and returns once the pipeline is quiescent again.
func (r *pipeRig) deliver(p server.GatewayPacket) error {
	atomic.AddInt64(&r.inflight, 1)
	r.fwd.out <- p
	return r.waitQuiet(30 * time.Second)
}

// inject (controlled mode) injects a frame and returns once everything in flight is parked.
func (r *pipeRig) inject(p server.GatewayPacket) error {
	atomic.AddInt64(&r.inflight, 1)
	r.fwd.out <- p
	return r.waitStable(30 * time.Second)
}

func (r *pipeRig) waitQuiet(timeout time.Duration) error {
	t := time.NewTimer(timeout)
	defer t.Stop()
	for {
		if atomic.LoadInt64(&r.inflight) == 0 {
			// the encoder's hand-over blocks until we take the packet, so nothing is in flight
			select {
			case p := <-r.fwd.in:
				r.emitted = append(r.emitted, p)
				continue
			default:
				return nil
			}
		}
		select {
		case p := <-r.fwd.in:
			r.emitted = append(r.emitted, p)
		case <-r.zero:
		case <-t.C:
			return fmt.Errorf("pipeline not quiescent after %v (in flight %d)", timeout, atomic.LoadInt64(&r.inflight))
		}
	}
}

func (r *pipeRig) takeEmitted() []server.GatewayPacket {
	e := r.emitted
	r.emitted = nil
	return e
}

func (r *pipeRig) takePublished() []string {
	out := r.carry
	r.carry = nil
	for app, ch := range r.subs {
		for {
			select {
			case m := <-ch:
				out = append(out, fmt.Sprintf("P %s dev=%s payload=%s", hx.H(app.Octets[:]), hx.H(m.Device.DeviceEUI.Octets[:]), hx.H(m.Payload)))
				continue
			default:
			}
			break
		}
	}
	sort.Strings(out)
	return out
}

func radioTok(rssi int32, snr, freq float32) string {
	return fmt.Sprintf("%d/%x/%x", rssi, math.Float32bits(snr), math.Float32bits(freq))
}

func pm(n int64) string {
	if n == 0 {
		return "0"
	}
	return "+"
}

func uintsText(v []uint16) string {
	if len(v) == 0 {
		return "-"
	}
	s := append([]uint16{}, v...)
	sort.Slice(s, func(i, j int) bool { return s[i] < s[j] })
	p := make([]string, len(s))
	for i, x := range s {
		p[i] = fmt.Sprint(x)
	}
	return strings.Join(p, ",")
}

func joinLines(l []string) string {
	if len(l) == 0 {
		return "-"
	}
	return strings.Join(l, ";")
}

// stateText renders the observable state exactly as the Lean driver's pipe.state does.
func (r *pipeRig) stateText(devs []protocol.EUI) (string, error) {
	var dl, il, ol []string
	for _, e := range devs {
		d, err := r.st.GetDeviceByEUI(e)
		if err != nil {
			return "", fmt.Errorf("GetDeviceByEUI(%s): %v", e, err)
		}
		dl = append(dl, fmt.Sprintf("D %s addr=%d nwk=%s apps=%s up=%d dn=%d warn=%s nonces=%s", hx.H(e.Octets[:]), d.DevAddr.ToUint32(),
			hx.H(d.NwkSKey.Key[:]), hx.H(d.AppSKey.Key[:]), d.FCntUp, d.FCntDn, b01(d.KeyWarning), uintsText(d.DevNonceHistory)))
		in, err := r.st.ListUpstreamMessages(e, 100000)
		if err != nil {
			return "", err
		}
		for _, m := range in {
			il = append(il, fmt.Sprintf("I %s ts=%d data=%s gw=%s addr=%d radio=%s", hx.H(e.Octets[:]), m.Timestamp, hx.H(m.Data), hx.H(m.GatewayEUI.Octets[:]),
				m.DevAddr.ToUint32(), radioTok(m.RSSI, m.SNR, m.Frequency)+"/"+m.DataRate))
		}
		out, err := r.st.ListDownstreamMessages(e)
		if err != nil {
			return "", err
		}
		for _, m := range out {
			data, _ := hex.DecodeString(m.Data)
			ol = append(ol, fmt.Sprintf("O %s created=%d port=%d data=%s ack=%s sent=%s acked=%s fcnt=%d", hx.H(e.Octets[:]), m.CreatedTime, m.Port, hx.H(data),
				b01(m.Ack), pm(m.SentTime), pm(m.AckTime), m.FCntUp))
		}
	}
	sort.Strings(dl)
	sort.Strings(il)
	sort.Strings(ol)
	var el []string
	for _, p := range r.takeEmitted() {
		el = append(el, fmt.Sprintf("E %s gw=%s delay=%d clock=%d dr=%s", hx.H(p.RawMessage), hx.H(p.Gateway.GatewayEUI.Octets[:]), p.Radio.RX1Delay,
			p.Gateway.GatewayClock, p.Radio.DataRate))
	}
	// within one event at most one frame per device leaves; frames for different devices are
	// encoded by independent goroutines, so their order is not defined: canonical order
	sort.Strings(el)
	return fmt.Sprintf("devices=%s inbox=%s outbox=%s emitted=%s published=%s", joinLines(dl), joinLines(il), joinLines(ol), joinLines(el), joinLines(r.takePublished())), nil
}

// simDev is the harness's picture of a device: what it registered and, for sessions, the keys.
type simDev struct {
	eui, app  protocol.EUI
	appKey    protocol.AESKey
	nwk, apps protocol.AESKey
	addr      uint32
	fcntUp    int
	relaxed   bool
	otaa      bool
	joined    bool
	warn      bool // key warning already stored
	nonces    map[uint16]bool
}

func mkDevice(d *simDev, fcntUp, fcntDn uint16) model.Device {
	st := model.PersonalizedDevice
	if d.otaa {
		st = model.OverTheAirDevice
	}
	return model.Device{DeviceEUI: d.eui, AppEUI: d.app, DevAddr: protocol.DevAddrFromUint32(d.addr), AppKey: d.appKey, AppSKey: d.apps, NwkSKey: d.nwk,
		State: st, FCntUp: fcntUp, FCntDn: fcntDn, RelaxedCounter: d.relaxed, KeyWarning: d.warn}
}

func leanDev(d *simDev, up, dn uint16) string {
	return fmt.Sprintf("pipe.dev eui=%s app=%s addr=%d appkey=%s nwk=%s apps=%s up=%d dn=%d relaxed=%s warn=%s nonces=-",
		hx.H(d.eui.Octets[:]), hx.H(d.app.Octets[:]), d.addr, hx.H(d.appKey.Key[:]), hx.H(d.nwk.Key[:]), hx.H(d.apps.Key[:]), up, dn, b01(d.relaxed), b01(d.warn))
}
