package main

import (
	"encoding/binary"
	"errors"
	"fmt"
	"os"
	"path/filepath"
	"runtime"
	"strconv"
	"strings"
	"sync"
	"time"

	"github.com/lab5e/lospan/pkg/keys"
	"github.com/lab5e/lospan/pkg/protocol"
	"github.com/lab5e/lospan/pkg/storage"

	"lospanverif/internal/hx"
)

func init() {
	engines["eui"] = runEui
	engines["keygen"] = runKeygen
}

func runEui(c *ctx) error {
	r := c.rng
	type ec struct {
		Prefix  string `json:"prefix"`
		NetID   uint32 `json:"netid"`
		Counter uint32 `json:"counter"`
		App     bool   `json:"app"`
	}
	var cases []ec
	maxNet := map[int]uint32{3: 0x7fff, 4: 0x7ff, 5: 0x7}
	counters := []uint32{0, 1, 2, 1<<24 - 1, 1 << 24, 1<<24 + 1, 1<<25 - 2, 1<<25 - 1, 1 << 25, 1<<25 + 1, 1<<25 + 5, 5, 1<<26 - 1, 1 << 26, 0xffffffff}
	for i := 0; i < c.pick(40000, 800000); i++ {
		n := 3 + r.Intn(3)
		pf := r.Bytes(n)
		nid := uint32(r.Intn(int(maxNet[n]) + 1))
		switch r.Intn(6) {
		case 0:
			nid = 0
		case 1:
			nid = maxNet[n]
		case 2:
			nid = 1
		case 3:
			nid = maxNet[n] - 1
		}
		ctr := uint32(r.Intn(1 << 25))
		if r.Intn(3) == 0 {
			ctr = counters[r.Intn(len(counters))]
		}
		cases = append(cases, ec{hx.H(pf), nid, ctr, r.Intn(2) == 0})
	}
	reqs := make([]string, len(cases))
	for i, k := range cases {
		reqs[i] = fmt.Sprintf("eui.new %s %d %d", k.Prefix, k.NetID, k.Counter)
	}
	ans, err := c.lean.Ask(reqs)
	if err != nil {
		return err
	}
	for i, k := range cases {
		c.res.Eval()
		pf := hx.UnH(k.Prefix)
		ma, err := protocol.NewMA(pf)
		if err != nil {
			return err
		}
		var e protocol.EUI
		if k.App {
			e = protocol.NewApplicationEUI(ma, k.NetID, k.Counter)
		} else {
			e = protocol.NewDeviceEUI(ma, k.NetID, k.Counter)
		}
		impl := hx.H(e.Octets[:])
		kv := hx.KV(ans[i])
		c.res.Class(fmt.Sprintf("ma=%d nid=%s ctr=%s", len(pf), bucket(uint64(k.NetID), uint64(maxNet[len(pf)])), bucket(uint64(k.Counter), 1<<25-1)))
		if i%4001 == 0 {
			c.res.Sample(k)
		}
		if impl != kv["eui"] {
			c.res.Add(hx.Finding{Kind: "mismatch", Engine: "eui", Signature: "eui-packing", Case: k, Impl: impl, Model: kv["eui"]})
		}
		if kv["inspace"] != "1" {
			continue
		}
		// oracle (inside the advertised key space): prefix, network id, counter bits
		v := binary.BigEndian.Uint64(e.Octets[:])
		bad := []string{}
		bits := map[int]uint{3: 24, 4: 28, 5: 36}[len(pf)]
		var pv uint64
		for j := 0; j < 5; j++ {
			pv <<= 8
			if j < len(pf) {
				pv |= uint64(pf[j])
			}
		}
		if v>>(64-bits) != pv>>(40-bits) {
			bad = append(bad, "prefix bits differ")
		}
		if uint32(v&(1<<25-1)) != k.Counter {
			bad = append(bad, "counter bits differ")
		}
		if uint32((v>>25)&uint64(maxNet[len(pf)])) != k.NetID {
			bad = append(bad, "network id not embedded")
		}
		if len(bad) > 0 {
			c.res.Add(hx.Finding{Kind: "propfail", Engine: "eui", Signature: "eui-layout", Case: k, Impl: impl, Note: "C19: " + strings.Join(bad, "; ")})
		}
	}
	c.res.Rule = "MA-L/M/S prefixes, every boundary and random admissible network id, boundary counters around 2^24, 2^25 (end of key space), 2^26 and random ones, device and application EUIs; a class is (MA size, network id bucket, counter bucket)"
	return nil
}

func bucket(v, max uint64) string {
	switch {
	case v == 0:
		return "0"
	case v == max:
		return "max"
	case v > max:
		return ">max"
	case v < 16:
		return "small"
	case v > max-16:
		return "near-max"
	}
	return "mid"
}

// ---- allocator

func goid() int {
	var buf [64]byte
	n := runtime.Stack(buf[:], false)
	f := strings.Fields(string(buf[:n]))
	id, _ := strconv.Atoi(f[1])
	return id
}

type crashCtl struct {
	mu      sync.Mutex
	armed   string // gate name at which the next arrival "crashes"
	nth     int    // after this many arrivals at that gate
	dead    map[int]bool
	tripped bool
	failing bool // the armed gate only fails (a refused write, a failed commit): the process lives on
}

var errCrash = errors.New("injected crash")

func (cc *crashCtl) gate(op, key string) error {
	if !strings.HasPrefix(op, "AllocateKeys.") {
		return nil
	}
	g := goid()
	cc.mu.Lock()
	if cc.dead[g] {
		cc.mu.Unlock()
		select {} // a goroutine of a crashed process never runs again
	}
	if cc.armed == op {
		cc.nth--
		if cc.nth <= 0 {
			cc.armed = ""
			cc.tripped = true
			if cc.failing {
				cc.mu.Unlock()
				return errors.New("injected: database is locked (5) (SQLITE_BUSY)")
			}
			cc.dead[g] = true
			cc.mu.Unlock()
			// The hooks roll the open transaction back when the gate fails, which is what the
			// death of the process does to it; the goroutine is parked for good at its next gate.
			return errCrash
		}
	}
	cc.mu.Unlock()
	return nil
}

func runKeygen(c *ctx) error {
	quietLogs()
	r := c.rng
	dir := filepath.Join(c.tmp, "keygen")
	os.MkdirAll(dir, 0o755)
	cc := &crashCtl{dead: map[int]bool{}}
	storage.VerifGate = cc.gate
	defer func() { storage.VerifGate = nil }()
	type scen struct {
		Prefix   string `json:"prefix"`
		NetID    uint32 `json:"netid"`
		Kind     string `json:"kind"`
		Crash    string `json:"crash_at,omitempty"`
		Nth      int    `json:"crash_nth,omitempty"`
		PreSeed  uint64 `json:"preseed,omitempty"`
		Requests int    `json:"requests"`
	}
	maxNet := map[int]uint32{3: 0x7fff, 4: 0x7ff, 5: 0x7}
	var scens []scen
	for _, n := range []int{3, 4, 5} {
		for _, nid := range []uint32{0, 1, maxNet[n], maxNet[n] - 1} {
			scens = append(scens, scen{hx.H(r.Bytes(n)), nid, "concurrent+restart", "", 0, 0, 240})
		}
	}
	for _, g := range []string{"AllocateKeys.read", "AllocateKeys.write", "AllocateKeys.commit", "AllocateKeys.committed"} {
		for nth := 1; nth <= c.pick(2, 4); nth++ {
			n := 3 + r.Intn(3)
			scens = append(scens, scen{hx.H(r.Bytes(n)), uint32(r.Intn(int(maxNet[n]) + 1)), "crash", g, nth, 0, 150})
		}
	}
	// one reservation attempt fails (refused write, failed commit) and the process goes on; then a restart:
	// what was handed out before the restart is not handed out after it
	for _, g := range []string{"AllocateKeys.write", "AllocateKeys.commit", "AllocateKeys.read"} {
		for nth := 2; nth <= c.pick(3, 5); nth++ {
			n := 3 + r.Intn(3)
			scens = append(scens, scen{hx.H(r.Bytes(n)), uint32(r.Intn(int(maxNet[n]) + 1)), "failed-reservation", g, nth, 0, 240})
		}
	}
	// last blocks of the key space, odd and even network ids
	for _, nid := range []uint32{1, 2} {
		scens = append(scens, scen{hx.H(r.Bytes(3)), nid, "end-of-space", "", 0, 1<<25 - 130, 320})
		scens = append(scens, scen{hx.H(r.Bytes(5)), nid, "end-of-space", "", 0, 1<<25 - 45, 200})
	}
	// the sequences cross a power of two of the 25-bit counter field (every bit of the field is used: the
	// identifiers issued after the crossing differ from those issued at the start)
	for _, bit := range []uint{24, 16, 23} {
		for _, n := range []int{3, 4, 5} {
			scens = append(scens, scen{hx.H(r.Bytes(n)), uint32(1 + r.Intn(int(maxNet[n]))), "bit-crossing", "", 0, 1<<bit - 40, 260})
		}
	}
	for i := 0; i < c.pick(4, 60); i++ {
		n := 3 + r.Intn(3)
		scens = append(scens, scen{hx.H(r.Bytes(n)), uint32(r.Intn(int(maxNet[n]) + 1)), "concurrent+restart", "", 0, 0, 100 + r.Intn(300)})
	}
	for i := 0; i < c.pick(6, 80); i++ {
		n := 3 + r.Intn(3)
		scens = append(scens, scen{hx.H(r.Bytes(n)), uint32(r.Intn(int(maxNet[n]) + 1)), "generators", "", 0, 0, 640})
	}
	for si, sc := range scens {
		c.res.Eval()
		c.res.Count("kind=" + sc.Kind)
		c.res.Class(fmt.Sprintf("%s ma=%d crash=%s/%d", sc.Kind, len(hx.UnH(sc.Prefix)), sc.Crash, sc.Nth))
		if si%5 == 0 {
			c.res.Sample(sc)
		}
		file := filepath.Join(dir, fmt.Sprintf("k%d.db", si))
		ma, _ := protocol.NewMA(hx.UnH(sc.Prefix))
		type issued struct {
			eui protocol.EUI
			app bool
			err bool
		}
		var all []issued
		var mu sync.Mutex
		jump := false
		phase := func(requests int, crash string, nth int) error {
			st, err := storage.CreateStorage(file)
			if err != nil {
				return err
			}
			if sc.PreSeed > 0 && jump {
				// move both sequences close to the end of the advertised key space
				for _, id := range []string{"deveui", "appeui"} {
					ch, err := st.AllocateKeys(fmt.Sprintf("%s/%04x/%s", ma.String(), sc.NetID, id), sc.PreSeed, 1)
					if err != nil {
						return err
					}
					go func() {
						for range ch {
						}
					}()
				}
			}
			// "generators": several key generators (same prefix and network id) on one store, as when a
			// data generator runs next to a server: their block reservations overlap in time
			ngen := 1
			if sc.Kind == "generators" {
				ngen = 8
			}
			var kgs []*keys.KeyGenerator
			for g := 0; g < ngen; g++ {
				kg, err := keys.NewEUIKeyGenerator(ma, sc.NetID, st)
				if err != nil {
					return err
				}
				kgs = append(kgs, &kg)
			}
			cc.mu.Lock()
			cc.armed, cc.nth, cc.tripped, cc.failing = crash, nth, false, sc.Kind == "failed-reservation"
			cc.mu.Unlock()
			var wg sync.WaitGroup
			workers := 8
			done := make(chan struct{})
			for w := 0; w < workers; w++ {
				wg.Add(1)
				go func(w int) {
					defer wg.Done()
					for i := 0; i < requests/workers; i++ {
						var e protocol.EUI
						var err error
						app := (w+i)%3 == 0
						res := make(chan struct{})
						go func() {
							kg := kgs[w%len(kgs)]
							if app {
								e, err = kg.NewAppEUI()
							} else {
								e, err = kg.NewDeviceEUI()
							}
							close(res)
						}()
						select {
						case <-res:
							mu.Lock()
							all = append(all, issued{e, app, err != nil})
							mu.Unlock()
						case <-done:
							return
						}
					}
				}(w)
			}
			fin := make(chan struct{})
			go func() { wg.Wait(); close(fin) }()
			if crash == "" || sc.Kind == "failed-reservation" {
				<-fin // (a failed reservation is retried by the dispatcher: the requests complete)
			} else {
				// the process "dies" at the gate: requests in flight never complete
				deadline := time.After(5 * time.Second)
			wait:
				for {
					select {
					case <-fin:
						break wait
					case <-deadline:
						break wait
					case <-time.After(20 * time.Millisecond):
						cc.mu.Lock()
						t := cc.tripped
						cc.mu.Unlock()
						if t {
							time.Sleep(30 * time.Millisecond)
							break wait
						}
					}
				}
			}
			close(done)
			return nil
		}
		if sc.PreSeed > 0 {
			// issue the first counters, then move the sequences to the last blocks of the key space
			if err := phase(64, "", 0); err != nil {
				return err
			}
			jump = true
		}
		if err := phase(sc.Requests, sc.Crash, sc.Nth); err != nil {
			return err
		}
		jump = false
		// restart on the same file: a fresh storage and generator
		if err := phase(sc.Requests/2, "", 0); err != nil {
			return err
		}
		// oracle: no EUI twice (per kind) among those issued without the exhaustion error; prefix and network id
		seen := map[string]bool{}
		var reqs []string
		var impls []string
		bad := []string{}
		for _, is := range all {
			v := binary.BigEndian.Uint64(is.eui.Octets[:])
			ctr := uint32(v & (1<<25 - 1))
			key := fmt.Sprintf("%v/%x", is.app, is.eui.Octets)
			if is.err {
				continue
			}
			if seen[key] {
				bad = append(bad, fmt.Sprintf("EUI %s issued twice", is.eui))
			}
			seen[key] = true
			reqs = append(reqs, fmt.Sprintf("eui.new %s %d %d", sc.Prefix, sc.NetID, ctr))
			impls = append(impls, hx.H(is.eui.Octets[:]))
		}
		ans, err := c.lean.Ask(reqs)
		if err != nil {
			return err
		}
		for i := range reqs {
			kv := hx.KV(ans[i])
			if kv["eui"] != impls[i] {
				bad = append(bad, fmt.Sprintf("EUI %s is not the packing of prefix/network id/its own counter bits (%s)", impls[i], kv["eui"]))
				break
			}
		}
		c.res.Count(fmt.Sprintf("issued=%d", len(all)/100*100))
		if len(bad) > 0 {
			c.res.Add(hx.Finding{Kind: "propfail", Engine: "keygen", Signature: "eui-issued-twice-or-misplaced", Case: sc, Impl: strings.Join(bad[:min(len(bad), 4)], "; "),
				Note: "C19: allocator run violates uniqueness / prefix / network id"})
		}
		os.Remove(file)
	}
	c.res.Rule = "real KeyGenerator on a SQLite file: 8 concurrent requesters (device and application EUIs) on one generator or on 8 generators sharing the store, restart on the same file, a crash (goroutine abandoned, transaction rolled back) at each of the four allocator gates at the 1st..nth reservation followed by restart, sequences pre-seeded to the last blocks of the 2^25 key space for odd and even network ids, MA-L/M/S, boundary network ids; every issued EUI is also compared with the Lean packing of its own counter bits; a class is (scenario kind, MA size, crash point)"
	return nil
}
