// lospan-verif: correspondence harness. Runs the real lospan code (built from /repo with
// -tags verif) and the Lean driver on the same cases and reports where they differ and
// where the implementation violates a property's oracle.
package main

import (
	"encoding/json"
	"flag"
	"fmt"
	"os"

	"lospanverif/internal/hx"
)

type engineFn func(c *ctx) error

type ctx struct {
	prop   string
	tier   string
	seed   int64
	rng    *hx.Rng
	lean   *hx.Lean
	res    *hx.Result
	replay string
	tmp    string
	jpath  string // journal: the case in flight, for the driver script to read if this process dies
}

// inflight records the case that is about to be handed to the implementation. The stages of the
// real server have no recover(): a panic in one of their goroutines kills this process, exactly
// as it would kill the server. ./check then reports the journal as the failing input.
func (c *ctx) inflight(engine string, v any) {
	if c.jpath == "" {
		return
	}
	b, err := json.Marshal(map[string]any{"engine": engine, "case": v})
	if err == nil {
		os.WriteFile(c.jpath, b, 0o644)
	}
}

func (c *ctx) thorough() bool { return c.tier == "thorough" }

// pick returns q in the quick tier and t in the thorough tier.
func (c *ctx) pick(q, t int) int {
	if c.thorough() {
		return t
	}
	return q
}

var engines = map[string]engineFn{}

func main() {
	prop := flag.String("prop", "", "property id (C01..C20)")
	engine := flag.String("engine", "", "engine name")
	tier := flag.String("tier", "quick", "quick|thorough")
	seed := flag.Int64("seed", 1, "PRNG seed")
	drv := flag.String("driver", "", "path to verifdrv")
	out := flag.String("out", "", "result JSON path")
	replay := flag.String("replay", "", "replay file (re-run exactly the case in it)")
	tmp := flag.String("tmp", "", "scratch directory (outside /repo and /verif)")
	flag.Parse()
	fn, ok := engines[*engine]
	if !ok {
		fmt.Fprintf(os.Stderr, "unknown engine %q\n", *engine)
		os.Exit(2)
	}
	lean, err := hx.StartLean(*drv)
	if err != nil {
		fmt.Fprintf(os.Stderr, "cannot start lean driver: %v\n", err)
		os.Exit(2)
	}
	c := &ctx{prop: *prop, tier: *tier, seed: *seed, rng: hx.NewRng(*seed), lean: lean,
		res: hx.NewResult(*prop, *engine, *seed, *tier), replay: *replay, tmp: *tmp, jpath: *out + ".journal"}
	if err := fn(c); err != nil {
		fmt.Fprintf(os.Stderr, "engine %s: %v\n", *engine, err)
		os.Exit(2)
	}
	lean.Close()
	if err := c.res.Write(*out); err != nil {
		fmt.Fprintf(os.Stderr, "write result: %v\n", err)
		os.Exit(2)
	}
}
