// lospan-verif: correspondence harness. Runs the real lospan code (built from /repo with
// -tags verif) and the Lean driver on the same cases and reports where they differ and
// where the implementation violates a property's oracle.
package main

import (
	"flag"
	"fmt"
	"os"

	"lospanverif/internal/hx"
)

type engineFn func(c *ctx) error

type ctx struct {
	prop   string
	tier   string
	seed   int64
	rng    *hx.Rng
	lean   *hx.Lean
	res    *hx.Result
	replay string
	tmp    string
}

func (c *ctx) thorough() bool { return c.tier == "thorough" }

// pick returns q in the quick tier and t in the thorough tier.
func (c *ctx) pick(q, t int) int {
	if c.thorough() {
		return t
	}
	return q
}

var engines = map[string]engineFn{}

func main() {
	prop := flag.String("prop", "", "property id (C01..C20)")
	engine := flag.String("engine", "", "engine name")
	tier := flag.String("tier", "quick", "quick|thorough")
	seed := flag.Int64("seed", 1, "PRNG seed")
	drv := flag.String("driver", "", "path to verifdrv")
	out := flag.String("out", "", "result JSON path")
	replay := flag.String("replay", "", "replay file (re-run exactly the case in it)")
	tmp := flag.String("tmp", "", "scratch directory (outside /repo and /verif)")
	flag.Parse()
	fn, ok := engines[*engine]
	if !ok {
		fmt.Fprintf(os.Stderr, "unknown engine %q\n", *engine)
		os.Exit(2)
	}
	lean, err := hx.StartLean(*drv)
	if err != nil {
		fmt.Fprintf(os.Stderr, "cannot start lean driver: %v\n", err)
		os.Exit(2)
	}
	c := &ctx{prop: *prop, tier: *tier, seed: *seed, rng: hx.NewRng(*seed), lean: lean,
		res: hx.NewResult(*prop, *engine, *seed, *tier), replay: *replay, tmp: *tmp}
	if err := fn(c); err != nil {
		fmt.Fprintf(os.Stderr, "engine %s: %v\n", *engine, err)
		os.Exit(2)
	}
	lean.Close()
	if err := c.res.Write(*out); err != nil {
		fmt.Fprintf(os.Stderr, "write result: %v\n", err)
		os.Exit(2)
	}
}
