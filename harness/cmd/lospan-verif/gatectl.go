package main

// gateCtl parks, releases, fails or abandons the real handler goroutines at the verif gates
// (storage operations, output-buffer operations, encoder hand-over). Filled in by the
// controlled engines; nil in the sequential engine (gates are pass-through there).
type gateCtl struct {
	onStage func(event, key string)
}

func (g *gateCtl) stage(event, key string) {
	if g.onStage != nil {
		g.onStage(event, key)
	}
}
