package main

import (
	"fmt"
	"strings"
	"sync"
	"sync/atomic"
	"time"

	"github.com/lab5e/lospan/pkg/server"
	"github.com/lab5e/lospan/pkg/storage"
)

// arrival is a real goroutine parked at a verif gate.
type arrival struct {
	gid int
	op  string
	key string
	rel chan error
}

// gateCtl parks, releases, fails or abandons the real handler goroutines at the verif gates
// (entry of storage operations, entry of output-buffer operations, the encoder's hand-over).
// With every goroutine parked and one released at a time no two storage operations overlap, so
// an execution of the real pipeline is exactly a sequence of thread steps of the model.
type gateCtl struct {
	mu      sync.Mutex
	enabled bool
	self    int // the harness goroutine: its own storage reads pass through
	pending []*arrival
	dead    map[int]bool
	wake    chan struct{}
	onStage func(event, key string)
}

func newGateCtl() *gateCtl {
	return &gateCtl{dead: map[int]bool{}, wake: make(chan struct{}, 1), self: goid()}
}

func (g *gateCtl) signal() {
	select {
	case g.wake <- struct{}{}:
	default:
	}
}

func (g *gateCtl) enter(op, key string) error {
	if strings.HasPrefix(op, "AllocateKeys") {
		return nil
	}
	gid := goid()
	g.mu.Lock()
	if !g.enabled || gid == g.self {
		g.mu.Unlock()
		return nil
	}
	if g.dead[gid] {
		g.mu.Unlock()
		select {} // a goroutine of a crashed server never runs again
	}
	a := &arrival{gid: gid, op: op, key: key, rel: make(chan error, 1)}
	g.pending = append(g.pending, a)
	g.mu.Unlock()
	g.signal()
	return <-a.rel
}

func (g *gateCtl) stage(event, key string) {
	if event == "encoder.handoff" {
		g.enter("encoder.handoff", key)
	}
	if g.onStage != nil {
		g.onStage(event, key)
	}
	g.signal()
}

func (g *gateCtl) install() {
	storage.VerifGate = g.enter
	server.VerifGate = func(op, key string) { g.enter(op, key) }
}

func (g *gateCtl) uninstall() {
	storage.VerifGate = nil
	server.VerifGate = nil
}

func (g *gateCtl) parked() []*arrival {
	g.mu.Lock()
	defer g.mu.Unlock()
	return append([]*arrival{}, g.pending...)
}

// release lets the goroutine continue; err != nil makes the gated operation fail with it.
func (g *gateCtl) release(a *arrival, err error) {
	g.mu.Lock()
	for i, x := range g.pending {
		if x == a {
			g.pending = append(g.pending[:i:i], g.pending[i+1:]...)
			break
		}
	}
	g.mu.Unlock()
	a.rel <- err
}

// abandonAll is a crash: every parked goroutine stays parked for ever, and any goroutine of the
// old server that reaches a gate later is parked too.
func (g *gateCtl) abandonAll() {
	g.mu.Lock()
	for _, a := range g.pending {
		g.dead[a.gid] = true
	}
	g.pending = nil
	g.mu.Unlock()
}

// waitStable returns when every unit of work in flight is parked at a gate (or nothing is in flight).
func (r *pipeRig) waitStable(timeout time.Duration) error {
	g := r.gate
	t := time.NewTimer(timeout)
	defer t.Stop()
	for {
		g.mu.Lock()
		p := int64(len(g.pending))
		g.mu.Unlock()
		if atomic.LoadInt64(&r.inflight) == p {
			select {
			case pk := <-r.fwd.in:
				r.emitted = append(r.emitted, pk)
				continue
			default:
				return nil
			}
		}
		select {
		case pk := <-r.fwd.in:
			r.emitted = append(r.emitted, pk)
		case <-g.wake:
		case <-r.zero:
		case <-t.C:
			return fmt.Errorf("pipeline neither parked nor quiescent after %v (in flight %d, parked %d)", timeout, atomic.LoadInt64(&r.inflight), p)
		}
	}
}
