package main

import (
	"errors"
	"fmt"
	"os"
	"path/filepath"
	"sort"
	"strings"
	"time"

	"github.com/lab5e/lospan/pkg/model"
	"github.com/lab5e/lospan/pkg/processor"
	"github.com/lab5e/lospan/pkg/protocol"
	"github.com/lab5e/lospan/pkg/server"

	"lospanverif/internal/hx"
)

func init() { engines["pipectl"] = runPipeCtl }

var errInjected = errors.New("injected storage failure")

// ctlRun drives one real pipeline under the gate controller together with the Lean model:
// every released goroutine step is one `pipe.step` of the model thread it corresponds to.
type ctlRun struct {
	c       *ctx
	rig     *pipeRig
	g       *gateCtl
	devs    []*simDev
	euis    []protocol.EUI
	app     protocol.EUI
	gwEUI   protocol.EUI
	trace   []pipeEvent
	gid2idx map[int]int
	ts      int64
	failed  bool
	search  bool // the trace or state correspondence broke: the implementation is driven alone from here on and judged by the direct oracles
	steps   int
}

func (h *ctlRun) fail(kind, sig, note, impl, want string) {
	if kind == "mismatch" {
		if !h.search && !h.failed {
			h.c.res.Add(hx.Finding{Kind: kind, Engine: "pipectl", Signature: sig, Case: append([]pipeEvent{}, h.trace...), Impl: impl, Model: want, Spec: want, Note: note})
		}
		h.search = true
		return
	}
	h.c.res.Add(hx.Finding{Kind: kind, Engine: "pipectl", Signature: sig, Case: append([]pipeEvent{}, h.trace...), Impl: impl, Model: want, Spec: want, Note: note})
	h.failed = true
}

func (h *ctlRun) lean(kind, req string) (string, error) {
	h.trace = append(h.trace, pipeEvent{Kind: kind, Lean: req})
	if h.search && strings.HasPrefix(req, "pipe.") {
		return "", nil
	}
	return ask1(h.c, req)
}

func newCtlRun(c *ctx, file string, netID uint, nonceOff bool) (*ctlRun, error) {
	g := newGateCtl()
	rig := &pipeRig{file: file, zero: make(chan struct{}, 1), cfg: &server.Parameters{NetworkID: netID, DisableNonceCheck: nonceOff}, gate: g}
	rig.band = nil
	if err := rig.start(); err != nil {
		return nil, err
	}
	g.install()
	h := &ctlRun{c: c, rig: rig, g: g, gid2idx: map[int]int{}, ts: 1000}
	if _, err := h.lean("reset", fmt.Sprintf("pipe.reset netid=%d noncecheckoff=%s", netID, b01(nonceOff))); err != nil {
		return nil, err
	}
	copy(h.app.Octets[:], c.rng.Bytes(8))
	copy(h.gwEUI.Octets[:], c.rng.Bytes(8))
	rig.st.CreateApplication(model.Application{AppEUI: h.app})
	rig.subscribe(h.app)
	h.lean("app", "pipe.app "+hx.H(h.app.Octets[:]))
	return h, nil
}

func (h *ctlRun) close() {
	h.g.mu.Lock()
	h.g.enabled = false
	h.g.mu.Unlock()
	h.g.abandonAll()
	h.g.uninstall()
	processor.VerifStage = nil
	h.rig.st.Close()
	os.Remove(h.rig.file)
}

func (h *ctlRun) addDevice(d *simDev, up, dn uint16) error {
	if err := h.rig.st.CreateDevice(mkDevice(d, up, dn), h.app); err != nil {
		return err
	}
	d.fcntUp = int(up)
	h.devs = append(h.devs, d)
	h.euis = append(h.euis, d.eui)
	_, err := h.lean("dev", leanDev(d, up, dn))
	return err
}

func (h *ctlRun) abpDevice(relaxed bool) *simDev {
	r := h.c.rng
	d := &simDev{app: h.app, relaxed: relaxed, nonces: map[uint16]bool{}, joined: true}
	copy(d.eui.Octets[:], r.Bytes(8))
	copy(d.nwk.Key[:], r.Bytes(16))
	copy(d.apps.Key[:], r.Bytes(16))
	d.addr = r.Uint32()
	return d
}

// labels advances the model over its internal steps and returns idx -> (op, key) of the gated
// operation each unfinished model thread stands before.
func (h *ctlRun) labels() (map[int][2]string, error) {
	if h.search {
		return map[int][2]string{}, nil
	}
	a, err := ask1(h.c, "pipe.advance")
	if err != nil {
		return nil, err
	}
	res := map[int][2]string{}
	l := strings.TrimPrefix(a, "labels=")
	if l == "-" || l == "" {
		return res, nil
	}
	for _, e := range strings.Split(l, ";") {
		f := strings.SplitN(e, ":", 3)
		if len(f) == 3 {
			res[atoi(f[0])] = [2]string{f[1], f[2]}
		}
	}
	return res, nil
}

// checkParked compares the set of operations the real goroutines are parked at with the set the
// model's threads stand before.
func (h *ctlRun) checkParked(what string) (map[int][2]string, error) {
	if h.search {
		return map[int][2]string{}, nil
	}
	lb, err := h.labels()
	if err != nil {
		return nil, err
	}
	var m, r []string
	for _, v := range lb {
		m = append(m, v[0]+"@"+v[1])
	}
	for _, a := range h.g.parked() {
		r = append(r, a.op+"@"+a.key)
	}
	// goroutines seen for the first time are the model threads created since, in order of creation
	used := map[int]bool{}
	for _, v := range h.gid2idx {
		used[v] = true
	}
	idxs := []int{}
	for k := range lb {
		idxs = append(idxs, k)
	}
	sort.Ints(idxs)
	for _, a := range h.g.parked() {
		if _, ok := h.gid2idx[a.gid]; ok {
			continue
		}
		for _, k := range idxs {
			if !used[k] && lb[k][0] == a.op && lb[k][1] == a.key {
				h.gid2idx[a.gid] = k
				used[k] = true
				break
			}
		}
	}
	sort.Strings(m)
	sort.Strings(r)
	if strings.Join(m, ",") != strings.Join(r, ",") && !h.failed {
		h.fail("mismatch", "pipe-trace", "after "+what+": the operations the real handlers are about to perform differ from the model's", strings.Join(r, ","), strings.Join(m, ","))
	}
	return lb, nil
}

func (h *ctlRun) packet(raw []byte, dr string, clock uint32) (server.GatewayPacket, string) {
	h.ts += 3
	rssi, snr, freq := int32(-60), float32(7.5), float32(868.1)
	radio := radioTok(rssi, snr, freq) + "/" + dr
	return server.GatewayPacket{RawMessage: append([]byte{}, raw...), Radio: server.RadioContext{Frequency: freq, DataRate: dr, Band: defaultBand(), RSSI: rssi, SNR: snr},
		Gateway:    server.GatewayContext{GatewayEUI: h.gwEUI, GatewayHost: "127.0.0.1", GatewayPort: 1700, GatewayClock: clock, ProtocolVersion: 2},
		ReceivedAt: time.Unix(0, h.ts)}, radio
}

// inject delivers a frame to both sides; the handler parks at its first gate.
func (h *ctlRun) inject(kind string, raw []byte, an []byte, na uint32) error {
	pkt, radio := h.packet(raw, "SF7BW125", 1000000)
	h.c.inflight("pipectl", append(append([]pipeEvent{}, h.trace...), pipeEvent{Kind: "in flight: " + kind, Frame: hx.H(raw)}))
	if err := h.rig.inject(pkt); err != nil {
		h.fail("propfail", "pipeline-stuck", "C11: "+err.Error(), err.Error(), "")
		return nil
	}
	if an == nil {
		an = []byte{0, 0, 0}
	}
	req := fmt.Sprintf("pipe.deliver raw=%s gw=%s ts=%d radio=%s dr=SF7BW125 clock=1000000 an=%s na=%d", hx.H(raw), hx.H(h.gwEUI.Octets[:]), h.ts, radio, hx.H(an), na)
	h.trace = append(h.trace, pipeEvent{Kind: kind, Lean: req, Frame: hx.H(raw)})
	if h.search {
		return nil
	}
	if _, err := ask1(h.c, req); err != nil {
		return err
	}
	_, err := h.checkParked(kind)
	return err
}

// stepArrival releases one parked goroutine (optionally failing its operation) and steps the
// corresponding model thread.
func (h *ctlRun) stepArrival(a *arrival, fault bool) error {
	if h.search {
		var e error
		if fault {
			e = errInjected
		}
		h.g.release(a, e)
		if err := h.rig.waitStable(30 * time.Second); err != nil {
			h.fail("propfail", "pipeline-stuck", "C11: "+err.Error(), err.Error(), "")
			return nil
		}
		h.steps++
		h.trace = append(h.trace, pipeEvent{Kind: fmt.Sprintf("step %s@%s fault=%v (implementation only)", a.op, a.key, fault)})
		return nil
	}
	lb, err := h.labels()
	if err != nil {
		return err
	}
	idx, ok := h.gid2idx[a.gid]
	if ok {
		if l, present := lb[idx]; !present || l[0] != a.op || l[1] != a.key {
			ok = false
			delete(h.gid2idx, a.gid)
		}
	}
	if !ok {
		used := map[int]bool{}
		for _, v := range h.gid2idx {
			used[v] = true
		}
		idx = -1
		keys := []int{}
		for k := range lb {
			keys = append(keys, k)
		}
		sort.Ints(keys)
		for _, k := range keys {
			if !used[k] && lb[k][0] == a.op && lb[k][1] == a.key {
				idx = k
				break
			}
		}
		if idx < 0 {
			if !h.failed {
				h.fail("mismatch", "pipe-trace", "the real handler performs an operation no model thread is about to perform", a.op+"@"+a.key, fmt.Sprint(lb))
			}
			h.g.release(a, nil)
			return h.rig.waitStable(30 * time.Second)
		}
		h.gid2idx[a.gid] = idx
	}
	var e error
	if fault {
		e = errInjected
	}
	h.g.release(a, e)
	if err := h.rig.waitStable(30 * time.Second); err != nil {
		h.fail("propfail", "pipeline-stuck", "C11: "+err.Error(), err.Error(), "")
		return nil
	}
	h.steps++
	what := fmt.Sprintf("step %s@%s fault=%v", a.op, a.key, fault)
	h.trace = append(h.trace, pipeEvent{Kind: what, Lean: fmt.Sprintf("pipe.step %d %s", idx, b01(fault))})
	if _, err := ask1(h.c, fmt.Sprintf("pipe.step %d %s", idx, b01(fault))); err != nil {
		return err
	}
	_, err = h.checkParked(what)
	return err
}

// drain releases parked goroutines in arrival order until nothing is in flight (the canonical,
// sequential schedule).
func (h *ctlRun) drain() error {
	for i := 0; i < 400 && !h.failed; i++ {
		p := h.g.parked()
		if len(p) == 0 {
			return nil
		}
		if err := h.stepArrival(p[0], false); err != nil {
			return err
		}
	}
	return nil
}

func (h *ctlRun) compare(what string) (string, error) {
	impl, err := h.rig.stateText(h.euis)
	if err != nil {
		h.fail("propfail", "store-unreadable", "reading the state back failed: "+err.Error(), err.Error(), "")
		return "", nil
	}
	if h.c.prop == "C17" && !h.failed {
		// whatever happened on the way (faults included): a frame that is handed to the gateway is timed by
		// what it is
		if line, want := delayOracle(stateSections(impl)["emitted"]); line != "" {
			h.fail("propfail", "rx1-delay-not-by-frame-type", "C17: a frame was handed to the gateway with the receive-window delay of another kind of frame (join-accept: five seconds after the uplink, data: one second), after "+what, line, want)
			return impl, nil
		}
	}
	if h.search {
		return impl, nil
	}
	m, err := ask1(h.c, "pipe.state")
	if err != nil {
		return "", err
	}
	if impl != m && !h.failed {
		ki, km := stateSections(impl), stateSections(m)
		sec := ""
		for _, k := range []string{"devices", "inbox", "outbox", "emitted", "published"} {
			if ki[k] != km[k] {
				sec = k
				break
			}
		}
		h.fail("mismatch", "pipe-state:"+sec, "after "+what, sec+"="+ki[sec], sec+"="+km[sec])
	}
	return impl, nil
}

// crash abandons everything in flight and brings up a fresh server on the same database file.
func (h *ctlRun) crash() error {
	h.g.abandonAll()
	// what the application subscribers of the dying server had already been given stays observed
	h.rig.carry = h.rig.takePublished()
	h.rig.st.Close()
	if err := h.rig.start(); err != nil {
		return err
	}
	h.rig.subscribe(h.app)
	h.gid2idx = map[int]int{}
	_, err := h.lean("crash", "pipe.crash")
	return err
}

func (h *ctlRun) uplinkFrame(d *simDev, fcnt int, confirmed, ack bool, plain []byte) ([]byte, error) {
	mt := 2
	if confirmed {
		mt = 4
	}
	fr, err := ask1(h.c, fmt.Sprintf("dev.tx nwk=%s app=%s mt=%d addr=%d adr=0 aar=0 ack=%s b4=0 fcnt=%d fopts=- port=9 plain=%s",
		hx.H(d.nwk.Key[:]), hx.H(d.apps.Key[:]), mt, d.addr, b01(ack), fcnt, hx.H(plain)))
	if err != nil {
		return nil, err
	}
	return hx.UnH(strings.TrimPrefix(strings.Fields(fr)[0], "frame=")), nil
}

func (h *ctlRun) submit(d *simDev, port int, data []byte, ack bool) error {
	h.ts += 2
	err := h.rig.st.CreateDownstreamMessage(d.eui, model.DownstreamMessage{DeviceEUI: d.eui, Data: fmt.Sprintf("%x", data), Port: uint8(port), Ack: ack, CreatedTime: h.ts})
	if err != nil {
		return err
	}
	_, err = h.lean("submit", fmt.Sprintf("pipe.submit dev=%s created=%d port=%d data=%s ack=%s", hx.H(d.eui.Octets[:]), h.ts, port, hx.H(data), b01(ack)))
	return err
}

// ---- oracles on the implementation's observable state

// inboxDuplicates: for a strict device, the same payload bytes recorded twice means one frame was
// recorded twice (every uplink of a run carries a distinct payload).
func inboxDuplicates(state string, eui protocol.EUI) []string {
	seen := map[string]int{}
	var dups []string
	for _, l := range strings.Split(stateSections(state)["inbox"], ";") {
		f := strings.Fields(l)
		if len(f) < 4 || f[1] != hx.H(eui.Octets[:]) {
			continue
		}
		seen[f[3]]++
		if seen[f[3]] == 2 {
			dups = append(dups, f[3])
		}
	}
	return dups
}

type downSeen struct {
	fcnt  int
	ack   bool
	raw   string
	port  string
	plain string
}

// decodeDowns decodes emitted data downlinks with the Lean device of d.
func (h *ctlRun) decodeDowns(d *simDev, emitted string) ([]downSeen, error) {
	var res []downSeen
	if emitted == "-" || emitted == "" {
		return nil, nil
	}
	for _, line := range strings.Split(emitted, ";") {
		f := strings.Fields(line)
		if len(f) < 2 {
			continue
		}
		raw := hx.UnH(f[1])
		if len(raw) == 0 || raw[0]>>5 == 1 {
			continue
		}
		a, err := ask1(h.c, fmt.Sprintf("dev.rx %s %s %s", hx.H(d.nwk.Key[:]), hx.H(d.apps.Key[:]), hx.H(raw)))
		if err != nil {
			return nil, err
		}
		if !strings.HasPrefix(a, "mic=1") {
			continue
		}
		sp := strings.Join(strings.Fields(a)[2:], " ")
		if specField(sp, "addr") != fmt.Sprint(d.addr) {
			continue
		}
		pl := hx.KV(a)["plain"]
		if pl == "-" {
			pl = ""
		}
		res = append(res, downSeen{atoi(specField(sp, "fcnt")), specField(sp, "ack") == "1", f[1], specField(sp, "port"), pl})
	}
	return res, nil
}

func runPipeCtl(c *ctx) error {
	quietLogs()
	dir := filepath.Join(c.tmp, "pipectl")
	os.MkdirAll(dir, 0o755)
	n := 0
	file := func() string { n++; return filepath.Join(dir, fmt.Sprintf("c%d.db", n)) }
	want := func(props ...string) bool {
		for _, p := range props {
			if c.prop == p {
				return true
			}
		}
		return false
	}
	if want("C10", "C17", "C06", "C07", "C09") {
		if err := ctlFaults(c, file); err != nil {
			return err
		}
	}
	if want("C03", "C07", "C08", "C09", "C10") {
		if err := ctlRaces(c, file); err != nil {
			return err
		}
	}
	if want("C05") {
		if err := ctlJoinCopies(c, file); err != nil {
			return err
		}
	}
	if want("C17", "C04", "C05") {
		if err := ctlUplinkThenJoin(c, file); err != nil {
			return err
		}
	}
	if want("C04", "C05", "C10", "C03", "C07") {
		if err := ctlRejoinFaults(c, file); err != nil {
			return err
		}
	}
	if want("C01", "C02", "C03", "C06", "C08", "C09", "C10", "C07") {
		if err := ctlSharedKey(c, file); err != nil {
			return err
		}
	}
	c.res.Rule = "real pipeline goroutines parked at the verif gates (entry of every storage and output-buffer operation, encoder hand-over) and released one at a time; each released step is the step of the corresponding Lean model thread and the sets of pending operations are compared after every step, the full observable state at quiescence. Scenarios: crash and single injected failure at every gate position of the uplink handler, join handler and encoder followed by redelivery of the same and the next frame (C10); interleavings of two/three copies of one uplink (random; the late copy with its stale view; one copy's counter write failing), each followed by an unconfirmed uplink with nothing queued, and of an uplink with the encoder of the previous one, also with a queued message the frame encoder cannot encode (C03/C07/C09/C10); copies of one join-request (C05); a join-request while the data answer of the same device waits for its window (C17); populations where one frame authenticates for two devices, canonical schedule, with the sender's record checked against the sender's plaintext (C02). A class is (scenario, position/schedule shape)."
	return nil
}
