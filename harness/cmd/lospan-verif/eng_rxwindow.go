package main

import (
	"fmt"
	"os"
	"path/filepath"
	"strings"
	"sync"
	"sync/atomic"
	"time"

	"github.com/lab5e/lospan/pkg/model"
	"github.com/lab5e/lospan/pkg/processor"
	"github.com/lab5e/lospan/pkg/protocol"
	"github.com/lab5e/lospan/pkg/server"

	"lospanverif/internal/hx"
)

func init() { engines["rxwindow"] = runRxWindow }

type rxwCase struct {
	Window   string   `json:"receive_window"`
	Relaxed  bool     `json:"relaxed_counter"`
	Copies   int      `json:"copies"`
	Queued   bool     `json:"queued_downlink"`
	Frame    string   `json:"confirmed_uplink"`
	Next     string   `json:"next_unconfirmed_uplink"`
	Timeline []string `json:"timeline"`
}

// runRxWindow: C09 with a real (non-zero) receive window and no gate controller. A confirmed uplink
// arrives through several gateways, the later copies well inside the window of the first. The model's
// `sendAt` thread takes the frame out of the output buffer when the window closes, so whatever the
// copies put into the buffer during the window is folded into the one answer. Checked here against
// the free-running code: (tie) the buffer is not read before the window has elapsed; (property,
// strict-counter devices) exactly one answer with ACK for the copies, and a following unconfirmed
// uplink with nothing pending is not answered.
func runRxWindow(c *ctx) error {
	quietLogs()
	r := c.rng
	dir := filepath.Join(c.tmp, "rxwindow")
	os.MkdirAll(dir, 0o755)
	n := c.pick(6, 60)
	window := 400 * time.Millisecond
	for i := 0; i < n; i++ {
		c.res.Eval()
		file := filepath.Join(dir, fmt.Sprintf("w%d.db", i))
		rig := &pipeRig{file: file, zero: make(chan struct{}, 1), cfg: &server.Parameters{NetworkID: 1}, rxDelay: window}
		rig.band = defaultBand()
		if err := rig.start(); err != nil {
			return err
		}
		var mu sync.Mutex
		type ev struct {
			name string
			at   time.Time
		}
		var evs []ev
		rec := func(name string) {
			mu.Lock()
			evs = append(evs, ev{name, time.Now()})
			mu.Unlock()
		}
		rig.onStage = func(event, key string) { rec(event) }
		server.VerifGate = func(op, key string) { rec("buffer." + op) }
		cleanup := func() {
			server.VerifGate = nil
			processor.VerifStage = nil
			rig.st.Close()
			os.Remove(file)
		}
		var app, gw1 protocol.EUI
		copy(app.Octets[:], r.Bytes(8))
		copy(gw1.Octets[:], r.Bytes(8))
		rig.st.CreateApplication(model.Application{AppEUI: app})
		d := &simDev{app: app, relaxed: i%3 == 2, nonces: map[uint16]bool{}, joined: true}
		copy(d.eui.Octets[:], r.Bytes(8))
		copy(d.nwk.Key[:], r.Bytes(16))
		copy(d.apps.Key[:], r.Bytes(16))
		d.addr = r.Uint32()
		fc := []int{0, 5, 100}[r.Intn(3)]
		if err := rig.st.CreateDevice(mkDevice(d, uint16(fc), 3), app); err != nil {
			cleanup()
			return err
		}
		queued := i%4 == 1
		if queued {
			rig.st.CreateDownstreamMessage(d.eui, model.DownstreamMessage{DeviceEUI: d.eui, Data: "0a0b0c", Port: 7, Ack: false, CreatedTime: 5})
		}
		mk := func(fcnt int, confirmed bool) ([]byte, error) {
			mt := 2
			if confirmed {
				mt = 4
			}
			fr, err := ask1(c, fmt.Sprintf("dev.tx nwk=%s app=%s mt=%d addr=%d adr=0 aar=0 ack=0 b4=0 fcnt=%d fopts=- port=9 plain=%s",
				hx.H(d.nwk.Key[:]), hx.H(d.apps.Key[:]), mt, d.addr, fcnt, hx.H(r.Bytes(1+r.Intn(8)))))
			if err != nil {
				return nil, err
			}
			return hx.UnH(strings.TrimPrefix(strings.Fields(fr)[0], "frame=")), nil
		}
		conf, err := mk(fc, true)
		if err != nil {
			cleanup()
			return err
		}
		next, err := mk(fc+1, false)
		if err != nil {
			cleanup()
			return err
		}
		copies := 2 + i%2
		kase := rxwCase{Window: window.String(), Relaxed: d.relaxed, Copies: copies, Queued: queued, Frame: hx.H(conf), Next: hx.H(next)}
		pkt := func(raw []byte, g byte) server.GatewayPacket {
			e := gw1
			e.Octets[7] = g
			return server.GatewayPacket{RawMessage: append([]byte{}, raw...), Radio: server.RadioContext{Frequency: 868.1, DataRate: "SF7BW125", Band: rig.band, RSSI: -50, SNR: 5},
				Gateway:    server.GatewayContext{GatewayEUI: e, GatewayHost: "127.0.0.1", GatewayPort: 1700, GatewayClock: 1000, ProtocolVersion: 2},
				ReceivedAt: time.Now()}
		}
		// waitHandled waits until k delivered copies have run through the handler and, where they were
		// accepted, through the scheduler's duplicate decision
		waitHandled := func(k int, timeout time.Duration) bool {
			deadline := time.Now().Add(timeout)
			for time.Now().Before(deadline) {
				mu.Lock()
				cnt := map[string]int{}
				for _, e := range evs {
					cnt[e.name]++
				}
				mu.Unlock()
				if cnt["decrypter.done"]+cnt["decoder.reject"] >= k && cnt["sched.new"]+cnt["sched.dup"] >= cnt["decrypter.emit"] {
					return true
				}
				time.Sleep(time.Millisecond)
			}
			return false
		}
		p1 := pkt(conf, 1)
		start := p1.ReceivedAt
		atomic.AddInt64(&rig.inflight, 1)
		rig.fwd.out <- p1
		// copy 1 handled: only its scheduled answer is in flight
		ok := waitHandled(1, window/2)
		handled := time.Since(start)
		for k := 2; ok && k <= copies; k++ {
			atomic.AddInt64(&rig.inflight, 1)
			rig.fwd.out <- pkt(conf, byte(k))
			ok = waitHandled(k, window/2)
			handled = time.Since(start)
		}
		conclusive := ok && handled < window*6/10
		if err := rig.waitQuiet(30 * time.Second); err != nil {
			c.res.Add(hx.Finding{Kind: "propfail", Engine: "rxwindow", Signature: "pipeline-stuck", Case: kase, Impl: err.Error(), Note: "C11: " + err.Error()})
			cleanup()
			continue
		}
		first := rig.takeEmitted()
		// when was the output buffer read?
		mu.Lock()
		var took time.Duration = -1
		for _, e := range evs {
			kase.Timeline = append(kase.Timeline, fmt.Sprintf("%s +%dms", e.name, e.at.Sub(start).Milliseconds()))
			if e.name == "buffer.GetPHYPayloadForDevice" && took < 0 {
				took = e.at.Sub(start)
			}
		}
		mu.Unlock()
		if took >= 0 && took < window-2*time.Millisecond {
			c.res.Add(hx.Finding{Kind: "mismatch", Engine: "rxwindow", Signature: "answer-assembled-before-window-end", Case: kase,
				Impl:  fmt.Sprintf("output buffer read %d ms after reception", took.Milliseconds()),
				Model: fmt.Sprintf("read when the %d ms receive window closes (model thread sendAt)", window.Milliseconds()),
				Note:  "the model folds everything that arrives during the receive window into the one answer; the code reads the buffer earlier"})
		}
		// follow-up: an unconfirmed uplink with nothing pending
		pn := pkt(next, 1)
		atomic.AddInt64(&rig.inflight, 1)
		rig.fwd.out <- pn
		if err := rig.waitQuiet(30 * time.Second); err != nil {
			c.res.Add(hx.Finding{Kind: "propfail", Engine: "rxwindow", Signature: "pipeline-stuck", Case: kase, Impl: err.Error(), Note: "C11: " + err.Error()})
			cleanup()
			continue
		}
		second := rig.takeEmitted()
		acks := 0
		for _, p := range first {
			if len(p.RawMessage) > 5 && p.RawMessage[5]&0x20 != 0 {
				acks++
			}
		}
		c.res.Count(fmt.Sprintf("conclusive=%v", conclusive))
		c.res.Class(fmt.Sprintf("relaxed=%v copies=%d queued=%v", d.relaxed, copies, queued))
		if i%4 == 0 {
			c.res.Sample(kase)
		}
		// The single-answer clause of C09 is stated for strict-counter devices (a later copy is then
		// rejected by the counter step whatever the timing). For a relaxed device a later copy is an
		// accepted confirmed uplink of its own; whether its acknowledgement rides on the first answer
		// or on a later one is not prescribed, so only the timing tie above is checked for it.
		if conclusive && !d.relaxed {
			if len(first) != 1 || acks != 1 {
				c.res.Add(hx.Finding{Kind: "propfail", Engine: "rxwindow", Signature: "copies-not-answered-once", Case: kase,
					Impl: fmt.Sprintf("%d downlinks, %d with ACK", len(first), acks), Spec: "1 downlink with ACK",
					Note: "C09: copies of one confirmed uplink inside one receive window must produce exactly one answer with ACK"})
			}
			if len(second) != 0 {
				c.res.Add(hx.Finding{Kind: "propfail", Engine: "rxwindow", Signature: "ack-repeated-after-window", Case: kase,
					Impl: fmt.Sprintf("%d downlink(s) after an unconfirmed uplink with nothing pending: %s", len(second), hx.H(second[0].RawMessage)), Spec: "no downlink",
					Note: "C09: the acknowledgement of the copies leaked into a later downlink / an unconfirmed uplink with nothing pending was answered"})
			}
		}
		cleanup()
	}
	c.res.Rule = "free-running pipeline with a 400 ms receive window: confirmed uplink through 2..3 gateways (copies handled inside the first 60% of the window, otherwise the case is counted inconclusive and not judged), strict and relaxed devices, with/without a queued downlink, then an unconfirmed uplink with nothing pending; a class is (relaxed, copies, queued)"
	return nil
}
