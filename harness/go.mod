module lospanverif

go 1.21

require github.com/lab5e/lospan v0.0.0

replace github.com/lab5e/lospan => /repo
