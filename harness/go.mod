module lospanverif

go 1.21

require github.com/lab5e/lospan v0.0.0

require (
	github.com/google/uuid v1.6.0 // indirect
	github.com/mattn/go-isatty v0.0.20 // indirect
	github.com/remyoudompheng/bigfft v0.0.0-20200410134404-eec4a21b6bb0 // indirect
	golang.org/x/net v0.24.0 // indirect
	golang.org/x/sys v0.19.0 // indirect
	golang.org/x/text v0.14.0 // indirect
	google.golang.org/genproto/googleapis/rpc v0.0.0-20240415180920-8c6c420018be // indirect
	google.golang.org/grpc v1.63.2 // indirect
	google.golang.org/protobuf v1.33.0 // indirect
	modernc.org/libc v1.21.5 // indirect
	modernc.org/mathutil v1.5.0 // indirect
	modernc.org/memory v1.4.0 // indirect
	modernc.org/sqlite v1.20.0 // indirect
)

replace github.com/lab5e/lospan => /repo
