// Package hx holds what every engine of the correspondence harness shares: the seeded PRNG,
// the pipe to the Lean driver (verifdrv), coverage accounting and the result file.
package hx

import (
	"bufio"
	"encoding/hex"
	"encoding/json"
	"fmt"
	"io"
	"math/rand"
	"os"
	"os/exec"
	"sort"
	"strings"
	"sync"
)

// Finding is one case on which the implementation disagrees with the model (Kind "mismatch":
// the tie is broken) or violates the property's oracle (Kind "propfail").
type Finding struct {
	Kind      string      `json:"kind"`
	Engine    string      `json:"engine"`
	Signature string      `json:"signature"` // class of the failure, matched against known_findings.json
	Case      interface{} `json:"case"`
	Impl      string      `json:"impl"`
	Model     string      `json:"model,omitempty"`
	Spec      string      `json:"spec,omitempty"`
	Note      string      `json:"note,omitempty"`
}

// Result is what an engine run reports to ./check.
type Result struct {
	Property     string         `json:"property"`
	Engine       string         `json:"engine"`
	Seed         int64          `json:"seed"`
	Tier         string         `json:"tier"`
	Evaluations  int            `json:"evaluations"`
	Distinct     int            `json:"distinct_nontrivial"`
	Rule         string         `json:"rule"`
	Samples      []interface{}  `json:"samples"`
	Distribution map[string]int `json:"distribution"`
	Mismatches   int            `json:"mismatches"`
	Propfails    int            `json:"propfails"`
	Findings     []Finding      `json:"findings"`
	Exhaustive   bool           `json:"exhaustive,omitempty"`
	Notes        []string       `json:"notes,omitempty"`

	classes map[string]bool
	mu      sync.Mutex
}

const maxFindings = 40

func NewResult(prop, engine string, seed int64, tier string) *Result {
	return &Result{Property: prop, Engine: engine, Seed: seed, Tier: tier,
		Distribution: map[string]int{}, classes: map[string]bool{}}
}

// Count adds to a named bucket of the input distribution.
func (r *Result) Count(bucket string) {
	r.mu.Lock()
	r.Distribution[bucket]++
	r.mu.Unlock()
}

// Class records the non-trivial class a case belongs to; distinct_nontrivial is the number of
// distinct classes seen. An empty class is a trivial case and is not counted.
func (r *Result) Class(c string) {
	if c == "" {
		return
	}
	r.mu.Lock()
	r.classes[c] = true
	r.mu.Unlock()
}

func (r *Result) Eval() { r.mu.Lock(); r.Evaluations++; r.mu.Unlock() }

func (r *Result) Sample(s interface{}) {
	r.mu.Lock()
	if len(r.Samples) < 6 {
		r.Samples = append(r.Samples, s)
	}
	r.mu.Unlock()
}

func (r *Result) Add(f Finding) {
	r.mu.Lock()
	defer r.mu.Unlock()
	if f.Kind == "mismatch" {
		r.Mismatches++
	} else {
		r.Propfails++
	}
	// keep the first few of every signature
	n := 0
	for _, g := range r.Findings {
		if g.Kind == f.Kind && g.Signature == f.Signature {
			n++
		}
	}
	if n < 3 && len(r.Findings) < maxFindings {
		r.Findings = append(r.Findings, f)
	}
}

func (r *Result) Write(path string) error {
	r.Distinct = len(r.classes)
	if r.Findings == nil {
		r.Findings = []Finding{}
	}
	if r.Samples == nil {
		r.Samples = []interface{}{}
	}
	b, err := json.MarshalIndent(r, "", " ")
	if err != nil {
		return err
	}
	return os.WriteFile(path, b, 0o644)
}

// Lean is a running verifdrv process.
type Lean struct {
	cmd *exec.Cmd
	in  io.WriteCloser
	out *bufio.Reader
}

func StartLean(path string) (*Lean, error) {
	cmd := exec.Command(path)
	in, err := cmd.StdinPipe()
	if err != nil {
		return nil, err
	}
	out, err := cmd.StdoutPipe()
	if err != nil {
		return nil, err
	}
	cmd.Stderr = os.Stderr
	if err := cmd.Start(); err != nil {
		return nil, err
	}
	return &Lean{cmd: cmd, in: in, out: bufio.NewReaderSize(out, 1<<20)}, nil
}

// Ask sends the request lines and returns one answer line per request.
func (l *Lean) Ask(lines []string) ([]string, error) {
	errc := make(chan error, 1)
	go func() {
		w := bufio.NewWriterSize(l.in, 1<<20)
		for _, s := range lines {
			if _, err := w.WriteString(s); err != nil {
				errc <- err
				return
			}
			w.WriteByte('\n')
		}
		errc <- w.Flush()
	}()
	res := make([]string, 0, len(lines))
	for range lines {
		s, err := l.out.ReadString('\n')
		if err != nil {
			return res, fmt.Errorf("lean driver: %v after %d answers", err, len(res))
		}
		res = append(res, strings.TrimRight(s, "\n"))
	}
	if err := <-errc; err != nil {
		return res, err
	}
	return res, nil
}

func (l *Lean) Close() {
	l.in.Close()
	l.cmd.Wait()
}

// KV parses "k=v k2=v2 word" answers.
func KV(line string) map[string]string {
	m := map[string]string{}
	for i, f := range strings.Fields(line) {
		if j := strings.IndexByte(f, '='); j >= 0 {
			m[f[:j]] = f[j+1:]
		} else {
			m[fmt.Sprintf("#%d", i)] = f
		}
	}
	return m
}

// H is the protocol's hex: "-" for the empty string.
func H(b []byte) string {
	if len(b) == 0 {
		return "-"
	}
	return hex.EncodeToString(b)
}

func UnH(s string) []byte {
	if s == "-" || s == "" {
		return []byte{}
	}
	b, _ := hex.DecodeString(s)
	return b
}

// Rng is the single source of randomness of a run.
type Rng struct{ *rand.Rand }

func NewRng(seed int64) *Rng { return &Rng{rand.New(rand.NewSource(seed))} }

func (r *Rng) Bytes(n int) []byte {
	b := make([]byte, n)
	r.Read(b)
	return b
}

// Key16 returns structured (all-zero, all-one, single-bit, counting) and random 128-bit keys.
func (r *Rng) Key16() []byte {
	k := make([]byte, 16)
	switch r.Intn(8) {
	case 0:
	case 1:
		for i := range k {
			k[i] = 0xff
		}
	case 2:
		k[r.Intn(16)] = 1 << uint(r.Intn(8))
	case 3:
		for i := range k {
			k[i] = byte(i + 1)
		}
	default:
		r.Read(k)
	}
	return k
}

func SortedKeys(m map[string]int) []string {
	ks := make([]string, 0, len(m))
	for k := range m {
		ks = append(ks, k)
	}
	sort.Strings(ks)
	return ks
}
