#!/bin/bash
# confirm_mutant.sh <dir with patch.diff + demo*>: applies to a scratch worktree of /repo HEAD,
# runs the existing suite with the patch, runs the demonstration with and without the patch.
set -u
M=$1
export GOFLAGS=-mod=mod GOPROXY=off GOSUMDB=off GOTOOLCHAIN=local
WT=/tmp/mc.$$
git -C /repo worktree add -q --detach $WT HEAD || exit 2
cleanup() { rm -f $WT.*; git -C /repo worktree remove --force $WT >/dev/null 2>&1; rm -rf $WT; }
trap cleanup EXIT
cd $WT
if ! git apply --check $M/patch.diff 2>$WT.err; then echo "RESULT $M patch-does-not-apply: $(head -1 $WT.err)"; exit 0; fi
# place demos
place() {
  for f in $M/demo*_test.go $M/demo/*.go; do
    [ -f "$f" ] || continue
    pkg=$(grep -m1 '^package ' $f | awk '{print $2}'); pkg=${pkg%_test}
    case $pkg in
      processor|protocol|cmac|server|gateway|storage|keys|apiserver|model) dir=pkg/$pkg;;
      *) dir=pkg/$pkg; mkdir -p $dir;;
    esac
    cp $f $dir/zz_$(basename $(dirname $f))_$(basename $f)
    echo $dir
  done | sort -u
}
DIRS=$(place)
TAGS=""
grep -lq "go:build verif" $M/demo*_test.go $M/demo/*.go 2>/dev/null && TAGS="-tags verif"
run_demo() { r=0; for d in $DIRS; do timeout 300 go test $TAGS -vet=off -count=1 -run 'C[0-9][0-9]|Demo|demo' ./$d/ >$WT.out 2>&1 || r=1; done; return $r; }
run_demo; PRISTINE=$?
git apply $M/patch.diff
go build ./... >$WT.build 2>&1 && go build -tags verif ./... >>$WT.build 2>&1 || { echo "RESULT $M does-not-build"; exit 0; }
run_demo; CHANGED=$?
tail -3 $WT.out > $WT.changed
# existing suite (demos removed)
for d in $DIRS; do rm -f $d/zz_*; done
go test -vet=off -count=1 -json ./... 2>/dev/null | python3 -c "
import sys,json
base=set(json.load(open('/root/.vp/BASELINE.json'))['stable_pass'])
res={}
for l in sys.stdin:
    try: e=json.loads(l)
    except: continue
    if e.get('Test') and e['Action'] in('pass','fail'): res[e['Package']+'::'+e['Test']]=e['Action']
bad=[t for t in base if res.get(t)!='pass']
print('SUITE', 'ok' if not bad else 'FAIL '+','.join(bad)[:300])" > $WT.suite
echo "RESULT $M pristine_demo=$([ $PRISTINE = 0 ] && echo pass || echo FAIL) changed_demo=$([ $CHANGED = 0 ] && echo PASS || echo fail) $(cat $WT.suite)"
