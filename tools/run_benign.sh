#!/bin/bash
# run_benign.sh : applies each behaviour-preserving rewrite of seeded/_benign to /repo, runs the checks of the
# properties named in its README (quick tier), restores /repo. A quiet check is the expected outcome; a
# broken tie without a failing input is what the brief allows for a harmless rewrite; a failing input
# would be a false alarm of the machinery.
cd /verif
mkdir -p seeded/_runs
for d in seeded/_benign/B*; do
  id=$(basename $d)
  props=$(head -1 $d/README.md | grep -o "C[0-9][0-9]" | sort -u)
  [ -z "$(git -C /repo status --porcelain)" ] || { echo "/repo dirty"; exit 2; }
  git -C /repo apply /verif/$d/patch.diff || { echo "$id apply-failed"; continue; }
  for p in $props; do
    timeout 1500 ./check $p --tier ${TIER:-quick} > seeded/_runs/benign-$id-$p.log 2>&1; rc=$?
    v=$(grep -m1 '^VIOLATION' seeded/_runs/benign-$id-$p.log | cut -c1-160)
    echo "$id $p rc=$rc ${v:-quiet}"
  done
  git -C /repo checkout -- . ; git -C /repo clean -fdq
done
