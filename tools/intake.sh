#!/bin/bash
# intake.sh <prop> <dst1> <dst2> : copies the two changes an agent left under /tmp/mut/<prop>r4.out/{a,b}
# to seeded/<prop><dst1>, seeded/<prop><dst2>; demo file names and scratch paths normalised.
p=$1
for x in a:$2 b:$3; do
  src=${x%%:*}; dst=${x##*:}
  [ -d /tmp/mut/${p}r4.out/$src ] || { echo "no $p $src"; continue; }
  d=/verif/seeded/$p$dst
  mkdir -p $d; cp -r /tmp/mut/${p}r4.out/$src/* $d/
  # a demo that is not called demo*_test.go
  for f in $d/*_test.go; do
    [ -f "$f" ] || continue
    case $(basename $f) in demo*) ;; *) mv $f $d/demo_$(basename $f);; esac
  done
  sed -i "s#/tmp/mut/${p}r4.out[a-z/]*#/tmp#g" $d/*_test.go 2>/dev/null
  echo "$p$dst: $(ls $d | tr '\n' ' ')"; grep -h "^func Test" $d/*_test.go | head -4
done
