#!/bin/bash
# confirm_all.sh [ids...]: tools/confirm_mutant.sh for every seeded change, one after the other
# (the gateway tests bind fixed UDP ports), results in seeded/_confirm.txt
cd /verif
ids=${@:-$(ls seeded | grep "^C[0-9][0-9][a-z]$")}
for id in $ids; do
  r=$(tools/confirm_mutant.sh /verif/seeded/$id 2>&1 | grep RESULT)
  # one retry: the gateway tests are flaky in the baseline
  case "$r" in *"SUITE FAIL"*) r=$(tools/confirm_mutant.sh /verif/seeded/$id 2>&1 | grep RESULT);; esac
  grep -v "RESULT /verif/seeded/$id " seeded/_confirm.txt 2>/dev/null > seeded/_confirm.tmp; mv seeded/_confirm.tmp seeded/_confirm.txt
  echo "$r" | tee -a seeded/_confirm.txt
done
