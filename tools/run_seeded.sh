#!/bin/bash
# run_seeded.sh [ids...] : applies each seeded change to /repo, runs the property's quick check, restores /repo.
cd /verif
ids=${@:-$(ls seeded | grep "^C[0-9][0-9][a-z]$")}
mkdir -p seeded/_runs
for id in $ids; do
  prop=${id:0:3}
  [ -z "$(git -C /repo status --porcelain)" ] || { echo "/repo dirty"; exit 2; }
  git -C /repo apply /verif/seeded/$id/patch.diff || { echo "$id apply-failed"; continue; }
  start=$(date +%s)
  timeout 1500 ./check $prop --tier ${TIER:-quick} > seeded/_runs/$id.log 2>&1; rc=$?
  git -C /repo checkout -- . ; git -C /repo clean -fdq
  v=$(grep -c '^VIOLATION' seeded/_runs/$id.log)
  echo "$id rc=$rc violations=$v secs=$(( $(date +%s)-start )) $(grep -m1 '^VIOLATION' seeded/_runs/$id.log | cut -c1-200)"
done
