#!/usr/bin/env python3
"""Writes seeded/<id>/meta.json and seeded/MATRIX.md from the confirmation results
(seeded/_confirm.txt, written by tools/confirm_all.sh) and the check logs (seeded/_runs/<id>.log,
written by tools/run_seeded.sh)."""
import os, re, json, subprocess

ROOT = "/verif/seeded"
head = subprocess.run(["git", "-C", "/repo", "rev-parse", "HEAD"], capture_output=True, text=True).stdout.strip()
confirm = {}
if os.path.exists(os.path.join(ROOT, "_confirm.txt")):
    for l in open(os.path.join(ROOT, "_confirm.txt")):
        m = re.match(r"RESULT (\S+) (.*)", l.strip())
        if m:
            confirm[os.path.basename(m.group(1))] = m.group(2)


def readme_bits(d):
    p = os.path.join(d, "README.md")
    title, needs = "", ""
    if os.path.exists(p):
        txt = open(p).read()
        m = re.search(r"^#\s*(.+)$", txt, re.M)
        title = m.group(1).strip() if m else ""
        m = re.search(r"^##[^\n]*(needed|manifest)[^\n]*\n(.*?)(?=^## |\Z)", txt, re.M | re.S | re.I)
        if m:
            needs = " ".join(m.group(2).split())[:900]
    return title, needs


rows = []
for sub in ["", "_superseded"]:
    base = os.path.join(ROOT, sub)
    if not os.path.isdir(base):
        continue
    for id_ in sorted(os.listdir(base)):
        if not re.match(r"^C\d\d[a-z]$", id_):
            continue
        d = os.path.join(base, id_)
        title, needs = readme_bits(d)
        log = os.path.join(ROOT, "_runs", ("superseded-" if sub else "") + id_ + ".log")
        viol, summary = "", ""
        if os.path.exists(log):
            for l in open(log):
                if l.startswith("VIOLATION"):
                    viol = l.strip()
                if re.match(r"^C\d\d (quick|thorough):", l):
                    summary = l.strip()
        kind = "not run"
        if viol:
            kind = "tie broken, no failing input" if viol.endswith("no-failing-input-found") else "failing input reported"
        elif summary:
            kind = "MISSED"
        meta = {
            "id": id_, "property": id_[:3], "superseded": bool(sub),
            "change": title,
            "needs_to_manifest": needs,
            "confirmed_by_me": {
                "how": "tools/confirm_mutant.sh: scratch worktree of /repo at %s; git apply; go build ./... with and without -tags verif; "
                       "the 178 baseline tests; the demonstration on the pristine and on the changed tree" % (head[:7] if not sub else "44c7f81 (before the counter fixes)"),
                "result": confirm.get(id_, "see seeded/_runs.txt (confirmed at an earlier /repo HEAD)"),
            },
            "check": {"cmd": "git -C /repo apply seeded/%s/patch.diff && ./check %s ; git -C /repo checkout -- ." % (id_, id_[:3]),
                      "violation_line": viol, "summary": summary, "outcome": kind},
        }
        json.dump(meta, open(os.path.join(d, "meta.json"), "w"), indent=1)
        rows.append((id_ + (" (superseded)" if sub else ""), title[:90], kind, re.sub(r".*replay=", "", viol)[:70]))

with open(os.path.join(ROOT, "MATRIX.md"), "w") as f:
    f.write("# Seeded changes and what the checks say about them\n\n")
    f.write("Applied one at a time to /repo (`git -C /repo apply`), `./check <property>` (quick tier, seed 1), reverted.\n")
    f.write("Regenerate with `tools/run_seeded.sh && tools/seeded_report.py`.\n\n")
    f.write("| id | change | outcome of the property's check | replay |\n|---|---|---|---|\n")
    for r in rows:
        f.write("| %s | %s | %s | %s |\n" % r)
    caught = sum(1 for r in rows if r[2] == "failing input reported")
    f.write("\n%d changes; %d reported with a failing input, %d with a broken tie only, %d missed.\n" % (
        len(rows), caught, sum(1 for r in rows if r[2].startswith("tie broken")), sum(1 for r in rows if r[2] == "MISSED")))
print("wrote", len(rows), "metas")
