module lospanextract

go 1.21
