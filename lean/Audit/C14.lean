import LospanVerif.Props.C14
import LospanVerif.Tie.Cmac
#print axioms LospanVerif.Props.C14.C14_eq_rfc4493
#print axioms LospanVerif.Props.C14.C14_pure
#print axioms LospanVerif.Tie.Cmac.tie_constBSize
#print axioms LospanVerif.Tie.Cmac.tie_constZero
#print axioms LospanVerif.Tie.Cmac.tie_constRb
