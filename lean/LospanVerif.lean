import LospanVerif.Basic
import LospanVerif.Props.C14
import LospanVerif.Tie.Cmac
