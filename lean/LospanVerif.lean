import LospanVerif.Basic
import LospanVerif.Props.C11
import LospanVerif.Props.C12
import LospanVerif.Props.C13
import LospanVerif.Props.C14
import LospanVerif.Tie.Cmac
import LospanVerif.Tie.Protocol
import LospanVerif.Spec.Lorawan
