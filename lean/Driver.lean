import LospanVerif.Driver.Main
def main (args : List String) : IO UInt32 := LospanVerif.Driver.main args
