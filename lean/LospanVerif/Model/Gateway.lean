import LospanVerif.Basic
/-
  Model of pkg/gateway as it stands: the Semtech UDP header codec (protocol.go) and the
  forwarder's main loop as a sequential state machine (semtech.go `mainLoop`,
  `decodeReceivedJSON`, `encodeAndSend`). encoding/json and encoding/base64 are not modelled:
  the JSON body of a PUSH_DATA arrives already parsed (`none` = json.Unmarshal failed), each
  rxpk's `data` already base64-decoded (`none` = invalid base64).
-/
namespace LospanVerif
namespace Model.Gateway

def idPushData := 0
def idPushAck := 1
def idPullData := 2
def idPullResp := 3
def idPullAck := 4
def idTxAck := 5
def idUnknown := 99

structure GwPacket where
  version : Nat
  token : Nat
  identifier : Nat
  eui : Bytes          -- 8 octets; all zero when the packet type carries none
  json : Bytes         -- the JSON text as octets
  deriving DecidableEq, Repr, Inhabited

/-- `UnmarshalBinary`. An unknown identifier is an error (the packet is dropped by the reader). -/
def unmarshal (data : Bytes) : Res GwPacket :=
  if data.length < 4 then .err .truncated
  else
    let version := (data.getD 0 0#8).toNat
    let token := (data.getD 1 0#8).toNat * 256 + (data.getD 2 0#8).toNat
    let id := (data.getD 3 0#8).toNat
    if id = 0 then
      if data.length < 12 then .err .truncated
      else .ok ⟨version, token, idPushData, (data.drop 4).take 8, data.drop 12⟩
    else if id = 1 then .ok ⟨version, token, idPushAck, zeros 8, []⟩
    else if id = 2 then
      if data.length < 12 then .err .truncated
      else .ok ⟨version, token, idPullData, (data.drop 4).take 8, []⟩
    else if id = 3 then .ok ⟨version, token, idPullResp, zeros 8, data.drop 4⟩
    else if id = 4 then .ok ⟨version, token, idPullAck, zeros 8, []⟩
    else if id = 5 then .ok ⟨version, token, idTxAck, zeros 8, data.drop 4⟩
    else .err .other

def pad8 (e : Bytes) : Bytes := (e ++ zeros 8).take 8

/-- `MarshalBinary`. -/
def marshal (p : GwPacket) : Res Bytes :=
  let hdr := [byteOf p.version, byteOf (p.token / 256), byteOf p.token]
  if p.identifier = idPullAck then .ok (hdr ++ [4#8])
  else if p.identifier = idPushAck then .ok (hdr ++ [1#8])
  else if p.identifier = idPullData then .ok (hdr ++ [2#8] ++ pad8 p.eui)
  else if p.identifier = idPushData then .ok (hdr ++ [0#8] ++ pad8 p.eui ++ p.json)
  else if p.identifier = idPullResp then .ok (hdr ++ [3#8] ++ p.json)
  else if p.identifier = idTxAck then .ok (hdr ++ [5#8] ++ p.json)
  else .err .other

/-! ### main loop -/

structure Rxpk where
  data : Option Bytes     -- base64-decoded payload, `none` if the base64 is invalid
  tmst : Nat
  chan : Nat
  rfch : Nat
  datr : String
  rssi : Int
  lsnr : String           -- opaque token (float32 bits), passed through
  deriving DecidableEq, Repr, Inhabited

/-- A registered gateway as `GetGateway` returns it: IP string and the strict flag. -/
structure GwReg where
  ip : String
  strict : Bool
  deriving DecidableEq, Repr, Inhabited

/-- A received datagram: source address and the decoded header (malformed headers never reach the loop). -/
structure Datagram where
  host : String
  port : Nat
  pkt : GwPacket
  rxpk : Option (List Rxpk)   -- parsed JSON body (PUSH_DATA)
  deriving Repr, Inhabited

/-- A datagram the server sends. -/
structure Sent where
  host : String
  port : Nat
  identifier : Nat
  token : Nat
  version : Nat
  deriving DecidableEq, Repr, Inhabited

/-- A packet handed to the pipeline. -/
structure Forwarded where
  raw : Bytes
  datr : String
  chan : Nat
  rfch : Nat
  freq : String
  rssi : Int
  lsnr : String
  eui : Bytes
  host : String
  port : Nat
  clock : Nat
  version : Nat
  deriving DecidableEq, Repr, Inhabited

structure State where
  pullPorts : List (Bytes × Nat)    -- gateway EUI → source port of its latest PULL_DATA
  deriving Repr, Inhabited

def State.setPort (s : State) (eui : Bytes) (port : Nat) : State :=
  ⟨(eui, port) :: s.pullPorts.filter (fun e => e.1 != eui)⟩

def State.getPort (s : State) (eui : Bytes) : Nat := ((s.pullPorts.find? (fun e => e.1 == eui)).map (·.2)).getD 0

/-- `lookupFrequency`: the EU868 default channel plan; 868.1 for any other channel. -/
def lookupFrequency (chan : Nat) : String :=
  match chan with
  | 0 => "868.1" | 1 => "868.3" | 2 => "868.5" | 3 => "867.1"
  | 4 => "867.3" | 5 => "867.5" | 6 => "867.7" | 7 => "867.9"
  | _ => "868.1"

/-- `decodeReceivedJSON`: one packet per rxpk entry, in order, until an entry with invalid base64. -/
def forwardAll (d : Datagram) : List Rxpk → List Forwarded
  | [] => []
  | r :: rest =>
    match r.data with
    | none => []
    | some raw =>
      { raw := raw, datr := r.datr, chan := r.chan, rfch := r.rfch, freq := lookupFrequency r.chan,
        rssi := r.rssi, lsnr := r.lsnr, eui := d.pkt.eui, host := d.host, port := d.port,
        clock := r.tmst, version := d.pkt.version } :: forwardAll d rest

/-- One iteration of `mainLoop` for a received datagram. `checksOff` is
    `Config.DisableGatewayChecks`; `reg` is the gateway registry as it is *now*. -/
def step (checksOff : Bool) (reg : Bytes → Option GwReg) (s : State) (d : Datagram) :
    State × List Sent × List Forwarded :=
  if d.pkt.identifier = idPullData then
    (s.setPort d.pkt.eui d.port, [⟨d.host, d.port, idPullAck, d.pkt.token, d.pkt.version⟩], [])
  else if d.pkt.identifier = idPushData then
    let authorised :=
      checksOff ||
      (match reg d.pkt.eui with
       | none => false
       | some g => !(g.strict && g.ip != d.host))
    if !authorised then (s, [], [])
    else
      let fwd := match d.rxpk with
        | none => []
        | some rs => forwardAll d rs
      (s, [⟨d.host, d.port, idPushAck, d.pkt.token, d.pkt.version⟩], fwd)
  else (s, [], [])

/-- The txpk of a PULL_RESP (`encodeAndSend`). -/
structure Txpk where
  tmst : Nat
  tmstPresent : Bool
  freq : String
  rfch : Nat
  modu : String
  datr : String
  codr : String
  ipol : Bool
  size : Nat
  data : Bytes
  imme : Bool
  deriving DecidableEq, Repr, Inhabited

structure Downlink where
  raw : Bytes
  freq : String
  datr : String
  rx1Delay : Nat
  gwEUI : Bytes
  gwHost : String
  gwClock : Nat
  version : Nat
  deriving Repr, Inhabited

/-- `encodeAndSend`: `tmst = GatewayClock + 1000000*uint32(RX1Delay)` in 32-bit arithmetic,
    always present (no `omitempty`), addressed to the uplink's host and the port of the latest PULL_DATA. -/
def emit (s : State) (dl : Downlink) : Sent × Txpk :=
  (⟨dl.gwHost, s.getPort dl.gwEUI, idPullResp, 0, dl.version⟩,
   { tmst := (dl.gwClock + 1000000 * dl.rx1Delay) % 4294967296, tmstPresent := true, freq := dl.freq, rfch := 0,
     modu := "LORA", datr := dl.datr, codr := "4/5", ipol := true, size := dl.raw.length, data := dl.raw, imme := false })

end Model.Gateway
end LospanVerif
