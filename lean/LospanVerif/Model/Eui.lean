import LospanVerif.Basic
/-
  Model of pkg/protocol/eui.go, eui_generator.go (MA prefix combination, New{Device,Application}EUI)
  and of the key space limit of pkg/keys/eui_keygen.go.
-/
namespace LospanVerif
namespace Model.Eui

def maLarge := 24
def maMedium := 28
def maSmall := 36

structure MA where
  pfx : Bytes     -- 5 octets (only the first 3/4/5 meaningful)
  size : Nat
  deriving DecidableEq, Repr, Inhabited

/-- `EUIFromInt64`: eight octets, most significant first. -/
def euiFromInt64 (v : Nat) : Bytes := be64 v

/-- `MA.Combine`. -/
def combine (m : MA) (eui : Bytes) : Bytes :=
  let p (i : Nat) : Byte := m.pfx.getD i 0#8
  let e (i : Nat) : Byte := eui.getD i 0#8
  if m.size = maLarge then [p 0, p 1, p 2, e 3, e 4, e 5, e 6, e 7]
  else if m.size = maMedium then [p 0, p 1, p 2, (p 3 &&& 0xF0#8) ||| (e 3 &&& 0x0F#8), e 4, e 5, e 6, e 7]
  else if m.size = maSmall then [p 0, p 1, p 2, p 3, (p 4 &&& 0xF0#8) ||| (e 4 &&& 0x0F#8), e 5, e 6, e 7]
  else [e 0, e 1, e 2, e 3, e 4, e 5, e 6, e 7]   -- startingIndex stays 0: every octet is overwritten (unreachable for MAs made by NewMA)

/-- `NewDeviceEUI` = `NewApplicationEUI`: `ma.Combine(EUIFromInt64(int64(netID)<<25 | int64(counter)))`. -/
def newEUI (m : MA) (netID counter : Nat) : Bytes := combine m (euiFromInt64 ((netID <<< 25) ||| counter))

/-- eui_keygen.go: ids above `maxID` are reported as "key space exhausted". -/
def maxID : Nat := 2 ^ 25 - 1

/-- `NewEUIKeyGenerator`'s admissible NetIDs per MA size. -/
def maxNetID (size : Nat) : Nat := if size = maLarge then 0x7FFF else if size = maMedium then 0x7FF else 0x7

end Model.Eui
end LospanVerif
