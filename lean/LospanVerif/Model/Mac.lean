import LospanVerif.Basic
/-
  Model of pkg/protocol mac.go, mac_a.go, mac_b.go, maccommandset.go as they stand:
  the 22 MAC commands (encode/decode bodies with the code's masks and shifts), the buffer
  guard `isValidBuffer`, and the command set (a map keyed by CID in Go; here a list kept
  sorted by CID, which is exactly what `List()` exposes).

  Field values are `Nat`s holding the Go field (uint8/uint16/uint32/bool); Go's narrowing
  to a byte is `byteOf` (mod 256).
-/
namespace LospanVerif
namespace Model.Mac

inductive Cmd where
  | linkCheckReq
  | linkCheckAns (margin gwCnt : Nat)
  | linkADRReq (dataRate txPower chMask redundancy : Nat)
  | linkADRAns (powerAck dataRateAck chMaskAck : Bool)
  | dutyCycleReq (maxDCycle : Nat)
  | dutyCycleAns
  | rxParamSetupReq (rx1DRoffset rx2DataRate frequency : Nat)
  | rxParamSetupAns (rx1DRoffsetAck rx2DataRateAck channelAck : Bool)
  | devStatusReq
  | devStatusAns (battery margin : Nat)
  | newChannelReq (chIndex freq maxDR minDR : Nat)
  | newChannelAns (dataRangeOK channelFrequencyOK : Bool)
  | rxTimingSetupReq (del : Nat)
  | rxTimingSetupAns
  | pingSlotInfoReq (periodicity dataRate : Nat)
  | pingSlotInfoAns
  | pingSlotChannelReq (frequency maxDR minDR : Nat)
  | pingSlotFreqAns (dataRangeOK channelFrequencyOK : Bool)
  | beaconTimingReq
  | beaconTimingAns (delay channel : Nat)
  | beaconFreqReq (frequency : Nat)
  | beaconFreqAns
  deriving DecidableEq, Repr, Inhabited

/-- `ID()`: the CID constants of mac.go. -/
def Cmd.cid : Cmd → Nat
  | .linkCheckReq => 0x02 | .linkCheckAns .. => 0x02
  | .linkADRReq .. => 0x03 | .linkADRAns .. => 0x03
  | .dutyCycleReq .. => 0x04 | .dutyCycleAns => 0x04
  | .rxParamSetupReq .. => 0x05 | .rxParamSetupAns .. => 0x05
  | .devStatusReq => 0x06 | .devStatusAns .. => 0x06
  | .newChannelReq .. => 0x07 | .newChannelAns .. => 0x07
  | .rxTimingSetupReq .. => 0x08 | .rxTimingSetupAns => 0x08
  | .pingSlotInfoReq .. => 0x10 | .pingSlotInfoAns => 0x10
  | .pingSlotChannelReq .. => 0x11 | .pingSlotFreqAns .. => 0x11
  | .beaconTimingReq => 0x12 | .beaconTimingAns .. => 0x12
  | .beaconFreqReq .. => 0x13 | .beaconFreqAns => 0x13

/-- `Uplink()`: the flag the constructors put into `macBase`. -/
def Cmd.uplink : Cmd → Bool
  | .linkCheckReq | .linkADRAns .. | .dutyCycleAns | .rxParamSetupAns .. | .devStatusAns ..
  | .newChannelAns .. | .rxTimingSetupAns | .pingSlotInfoReq .. | .pingSlotFreqAns ..
  | .beaconTimingReq | .beaconFreqAns => true
  | _ => false

/-- `Length()` literals. -/
def Cmd.length : Cmd → Nat
  | .linkCheckReq => 1 | .linkCheckAns .. => 3 | .linkADRReq .. => 5 | .linkADRAns .. => 2
  | .dutyCycleReq .. => 2 | .dutyCycleAns => 1 | .rxParamSetupReq .. => 5 | .rxParamSetupAns .. => 2
  | .devStatusReq => 1 | .devStatusAns .. => 3 | .newChannelReq .. => 6 | .newChannelAns .. => 2
  | .rxTimingSetupReq .. => 2 | .rxTimingSetupAns => 1 | .pingSlotInfoReq .. => 2 | .pingSlotInfoAns => 1
  | .pingSlotChannelReq .. => 5 | .pingSlotFreqAns .. => 2 | .beaconTimingReq => 1
  | .beaconTimingAns .. => 4 | .beaconFreqReq .. => 4 | .beaconFreqAns => 1

/-- `NewUplinkMACCommand(cid)`: zero-valued command, `none` for `nil`. -/
def newUplink : Nat → Option Cmd
  | 0x02 => some .linkCheckReq
  | 0x03 => some (.linkADRAns false false false)
  | 0x04 => some .dutyCycleAns
  | 0x05 => some (.rxParamSetupAns false false false)
  | 0x06 => some (.devStatusAns 0 0)
  | 0x07 => some (.newChannelAns false false)
  | 0x08 => some .rxTimingSetupAns
  | 0x10 => some (.pingSlotInfoReq 0 0)
  | 0x11 => some (.pingSlotFreqAns false false)
  | 0x12 => some .beaconTimingReq
  | 0x13 => some .beaconFreqAns
  | _ => none

/-- `NewDownlinkMACCommand(cid)`. -/
def newDownlink : Nat → Option Cmd
  | 0x02 => some (.linkCheckAns 0 0)
  | 0x03 => some (.linkADRReq 0 0 0 0)
  | 0x04 => some (.dutyCycleReq 0)
  | 0x05 => some (.rxParamSetupReq 0 0 0)
  | 0x06 => some .devStatusReq
  | 0x07 => some (.newChannelReq 0 0 0 0)
  | 0x08 => some (.rxTimingSetupReq 0)
  | 0x10 => some .pingSlotInfoAns
  | 0x11 => some (.pingSlotChannelReq 0 0 0)
  | 0x12 => some (.beaconTimingAns 0 0)
  | 0x13 => some (.beaconFreqReq 0)
  | _ => none

def b2n (b : Bool) : Nat := if b then 1 else 0

/-- The bytes an `encode` body writes (CID first). The guard is applied by `encodeAt`. -/
def Cmd.body : Cmd → Bytes
  | .linkCheckReq => [0x02#8]
  | .linkCheckAns margin gwCnt => [0x02#8, byteOf margin, byteOf gwCnt]
  | .linkADRReq dataRate txPower chMask redundancy =>
      -- byte((m.DataRate << 4) | (m.TXPower & 0x0F)); PutUint16 LE; byte(Redundancy)
      [0x03#8, (byteOf dataRate <<< 4) ||| (byteOf txPower &&& 0x0F#8), byteOf chMask, byteOf (chMask / 256), byteOf redundancy]
  | .linkADRAns p d c => [0x03#8, byteOf (4 * b2n p + 2 * b2n d + b2n c)]
  | .dutyCycleReq m => [0x04#8, byteOf m]
  | .dutyCycleAns => [0x04#8]
  | .rxParamSetupReq off dr freq =>
      -- (RX1DRoffset & 0x7) << 4 | (RX2DataRate & 0xF); three frequency bytes, low first
      [0x05#8, ((byteOf off &&& 0x07#8) <<< 4) ||| (byteOf dr &&& 0x0F#8), byteOf freq, byteOf (freq / 256), byteOf (freq / 65536)]
  | .rxParamSetupAns a b c => [0x05#8, byteOf (4 * b2n a + 2 * b2n b + b2n c)]
  | .devStatusReq => [0x06#8]
  | .devStatusAns battery margin => [0x06#8, byteOf battery, byteOf margin &&& 0x3F#8]
  | .newChannelReq ch freq maxDR minDR =>
      -- PutUint32(buffer[pos:], Freq & 0xFFFFFF) then pos += 3 and the fourth byte is overwritten
      [0x07#8, byteOf ch, byteOf freq, byteOf (freq / 256), byteOf (freq / 65536),
       ((byteOf maxDR &&& 0x0F#8) <<< 4) ||| (byteOf minDR &&& 0x0F#8)]
  | .newChannelAns d f => [0x07#8, byteOf (2 * b2n d + b2n f)]
  | .rxTimingSetupReq del => [0x08#8, byteOf del &&& 0x0F#8]
  | .rxTimingSetupAns => [0x08#8]
  | .pingSlotInfoReq per dr => [0x10#8, ((byteOf per &&& 0x07#8) <<< 4) ||| (byteOf dr &&& 0x0F#8)]
  | .pingSlotInfoAns => [0x10#8]
  | .pingSlotChannelReq freq maxDR minDR =>
      [0x11#8, byteOf freq, byteOf (freq / 256), byteOf (freq / 65536),
       ((byteOf maxDR &&& 0x0F#8) <<< 4) ||| (byteOf minDR &&& 0x0F#8)]
  | .pingSlotFreqAns d f => [0x11#8, byteOf (2 * b2n d + b2n f)]
  | .beaconTimingReq => [0x12#8]
  | .beaconTimingAns delay ch => [0x12#8, byteOf delay, byteOf (delay / 256), byteOf ch]
  | .beaconFreqReq freq => [0x13#8, byteOf freq, byteOf (freq / 256), byteOf (freq / 65536)]
  | .beaconFreqAns => [0x13#8]

/-- `isValidBuffer`: `len(buffer) > *pos + cmd.Length()`. -/
def isValidBuffer (bufLen pos : Nat) (c : Cmd) : Bool := bufLen > pos + c.length

/-- `encode(buffer, pos)` on a buffer of `cap` bytes of which `out` have been written
    (`pos = out.length`): guard, then the body. -/
def encodeAt (cap : Nat) (out : Bytes) (c : Cmd) : Res Bytes :=
  if isValidBuffer cap out.length c then .ok (out ++ c.body) else .err .truncated

def bit (b : Byte) (mask : Byte) : Bool := (b &&& mask) != 0#8

/-- The field-reading part of a `decode` body, given the bytes following the CID
    (`p 0` is `buffer[*pos]` after the CID has been consumed). -/
def Cmd.readFields (p : Nat → Byte) : Cmd → Cmd
  | .linkCheckReq => .linkCheckReq
  | .linkCheckAns .. => .linkCheckAns (p 0).toNat (p 1).toNat
  | .linkADRReq .. => .linkADRReq (((p 0) &&& 0xF0#8) >>> 4).toNat ((p 0) &&& 0x0F#8).toNat
      ((p 1).toNat + 256 * (p 2).toNat) (p 3).toNat
  | .linkADRAns .. => .linkADRAns (bit (p 0) 0x04#8) (bit (p 0) 0x02#8) (bit (p 0) 0x01#8)
  | .dutyCycleReq .. => .dutyCycleReq (p 0).toNat
  | .dutyCycleAns => .dutyCycleAns
  | .rxParamSetupReq .. => .rxParamSetupReq (((p 0) &&& 0x70#8) >>> 4).toNat ((p 0) &&& 0x0F#8).toNat
      ((p 1).toNat + 256 * (p 2).toNat + 65536 * (p 3).toNat)
  | .rxParamSetupAns .. => .rxParamSetupAns (bit (p 0) 0x04#8) (bit (p 0) 0x02#8) (bit (p 0) 0x01#8)
  | .devStatusReq => .devStatusReq
  | .devStatusAns .. => .devStatusAns (p 0).toNat (p 1).toNat
  | .newChannelReq .. => .newChannelReq (p 0).toNat
      ((p 1).toNat + 256 * (p 2).toNat + 65536 * (p 3).toNat)
      (((p 4) &&& 0xF0#8) >>> 4).toNat ((p 4) &&& 0x0F#8).toNat
  | .newChannelAns .. => .newChannelAns (bit (p 0) 0x02#8) (bit (p 0) 0x01#8)
  | .rxTimingSetupReq .. => .rxTimingSetupReq ((p 0) &&& 0x0F#8).toNat
  | .rxTimingSetupAns => .rxTimingSetupAns
  | .pingSlotInfoReq .. => .pingSlotInfoReq (((p 0) &&& 0x70#8) >>> 4).toNat ((p 0) &&& 0x0F#8).toNat
  | .pingSlotInfoAns => .pingSlotInfoAns
  | .pingSlotChannelReq .. => .pingSlotChannelReq
      ((p 0).toNat + 256 * (p 1).toNat + 65536 * (p 2).toNat)
      (((p 3) &&& 0xF0#8) >>> 4).toNat ((p 3) &&& 0x0F#8).toNat
  | .pingSlotFreqAns .. => .pingSlotFreqAns (bit (p 0) 0x02#8) (bit (p 0) 0x01#8)
  | .beaconTimingReq => .beaconTimingReq
  | .beaconTimingAns .. => .beaconTimingAns ((p 0).toNat + 256 * (p 1).toNat) (p 2).toNat
  | .beaconFreqReq .. => .beaconFreqReq ((p 0).toNat + 256 * (p 1).toNat + 65536 * (p 2).toNat)
  | .beaconFreqAns => .beaconFreqAns

/-- `decode(buffer, pos)` of the command `c` that `New…MACCommand(buffer[pos])` produced:
    `decodeID` (guard `isValidBuffer`, CID check), then the fields. Returns the command and
    the new position. -/
def decodeAt (buffer : Bytes) (pos : Nat) (c : Cmd) : Res (Cmd × Nat) :=
  if !isValidBuffer buffer.length pos c then .err .truncated
  else do
    let id ← idx buffer pos
    if id.toNat ≠ c.cid then .err .invalidSource
    else .ok (c.readFields (fun i => buffer.getD (pos + 1 + i) 0#8), pos + c.length)

/-! ### Command set -/

def isUplinkMType (mt : Nat) : Bool := mt == 0 || mt == 2 || mt == 4

structure CmdSet where
  cmds : List Cmd        -- sorted by CID, one per CID
  maxLength : Nat
  message : Nat          -- the MType the set was created for
  deriving Repr, Inhabited

def CmdSet.new (message maxLength : Nat) : CmdSet := ⟨[], maxLength, message⟩

def CmdSet.encodedLength (s : CmdSet) : Nat := (s.cmds.map Cmd.length).sum
def CmdSet.size (s : CmdSet) : Nat := s.cmds.length

/-- `m.commands[cmd.ID()] = cmd` on the CID-sorted list. -/
def insertCmd (c : Cmd) : List Cmd → List Cmd
  | [] => [c]
  | d :: rest =>
    if c.cid < d.cid then c :: d :: rest
    else if c.cid = d.cid then c :: rest
    else d :: insertCmd c rest

/-- `Add`. -/
def CmdSet.add (s : CmdSet) (c : Cmd) : CmdSet × Bool :=
  if s.encodedLength + c.length > s.maxLength then (s, false)
  else if c.uplink != isUplinkMType s.message then (s, false)
  else ({ s with cmds := insertCmd c s.cmds }, true)

/-- `List()` -/
def CmdSet.list (s : CmdSet) : List Cmd := s.cmds

/-- `encode`: every command of `List()` in turn. -/
def CmdSet.encodeAt (cap : Nat) (out : Bytes) (s : CmdSet) : Res Bytes :=
  s.cmds.foldl (fun acc c => acc >>= fun o => Model.Mac.encodeAt cap o c) (.ok out)

/-- Result of `MACCommandSet.decode`: the set and cursor as left behind, and how it ended. -/
inductive SetEnd where
  | full        -- `return nil`: the next command would exceed `maxLength`
  | unknown     -- `errUnknownMAC`
  deriving DecidableEq, Repr

/-- `if m.message.Uplink() { NewUplinkMACCommand(cid) } else { NewDownlinkMACCommand(cid) }` -/
def newCmd (uplink : Bool) (cid : Nat) : Option Cmd := if uplink then newUplink cid else newDownlink cid

/-- The loop of `MACCommandSet.decode`; `fuel` bounds the iterations (each consumes ≥ 1 byte). -/
def decodeLoop (buffer : Bytes) (uplink : Bool) : Nat → CmdSet → Nat → Nat → Res (CmdSet × Nat × SetEnd)
  | 0, _, _, _ => .err .other
  | fuel + 1, s, pos, currentLength =>
    if buffer.length ≤ pos then .err .truncated
    else
      match newCmd uplink (buffer.getD pos 0#8).toNat with
      | none => .ok (s, pos, .unknown)
      | some c =>
        if currentLength + c.length > s.maxLength then .ok (s, pos, .full)
        else
          match decodeAt buffer pos c with
          | .ok (c', pos') =>
            if (s.add c').2 then decodeLoop buffer uplink fuel (s.add c').1 pos' (currentLength + c.length)
            else .err .invalidSource
          | .err e => .err e
          | .panic => .panic

/-- `MACCommandSet.decode(buffer, pos)`. -/
def CmdSet.decode (s : CmdSet) (buffer : Bytes) (pos : Nat) : Res (CmdSet × Nat × SetEnd) :=
  if buffer.length < pos + 1 then .err .truncated
  else decodeLoop buffer (isUplinkMType s.message) (buffer.length + 1) { s with cmds := [] } pos 0

end Model.Mac
end LospanVerif
