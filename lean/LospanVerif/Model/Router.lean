/-
  Model of pkg/server/eventrouter.go: the routing table is a list of (identifier, channel) in
  subscription order; every method body is one critical section, so the model is sequential.
  A channel is its index of creation, its buffered content a list (oldest first).
-/
namespace LospanVerif
namespace Model.Router

structure Route where
  id : Nat
  ch : Nat
  deriving DecidableEq, Repr

structure St where
  routes : List Route                 -- the table, in subscription order
  nextCh : Nat                        -- channels created so far
  buf : Nat → List Nat                -- per channel: events sent and not yet read
  got : Nat → List Nat                -- per channel: events read by its subscriber so far (history)
  closed : List Nat                   -- channels closed so far, one entry per close() call
  sentOnClosed : Bool                 -- a send hit a closed channel (would panic)

inductive Op where
  | subscribe (id : Nat)
  | unsubscribe (ch : Nat)
  | publish (id ev : Nat)
  | read (ch : Nat)                   -- the subscriber drains its channel
  deriving Repr

def init : St := ⟨[], 0, fun _ => [], fun _ => [], [], false⟩

def updL (f : Nat → List Nat) (k : Nat) (v : List Nat) : Nat → List Nat := fun x => if x = k then v else f x

/-- `Unsubscribe`: the first route whose channel is `ch` is closed and removed. -/
def removeFirst (ch : Nat) : List Route → List Route × Bool
  | [] => ([], false)
  | r :: rest => if r.ch = ch then (rest, true) else
      let (l, f) := removeFirst ch rest
      (r :: l, f)

/-- `Publish`: one send per route with that identifier, in table order. -/
def sendAll (id ev : Nat) (closed : List Nat) : List Route → (Nat → List Nat) → Bool → (Nat → List Nat) × Bool
  | [], buf, bad => (buf, bad)
  | r :: rest, buf, bad =>
    if r.id = id then sendAll id ev closed rest (updL buf r.ch (buf r.ch ++ [ev])) (bad || closed.contains r.ch)
    else sendAll id ev closed rest buf bad

def step (s : St) : Op → St
  | .subscribe id => { s with routes := s.routes ++ [⟨id, s.nextCh⟩], nextCh := s.nextCh + 1 }
  | .unsubscribe ch =>
    let (l, found) := removeFirst ch s.routes
    { s with routes := l, closed := if found then ch :: s.closed else s.closed }
  | .publish id ev =>
    let (b, bad) := sendAll id ev s.closed s.routes s.buf s.sentOnClosed
    { s with buf := b, sentOnClosed := bad }
  | .read ch => { s with got := updL s.got ch (s.got ch ++ s.buf ch), buf := updL s.buf ch [] }

def run (s : St) (ops : List Op) : St := ops.foldl step s

end Model.Router
end LospanVerif
