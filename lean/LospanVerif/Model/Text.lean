import LospanVerif.Basic
/-
  Model of the textual / integer encodings the store uses for its columns:
  devaddr.go `String` (`%08x`) and `DevAddrFromString` (`ParseUint(s, 16, 32)`),
  eui.go `String`, `EUIFromString`, `ToInt64`, `EUIFromInt64`, aeskey.go `String`, `AESKeyFromString`.
-/
namespace LospanVerif
namespace Model.Text

/-- `fmt.Sprintf("%08x", v)` for a uint32: eight lower-case hex digits. -/
def hex8 (v : Nat) : List Char := toHexChars (be64 v |>.drop 4)

/-- `strconv.ParseUint(s, 16, 32)`: non-empty, hex digits only (either case), value below 2³². -/
def parseHexNat : List Char → Option Nat
  | [] => none
  | cs => cs.foldl (fun acc c => match acc, hexVal c with
      | some a, some d => some (16 * a + d)
      | _, _ => none) (some 0)

def parseUint32 (cs : List Char) : Option Nat :=
  match parseHexNat cs with
  | some v => if v < 4294967296 then some v else none
  | none => none

/-- `EUI.String()`: "xx-xx-xx-xx-xx-xx-xx-xx". -/
def euiString (octets : Bytes) : List Char :=
  (octets.map byteHex).intersperse ['-'] |>.flatten

/-- `EUIFromString`: dashes removed, surrounding space trimmed (not modelled: inputs come from `euiString`), 8 octets of hex. -/
def parseEui (cs : List Char) : Option Bytes :=
  match ofHexChars (cs.filter (· != '-')) with
  | some bs => if bs.length = 8 then some bs else none
  | none => none

/-- `EUI.ToInt64()`: the eight octets as a two's-complement 64-bit integer. -/
def toInt64 (octets : Bytes) : Int :=
  let u := unbe octets
  if u < 2 ^ 63 then (u : Int) else (u : Int) - 2 ^ 64

/-- `EUIFromInt64`. -/
def fromInt64 (v : Int) : Bytes := be64 (v % 2 ^ 64).toNat

/-- `AESKey.String()` = `hex.EncodeToString`; `AESKeyFromString` = spaces removed, 16 octets of hex. -/
def keyString (key : Bytes) : List Char := toHexChars key
def parseKey (cs : List Char) : Option Bytes :=
  match ofHexChars (cs.filter (· != ' ')) with
  | some bs => if bs.length = 16 then some bs else none
  | none => none

end Model.Text
end LospanVerif
