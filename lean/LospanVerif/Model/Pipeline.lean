import LospanVerif.Basic
import LospanVerif.Model.Phy
/-
  Model of the processing pipeline as it stands (pkg/processor: decoder, decrypter incl. OTAA
  join, MAC processor, scheduler, encoder; pkg/server/frameoutputbuffer.go; the storage
  operations they use), as a transition system at the granularity of individual storage and
  output-buffer operations (DESIGN §5, Appendix A). Every handler instance is a *thread* with a
  program counter and its locals (above all the device snapshot it read); one `step` executes
  the thread's next operation, optionally making that operation fail (`fault`).

  Crypto is the frame model of Model/Phy.lean with the block function a parameter; clock values
  are a logical counter (only zero / non-zero and order matter); the random AppNonce and the
  random DevAddr of a join are inputs chosen by the environment.
-/
namespace LospanVerif
namespace Model.Pipeline
open Model.Phy Model.Mac
open Spec.Rfc4493 (BlockFn)

structure Device where
  eui : Bytes
  appEUI : Bytes
  devAddr : Nat
  appKey : Bytes
  nwkSKey : Bytes
  appSKey : Bytes
  fcntUp : Nat
  fcntDn : Nat
  relaxed : Bool
  keyWarning : Bool
  nonces : List Nat
  deriving DecidableEq, Repr, Inhabited

structure InRow where
  dev : Bytes
  ts : Nat
  data : Bytes
  gw : Bytes
  devAddr : Nat
  radio : String        -- RSSI/SNR/frequency/data-rate tokens, passed through
  deriving DecidableEq, Repr, Inhabited

structure OutRow where
  dev : Bytes
  created : Nat
  port : Nat
  data : Bytes
  ack : Bool
  sent : Nat            -- 0 = unsent, otherwise the logical time it was marked sent
  acked : Nat           -- 0 = not acknowledged
  fcntUp : Nat
  deriving DecidableEq, Repr, Inhabited

structure DB where
  devices : List Device
  apps : List Bytes
  inbox : List InRow
  outbox : List OutRow
  nonces : List (Bytes × Nat) := []     -- table lora_device_nonces, primary key (device EUI, nonce)
  deriving Repr, Inhabited

structure FobEntry where
  mtype : Nat
  ack : Bool
  port : Nat
  payload : Bytes
  ja : Option JoinAccept
  deriving Repr, Inhabited

structure GwCtx where
  gwEUI : Bytes
  ts : Nat              -- ReceivedAt, the inbox primary key together with the device
  radio : String
  dataRate : String
  clock : Nat
  deriving DecidableEq, Repr, Inhabited

structure Ctx where
  device : Device
  appEUI : Bytes
  gw : GwCtx
  payloadCreate : Nat
  deriving Repr, Inhabited

structure Down where
  raw : Bytes
  gw : GwCtx
  delay : Nat
  dev : Bytes
  deriving Repr, Inhabited

structure Published where
  app : Bytes
  dev : Bytes
  payload : Bytes
  deriving DecidableEq, Repr, Inhabited

/-- Uplink handler locals. `todo` are the MIC-matching device snapshots not yet processed,
    `cur` the one being processed, `nmatch` the number of matching devices. -/
structure UpSt where
  pc : Nat
  p : PHY
  raw : Bytes
  gw : GwCtx
  todo : List Device
  nmatch : Nat
  cur : Device
  plain : Bytes         -- the payload as decrypted for `cur` (the frame itself stays as received)
  msg : Option OutRow
  deriving Repr, Inhabited

structure JoinSt where
  pc : Nat
  p : PHY
  raw : Bytes
  gw : GwCtx
  dev : Device          -- snapshot read by processJoinRequest
  ctxDev : Device       -- the copy put into the frame context before the keys change
  appNonce : Bytes      -- environment input
  newAddr : Nat         -- environment input (used when the device has no address yet)
  deriving Repr, Inhabited

inductive Thread where
  | uplink (s : UpSt)
  | join (s : JoinSt)
  | notify (p : PHY) (c : Ctx)            -- a message on its way to the scheduler
  | sendAt (c : Ctx)                      -- scheduler's sendAt before GetPHYPayloadForDevice
  | sendDone (eui : Bytes)                -- sendAt about to report completion
  | encoder (pc : Nat) (p : PHY) (c : Ctx) (bytes : Bytes)
  | done
  deriving Repr, Inhabited

structure Config where
  netID : Nat
  nonceCheckOff : Bool
  deriving Repr, Inhabited

structure Sys where
  db : DB
  fob : List (Bytes × FobEntry)
  scheduled : List Bytes
  threads : List Thread
  emitted : List Down
  published : List Published
  now : Nat
  /-- history variables (not part of the code's state): the uplink counters whose `AdvanceFCntUp`
      succeeded and the downlink counters `NextFCntDn` handed out, per device, in the current
      session and before the 16-bit counter wraps (a join, and the wrap, start a new epoch). -/
  acceptedUp : List (Bytes × Nat) := []
  issuedDn : List (Bytes × Nat) := []
  /-- more history: (device, counter) of every data downlink handed to the gateway, and the devices
      whose downlink-counter epoch has ended (join or 16-bit wrap), most recent first. -/
  emittedDn : List (Bytes × Nat) := []
  resetsDn : List Bytes := []
  /-- …and the same for uplinks: (device, counter) of every inbox row written for a device copy with
      strict counter checking, and the devices whose uplink-counter epoch has ended. -/
  recordedUp : List (Bytes × Nat) := []
  resetsUp : List Bytes := []
  /-- …and for joins: (device, DevNonce) of every key change made while the nonce check is on. -/
  keyedJoins : List (Bytes × Nat) := []
  /-- …and for acknowledgements: the device of every accepted confirmed uplink that set the pending-
      ACK flag, and the device of every assembled frame that carried the ACK flag. -/
  ackSets : List Bytes := []
  ackFrames : List Bytes := []
  /-- …and for payloads: (device, plaintext FRMPayload) of every data downlink handed to the gateway. -/
  emittedPl : List (Bytes × Bytes) := []
  /-- …and for answers: the device of every hand-over of a handled frame to the scheduler (the last
      step of the uplink handler, in the same step as the publication to the application, and the last
      step of the join handler). -/
  notified : List Bytes := []
  /-- …and, for the copies clause: (device, the frame's FCnt, whether the device copy was a relaxed
      one) of every hand-over by the uplink handler. -/
  handedUp : List (Bytes × Nat × Bool) := []
  deriving Repr, Inhabited

def Sys.init (db : DB) : Sys := { db := db, fob := [], scheduled := [], threads := [], emitted := [], published := [], now := 1 }

/-- A new epoch of the counters of device `e` (join, or the 16-bit wrap). -/
def forget (l : List (Bytes × Nat)) (e : Bytes) : List (Bytes × Nat) := l.filter (fun x => x.1 != e)
/-- Counter `f` of device `e` was used; when it was the last one of the 16-bit space the epoch ends. -/
def noteCounter (l : List (Bytes × Nat)) (e : Bytes) (f : Nat) : List (Bytes × Nat) :=
  if f + 1 < 65536 then l ++ [(e, f)] else forget l e

/-! ### storage operations (storage/device.go, messages.go, application.go) -/

def DB.byAddr (db : DB) (addr : Nat) : List Device := db.devices.filter (·.devAddr == addr)
/-- The device row with that EUI. -/
def DB.rowByEUI (db : DB) (eui : Bytes) : Option Device := db.devices.find? (·.eui == eui)
/-- The DevNonce history of a device: its rows in the nonce table. -/
def DB.noncesOf (db : DB) (eui : Bytes) : List Nat := (db.nonces.filter (fun x => x.1 == eui)).map (·.2)
/-- `GetDeviceByEUI`: the device row together with its DevNonce history. -/
def DB.byEUI (db : DB) (eui : Bytes) : Option Device := (db.rowByEUI eui).map (fun d => { d with nonces := db.noncesOf eui })

/-- `UpdateDeviceState`: fcnt_dn, fcnt_up, key_warning of the row with that EUI; NotFound if none. -/
def DB.updateState (db : DB) (d : Device) : Option DB :=
  if db.devices.any (·.eui == d.eui) then
    some { db with devices := db.devices.map (fun x => if x.eui == d.eui then { x with fcntDn := d.fcntDn, fcntUp := d.fcntUp, keyWarning := d.keyWarning } else x) }
  else none

/-- `AdvanceFCntUp(eui, fcnt, keyWarning)`: one conditional UPDATE — rows of that EUI whose stored
    uplink counter is not past `fcnt` get `fcnt+1` (16 bit) and the key-warning flag; NotFound if
    no row was changed. -/
def DB.advanceFCntUp (db : DB) (eui : Bytes) (fcnt : Nat) (kw : Bool) : Option DB :=
  if db.devices.any (fun x => x.eui == eui && x.fcntUp ≤ fcnt) then
    some { db with devices := db.devices.map (fun x => if x.eui == eui && x.fcntUp ≤ fcnt then { x with fcntUp := (fcnt + 1) % 65536, keyWarning := kw } else x) }
  else none

/-- `NextFCntDn(eui)`: in one transaction under the storage mutex, read the downlink counter of the
    device, store counter+1 (16 bit), return the value read; NotFound if there is no such device. -/
def DB.nextFCntDn (db : DB) (eui : Bytes) : Option (DB × Nat) :=
  match db.rowByEUI eui with
  | none => none
  | some d => some ({ db with devices := db.devices.map (fun x => if x.eui == eui then { x with fcntDn := (d.fcntDn + 1) % 65536 } else x) }, d.fcntDn)

/-- `UpdateDevice`: every column but the EUI and the application. -/
def DB.updateDevice (db : DB) (d : Device) : Option DB :=
  if db.devices.any (·.eui == d.eui) then
    some { db with devices := db.devices.map (fun x => if x.eui == d.eui then
      { x with devAddr := d.devAddr, appKey := d.appKey, appSKey := d.appSKey, nwkSKey := d.nwkSKey,
               fcntUp := d.fcntUp, fcntDn := d.fcntDn, relaxed := d.relaxed, keyWarning := d.keyWarning } else x) }
  else none

/-- `AddDevNonce`: one INSERT into the nonce table, primary key (device, nonce); there is no foreign
    key to the device table. -/
def DB.addNonce (db : DB) (eui : Bytes) (n : Nat) : Option DB :=
  if db.nonces.contains (eui, n) then none else some { db with nonces := db.nonces ++ [(eui, n)] }

/-- `CreateUpstreamMessage`: primary key (device, time stamp). -/
def DB.addInbox (db : DB) (r : InRow) : Option DB :=
  if db.inbox.any (fun x => x.dev == r.dev && x.ts == r.ts) then none else some { db with inbox := db.inbox ++ [r] }

def DB.hasApp (db : DB) (e : Bytes) : Bool := db.apps.contains e

/-- `UpdateMessageAckTime(eui, fcnt, now)`: rows of the device with that fcnt_up, sent and not yet acknowledged. -/
def DB.ackTime (db : DB) (eui : Bytes) (fcnt now : Nat) : DB :=
  { db with outbox := db.outbox.map (fun m => if m.dev == eui && m.fcntUp == fcnt && m.sent > 0 && m.acked == 0 then { m with acked := now } else m) }

/-- `ResetActiveAcks(eui)`: confirmed messages sent and not acknowledged go back to unsent. -/
def DB.resetAcks (db : DB) (eui : Bytes) : DB :=
  { db with outbox := db.outbox.map (fun m => if m.dev == eui && m.sent > 0 && m.acked == 0 && m.ack then { m with sent := 0, fcntUp := 0 } else m) }

/-- Insertion by `created` (the listing is `ORDER BY created_time`). -/
def insertByCreated (m : OutRow) : List OutRow → List OutRow
  | [] => [m]
  | x :: rest => if m.created < x.created then m :: x :: rest else x :: insertByCreated m rest

/-- `GetNextUnsentMessage`: oldest (by created) unsent message of the device. -/
def DB.nextUnsent (db : DB) (eui : Bytes) : Option OutRow :=
  ((db.outbox.filter (fun m => m.dev == eui && m.sent == 0)).foldl (fun acc m => insertByCreated m acc) []).head?

/-- `SetMessageSentTime(eui, created, now, fcnt)`. -/
def DB.setSent (db : DB) (eui : Bytes) (created now fcnt : Nat) : DB :=
  { db with outbox := db.outbox.map (fun m => if m.dev == eui && m.created == created then { m with sent := now, fcntUp := fcnt } else m) }

/-- `CreateDownstreamMessage` (API SendMessage): primary key (device, created). -/
def DB.addOutbox (db : DB) (m : OutRow) : Option DB :=
  if db.outbox.any (fun x => x.dev == m.dev && x.created == m.created) then none else some { db with outbox := db.outbox ++ [m] }

/-! ### output buffer (frameoutputbuffer.go); MAC commands are never queued by the server -/

def fobGet (fob : List (Bytes × FobEntry)) (e : Bytes) : Option FobEntry := (fob.find? (·.1 == e)).map (·.2)
def fobSet (fob : List (Bytes × FobEntry)) (e : Bytes) (v : FobEntry) : List (Bytes × FobEntry) :=
  (e, v) :: fob.filter (·.1 != e)
def fobDel (fob : List (Bytes × FobEntry)) (e : Bytes) : List (Bytes × FobEntry) := fob.filter (·.1 != e)

def newEntry (mtype : Nat) : FobEntry := ⟨mtype, false, 0, [], none⟩

def fobSetAck (fob : List (Bytes × FobEntry)) (e : Bytes) : List (Bytes × FobEntry) :=
  fobSet fob e { (fobGet fob e).getD (newEntry mtUnconfirmedDataDown) with ack := true }

def fobSetPayload (fob : List (Bytes × FobEntry)) (e : Bytes) (payload : Bytes) (port : Nat) (ack : Bool) : List (Bytes × FobEntry) :=
  fobSet fob e { (fobGet fob e).getD (newEntry mtUnconfirmedDataDown) with
    payload := payload, port := port, mtype := if ack then mtConfirmedDataDown else mtUnconfirmedDataDown }

/-- `SetJoinAcceptPayload`: when no entry exists the (shadowed) fresh entry is overwritten by a
    zero-valued one carrying the payload; either way type JoinAccept, port 0. -/
def fobSetJoinAccept (fob : List (Bytes × FobEntry)) (e : Bytes) (ja : JoinAccept) : List (Bytes × FobEntry) :=
  match fobGet fob e with
  | some fd => fobSet fob e { fd with ja := some ja, port := 0, mtype := mtJoinAccept }
  | none => fobSet fob e { mtype := mtJoinAccept, ack := false, port := 0, payload := [], ja := some ja }

/-- EU868 `MaximumPayload(dataRate).WithoutFOpts()` (no MAC commands are ever queued). -/
def maxPayload (dataRate : String) : Option Nat :=
  if dataRate = "SF12BW125" ∨ dataRate = "SF11BW125" ∨ dataRate = "SF10BW125" then some 59
  else if dataRate = "SF9BW125" then some 123
  else if dataRate = "SF8BW125" ∨ dataRate = "SF7BW125" ∨ dataRate = "SF7BW250" ∨ dataRate = "FSKBW500" then some 230
  else none

/-- `GetPHYPayloadForDevice`: `none` = error / nothing to send. Returns the frame to encode. -/
def fobTake (fob : List (Bytes × FobEntry)) (d : Device) (dataRate : String) : List (Bytes × FobEntry) × Option PHY :=
  match fobGet fob d.eui with
  | none => (fob, none)
  | some fd =>
    if fd.payload.length = 0 ∧ fd.mtype ≠ mtJoinAccept ∧ !fd.ack then (fobDel fob d.eui, none)
    else
      let base := PHY.new fd.mtype
      let fc : FCtrl := { base.mac.fhdr.fctrl with ack := fd.ack }
      let hdr : FHDR := { base.mac.fhdr with devAddr := (DevAddr.ofUint32 d.devAddr), fctrl := fc, fcnt := 0 }
      let ja := fd.ja.getD base.joinAcc
      let fdAcked := { fd with ack := false }
      if fd.payload.length > 0 then
        match maxPayload dataRate with
        | none => (fob, none)        -- error return before the entry is written back
        | some mx =>
          let (now, later) := if fd.payload.length > mx then (fd.payload.take mx, fd.payload.drop mx) else (fd.payload, [])
          let pending := later.length > 0
          let fd' := { fdAcked with payload := later }
          let fd'' := if fd.mtype = mtJoinAccept then { fd' with mtype := mtUnconfirmedDataDown, ja := none } else fd'
          (fobSet fob d.eui fd'',
           some { base with mac := { base.mac with fhdr := { hdr with fctrl := { hdr.fctrl with fPending := pending } }, fport := fd.port, frm := now },
                            joinAcc := ja })
      else
        let fd'' := if fd.mtype = mtJoinAccept then { fdAcked with mtype := mtUnconfirmedDataDown, ja := none } else fdAcked
        (fobSet fob d.eui fd'',
         some { base with mac := { base.mac with fhdr := hdr, fport := fd.port, frm := [] }, joinAcc := ja })

/-! ### thread programs -/

def eui8 (b : Bytes) : Bytes := (b ++ zeros 8).take 8

/-- The devices among `devs` whose (non-empty) NwkSKey verifies the frame's MIC over the received bytes. -/
def matching (E : BlockFn) (devs : List Device) (p : PHY) (raw : Bytes) : List Device :=
  devs.filter (fun d => !(d.nwkSKey.all (· == 0#8)) && calculateMIC E d.nwkSKey p (raw.take (raw.length - 4)) == p.mic)

/-- A frame arrives from a gateway: the decoder stage, then the decrypter's dispatch. The join's
    environment inputs ride along. -/
def spawn (raw : Bytes) (gw : GwCtx) (appNonce : Bytes) (newAddr : Nat) : Option Thread :=
  match unmarshal raw with
  | .ok p =>
    if p.mhdr.mtype = mtJoinRequest then
      some (.join ⟨0, p, raw, gw, default, default, appNonce, newAddr⟩)
    else some (.uplink ⟨0, p, raw, gw, [], 0, default, [], none⟩)
  | _ => none

def replaceAt (l : List Thread) (i : Nat) (t : Thread) : List Thread := l.set i t

/-- One operation of the uplink handler (decrypter.go). `fault` makes the storage operation of
    this step return an error. -/
def stepUplink (E : BlockFn) (sys : Sys) (s : UpSt) (fault : Bool) : Sys × List Thread :=
  let fcnt := s.p.mac.fhdr.fcnt
  let nextDevice (sys : Sys) (s : UpSt) : Sys × List Thread :=
    match s.todo with
    | [] => (sys, [.done])
    | d :: rest => (sys, [.uplink { s with pc := 1, cur := d, todo := rest, msg := none }])
  match s.pc with
  | 0 =>
    -- type check, GetDeviceByDevAddr, MIC check
    if s.p.mhdr.mtype ≠ mtUnconfirmedDataUp ∧ s.p.mhdr.mtype ≠ mtConfirmedDataUp then (sys, [.done])
    else if fault then (sys, [.done])
    else
      let devs := sys.db.byAddr s.p.mac.fhdr.devAddr.toUint32
      if s.raw.length < minimumMessageSize then (sys, [.done])
      else
        let m := matching E devs s.p s.raw
        nextDevice sys { s with todo := m, nmatch := m.length }
  | 1 =>
    -- validFrameCounter, key warning, counter update → UpdateDeviceState (or skip)
    let d := s.cur
    if !d.relaxed && d.fcntUp > fcnt then nextDevice sys s
    else
      let d := if s.nmatch > 1 then { d with keyWarning := true } else d
      if fcnt ≥ d.fcntUp then
        -- AdvanceFCntUp: the stored counter is checked again by the statement that moves it
        if fault then nextDevice sys s
        else match sys.db.advanceFCntUp d.eui fcnt d.keyWarning with
          | some db => ({ sys with db := db, acceptedUp := noteCounter sys.acceptedUp d.eui fcnt,
                                    resetsUp := if fcnt + 1 < 65536 then sys.resetsUp else d.eui :: sys.resetsUp },
                        [.uplink { s with pc := 2, cur := { d with fcntUp := (fcnt + 1) % 65536 } }])
          | none =>
            -- the stored counter is already past this one (or the row is gone): fine for a relaxed device
            if d.relaxed then (sys, [.uplink { s with pc := 2, cur := { d with fcntUp := (fcnt + 1) % 65536 } }])
            else nextDevice sys s
      else (sys, [.uplink { s with pc := 2, cur := d }])   -- no storage operation in this case; `fault` has nothing to hit
  | 2 =>
    -- Decrypt, CreateUpstreamMessage
    let d := s.cur
    let plain := decryptFrm E d.nwkSKey d.appSKey s.p
    let s := { s with plain := plain }
    if fault then nextDevice sys s
    else match sys.db.addInbox ⟨d.eui, s.gw.ts, plain, s.gw.gwEUI, d.devAddr, s.gw.radio⟩ with
      | some db => ({ sys with db := db, recordedUp := if d.relaxed then sys.recordedUp else sys.recordedUp ++ [(d.eui, fcnt)] },
                    [.uplink { s with pc := 3 }])
      | none => nextDevice sys s
  | 3 =>
    -- GetApplicationByEUI
    if fault || !sys.db.hasApp s.cur.appEUI then nextDevice sys s
    else (sys, [.uplink { s with pc := 4 }])
  | 4 =>
    -- SetMessageAckFlag for confirmed uplinks (output buffer; cannot fail)
    let sys := if s.p.mhdr.mtype = mtConfirmedDataUp then { sys with fob := fobSetAck sys.fob s.cur.eui, ackSets := sys.ackSets ++ [s.cur.eui] } else sys
    (sys, [.uplink { s with pc := 5 }])
  | 5 =>
    -- UpdateMessageAckTime / ResetActiveAcks (errors ignored / logged)
    let sys := if fault then sys
      else if s.p.mac.fhdr.fctrl.ack then { sys with db := sys.db.ackTime s.cur.eui fcnt sys.now, now := sys.now + 1 }
      else { sys with db := sys.db.resetAcks s.cur.eui }
    (sys, [.uplink { s with pc := 6 }])
  | 6 =>
    -- GetNextUnsentMessage
    let m := if fault then none else sys.db.nextUnsent s.cur.eui
    (sys, [.uplink { s with pc := 7, msg := m }])
  | 7 =>
    -- SetPayload (output buffer)
    match s.msg with
    | some m => ({ sys with fob := fobSetPayload sys.fob s.cur.eui m.data m.port m.ack }, [.uplink { s with pc := 8 }])
    | none => (sys, [.uplink { s with pc := 9 }])
  | 8 =>
    -- SetMessageSentTime (error ignored)
    match s.msg with
    | some m =>
      let sys := if fault then sys else { sys with db := sys.db.setSent s.cur.eui m.created sys.now fcnt, now := sys.now + 1 }
      (sys, [.uplink { s with pc := 9 }])
    | none => (sys, [.uplink { s with pc := 9 }])
  | _ =>
    -- hand over to MAC processor / scheduler, publish to the application router; then the next matching device
    let ctx : Ctx := ⟨s.cur, s.cur.appEUI, s.gw, (s.msg.map (·.created)).getD 0⟩
    let sys := { sys with published := sys.published ++ [⟨s.cur.appEUI, s.cur.eui, s.plain⟩], notified := sys.notified ++ [s.cur.eui], handedUp := sys.handedUp ++ [(s.cur.eui, fcnt, s.cur.relaxed)] }
    let (sys', ts) := nextDevice sys s
    (sys', ts ++ [.notify s.p ctx])   -- the handler goes on (same thread); the message travels on its own

/-- `frequency.GetDLSettingsOTAA` / `GetRxDelayOTAA`. -/
def otaaDL : DLSettings := ⟨0, 5⟩
def otaaRxDelay : Nat := 1

/-- One operation of the join handler (otaa_join.go). -/
def stepJoin (E : BlockFn) (cfg : Config) (sys : Sys) (s : JoinSt) (fault : Bool) : Sys × List Thread :=
  let jr := s.p.joinReq
  match s.pc with
  | 0 =>
    -- verifyAndProcessJoinRequest: length, GetDeviceByEUI, MIC with the device's AppKey
    if s.raw.length ≠ 23 then (sys, [.done])
    else if fault then (sys, [.done])
    else match sys.db.byEUI jr.devEUI with
      | none => (sys, [.done])
      | some d =>
        if micOf E d.appKey (s.raw.take (s.raw.length - 4)) ≠ s.p.mic then (sys, [.done])
        else (sys, [.join { s with pc := 1 }])
  | 1 =>
    -- processJoinRequest: GetDeviceByEUI, AppEUI check, nonce check on the snapshot
    if fault then (sys, [.done])
    else match sys.db.byEUI jr.devEUI with
      | none => (sys, [.done])
      | some d =>
        if d.appEUI ≠ jr.appEUI then (sys, [.done])
        else if !cfg.nonceCheckOff && d.nonces.contains jr.devNonce then (sys, [.done])
        else (sys, [.join { s with pc := 2, dev := d, ctxDev := d }])
  | 2 =>
    -- GetApplicationByEUI
    if fault || !sys.db.hasApp jr.appEUI then (sys, [.done]) else (sys, [.join { s with pc := 3 }])
  | 3 =>
    -- AddDevNonce (unless the check is off)
    if cfg.nonceCheckOff then (sys, [.join { s with pc := 4 }])
    else if fault then (sys, [.done])
    else match sys.db.addNonce s.dev.eui jr.devNonce with
      | some db => ({ sys with db := db }, [.join { s with pc := 4 }])
      | none => (sys, [.done])
  | 4 =>
    -- keys from the nonces, counters to zero, address if none yet; UpdateDevice
    let d := s.dev
    let d := { d with nwkSKey := keyFromNonce E d.appKey 1 s.appNonce cfg.netID jr.devNonce,
                      appSKey := keyFromNonce E d.appKey 2 s.appNonce cfg.netID jr.devNonce,
                      fcntDn := 0, fcntUp := 0,
                      devAddr := if d.devAddr = 0 then s.newAddr else d.devAddr }
    if fault then (sys, [.done])
    else match sys.db.updateDevice d with
      | some db => ({ sys with db := db, acceptedUp := forget sys.acceptedUp d.eui, issuedDn := forget sys.issuedDn d.eui,
                                resetsDn := d.eui :: sys.resetsDn, resetsUp := d.eui :: sys.resetsUp,
                                keyedJoins := if cfg.nonceCheckOff then sys.keyedJoins else sys.keyedJoins ++ [(d.eui, jr.devNonce)] },
                    [.join { s with pc := 5, dev := d }])
      | none => (sys, [.done])
  | 5 =>
    -- SetJoinAcceptPayload
    let ja : JoinAccept := ⟨s.appNonce, cfg.netID, DevAddr.ofUint32 s.dev.devAddr, otaaDL, otaaRxDelay⟩
    ({ sys with fob := fobSetJoinAccept sys.fob s.dev.eui ja }, [.join { s with pc := 6 }])
  | _ =>
    -- notify the scheduler; the frame context carries the device copy made before the keys changed
    ({ sys with notified := sys.notified ++ [s.ctxDev.eui] }, [.done, .notify s.p ⟨s.ctxDev, jr.appEUI, s.gw, 0⟩])

/-- One operation of the encoder (encoder.go). `D` is the block decryption used for join-accepts. -/
def stepEncoder (E D : BlockFn) (sys : Sys) (pc : Nat) (p : PHY) (c : Ctx) (bytes : Bytes) (fault : Bool) : Sys × List Thread :=
  if p.mhdr.mtype = mtJoinAccept then
    match pc with
    | 0 =>
      let d := { c.device with fcntDn := 0, fcntUp := 0 }
      if fault then (sys, [.done])
      else match sys.db.updateState d with
        | none => (sys, [.done])
        | some db =>
          let sys := { sys with db := db, acceptedUp := forget sys.acceptedUp d.eui, issuedDn := forget sys.issuedDn d.eui,
                                resetsDn := d.eui :: sys.resetsDn, resetsUp := d.eui :: sys.resetsUp }
          match encodeJoinAccept E D d.appKey p with
          | .ok b => (sys, [.encoder 1 p { c with device := d } b])
          | _ => (sys, [.done])
    | _ => ({ sys with emitted := sys.emitted ++ [⟨bytes, c.gw, 5, c.device.eui⟩] }, [.done])
  else if p.mhdr.mtype = mtUnconfirmedDataDown ∨ p.mhdr.mtype = mtConfirmedDataDown then
    match pc with
    | 0 =>
      -- NextFCntDn: the counter comes from the store and is moved before the frame exists; then EncodeMessage
      if fault then (sys, [.done])
      else match sys.db.nextFCntDn c.device.eui with
        | none => (sys, [.done])
        | some (db, f) =>
          let sys := { sys with db := db, issuedDn := noteCounter sys.issuedDn c.device.eui f,
                                resetsDn := if f + 1 < 65536 then sys.resetsDn else c.device.eui :: sys.resetsDn }
          let p := { p with mac := { p.mac with fhdr := { p.mac.fhdr with fcnt := f } } }
          let c := { c with device := { c.device with fcntDn := (f + 1) % 65536 } }
          match encodeMessage E c.device.nwkSKey c.device.appSKey p with
          | .ok b => (sys, [.encoder 1 p c b])
          | _ => (sys, [.done])
    | 1 =>
      -- SetMessageSentTime (errors ignored)
      let sys := if fault then sys else { sys with db := sys.db.setSent c.device.eui c.payloadCreate sys.now c.device.fcntUp, now := sys.now + 1 }
      (sys, [.encoder 2 p c bytes])
    | _ => ({ sys with emitted := sys.emitted ++ [⟨bytes, c.gw, 1, c.device.eui⟩],
                       emittedDn := sys.emittedDn ++ [(c.device.eui, p.mac.fhdr.fcnt)],
                       emittedPl := sys.emittedPl ++ [(c.device.eui, p.mac.frm)] }, [.done])
  else (sys, [.done])

/-- The scheduler takes a notification: duplicate if the device has a send in flight. -/
def stepNotify (sys : Sys) (c : Ctx) : Sys × List Thread :=
  if sys.scheduled.contains c.device.eui then (sys, [.done])
  else ({ sys with scheduled := c.device.eui :: sys.scheduled }, [.sendAt c])

/-- `sendAt` when the receive window closes: `GetPHYPayloadForDevice`, hand-over to the encoder. -/
def stepSendAt (sys : Sys) (c : Ctx) : Sys × List Thread :=
  match (fobTake sys.fob c.device c.gw.dataRate).2 with
  | some p =>
    ({ sys with fob := (fobTake sys.fob c.device c.gw.dataRate).1,
                ackFrames := if p.mac.fhdr.fctrl.ack then sys.ackFrames ++ [c.device.eui] else sys.ackFrames },
     [.sendDone c.device.eui, .encoder 0 p c []])
  | none => ({ sys with fob := (fobTake sys.fob c.device c.gw.dataRate).1 }, [.sendDone c.device.eui])

/-- `sendAt` reports completion to the scheduler. -/
def stepSendDone (sys : Sys) (e : Bytes) : Sys × List Thread :=
  ({ sys with scheduled := sys.scheduled.filter (· != e) }, [.done])

/-- One step of thread `i`. -/
def step (E D : BlockFn) (cfg : Config) (sys : Sys) (i : Nat) (fault : Bool) : Sys :=
  match sys.threads[i]? with
  | none => sys
  | some t =>
    let (sys', ts) : Sys × List Thread :=
      match t with
      | .uplink s => stepUplink E sys s fault
      | .join s => stepJoin E cfg sys s fault
      | .notify _p c => stepNotify sys c
      | .sendAt c => stepSendAt sys c
      | .sendDone e => stepSendDone sys e
      | .encoder pc p c b => stepEncoder E D sys pc p c b fault
      | .done => (sys, [.done])
    match ts with
    | [] => { sys' with threads := replaceAt sys'.threads i .done }
    | t0 :: more => { sys' with threads := replaceAt sys'.threads i t0 ++ more }

/-- The storage / output-buffer operation (as named at the verif gates) a thread performs in its
    next step, with the key the gate reports; `none` when the next step is internal (no gate). -/
def euiStr (b : Bytes) : String := String.ofList (((b.map byteHex).intersperse ['-']).flatten)
def addrStr (a : Nat) : String := String.ofList (toHexChars ((be64 a).drop 4))

def nextLabel (cfg : Config) : Thread → Option (String × String)
  | .uplink s =>
    let fcnt := s.p.mac.fhdr.fcnt
    match s.pc with
    | 0 => if s.p.mhdr.mtype ≠ mtUnconfirmedDataUp ∧ s.p.mhdr.mtype ≠ mtConfirmedDataUp then none
           else some ("GetDeviceByDevAddr", addrStr s.p.mac.fhdr.devAddr.toUint32)
    | 1 => if !s.cur.relaxed && s.cur.fcntUp > fcnt then none
           else if fcnt ≥ s.cur.fcntUp then some ("AdvanceFCntUp", euiStr s.cur.eui) else none
    | 2 => some ("CreateUpstreamMessage", euiStr s.cur.eui)
    | 3 => some ("GetApplicationByEUI", euiStr s.cur.appEUI)
    | 4 => if s.p.mhdr.mtype = mtConfirmedDataUp then some ("SetMessageAckFlag", euiStr s.cur.eui) else none
    | 5 => if s.p.mac.fhdr.fctrl.ack then some ("UpdateMessageAckTime", euiStr s.cur.eui) else some ("ResetActiveAcks", euiStr s.cur.eui)
    | 6 => some ("GetNextUnsentMessage", euiStr s.cur.eui)
    | 7 => if s.msg.isSome then some ("SetPayload", euiStr s.cur.eui) else none
    | 8 => if s.msg.isSome then some ("SetMessageSentTime", euiStr s.cur.eui) else none
    | _ => none
  | .join s =>
    match s.pc with
    | 0 => if s.raw.length ≠ 23 then none else some ("GetDeviceByEUI", euiStr s.p.joinReq.devEUI)
    | 1 => some ("GetDeviceByEUI", euiStr s.p.joinReq.devEUI)
    | 2 => some ("GetApplicationByEUI", euiStr s.p.joinReq.appEUI)
    | 3 => if cfg.nonceCheckOff then none else some ("AddDevNonce", euiStr s.dev.eui)
    | 4 => some ("UpdateDevice", euiStr s.dev.eui)
    | 5 => some ("SetJoinAcceptPayload", euiStr s.dev.eui)
    | _ => none
  | .notify _ _ => none
  | .sendAt c => some ("GetPHYPayloadForDevice", euiStr c.device.eui)
  | .sendDone _ => none
  | .encoder pc p c _ =>
    if p.mhdr.mtype = mtJoinAccept then
      (if pc = 0 then some ("UpdateDeviceState", euiStr c.device.eui) else some ("encoder.handoff", euiStr c.device.eui))
    else if p.mhdr.mtype = mtUnconfirmedDataDown ∨ p.mhdr.mtype = mtConfirmedDataDown then
      (if pc = 0 then some ("NextFCntDn", euiStr c.device.eui)
       else if pc = 1 then some ("SetMessageSentTime", euiStr c.device.eui) else some ("encoder.handoff", euiStr c.device.eui))
    else none
  | .done => none

def isDone : Thread → Bool
  | .done => true
  | _ => false

/-- Run all threads to completion, always stepping the first unfinished one (the sequential
    closure of a delivery: handler, then scheduler, then sendAt, then encoder). -/
def settle (E D : BlockFn) (cfg : Config) : Nat → Sys → Sys
  | 0, sys => sys
  | fuel + 1, sys =>
    match sys.threads.findIdx? (fun t => !isDone t) with
    | none => { sys with threads := [] }
    | some i => settle E D cfg fuel (step E D cfg sys i false)

/-- Run every internal (ungated) step that is enabled, until each unfinished thread stands before
    a gated operation: what the real goroutines do between two gates. -/
def advance (E D : BlockFn) (cfg : Config) : Nat → Sys → Sys
  | 0, sys => sys
  | fuel + 1, sys =>
    match sys.threads.findIdx? (fun t => !isDone t && (nextLabel cfg t).isNone) with
    | none => sys
    | some i => advance E D cfg fuel (step E D cfg sys i false)

inductive Event where
  | deliver (raw : Bytes) (gw : GwCtx) (appNonce : Bytes) (newAddr : Nat)
  | submit (m : OutRow)                       -- API SendMessage
  | stepT (i : Nat) (fault : Bool)            -- thread i performs its next operation
  | quiesce                                   -- everything in flight runs to completion
  | crash                                     -- volatile state and threads are lost; the database stays
  deriving Repr

def apply (E D : BlockFn) (cfg : Config) (sys : Sys) : Event → Sys
  | .deliver raw gw an na =>
    match spawn raw gw an na with
    | some t => { sys with threads := sys.threads ++ [t] }
    | none => sys
  | .submit m => { sys with db := (sys.db.addOutbox m).getD sys.db }
  | .stepT i f => step E D cfg sys i f
  | .quiesce => settle E D cfg 200 sys
  | .crash => { sys with fob := [], scheduled := [], threads := [] }

def run (E D : BlockFn) (cfg : Config) (sys : Sys) (evs : List Event) : Sys := evs.foldl (apply E D cfg) sys

end Model.Pipeline
end LospanVerif
