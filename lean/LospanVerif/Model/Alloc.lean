/-
  Model of the key-block allocator: storage/sequence.go `AllocateKeys` (one reservation is one
  transaction under the storage mutex: read the counter row, write counter+interval, commit) and
  the dispatchers of keys/eui_keygen.go that hand out the ids of their current block one by one.
  Volatile state (the blocks) is lost when the process dies; the row survives.
-/
namespace LospanVerif
namespace Model.Alloc

structure St where
  counter : Option Nat        -- the lora_sequences row of one identifier
  blocks : Nat → Nat × Nat    -- per requester: next id to hand out, end of its reserved block
  issued : List Nat           -- every id ever handed out

inductive Ev where
  | reserve (r : Nat)             -- requester r completes a reservation
  | crashInReserve (committed : Bool)  -- the process dies inside a reservation, before / after the commit
  | issue (r : Nat)               -- requester r hands out the next id of its block, if one is left
  | restart                       -- the process dies between operations and is restarted
  deriving Repr

def upd (f : Nat → Nat × Nat) (r : Nat) (v : Nat × Nat) : Nat → Nat × Nat := fun x => if x = r then v else f x

def noBlocks : Nat → Nat × Nat := fun _ => (0, 0)

def init : St := ⟨none, noBlocks, []⟩

/-- `initial` is 1 and `interval` is 10/100/10 in the code; the theorems hold for every value. -/
def step (initial interval : Nat) (s : St) : Ev → St
  | .reserve r =>
    let start := s.counter.getD initial
    { s with counter := some (start + interval), blocks := upd s.blocks r (start, start + interval) }
  | .crashInReserve false => { s with blocks := noBlocks }
  | .crashInReserve true => { s with counter := some (s.counter.getD initial + interval), blocks := noBlocks }
  | .issue r =>
    let b := s.blocks r
    if b.1 < b.2 then { s with issued := b.1 :: s.issued, blocks := upd s.blocks r (b.1 + 1, b.2) } else s
  | .restart => { s with blocks := noBlocks }

def run (initial interval : Nat) (s : St) (evs : List Ev) : St := evs.foldl (step initial interval) s

end Model.Alloc
end LospanVerif
