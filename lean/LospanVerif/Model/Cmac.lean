import LospanVerif.Basic
import LospanVerif.Spec.Rfc4493
/-
  Model of pkg/cmac (cmac.go, utils.go) as it stands: same helper functions, same index
  arithmetic, the block cipher a parameter (crypto/aes is not modelled).
-/
namespace LospanVerif
namespace Model.Cmac
open Spec.Rfc4493 (BlockFn)

def constBSize : Nat := 16
def constZero : Bytes := zeros 16
def constRb : Bytes := zeros 15 ++ [0x87#8]

/-- utils.go `shiftLeft`: from the last byte to the first, `ret[j] = buf[j]<<1 | overflow`,
    `overflow = (buf[j] & 0x80) >> 7`. -/
def shiftLeftAux : Bytes → Bytes × Byte
  | [] => ([], 0#8)
  | b :: rest =>
    let (r, ov) := shiftLeftAux rest
    (((b <<< 1) ||| ov) :: r, (b &&& 0x80#8) >>> 7)

def shiftLeft (buf : Bytes) : Bytes := (shiftLeftAux buf).1

/-- utils.go `xor`: `ret[i] = buf1[i] ^ buf2[i]` for `i` in range of `buf1`. -/
def xor (buf1 buf2 : Bytes) : Bytes := xorB buf1 buf2

/-- utils.go `padblock` (after the copy-before-pad fix): a fresh `n`-byte block holding
    `buf`, then 0x80, then zeros; `buf` itself when nothing is missing. -/
def padblock (buf : Bytes) (n : Nat) : Bytes :=
  if n ≤ buf.length then buf else buf ++ [0x80#8] ++ zeros (n - buf.length - 1)

/-- `l[0] >> 7`. -/
def msbByte (l : Bytes) : Byte := (l.headD 0#8) >>> 7

/-- One of the two identical steps of `generateSubkeys`:
    `if msb == 0 { k = shiftLeft(l) } else { k = xor(shiftLeft(l), constRb) }`. -/
def subkeyStep (l : Bytes) : Bytes :=
  if msbByte l = 0#8 then shiftLeft l else xor (shiftLeft l) constRb

/-- cmac.go `generateSubkeys`. -/
def generateSubkeys (E : BlockFn) (key : Bytes) : Bytes × Bytes :=
  let l := E key constZero
  let k1 := subkeyStep l
  let k2 := subkeyStep k1
  (k1, k2)

/-- Step 6 loop: `for i := 1; i < n; i++ { mi := buffer[pos:pos+16]; y = xor(x, mi); x = E(y); pos += 16 }`. -/
def loop (E : BlockFn) (key buffer : Bytes) : Nat → Nat → Bytes → Bytes
  | 0, _, x => x
  | i + 1, pos, x => loop E key buffer i (pos + constBSize) (E key (xor x ((buffer.take (pos + constBSize)).drop pos)))

/-- cmac.go `AESCMAC`. `math.Ceil(float64(len)/16)` is `(len+15)/16`. -/
def aesCmac (E : BlockFn) (key buffer : Bytes) : Bytes :=
  let (k1, k2) := generateSubkeys E key
  let n0 := (buffer.length + 15) / 16
  let n := if n0 = 0 then 1 else n0
  let flag := if n0 = 0 then false else buffer.length % constBSize == 0
  let mn := buffer.drop ((n - 1) * constBSize)
  let mLast := if flag then xor mn k1 else xor (padblock mn constBSize) k2
  let x := loop E key buffer (n - 1) 0 constZero
  let y := xor mLast x
  E key y

end Model.Cmac
end LospanVerif
