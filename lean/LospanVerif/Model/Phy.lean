import LospanVerif.Basic
import LospanVerif.Model.Mac
import LospanVerif.Model.Cmac
/-
  Model of pkg/protocol's frame codec as it stands (after the fix: commits in /repo):
  mhdr.go, fctrl.go, devaddr.go, fhdr.go, macpayload.go, phypayload.go, mic.go,
  joinrequest.go, joinaccept.go, dlsettings.go, aeskey.go (key derivation).
  Cursor style is kept (`pos` in, `pos` out); Go's errors are `Res.err`, run-time panics `Res.panic`.
-/
namespace LospanVerif
namespace Model.Phy
open Model.Mac

/-! ### MHDR (mhdr.go) -/

structure MHDR where
  mtype : Nat
  major : Nat
  deriving DecidableEq, Repr, Inhabited

def mtJoinRequest := 0
def mtJoinAccept := 1
def mtUnconfirmedDataUp := 2
def mtUnconfirmedDataDown := 3
def mtConfirmedDataUp := 4
def mtConfirmedDataDown := 5
def mtRFU := 6
def mtProprietary := 7
def maxSupportedVersion := 0
def minimumMessageSize := 12
def maxFOptsLen := 15
def maxPayloadSize := 255

/-- `MHDR.decode`: `MType = (val & 0xE0) >> 5`, `MajorVersion = val & 0x3`; error if version unsupported
    (the fields are set before the error is returned). -/
def MHDR.decode (buffer : Bytes) (pos : Nat) : Res (MHDR × Nat) := do
  let val ← idx buffer pos
  let m : MHDR := ⟨((val &&& 0xE0#8) >>> 5).toNat, (val &&& 0x03#8).toNat⟩
  if m.major > maxSupportedVersion then .err .invalidVersion else .ok (m, pos + 1)

/-- `MHDR.encode`: `((byte(MType) & 0x7) << 5) | (byte(MajorVersion) & 0x3)`. -/
def MHDR.byte (m : MHDR) : Byte := ((byteOf m.mtype &&& 0x07#8) <<< 5) ||| (byteOf m.major &&& 0x03#8)

/-! ### DevAddr (devaddr.go) -/

structure DevAddr where
  nwkID : Nat      -- uint8
  nwkAddr : Nat    -- uint32
  deriving DecidableEq, Repr, Inhabited

/-- `ToUint32`: `uint32(NwkID)<<25 | (NwkAddr & 0x1FFFFFF)` in 32-bit arithmetic. -/
def DevAddr.toUint32 (d : DevAddr) : Nat := (d.nwkID * 33554432) % 4294967296 + d.nwkAddr % 33554432

def DevAddr.ofUint32 (v : Nat) : DevAddr := ⟨(v / 33554432) % 128, v % 33554432⟩

def DevAddr.decode (octets : Bytes) (pos : Nat) : Res (DevAddr × Nat) :=
  if octets.length < pos + 4 then .err .truncated
  else
    let full := unle ((octets.drop pos).take 4)
    -- NwkID = (full & 0xFE000000) >> 25 ; NwkAddr = full & 0x1FFFFFF
    .ok (⟨full / 33554432, full % 33554432⟩, pos + 4)

/-! ### FCtrl (fctrl.go) -/

structure FCtrl where
  adr : Bool
  adrAckReq : Bool
  ack : Bool
  fPending : Bool
  classB : Bool
  foptsLen : Nat
  deriving DecidableEq, Repr, Inhabited

def FCtrl.decode (buffer : Bytes) (pos : Nat) : Res (FCtrl × Nat) :=
  if buffer.length ≤ pos then .err .outOfRange
  else
    let b := buffer.getD pos 0#8
    .ok ({ adr := bit b 0x80#8, adrAckReq := bit b 0x40#8, ack := bit b 0x20#8,
           fPending := bit b 0x10#8, foptsLen := (b &&& 0x0F#8).toNat, classB := bit b 0x10#8 }, pos + 1)

/-- `FCtrl.encode`: `FOptsLen & 0xF`, then the flag bits OR-ed in (bit 4 if FPending or ClassB). -/
def FCtrl.byte (f : FCtrl) : Byte :=
  (byteOf f.foptsLen &&& 0x0F#8)
    ||| (if f.adr then 0x80#8 else 0#8) ||| (if f.adrAckReq then 0x40#8 else 0#8)
    ||| (if f.ack then 0x20#8 else 0#8) ||| (if f.fPending || f.classB then 0x10#8 else 0#8)

/-! ### FHDR (fhdr.go) -/

structure FHDR where
  devAddr : DevAddr
  fctrl : FCtrl
  fcnt : Nat
  fopts : CmdSet
  deriving Repr, Inhabited

/-- `FHDR.decode`. `fopts0` is the set the struct holds on entry (its message type is reused). -/
def FHDR.decode (fopts0 : CmdSet) (octets : Bytes) (pos : Nat) : Res (FHDR × Nat) := do
  let (da, pos) ← DevAddr.decode octets pos
  let (fc, pos) ← FCtrl.decode octets pos
  if octets.length < pos + 2 then .err .truncated
  else
    let fcnt := unle ((octets.drop pos).take 2)
    let pos := pos + 2
    if fc.foptsLen > 0 then
      let fend := pos + fc.foptsLen
      if octets.length < fend then .err .truncated
      else
        match (CmdSet.new fopts0.message fc.foptsLen).decode octets pos with
        | .ok (s, _, _) => .ok (⟨da, fc, fcnt, s⟩, fend)
        | .err e => .err e
        | .panic => .panic
    else .ok (⟨da, fc, fcnt, fopts0⟩, pos)

/-! ### MACPayload (macpayload.go) -/

structure MACPayload where
  fhdr : FHDR
  fport : Nat
  frm : Bytes
  macCommands : CmdSet
  deriving Repr, Inhabited

/-- `MACPayload.decode`. -/
def MACPayload.decode (m0 : MACPayload) (payload : Bytes) (pos : Nat) : Res (MACPayload × Nat) := do
  let (fhdr, pos) ← FHDR.decode m0.fhdr.fopts payload pos
  let m := { m0 with fhdr := fhdr }
  -- payloadLength := len(payload) - *pos - 4, as a signed int
  if payload.length < pos + 4 then .err .truncated          -- payloadLength < 0
  else
    let payloadLength := payload.length - pos - 4
    if payloadLength = 0 then .ok (m, pos)
    else do
      let port ← idx payload pos
      let m := { m with fport := port.toNat }
      let pos := pos + 1
      let fend := pos + payloadLength - 1
      if port.toNat = 0 then
        match (CmdSet.new m.macCommands.message (payloadLength - 1)).decode payload pos with
        | .ok (s, pos', .unknown) => .ok ({ m with macCommands := s }, pos')
        | .ok (s, pos', .full) => do
            let frm ← slice payload pos' fend
            .ok ({ m with macCommands := s, frm := frm }, pos')
        | .err e => .err e
        | .panic => .panic
      else do
        let frm ← slice payload pos fend
        .ok ({ m with frm := frm }, pos)

/-! ### Join request / accept payloads -/

structure JoinRequest where
  appEUI : Bytes      -- 8 octets, EUI order (most significant first)
  devEUI : Bytes
  devNonce : Nat
  deriving DecidableEq, Repr, Inhabited

/-- `JoinRequestPayload.decode`: EUIs little-endian on the wire, DevNonce read big-endian. -/
def JoinRequest.decode (buffer : Bytes) (pos : Nat) : Res (JoinRequest × Nat) :=
  if buffer.length < pos + 18 then .err .truncated
  else
    let app := ((buffer.drop pos).take 8).reverse
    let dev := ((buffer.drop (pos + 8)).take 8).reverse
    let nonce := unbe ((buffer.drop (pos + 16)).take 2)
    .ok (⟨app, dev, nonce⟩, pos + 18)

def JoinRequest.body (j : JoinRequest) : Bytes :=
  j.appEUI.reverse ++ j.devEUI.reverse ++ be16 j.devNonce

structure DLSettings where
  rx1DRoffset : Nat
  rx2DataRate : Nat
  deriving DecidableEq, Repr, Inhabited

structure JoinAccept where
  appNonce : Bytes   -- 3 octets
  netID : Nat        -- uint32
  devAddr : DevAddr
  dl : DLSettings
  rxDelay : Nat
  deriving DecidableEq, Repr, Inhabited

/-- `DevAddr.encode` range check: `NwkID > 0x7F || NwkAddr > 0x1FFFFFF → ErrParameterOutOfRange`. -/
def DevAddr.encodeOK (d : DevAddr) : Bool := d.nwkID ≤ 127 && d.nwkAddr ≤ 33554431

def DLSettings.byte (d : DLSettings) : Byte :=
  ((byteOf d.rx1DRoffset &&& 0x07#8) <<< 4) ||| (byteOf d.rx2DataRate &&& 0x0F#8)

/-- `JoinAcceptPayload.encode` body: AppNonce, NetID big-endian, DevAddr LE, DLSettings, RxDelay. -/
def JoinAccept.body (j : JoinAccept) : Res Bytes :=
  if !j.devAddr.encodeOK then .err .outOfRange
  else .ok ((j.appNonce ++ zeros 3).take 3 ++ be24 j.netID ++ le32 j.devAddr.toUint32 ++ [j.dl.byte, byteOf j.rxDelay])

/-- `JoinAcceptPayload.decode` (needs the whole 12-byte body). -/
def JoinAccept.decode (buffer : Bytes) (pos : Nat) : Res (JoinAccept × Nat) :=
  if buffer.length < pos + 12 then .err .truncated
  else do
    let nonce := (buffer.drop pos).take 3
    let netID := unbe ((buffer.drop (pos + 3)).take 3)
    let (da, p) ← DevAddr.decode buffer (pos + 6)
    let b ← idx buffer p
    let rx ← idx buffer (p + 1)
    .ok (⟨nonce, netID, da, ⟨((b &&& 0x70#8) >>> 4).toNat, (b &&& 0x0F#8).toNat⟩, rx.toNat⟩, p + 2)

/-! ### PHYPayload (phypayload.go) -/

structure PHY where
  mhdr : MHDR
  mac : MACPayload
  joinReq : JoinRequest
  joinAcc : JoinAccept
  mic : Nat
  deriving Repr, Inhabited

def isDataMType (t : Nat) : Bool := t == 2 || t == 3 || t == 4 || t == 5

def emptyMac (mt : Nat) : MACPayload :=
  { fhdr := ⟨⟨0, 0⟩, ⟨false, false, false, false, false, 0⟩, 0, CmdSet.new mt maxFOptsLen⟩,
    fport := 0, frm := [], macCommands := CmdSet.new mt 222 }

/-- `NewPHYPayload(messageType)` -/
def PHY.new (mt : Nat) : PHY :=
  { mhdr := ⟨mt, 0⟩, mac := emptyMac mt, joinReq := ⟨zeros 8, zeros 8, 0⟩,
    joinAcc := ⟨zeros 3, 0, ⟨0, 0⟩, ⟨0, 0⟩, 0⟩, mic := 0 }

/-- `UnmarshalBinary` on a fresh `NewPHYPayload(Proprietary)` (what the decoder stage does). -/
def unmarshal (data : Bytes) : Res PHY :=
  if data.length < minimumMessageSize then .err .truncated
  else do
    let (mh, pos) ← MHDR.decode data 0
    let p := { PHY.new mtProprietary with mhdr := mh, mic := unle (data.drop (data.length - 4)) }
    if isDataMType mh.mtype then do
      let m0 : MACPayload := { p.mac with macCommands := CmdSet.new mh.mtype maxPayloadSize,
                                          fhdr := { p.mac.fhdr with fopts := CmdSet.new mh.mtype maxFOptsLen } }
      let (m, _) ← MACPayload.decode m0 data pos
      .ok { p with mac := m }
    else if mh.mtype = mtJoinRequest then do
      let (j, _) ← JoinRequest.decode data 1
      .ok { p with joinReq := j }
    else if mh.mtype = mtJoinAccept then do
      let (j, _) ← JoinAccept.decode data pos
      .ok { p with joinAcc := j }
    else .err .invalidMType

/-- A 255-byte output buffer of which `out` is written: writing `bs` panics past the end. -/
def put (cap : Nat) (out bs : Bytes) : Res Bytes :=
  if out.length + bs.length ≤ cap then .ok (out ++ bs) else .panic

/-- `MarshalBinary`. Returns the bytes; the struct mutations it makes (FOptsLen, FPort) are not
    observable in the bytes and are not returned. -/
def marshal (p : PHY) : Res Bytes :=
  if p.mhdr.mtype = mtJoinAccept || p.mhdr.mtype = mtJoinRequest || p.mhdr.mtype = mtProprietary then .err .invalidMType
  else do
    let cap := 255
    let out ← put cap [] [p.mhdr.byte]
    -- FHDR.encode
    let f := p.mac.fhdr
    let out ← put cap out (le32 f.devAddr.toUint32)
    let foptsLen := f.fopts.encodedLength % 256          -- uint8(EncodedLength())
    if foptsLen > 15 then .err .outOfRange
    else do
      let out ← put cap out [({ f.fctrl with foptsLen := foptsLen }).byte]
      let out ← put cap out (le16 f.fcnt)
      let out ← f.fopts.encodeAt cap out
      -- MACPayload.encode
      let m := p.mac
      let fport := if m.frm.length = 0 then 0 else m.fport
      if fport > 223 then .err .outOfRange
      else if fport = 0 && m.frm.length > 0 then .err .outOfRange
      else do
        let out ← (if m.frm.length = 0 && m.macCommands.size > 0 then do
                      let out ← put cap out [0#8]
                      m.macCommands.encodeAt cap out
                    else if m.frm.length > 0 then do
                      let out ← put cap out [byteOf fport]
                      put cap out m.frm
                    else .ok out)
        put cap out (le32 p.mic)

/-! ### Frame cipher and MIC (phypayload.go `Decrypt`, mic.go) -/

open Spec.Rfc4493 (BlockFn)

def dirByte (mtype : Nat) : Byte := if isUplinkMType mtype then 0#8 else 1#8

/-- The keystream block `S_i = E(key, A_i)` built in `Decrypt`, `i` counted from 0 as in the loop. -/
def aBlock (mtype : Nat) (addr fcnt i : Nat) : Bytes :=
  [0x01#8, 0#8, 0#8, 0#8, 0#8, dirByte mtype] ++ le32 addr ++ le32 fcnt ++ [0#8, byteOf (i + 1)]

def keystream (E : BlockFn) (key : Bytes) (mtype addr fcnt : Nat) (k : Nat) : Bytes :=
  (List.range k).flatMap (fun i => E key (aBlock mtype addr fcnt i))

/-- `Decrypt`: key is NwkSKey for port 0, AppSKey otherwise; `k = ceil(len/16)` blocks;
    `text[i] = FRMPayload[i] ^ S[i]`. -/
def decryptFrm (E : BlockFn) (nwkSKey appSKey : Bytes) (p : PHY) : Bytes :=
  let key := if p.mac.fport = 0 then nwkSKey else appSKey
  let k := (p.mac.frm.length + 15) / 16
  xorB p.mac.frm (keystream E key p.mhdr.mtype p.mac.fhdr.devAddr.toUint32 p.mac.fhdr.fcnt k)

def decrypt (E : BlockFn) (nwkSKey appSKey : Bytes) (p : PHY) : PHY :=
  { p with mac := { p.mac with frm := decryptFrm E nwkSKey appSKey p } }

/-- `CalculateMIC`: `B0 ‖ message`, CMAC, first four bytes little-endian. `byte(len(message))`. -/
def b0 (mtype addr fcnt len : Nat) : Bytes :=
  [0x49#8, 0#8, 0#8, 0#8, 0#8, dirByte mtype] ++ le32 addr ++ le32 fcnt ++ [0#8, byteOf len]

def micOf (E : BlockFn) (key payload : Bytes) : Nat :=
  unle ((Model.Cmac.aesCmac E key payload).take 4)

def calculateMIC (E : BlockFn) (nwkSKey : Bytes) (p : PHY) (message : Bytes) : Nat :=
  micOf E nwkSKey (b0 p.mhdr.mtype p.mac.fhdr.devAddr.toUint32 p.mac.fhdr.fcnt message.length ++ message)

/-- `EncodeMessage` = `encrypt` (Decrypt, MarshalBinary, MIC over all but the last four bytes) then `MarshalBinary`. -/
def encodeMessage (E : BlockFn) (nwkSKey appSKey : Bytes) (p : PHY) : Res Bytes := do
  let p1 := decrypt E nwkSKey appSKey p
  let buf ← marshal p1
  if buf.length < 4 then .err .truncated
  else
    let mic := calculateMIC E nwkSKey p1 (buf.take (buf.length - 4))
    marshal { p1 with mic := mic }

/-! ### Join (phypayload.go `EncodeJoinRequest`, `EncodeJoinAccept`, `DecodeJoinAccept`; aeskey.go) -/

/-- `EncodeJoinRequest` (after the fix): 23 bytes, MIC over the first 19. -/
def encodeJoinRequest (E : BlockFn) (appKey : Bytes) (p : PHY) : Res Bytes :=
  if p.mhdr.mtype ≠ mtJoinRequest then .err .invalidMType
  else
    let body := [p.mhdr.byte] ++ p.joinReq.body
    .ok (body ++ le32 (micOf E appKey body))

/-- `EncodeJoinAccept`: MHDR ‖ D(appKey, body ‖ MIC) where MIC = CMAC(appKey, MHDR ‖ body).
    `D` is the block *decryption* function; `cipher.Decrypt(ret[1:], buffer[1:pos])` processes one
    16-byte block. -/
def encodeJoinAccept (E D : BlockFn) (appKey : Bytes) (p : PHY) : Res Bytes :=
  if p.mhdr.mtype ≠ mtJoinAccept then .err .invalidMType
  else do
    let body ← p.joinAcc.body
    let plain := [p.mhdr.byte] ++ body
    let mic := micOf E appKey plain
    .ok ([p.mhdr.byte] ++ D appKey (body ++ le32 mic))

/-- `keyFromNonce`: E(appKey, prefix ‖ AppNonce ‖ NetID(be24) ‖ DevNonce(be16) ‖ 0⁷). -/
def keyFromNonce (E : BlockFn) (appKey : Bytes) (pfx : Nat) (appNonce : Bytes) (netID devNonce : Nat) : Bytes :=
  E appKey ([byteOf pfx] ++ (appNonce ++ zeros 3).take 3 ++ be24 netID ++ be16 devNonce ++ zeros 7)

/-- `DecodeJoinAccept` (device side) for the 17-byte join-accept without CFList: decrypt with E,
    read the fields, verify the MIC. -/
def decodeJoinAccept (E : BlockFn) (appKey : Bytes) (mtype : Nat) (buffer : Bytes) : Res JoinAccept :=
  if mtype ≠ mtJoinAccept then .err .invalidMType
  else if buffer.length ≠ 17 then .err .other          -- only this shape is modelled
  else do
    let decrypted := E appKey (buffer.drop 1)
    let (j, _) ← JoinAccept.decode ([buffer.getD 0 0#8] ++ decrypted) 1
    let mic := micOf E appKey ([buffer.getD 0 0#8] ++ decrypted.take 12)
    let bufferMIC := unle ((decrypted.drop 12).take 4)
    if bufferMIC ≠ mic then .err .invalidMIC else .ok j

end Model.Phy
end LospanVerif
