import LospanVerif.Model.Text
/-
  Model of the `lora_devices` table as pkg/storage/device.go uses it: which column carries which
  encoding (`CreateDevice` / `UpdateDevice`: the arguments of `Exec`) and which decoder reads each
  column back (`readDeviceSansNonce`), plus the row-level meaning of the statements
  (`INSERT` with the primary key `eui`, `UPDATE … WHERE eui`, `DELETE … WHERE eui`, the three
  `SELECT`s). The column/codec table is tied to the source by Tie/Storage.lean `tie_deviceRow`
  (regenerated facts); the codecs themselves by the `txt` engine; the statements' behaviour on
  SQLite by the `store` engine.
-/
namespace LospanVerif
namespace Model.Row
open Model.Text

/-- model.Device without the nonce history (which lives in its own table). -/
structure Dev where
  eui : Bytes
  devAddr : Nat
  appKey : Bytes
  appSKey : Bytes
  nwkSKey : Bytes
  appEui : Bytes
  state : Nat
  fcntUp : Nat
  fcntDn : Nat
  relaxed : Bool
  warn : Bool
  tag : List Char
  deriving DecidableEq, Repr

/-- One row of `lora_devices`, column by column as SQLite stores it. -/
structure Row where
  eui : Int
  devAddr : List Char
  appKey : List Char
  appSKey : List Char
  nwkSKey : List Char
  appEui : Int
  state : Nat
  fcntUp : Nat
  fcntDn : Nat
  relaxed : Bool
  warn : Bool
  tag : List Char
  deriving DecidableEq, Repr

/-- `CreateDevice`: the twelve arguments of `putStatement.Exec`. -/
def toRow (d : Dev) : Row :=
  { eui := toInt64 d.eui, devAddr := hex8 d.devAddr, appKey := keyString d.appKey, appSKey := keyString d.appSKey,
    nwkSKey := keyString d.nwkSKey, appEui := toInt64 d.appEui, state := d.state, fcntUp := d.fcntUp, fcntDn := d.fcntDn,
    relaxed := d.relaxed, warn := d.warn, tag := d.tag }

/-- `readDeviceSansNonce`: any column that does not decode fails the read of the whole row
    (and with it the `Get…` or the listing that was reading it). -/
def ofRow (r : Row) : Option Dev :=
  match parseUint32 r.devAddr, parseKey r.appKey, parseKey r.appSKey, parseKey r.nwkSKey with
  | some a, some k, some sk, some nk =>
    some { eui := fromInt64 r.eui, devAddr := a, appKey := k, appSKey := sk, nwkSKey := nk, appEui := fromInt64 r.appEui,
           state := r.state, fcntUp := r.fcntUp, fcntDn := r.fcntDn, relaxed := r.relaxed, warn := r.warn, tag := r.tag }
  | _, _, _, _ => none

/-- What `protocol` and `model` guarantee of a device value: 8-octet EUIs, 16-octet keys, a 32-bit address. -/
def Dev.WF (d : Dev) : Prop :=
  d.eui.length = 8 ∧ d.appEui.length = 8 ∧ d.devAddr < 4294967296 ∧
  d.appKey.length = 16 ∧ d.appSKey.length = 16 ∧ d.nwkSKey.length = 16

abbrev Table := List Row

/-- `INSERT`: the primary key `eui` rejects a second row. -/
def create (t : Table) (d : Dev) : Option Table :=
  if t.any (fun r => r.eui == toInt64 d.eui) then none else some (t ++ [toRow d])

/-- `UPDATE … WHERE eui = $11`: every column but `eui` and `application_eui`; `none` = no row (ErrNotFound). -/
def update (t : Table) (d : Dev) : Option Table :=
  if t.any (fun r => r.eui == toInt64 d.eui) then
    some (t.map fun r => if r.eui == toInt64 d.eui then { toRow d with eui := r.eui, appEui := r.appEui } else r)
  else none

/-- `DELETE … WHERE eui = $1`. -/
def delete (t : Table) (eui : Bytes) : Option Table :=
  if t.any (fun r => r.eui == toInt64 eui) then some (t.filter fun r => !(r.eui == toInt64 eui)) else none

inductive Got where
  | notFound | bad | dev (d : Dev)
  deriving DecidableEq, Repr

/-- `GetDeviceByEUI`. -/
def get (t : Table) (eui : Bytes) : Got :=
  match t.find? (fun r => r.eui == toInt64 eui) with
  | none => .notFound
  | some r => match ofRow r with
    | some d => .dev d
    | none => .bad

/-- `GetDevicesByApplicationEUI`: the first row that does not decode fails the listing. -/
def list (t : Table) (appEui : Bytes) : Option (List Dev) :=
  (t.filter fun r => r.appEui == toInt64 appEui).mapM ofRow

end Model.Row
end LospanVerif
