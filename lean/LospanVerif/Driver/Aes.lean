import LospanVerif.Basic
/-
  AES-128 (FIPS-197), encrypt and decrypt, for the driver only: it instantiates the block
  function parameter of the models when model and implementation outputs are compared. It is
  not verified; the FIPS-197 vectors below and every crypto correspondence run test it against
  Go's crypto/aes.
-/
namespace LospanVerif
namespace Aes

def sboxList : List UInt8 := [
  0x63,0x7c,0x77,0x7b,0xf2,0x6b,0x6f,0xc5,0x30,0x01,0x67,0x2b,0xfe,0xd7,0xab,0x76,
  0xca,0x82,0xc9,0x7d,0xfa,0x59,0x47,0xf0,0xad,0xd4,0xa2,0xaf,0x9c,0xa4,0x72,0xc0,
  0xb7,0xfd,0x93,0x26,0x36,0x3f,0xf7,0xcc,0x34,0xa5,0xe5,0xf1,0x71,0xd8,0x31,0x15,
  0x04,0xc7,0x23,0xc3,0x18,0x96,0x05,0x9a,0x07,0x12,0x80,0xe2,0xeb,0x27,0xb2,0x75,
  0x09,0x83,0x2c,0x1a,0x1b,0x6e,0x5a,0xa0,0x52,0x3b,0xd6,0xb3,0x29,0xe3,0x2f,0x84,
  0x53,0xd1,0x00,0xed,0x20,0xfc,0xb1,0x5b,0x6a,0xcb,0xbe,0x39,0x4a,0x4c,0x58,0xcf,
  0xd0,0xef,0xaa,0xfb,0x43,0x4d,0x33,0x85,0x45,0xf9,0x02,0x7f,0x50,0x3c,0x9f,0xa8,
  0x51,0xa3,0x40,0x8f,0x92,0x9d,0x38,0xf5,0xbc,0xb6,0xda,0x21,0x10,0xff,0xf3,0xd2,
  0xcd,0x0c,0x13,0xec,0x5f,0x97,0x44,0x17,0xc4,0xa7,0x7e,0x3d,0x64,0x5d,0x19,0x73,
  0x60,0x81,0x4f,0xdc,0x22,0x2a,0x90,0x88,0x46,0xee,0xb8,0x14,0xde,0x5e,0x0b,0xdb,
  0xe0,0x32,0x3a,0x0a,0x49,0x06,0x24,0x5c,0xc2,0xd3,0xac,0x62,0x91,0x95,0xe4,0x79,
  0xe7,0xc8,0x37,0x6d,0x8d,0xd5,0x4e,0xa9,0x6c,0x56,0xf4,0xea,0x65,0x7a,0xae,0x08,
  0xba,0x78,0x25,0x2e,0x1c,0xa6,0xb4,0xc6,0xe8,0xdd,0x74,0x1f,0x4b,0xbd,0x8b,0x8a,
  0x70,0x3e,0xb5,0x66,0x48,0x03,0xf6,0x0e,0x61,0x35,0x57,0xb9,0x86,0xc1,0x1d,0x9e,
  0xe1,0xf8,0x98,0x11,0x69,0xd9,0x8e,0x94,0x9b,0x1e,0x87,0xe9,0xce,0x55,0x28,0xdf,
  0x8c,0xa1,0x89,0x0d,0xbf,0xe6,0x42,0x68,0x41,0x99,0x2d,0x0f,0xb0,0x54,0xbb,0x16]

def sbox : Array UInt8 := sboxList.toArray

def invSbox : Array UInt8 := Id.run do
  let mut a : Array UInt8 := Array.replicate 256 0
  for i in [0:256] do
    a := a.set! (sbox[i]!).toNat (UInt8.ofNat i)
  return a

@[inline] def xtime (b : UInt8) : UInt8 :=
  let s := b <<< 1
  if b &&& 0x80 != 0 then s ^^^ 0x1b else s

def gmul (a b : UInt8) : UInt8 := Id.run do
  let mut p : UInt8 := 0
  let mut x := a
  let mut y := b
  for _ in [0:8] do
    if y &&& 1 != 0 then p := p ^^^ x
    x := xtime x
    y := y >>> 1
  return p

/-- 176-byte expanded key. -/
def expandKey (key : Array UInt8) : Array UInt8 := Id.run do
  let mut w : Array UInt8 := key
  let mut rcon : UInt8 := 1
  for i in [4:44] do
    let mut t0 := w[4*(i-1)]!
    let mut t1 := w[4*(i-1)+1]!
    let mut t2 := w[4*(i-1)+2]!
    let mut t3 := w[4*(i-1)+3]!
    if i % 4 == 0 then
      let r0 := sbox[t1.toNat]! ^^^ rcon
      let r1 := sbox[t2.toNat]!
      let r2 := sbox[t3.toNat]!
      let r3 := sbox[t0.toNat]!
      t0 := r0; t1 := r1; t2 := r2; t3 := r3
      rcon := xtime rcon
    w := w.push (w[4*(i-4)]! ^^^ t0)
    w := w.push (w[4*(i-4)+1]! ^^^ t1)
    w := w.push (w[4*(i-4)+2]! ^^^ t2)
    w := w.push (w[4*(i-4)+3]! ^^^ t3)
  return w

def addRoundKey (s w : Array UInt8) (r : Nat) : Array UInt8 := Id.run do
  let mut o := s
  for i in [0:16] do
    o := o.set! i (s[i]! ^^^ w[16*r+i]!)
  return o

def subBytes (s : Array UInt8) (box : Array UInt8) : Array UInt8 := s.map (fun b => box[b.toNat]!)

/-- state is column-major: s[4*c + r]. ShiftRows: row r rotates left by r. -/
def shiftRows (s : Array UInt8) : Array UInt8 := Id.run do
  let mut o := s
  for c in [0:4] do
    for r in [0:4] do
      o := o.set! (4*c + r) s[4*((c + r) % 4) + r]!
  return o

def invShiftRows (s : Array UInt8) : Array UInt8 := Id.run do
  let mut o := s
  for c in [0:4] do
    for r in [0:4] do
      o := o.set! (4*((c + r) % 4) + r) s[4*c + r]!
  return o

def mixColumns (s : Array UInt8) : Array UInt8 := Id.run do
  let mut o := s
  for c in [0:4] do
    let a0 := s[4*c]!; let a1 := s[4*c+1]!; let a2 := s[4*c+2]!; let a3 := s[4*c+3]!
    o := o.set! (4*c)   (xtime a0 ^^^ (xtime a1 ^^^ a1) ^^^ a2 ^^^ a3)
    o := o.set! (4*c+1) (a0 ^^^ xtime a1 ^^^ (xtime a2 ^^^ a2) ^^^ a3)
    o := o.set! (4*c+2) (a0 ^^^ a1 ^^^ xtime a2 ^^^ (xtime a3 ^^^ a3))
    o := o.set! (4*c+3) ((xtime a0 ^^^ a0) ^^^ a1 ^^^ a2 ^^^ xtime a3)
  return o

def invMixColumns (s : Array UInt8) : Array UInt8 := Id.run do
  let mut o := s
  for c in [0:4] do
    let a0 := s[4*c]!; let a1 := s[4*c+1]!; let a2 := s[4*c+2]!; let a3 := s[4*c+3]!
    o := o.set! (4*c)   (gmul a0 14 ^^^ gmul a1 11 ^^^ gmul a2 13 ^^^ gmul a3 9)
    o := o.set! (4*c+1) (gmul a0 9 ^^^ gmul a1 14 ^^^ gmul a2 11 ^^^ gmul a3 13)
    o := o.set! (4*c+2) (gmul a0 13 ^^^ gmul a1 9 ^^^ gmul a2 14 ^^^ gmul a3 11)
    o := o.set! (4*c+3) (gmul a0 11 ^^^ gmul a1 13 ^^^ gmul a2 9 ^^^ gmul a3 14)
  return o

def encryptBlock (w : Array UInt8) (inp : Array UInt8) : Array UInt8 := Id.run do
  let mut s := addRoundKey inp w 0
  for r in [1:10] do
    s := addRoundKey (mixColumns (shiftRows (subBytes s sbox))) w r
  return addRoundKey (shiftRows (subBytes s sbox)) w 10

def decryptBlock (w : Array UInt8) (inp : Array UInt8) : Array UInt8 := Id.run do
  let mut s := addRoundKey inp w 10
  for i in [0:9] do
    let r := 9 - i
    s := invMixColumns (addRoundKey (subBytes (invShiftRows s) invSbox) w r)
  return addRoundKey (subBytes (invShiftRows s) invSbox) w 0

def toU8 (bs : Bytes) : Array UInt8 := (bs.map (fun b => UInt8.ofNat b.toNat)).toArray
def ofU8 (a : Array UInt8) : Bytes := a.toList.map (fun b => BitVec.ofNat 8 b.toNat)

def pad16 (bs : Bytes) : Bytes := (bs ++ zeros 16).take 16

/-- The block function handed to the models: AES-128 encryption of one 16-byte block. -/
def enc (key block : Bytes) : Bytes :=
  ofU8 (encryptBlock (expandKey (toU8 (pad16 key))) (toU8 (pad16 block)))

/-- AES-128 decryption of one 16-byte block. -/
def dec (key block : Bytes) : Bytes :=
  ofU8 (decryptBlock (expandKey (toU8 (pad16 key))) (toU8 (pad16 block)))

end Aes
end LospanVerif
