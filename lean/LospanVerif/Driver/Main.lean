import LospanVerif.Basic
import LospanVerif.Driver.Aes
import LospanVerif.Model.Cmac
import LospanVerif.Driver.PhyIO
/-
  verifdrv: line-protocol driver. One request per line on stdin, one answer per line on stdout.
  Evaluates the executable Model and the executable Spec on the case; the Go harness compares
  them with what the implementation did on the same case.
-/
namespace LospanVerif
namespace Driver

def handleCmac : List String → String
  | [k, m] =>
    match hx k, hx m with
    | some key, some msg =>
      let model := Model.Cmac.aesCmac Aes.enc key msg
      let spec := Spec.Rfc4493.cmac Aes.enc key msg
      s!"model={xh model} spec={xh spec}"
    | _, _ => "bad-args"
  | _ => "bad-args"

def handleAes : List String → String
  | [k, b] =>
    match hx k, hx b with
    | some key, some blk => s!"enc={xh (Aes.enc key blk)} dec={xh (Aes.dec key blk)}"
    | _, _ => "bad-args"
  | _ => "bad-args"

def handle (line : String) : String :=
  match (line.trimAscii.toString.splitOn " ").filter (· ≠ "") with
  | [] => "empty"
  | "cmac" :: rest => handleCmac rest
  | "aes" :: rest => handleAes rest
  | "phy.dec" :: rest => handlePhyDec rest
  | "phy.enc" :: rest => handlePhyEnc rest
  | "phy.msg" :: rest => handlePhyMsg rest
  | "set.ops" :: rest => handleSetOps rest
  | "mac.enc" :: rest => handleMacEnc rest
  | "dev.rx" :: rest => handleDevRx rest
  | "dev.tx" :: rest => handleDevTx rest
  | op :: _ => s!"bad-op {op}"

partial def loop (hin : IO.FS.Stream) (hout : IO.FS.Stream) : IO Unit := do
  let line ← hin.getLine
  if line.isEmpty then return ()
  hout.putStrLn (handle line)
  hout.flush
  loop hin hout

def main (_args : List String) : IO UInt32 := do
  let hin ← IO.getStdin
  let hout ← IO.getStdout
  loop hin hout
  hout.flush
  return 0

end Driver
end LospanVerif
