import LospanVerif.Basic
import LospanVerif.Driver.Aes
import LospanVerif.Model.Cmac
import LospanVerif.Driver.PhyIO
import LospanVerif.Driver.GwIO
import LospanVerif.Driver.PipeIO
/-
  verifdrv: line-protocol driver. One request per line on stdin, one answer per line on stdout.
  Evaluates the executable Model and the executable Spec on the case; the Go harness compares
  them with what the implementation did on the same case.
-/
namespace LospanVerif
namespace Driver

def handleCmac : List String → String
  | [k, m] =>
    match hx k, hx m with
    | some key, some msg =>
      let model := Model.Cmac.aesCmac Aes.enc key msg
      let spec := Spec.Rfc4493.cmac Aes.enc key msg
      s!"model={xh model} spec={xh spec}"
    | _, _ => "bad-args"
  | _ => "bad-args"

def handleAes : List String → String
  | [k, b] =>
    match hx k, hx b with
    | some key, some blk => s!"enc={xh (Aes.enc key blk)} dec={xh (Aes.dec key blk)}"
    | _, _ => "bad-args"
  | _ => "bad-args"

structure DrvState where
  gw : GwDrv := {}
  rt : Model.Router.St := Model.Router.init
  pipe : PipeDrv := {}
  rows : Model.Row.Table := []

def handle (st : DrvState) (line : String) : DrvState × String :=
  match (line.trimAscii.toString.splitOn " ").filter (· ≠ "") with
  | [] => (st, "empty")
  | "cmac" :: rest => (st, handleCmac rest)
  | "aes" :: rest => (st, handleAes rest)
  | "phy.dec" :: rest => (st, handlePhyDec rest)
  | "phy.enc" :: rest => (st, handlePhyEnc rest)
  | "phy.msg" :: rest => (st, handlePhyMsg rest)
  | "set.ops" :: rest => (st, handleSetOps rest)
  | "mac.enc" :: rest => (st, handleMacEnc rest)
  | "dev.rx" :: rest => (st, handleDevRx rest)
  | "dev.tx" :: rest => (st, handleDevTx rest)
  | "eui.new" :: rest => (st, handleEui rest)
  | "join.tx" :: rest => (st, handleJoinTx rest)
  | "join.rx" :: rest => (st, handleJoinRx rest)
  | "join.enc" :: rest => (st, handleJoinEnc rest)
  | op :: rest =>
    if op.startsWith "gw." then
      let (g, out) := handleGw st.gw (op :: rest)
      ({ st with gw := g }, out)
    else if op.startsWith "pipe." then
      let (p, out) := handlePipe st.pipe (op :: rest)
      ({ st with pipe := p }, out)
    else if op.startsWith "txt." then (st, handleTxt (op :: rest))
    else if op.startsWith "row." then
      let (t, out) := handleRow st.rows (op :: rest)
      ({ st with rows := t }, out)
    else if op.startsWith "rt." then
      let (r, out) := handleRt st.rt (op :: rest)
      ({ st with rt := r }, out)
    else (st, s!"bad-op {op}")

partial def loop (hin : IO.FS.Stream) (hout : IO.FS.Stream) (st : DrvState) : IO Unit := do
  let line ← hin.getLine
  if line.isEmpty then return ()
  let (st', out) := handle st line
  hout.putStrLn out
  hout.flush
  loop hin hout st'

def main (_args : List String) : IO UInt32 := do
  let hin ← IO.getStdin
  let hout ← IO.getStdout
  loop hin hout {}
  hout.flush
  return 0

end Driver
end LospanVerif
