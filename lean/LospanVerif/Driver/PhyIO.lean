import LospanVerif.Basic
import LospanVerif.Driver.Aes
import LospanVerif.Model.Phy
import LospanVerif.Spec.Frame
import LospanVerif.Spec.MacLayout
import LospanVerif.Spec.Lorawan
/-
  Driver handlers for the frame codec engines: text forms of commands and frames.
-/
namespace LospanVerif
namespace Driver
open Model.Mac Model.Phy

def hx (s : String) : Option Bytes := if s == "-" then some [] else ofHex s
def xh (bs : Bytes) : String := if bs.isEmpty then "-" else toHex bs
def b01 (b : Bool) : String := if b then "1" else "0"
def errS {α} : Res α → String
  | .ok _ => "ok" | .err e => "err:" ++ e.name | .panic => "panic"

/-- `name:f1:f2…`, the same text the Go harness produces by type switch. -/
def cmdText : Cmd → String
  | .linkCheckReq => "LinkCheckReq"
  | .linkCheckAns a b => s!"LinkCheckAns:{a}:{b}"
  | .linkADRReq a b c d => s!"LinkADRReq:{a}:{b}:{c}:{d}"
  | .linkADRAns a b c => s!"LinkADRAns:{b01 a}:{b01 b}:{b01 c}"
  | .dutyCycleReq a => s!"DutyCycleReq:{a}"
  | .dutyCycleAns => "DutyCycleAns"
  | .rxParamSetupReq a b c => s!"RXParamSetupReq:{a}:{b}:{c}"
  | .rxParamSetupAns a b c => s!"RXParamSetupAns:{b01 a}:{b01 b}:{b01 c}"
  | .devStatusReq => "DevStatusReq"
  | .devStatusAns a b => s!"DevStatusAns:{a}:{b}"
  | .newChannelReq a b c d => s!"NewChannelReq:{a}:{b}:{c}:{d}"
  | .newChannelAns a b => s!"NewChannelAns:{b01 a}:{b01 b}"
  | .rxTimingSetupReq a => s!"RXTimingSetupReq:{a}"
  | .rxTimingSetupAns => "RXTimingSetupAns"
  | .pingSlotInfoReq a b => s!"PingSlotInfoReq:{a}:{b}"
  | .pingSlotInfoAns => "PingSlotInfoAns"
  | .pingSlotChannelReq a b c => s!"PingSlotChannelReq:{a}:{b}:{c}"
  | .pingSlotFreqAns a b => s!"PingSlotFreqAns:{b01 a}:{b01 b}"
  | .beaconTimingReq => "BeaconTimingReq"
  | .beaconTimingAns a b => s!"BeaconTimingAns:{a}:{b}"
  | .beaconFreqReq a => s!"BeaconFreqReq:{a}"
  | .beaconFreqAns => "BeaconFreqAns"

def cmdsText (cs : List Cmd) : String :=
  if cs.isEmpty then "-" else String.intercalate "," (cs.map cmdText)

def nat? (s : String) : Option Nat := s.toNat?
def bool? (s : String) : Option Bool := if s == "1" then some true else if s == "0" then some false else none

def cmdOfText (s : String) : Option Cmd :=
  match s.splitOn ":" with
  | ["LinkCheckReq"] => some .linkCheckReq
  | ["LinkCheckAns", a, b] => do some (.linkCheckAns (← nat? a) (← nat? b))
  | ["LinkADRReq", a, b, c, d] => do some (.linkADRReq (← nat? a) (← nat? b) (← nat? c) (← nat? d))
  | ["LinkADRAns", a, b, c] => do some (.linkADRAns (← bool? a) (← bool? b) (← bool? c))
  | ["DutyCycleReq", a] => do some (.dutyCycleReq (← nat? a))
  | ["DutyCycleAns"] => some .dutyCycleAns
  | ["RXParamSetupReq", a, b, c] => do some (.rxParamSetupReq (← nat? a) (← nat? b) (← nat? c))
  | ["RXParamSetupAns", a, b, c] => do some (.rxParamSetupAns (← bool? a) (← bool? b) (← bool? c))
  | ["DevStatusReq"] => some .devStatusReq
  | ["DevStatusAns", a, b] => do some (.devStatusAns (← nat? a) (← nat? b))
  | ["NewChannelReq", a, b, c, d] => do some (.newChannelReq (← nat? a) (← nat? b) (← nat? c) (← nat? d))
  | ["NewChannelAns", a, b] => do some (.newChannelAns (← bool? a) (← bool? b))
  | ["RXTimingSetupReq", a] => do some (.rxTimingSetupReq (← nat? a))
  | ["RXTimingSetupAns"] => some .rxTimingSetupAns
  | ["PingSlotInfoReq", a, b] => do some (.pingSlotInfoReq (← nat? a) (← nat? b))
  | ["PingSlotInfoAns"] => some .pingSlotInfoAns
  | ["PingSlotChannelReq", a, b, c] => do some (.pingSlotChannelReq (← nat? a) (← nat? b) (← nat? c))
  | ["PingSlotFreqAns", a, b] => do some (.pingSlotFreqAns (← bool? a) (← bool? b))
  | ["BeaconTimingReq"] => some .beaconTimingReq
  | ["BeaconTimingAns", a, b] => do some (.beaconTimingAns (← nat? a) (← nat? b))
  | ["BeaconFreqReq", a] => do some (.beaconFreqReq (← nat? a))
  | ["BeaconFreqAns"] => some .beaconFreqAns
  | _ => none

def cmdsOfText (s : String) : Option (List Cmd) :=
  if s == "-" then some [] else (s.splitOn ",").mapM cmdOfText

/-- Text of a decoded frame, by message type. -/
def phyText (p : PHY) : String :=
  let t := p.mhdr.mtype
  if isDataMType t then
    let f := p.mac.fhdr
    s!"mt={t} maj={p.mhdr.major} addr={f.devAddr.toUint32} adr={b01 f.fctrl.adr} aar={b01 f.fctrl.adrAckReq} ack={b01 f.fctrl.ack} fp={b01 f.fctrl.fPending} cb={b01 f.fctrl.classB} fol={f.fctrl.foptsLen} fcnt={f.fcnt} fopts={cmdsText f.fopts.list} port={p.mac.fport} frm={xh p.mac.frm} mac={cmdsText p.mac.macCommands.list} mic={p.mic}"
  else if t = mtJoinRequest then
    s!"mt={t} maj={p.mhdr.major} app={xh p.joinReq.appEUI} dev={xh p.joinReq.devEUI} nonce={p.joinReq.devNonce} mic={p.mic}"
  else
    let j := p.joinAcc
    s!"mt={t} maj={p.mhdr.major} an={xh j.appNonce} netid={j.netID} addr={j.devAddr.toUint32} rx1={j.dl.rx1DRoffset} rx2={j.dl.rx2DataRate} rxd={j.rxDelay} mic={p.mic}"

def specText : Option Spec.Frame.DataFrame → String
  | none => "none"
  | some q =>
    let port := match q.port with | none => "none" | some p => toString p
    s!"mt={q.mtype};maj={q.major};addr={q.devAddr};adr={b01 q.adr};aar={b01 q.adrAckReq};ack={b01 q.ack};b4={b01 q.bit4};fcnt={q.fcnt};fopts={xh q.fopts};port={port};frm={xh q.frm};mic={q.mic}"

/-- `phy.dec <hex>`: model outcome and the spec's parse of the same octets. -/
def handlePhyDec : List String → String
  | [h] =>
    match hx h with
    | some bs =>
      let r := unmarshal bs
      let m := match r with
        | .ok p => "ok " ++ phyText p
        | .err e => "err:" ++ e.name
        | .panic => "panic"
      s!"{m} spec={specText (Spec.Frame.parse bs)}"
    | none => "bad-args"
  | _ => "bad-args"

/-- Build a PHY from key=value tokens (data frames). -/
def kvs (toks : List String) : List (String × String) :=
  toks.filterMap fun t => match t.splitOn "=" with
    | [k, v] => some (k, v)
    | _ => none

def getS (m : List (String × String)) (k : String) : String := (m.lookup k).getD ""
def getN (m : List (String × String)) (k : String) : Nat := ((m.lookup k).bind nat?).getD 0
def getB (m : List (String × String)) (k : String) : Bool := (m.lookup k) == some "1"

/-- Offer commands to a fresh set in the given order (as the harness does with `Add`). -/
def mkSet (message maxLen : Nat) (cs : List Cmd) : CmdSet :=
  cs.foldl (fun s c => (s.add c).1) (CmdSet.new message maxLen)

def phyOfKV (m : List (String × String)) : Option PHY := do
  let mt := getN m "mt"
  let fopts ← cmdsOfText (getS m "fopts")
  let mac ← cmdsOfText (getS m "mac")
  let frm ← hx (getS m "frm")
  let p := PHY.new mt
  some { p with
    mhdr := ⟨mt, getN m "maj"⟩
    mac := { fhdr := { devAddr := ⟨getN m "nwkid", getN m "nwkaddr"⟩,
                       fctrl := ⟨getB m "adr", getB m "aar", getB m "ack", getB m "fp", getB m "cb", 0⟩,
                       fcnt := getN m "fcnt",
                       fopts := mkSet mt (getN m "foptsmax") fopts },
             fport := getN m "port", frm := frm,
             macCommands := mkSet mt (getN m "macmax") mac }
    mic := getN m "mic" }

def bytesRes : Res Bytes → String
  | .ok b => "ok " ++ xh b
  | .err e => "err:" ++ e.name
  | .panic => "panic"

/-- The independent encoder's view of the struct: `none` when some value does not fit its wire
    field (then no layout is claimed). Port rules: no port octet without payload (unless MAC
    commands go out on port 0), FOptsLen = size of the FOpts octets, bit 4 = FPending or ClassB. -/
def specFields (p : PHY) : Option (Spec.Frame.DataFrame) :=
  let f := p.mac.fhdr
  let allFit := (f.fopts.list ++ p.mac.macCommands.list).all (fun c => decide (Spec.MacLayout.fits c))
  if !(isDataMType p.mhdr.mtype) || p.mhdr.major ≥ 4 || f.devAddr.nwkID ≥ 128 || f.devAddr.nwkAddr ≥ 33554432
      || f.fcnt ≥ 65536 || p.mic ≥ 4294967296 || !allFit then none
  else
    let fopts := f.fopts.list.flatMap Spec.MacLayout.layout
    let (port, frm) : Option Nat × Bytes :=
      if p.mac.frm.isEmpty then
        (if p.mac.macCommands.list.isEmpty then (none, []) else (some 0, p.mac.macCommands.list.flatMap Spec.MacLayout.layout))
      else (some p.mac.fport, p.mac.frm)
    some { mtype := p.mhdr.mtype, major := p.mhdr.major, devAddr := f.devAddr.nwkID * 33554432 + f.devAddr.nwkAddr,
           adr := f.fctrl.adr, adrAckReq := f.fctrl.adrAckReq, ack := f.fctrl.ack, bit4 := f.fctrl.fPending || f.fctrl.classB,
           fcnt := f.fcnt, fopts := fopts, port := port, frm := frm, mic := p.mic }

/-- `phy.enc k=v …`: MarshalBinary on the described struct, and the independent layout. -/
def handlePhyEnc (toks : List String) : String :=
  match phyOfKV (kvs toks) with
  | some p =>
    let spec := match specFields p with
      | some q => xh (Spec.Frame.layout q)
      | none => "na"
    s!"{bytesRes (marshal p)} spec={spec}"
  | none => "bad-args"

/-- `phy.msg nwk=<hex> app=<hex> k=v …`: EncodeMessage with the Lean AES, and the frame a
    LoRaWAN 1.0 implementation builds from the same fields and keys (application ports only). -/
def handlePhyMsg (toks : List String) : String :=
  let m := kvs toks
  match phyOfKV m, hx (getS m "nwk"), hx (getS m "app") with
  | some p, some nwk, some app =>
    let spec := match specFields p with
      | some q =>
        if q.port = some 0 || q.major ≠ 0 then "na"
        else xh (Spec.Lorawan.buildFrame Aes.enc nwk app q.mtype q.devAddr q.adr q.adrAckReq q.ack q.bit4 q.fcnt q.fopts q.port q.frm)
      | none => "na"
    s!"{bytesRes (encodeMessage Aes.enc nwk app p)} spec={spec}"
  | _, _, _ => "bad-args"

/-- `dev.rx nwk=<hex> app=<hex> <framehex>`: what a conformant device (or network, for uplinks) recovers. -/
def handleDevRx : List String → String
  | [nwk, app, fr] =>
    match hx nwk, hx app, hx fr with
    | some n, some a, some raw =>
      match Spec.Lorawan.receive Aes.enc n a raw with
      | none => "none"
      | some r => s!"mic={b01 r.micOK} plain={xh r.plain} {specText (some r.frame)}"
    | _, _, _ => "bad-args"
  | _ => "bad-args"

/-- `set.ops <message> <maxLen> <cmd,cmd,…>`: Add each in turn; report accepted flags, List, EncodedLength. -/
def handleSetOps : List String → String
  | [msg, mx, cs] =>
    match nat? msg, nat? mx, cmdsOfText cs with
    | some message, some maxLen, some cmds =>
      let (s, flags) := cmds.foldl (fun (acc : CmdSet × List Bool) c =>
        let (s', ok) := acc.1.add c
        (s', acc.2 ++ [ok])) (CmdSet.new message maxLen, [])
      let fl := String.ofList (flags.map (fun b => if b then '1' else '0'))
      s!"flags={if fl.isEmpty then "-" else fl} list={cmdsText s.list} len={s.encodedLength} size={s.size}"
    | _, _, _ => "bad-args"
  | _ => "bad-args"

/-- `mac.enc <cmd>`: the model's octets, the specification's layout, whether the values fit. -/
def handleMacEnc : List String → String
  | [t] =>
    match cmdOfText t with
    | some c => s!"model={xh c.body} spec={xh (Spec.MacLayout.layout c)} fits={b01 (decide (Spec.MacLayout.fits c))} len={c.length} up={b01 c.uplink}"
    | none => "bad-args"
  | _ => "bad-args"

/-- `dev.tx nwk=<hex> app=<hex> mt= addr= adr= aar= ack= b4= fcnt= fopts=<hex> port=<n|none> plain=<hex>`:
    the frame a conformant LoRaWAN 1.0 device builds (Spec), and what the model of the library
    makes of it: accepted?, MIC verifies under nwk?, recovered plaintext. -/
def handleDevTx (toks : List String) : String :=
  let m := kvs toks
  match hx (getS m "nwk"), hx (getS m "app"), hx (getS m "fopts"), hx (getS m "plain") with
  | some nwk, some app, some fopts, some plain =>
    let port : Option Nat := if getS m "port" == "none" then none else some (getN m "port")
    let raw := Spec.Lorawan.buildFrame Aes.enc nwk app (getN m "mt") (getN m "addr") (getB m "adr") (getB m "aar")
      (getB m "ack") (getB m "b4") (getN m "fcnt") fopts port plain
    let model := match unmarshal raw with
      | .ok p =>
        let micOK := calculateMIC Aes.enc nwk p (raw.take (raw.length - 4)) == p.mic
        s!"ok mic={b01 micOK} port={p.mac.fport} plain={xh (decryptFrm Aes.enc nwk app p)}"
      | .err e => "err:" ++ e.name
      | .panic => "panic"
    s!"frame={xh raw} {model}"
  | _, _, _, _ => "bad-args"

end Driver
end LospanVerif
