import LospanVerif.Basic
import LospanVerif.Driver.Aes
import LospanVerif.Driver.PhyIO
import LospanVerif.Driver.GwIO
import LospanVerif.Model.Pipeline
import LospanVerif.Spec.Lorawan
/- Driver handlers for the pipeline engine (stateful). -/
namespace LospanVerif
namespace Driver
open Model.Pipeline

structure PipeDrv where
  cfg : Config := ⟨0, false⟩
  sys : Sys := Sys.init ⟨[], [], [], [], []⟩
  seenEmitted : Nat := 0
  seenPublished : Nat := 0
  deriving Inhabited

def getH (m : List (String × String)) (k : String) : Bytes := ((m.lookup k).bind hx).getD []

def natList (s : String) : List Nat := if s == "-" || s == "" then [] else (s.splitOn ",").filterMap nat?

def pm (n : Nat) : String := if n = 0 then "0" else "+"

def sortStrs (l : List String) : List String := (l.toArray.qsort (· < ·)).toList

def devLine (db : DB) (d : Device) : String :=
  s!"D {xh d.eui} addr={d.devAddr} nwk={xh d.nwkSKey} apps={xh d.appSKey} up={d.fcntUp} dn={d.fcntDn} warn={b01 d.keyWarning} nonces={natsText (((db.noncesOf d.eui).toArray.qsort (· < ·)).toList)}"
def inLine (r : InRow) : String := s!"I {xh r.dev} ts={r.ts} data={xh r.data} gw={xh r.gw} addr={r.devAddr} radio={r.radio}"
def outLine (m : OutRow) : String :=
  s!"O {xh m.dev} created={m.created} port={m.port} data={xh m.data} ack={b01 m.ack} sent={pm m.sent} acked={pm m.acked} fcnt={m.fcntUp}"
def downLine (e : Down) : String := s!"E {xh e.raw} gw={xh e.gw.gwEUI} delay={e.delay} clock={e.gw.clock} dr={e.gw.dataRate}"
def pubLine (p : Published) : String := s!"P {xh p.app} dev={xh p.dev} payload={xh p.payload}"

def joinLines (l : List String) : String := if l.isEmpty then "-" else String.intercalate ";" l

def threadTag : Thread → String
  | .uplink s => s!"uplink@{s.pc}"
  | .join s => s!"join@{s.pc}"
  | .notify _ _ => "notify"
  | .sendAt _ => "sendAt"
  | .sendDone _ => "sendDone"
  | .encoder pc _ _ _ => s!"encoder@{pc}"
  | .done => "done"

def handlePipe (g : PipeDrv) : List String → PipeDrv × String
  | "pipe.reset" :: rest =>
    let m := kvs rest
    ({ cfg := ⟨getN m "netid", getB m "noncecheckoff"⟩ }, "ok")
  | ["pipe.app", e] =>
    match hx e with
    | some eui => ({ g with sys := { g.sys with db := { g.sys.db with apps := g.sys.db.apps ++ [eui] } } }, "ok")
    | none => (g, "bad-args")
  | "pipe.dev" :: rest =>
    let m := kvs rest
    let d : Device := { eui := getH m "eui", appEUI := getH m "app", devAddr := getN m "addr", appKey := getH m "appkey",
                        nwkSKey := getH m "nwk", appSKey := getH m "apps", fcntUp := getN m "up", fcntDn := getN m "dn",
                        relaxed := getB m "relaxed", keyWarning := getB m "warn", nonces := [] }
    let ns := (natList (getS m "nonces")).map (fun n => (d.eui, n))
    ({ g with sys := { g.sys with db := { g.sys.db with devices := g.sys.db.devices ++ [d], nonces := g.sys.db.nonces ++ ns } } }, "ok")
  | "pipe.deliver" :: rest =>
    let m := kvs rest
    let gw : GwCtx := ⟨getH m "gw", getN m "ts", getS m "radio", getS m "dr", getN m "clock"⟩
    let sys := apply Aes.enc Aes.dec g.cfg g.sys (.deliver (getH m "raw") gw (getH m "an") (getN m "na"))
    ({ g with sys := sys }, s!"threads={sys.threads.length}")
  | "pipe.submit" :: rest =>
    let m := kvs rest
    let row : OutRow := ⟨getH m "dev", getN m "created", getN m "port", getH m "data", getB m "ack", 0, 0, 0⟩
    let ok := (g.sys.db.addOutbox row).isSome
    ({ g with sys := apply Aes.enc Aes.dec g.cfg g.sys (.submit row) }, s!"ok={b01 ok}")
  | ["pipe.step", i, f] =>
    match nat? i with
    | some k =>
      let sys := apply Aes.enc Aes.dec g.cfg g.sys (.stepT k (f == "1"))
      ({ g with sys := sys }, s!"threads={joinLines (sys.threads.map threadTag)}")
    | none => (g, "bad-args")
  | ["pipe.quiesce"] => ({ g with sys := apply Aes.enc Aes.dec g.cfg g.sys .quiesce }, "ok")
  | ["pipe.crash"] => ({ g with sys := apply Aes.enc Aes.dec g.cfg g.sys .crash }, "ok")
  | ["pipe.advance"] =>
    let sys := advance Aes.enc Aes.dec g.cfg 400 g.sys
    let labels := (List.range sys.threads.length).filterMap (fun i =>
      match sys.threads[i]? with
      | some t => if isDone t then none else
          match nextLabel g.cfg t with
          | some (op, key) => some s!"{i}:{op}:{key}"
          | none => some s!"{i}:internal:-"
      | none => none)
    ({ g with sys := sys }, s!"labels={joinLines labels}")
  | ["pipe.threads"] => (g, s!"threads={joinLines (g.sys.threads.map threadTag)}")
  | ["pipe.state"] =>
    let s := g.sys
    let newE := s.emitted.drop g.seenEmitted
    let newP := s.published.drop g.seenPublished
    ({ g with seenEmitted := s.emitted.length, seenPublished := s.published.length },
     s!"devices={joinLines (sortStrs (s.db.devices.map (devLine s.db)))} inbox={joinLines (sortStrs (s.db.inbox.map inLine))} outbox={joinLines (sortStrs (s.db.outbox.map outLine))} emitted={joinLines (sortStrs (newE.map downLine))} published={joinLines (sortStrs (newP.map pubLine))}")
  | _ => (g, "bad-args")

/-- `join.tx appkey= app=<wire hex> dev=<wire hex> nonce=<wire hex>`: the join-request of a conformant device (Spec). -/
def handleJoinTx (toks : List String) : String :=
  let m := kvs toks
  s!"frame={xh (Spec.Lorawan.joinRequest Aes.enc (getH m "appkey") (getH m "app") (getH m "dev") (getH m "nonce"))}"

/-- `join.rx appkey= nonce=<wire hex> raw=`: what a conformant device makes of a join-accept (Spec):
    fields and the session keys it derives. -/
def handleJoinRx (toks : List String) : String :=
  let m := kvs toks
  let appKey := getH m "appkey"
  match Spec.Lorawan.deviceAccepts Aes.enc appKey (getH m "raw") with
  | none => "none"
  | some j =>
    let nwk := Spec.Lorawan.sessionKey Aes.enc appKey 1 j.appNonceWire j.netIDWire (getH m "nonce")
    let apps := Spec.Lorawan.sessionKey Aes.enc appKey 2 j.appNonceWire j.netIDWire (getH m "nonce")
    s!"an={xh j.appNonceWire} netid={xh j.netIDWire} addr={j.devAddr} dl={j.dlSettings.toNat} rxd={j.rxDelay.toNat} nwk={xh nwk} apps={xh apps}"

/-- `join.enc appkey= an= netid= nwkid= nwkaddr= rx1= rx2= rxd=`: the model's EncodeJoinAccept. -/
def handleJoinEnc (toks : List String) : String :=
  let m := kvs toks
  let p := { Model.Phy.PHY.new Model.Phy.mtJoinAccept with
    joinAcc := ⟨getH m "an", getN m "netid", ⟨getN m "nwkid", getN m "nwkaddr"⟩, ⟨getN m "rx1", getN m "rx2"⟩, getN m "rxd"⟩ }
  bytesRes (Model.Phy.encodeJoinAccept Aes.enc Aes.dec (getH m "appkey") p)

end Driver
end LospanVerif
