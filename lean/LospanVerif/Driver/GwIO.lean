import LospanVerif.Basic
import LospanVerif.Model.Gateway
import LospanVerif.Driver.PhyIO
import LospanVerif.Model.Eui
import LospanVerif.Model.Router
import LospanVerif.Model.Text
import LospanVerif.Model.Row
/- Driver handlers for the gateway engine (stateful: registry, switch, PULL ports). -/
namespace LospanVerif
namespace Driver
open Model.Gateway

structure GwDrv where
  checksOff : Bool := false
  reg : List (Bytes × GwReg) := []
  st : State := ⟨[]⟩
  deriving Inhabited

def GwDrv.lookup (g : GwDrv) (e : Bytes) : Option GwReg := (g.reg.find? (fun x => x.1 == e)).map (·.2)

def int? (s : String) : Option Int :=
  if s.startsWith "-" then (s.drop 1).toNat?.map (fun n => -(n : Int)) else s.toNat?.map (fun n => (n : Int))

def parseRxpk (s : String) : Option Rxpk :=
  match s.splitOn "|" with
  | [d, tmst, chan, rfch, datr, rssi, lsnr] => do
    let data : Option Bytes := if d == "!" then none else hx d
    if d != "!" && data.isNone then none
    else some ⟨data, ← nat? tmst, ← nat? chan, ← nat? rfch, datr, ← int? rssi, lsnr⟩
  | _ => none

def parseRxpks (s : String) : Option (Option (List Rxpk)) :=
  if s == "nojson" then some none
  else if s == "empty" then some (some [])
  else ((s.splitOn ";").mapM parseRxpk).map some

def sentText (x : Sent) : String := s!"{x.host}:{x.port}:{x.identifier}:{x.token}:{x.version}"
def fwdText (f : Forwarded) : String :=
  s!"{xh f.raw}|{f.datr}|{f.chan}|{f.rfch}|{f.freq}|{f.rssi}|{f.lsnr}|{xh f.eui}|{f.host}|{f.port}|{f.clock}|{f.version}"

def listText (xs : List String) : String := if xs.isEmpty then "-" else String.intercalate "," xs

def pktText : Res GwPacket → String
  | .ok p => s!"ok ver={p.version} tok={p.token} id={p.identifier} eui={xh p.eui} json={xh p.json}"
  | .err e => "err:" ++ e.name
  | .panic => "panic"

def handleGw (g : GwDrv) : List String → GwDrv × String
  | ["gw.reset", off] => ({ checksOff := off == "1" }, "ok")
  | ["gw.reg", e, ip, strict] =>
    match hx e with
    | some eui => ({ g with reg := (eui, ⟨ip, strict == "1"⟩) :: g.reg.filter (fun x => x.1 != eui) }, "ok")
    | none => (g, "bad-args")
  | ["gw.unreg", e] =>
    match hx e with
    | some eui => ({ g with reg := g.reg.filter (fun x => x.1 != eui) }, "ok")
    | none => (g, "bad-args")
  | ["gw.refused", _] => (g, "ok")     -- a registry call the store refuses: the registry stays as it was
  | ["gw.dgram", host, port, bytes, rx] =>
    match nat? port, hx bytes, parseRxpks rx with
    | some p, some bs, some rxpk =>
      match unmarshal bs with
      | .ok pkt =>
        let (st', sent, fwd) := step g.checksOff g.lookup g.st ⟨host, p, pkt, rxpk⟩
        ({ g with st := st' }, s!"sent={listText (sent.map sentText)} fwd={listText (fwd.map fwdText)}")
      | _ => (g, "sent=- fwd=-")
    | _, _, _ => (g, "bad-args")
  | ["gw.dgramfault", host, port, bytes, rx] =>
    -- the registry lookup fails (storage error): the model's lookup yields nothing for any EUI
    match nat? port, hx bytes, parseRxpks rx with
    | some p, some bs, some rxpk =>
      match unmarshal bs with
      | .ok pkt =>
        let (st', sent, fwd) := step g.checksOff (fun _ => none) g.st ⟨host, p, pkt, rxpk⟩
        ({ g with st := st' }, s!"sent={listText (sent.map sentText)} fwd={listText (fwd.map fwdText)}")
      | _ => (g, "sent=- fwd=-")
    | _, _, _ => (g, "bad-args")
  | ["gw.down", e, host, clock, delay, ver, freq, datr, raw] =>
    match hx e, nat? clock, nat? delay, nat? ver, hx raw with
    | some eui, some c, some d, some v, some r =>
      let (s, t) := emit g.st ⟨r, freq, datr, d, eui, host, c, v⟩
      (g, s!"to={s.host}:{s.port} id={s.identifier} ver={s.version} tmst={if t.tmstPresent then toString t.tmst else "absent"} freq={t.freq} rfch={t.rfch} modu={t.modu} datr={t.datr} codr={t.codr} ipol={b01 t.ipol} size={t.size} data={xh t.data} imme={b01 t.imme}")
    | _, _, _, _, _ => (g, "bad-args")
  | ["gw.codec", bytes] =>
    match hx bytes with
    | some bs =>
      let r := unmarshal bs
      let back := match r with
        | .ok p => (match marshal p with | .ok b => xh b | _ => "err")
        | _ => "na"
      (g, s!"{pktText r} back={back}")
    | none => (g, "bad-args")
  | ["gw.marsh", ver, tok, id, e, js] =>
    match nat? ver, nat? tok, nat? id, hx e, hx js with
    | some v, some t, some i, some eui, some j =>
      let r := marshal ⟨v, t, i, eui, j⟩
      let s := match r with
        | .ok b => s!"ok {xh b} rt={pktText (unmarshal b)}"
        | .err er => "err:" ++ er.name
        | .panic => "panic"
      (g, s)
    | _, _, _, _, _ => (g, "bad-args")
  | _ => (g, "bad-args")

/-- `eui.new <prefix hex, 3..5 octets> <netid> <counter>` -/
def handleEui : List String → String
  | [pf, nid, c] =>
    match hx pf, nat? nid, nat? c with
    | some p, some n, some k =>
      let size := if p.length = 3 then Model.Eui.maLarge else if p.length = 4 then Model.Eui.maMedium else Model.Eui.maSmall
      let m : Model.Eui.MA := ⟨(p ++ zeros 5).take 5, size⟩
      s!"eui={xh (Model.Eui.newEUI m n k)} inspace={b01 (decide (k ≤ Model.Eui.maxID))} maxnet={Model.Eui.maxNetID size}"
    | _, _, _ => "bad-args"
  | _ => "bad-args"

def natsText (l : List Nat) : String := if l.isEmpty then "-" else String.intercalate "," (l.map toString)

/-- Router engine: `rt.reset`, `rt.sub id`, `rt.unsub ch`, `rt.pub id ev`, `rt.read ch`, `rt.state`. -/
def handleRt (s : Model.Router.St) : List String → Model.Router.St × String
  | ["rt.reset"] => (Model.Router.init, "ok")
  | ["rt.sub", id] =>
    match nat? id with
    | some i => (Model.Router.step s (.subscribe i), s!"ch={s.nextCh}")
    | none => (s, "bad-args")
  | ["rt.unsub", ch] =>
    match nat? ch with
    | some c => (Model.Router.step s (.unsubscribe c), "ok")
    | none => (s, "bad-args")
  | ["rt.pub", id, ev] =>
    match nat? id, nat? ev with
    | some i, some e => (Model.Router.step s (.publish i e), "ok")
    | _, _ => (s, "bad-args")
  | ["rt.read", ch] =>
    match nat? ch with
    | some c =>
      let s' := Model.Router.step s (.read c)
      (s', s!"new={natsText (s.buf c)} closed={b01 (s.closed.contains c)}")
    | none => (s, "bad-args")
  | ["rt.state"] =>
    (s, s!"routes={natsText (s.routes.map (·.ch))} closed={natsText s.closed.reverse} bad={b01 s.sentOnClosed}")
  | _ => (s, "bad-args")

def optNat : Option Nat → String | some n => toString n | none => "none"
def optBytes : Option Bytes → String | some b => xh b | none => "none"
def charsOfHex (h : String) : List Char := ((hx h).getD []).map (fun b => Char.ofNat b.toNat)

/-- Text codec engine. -/
def handleTxt : List String → String
  | ["txt.devaddr", n] =>
    match nat? n with
    | some v => s!"str={String.ofList (Model.Text.hex8 v)} parse={optNat (Model.Text.parseUint32 (Model.Text.hex8 v))}"
    | none => "bad-args"
  | ["txt.parsedevaddr", h] => s!"parse={optNat (Model.Text.parseUint32 (charsOfHex h))}"
  | ["txt.eui", h] =>
    match hx h with
    | some o =>
      let i := Model.Text.toInt64 o
      s!"str={String.ofList (Model.Text.euiString o)} parse={optBytes (Model.Text.parseEui (Model.Text.euiString o))} int={i} back={xh (Model.Text.fromInt64 i)}"
    | none => "bad-args"
  | ["txt.key", h] =>
    match hx h with
    | some k => s!"str={String.ofList (Model.Text.keyString k)} parse={optBytes (Model.Text.parseKey (Model.Text.keyString k))}"
    | none => "bad-args"
  | _ => "bad-args"

/-- Device table engine (Model/Row.lean). -/
def devRowText (d : Model.Row.Dev) : String :=
  s!"eui={xh d.eui},addr={d.devAddr},appkey={xh d.appKey},apps={xh d.appSKey},nwks={xh d.nwkSKey},app={xh d.appEui},state={d.state},up={d.fcntUp},dn={d.fcntDn},relaxed={b01 d.relaxed},warn={b01 d.warn},tag={xh (d.tag.map fun c => BitVec.ofNat 8 c.toNat)}"

def parseDevRow : List String → Option Model.Row.Dev
  | [eui, addr, ak, sk, nk, app, st, up, dn, rel, warn, tag] =>
    match hx eui, nat? addr, hx ak, hx sk, hx nk, hx app, nat? st, nat? up, nat? dn with
    | some e, some a, some k1, some k2, some k3, some ap, some s, some u, some d =>
      some { eui := e, devAddr := a, appKey := k1, appSKey := k2, nwkSKey := k3, appEui := ap, state := s, fcntUp := u, fcntDn := d,
             relaxed := rel == "1", warn := warn == "1", tag := charsOfHex tag }
    | _, _, _, _, _, _, _, _, _ => none
  | _ => none

def handleRow (t : Model.Row.Table) : List String → Model.Row.Table × String
  | ["row.reset"] => ([], "ok")
  | "row.create" :: rest =>
    match parseDevRow rest with
    | some d => match Model.Row.create t d with
      | some t' => (t', "ok")
      | none => (t, "dup")
    | none => (t, "bad-args")
  | "row.update" :: rest =>
    match parseDevRow rest with
    | some d => match Model.Row.update t d with
      | some t' => (t', "ok")
      | none => (t, "notfound")
    | none => (t, "bad-args")
  | ["row.delete", eui] =>
    match hx eui with
    | some e => match Model.Row.delete t e with
      | some t' => (t', "ok")
      | none => (t, "notfound")
    | none => (t, "bad-args")
  | ["row.get", eui] =>
    match hx eui with
    | some e => match Model.Row.get t e with
      | .notFound => (t, "notfound")
      | .bad => (t, "fail")
      | .dev d => (t, devRowText d)
    | none => (t, "bad-args")
  | ["row.list", app] =>
    match hx app with
    | some a => match Model.Row.list t a with
      | some ds => (t, "n=" ++ toString ds.length ++ " " ++ " ".intercalate (ds.map devRowText))
      | none => (t, "fail")
    | none => (t, "bad-args")
  | _ => (t, "bad-args")

end Driver
end LospanVerif
