/-
  Basic vocabulary shared by Spec, Model and Driver: bytes, results with Go's three
  outcomes (value, error, run-time panic), hex text, little-endian integers.
  Core Lean only (no Mathlib) so that the driver links as a native executable.
-/
namespace LospanVerif

abbrev Byte := BitVec 8
abbrev Bytes := List Byte

/-- The error values of `pkg/protocol/errors.go` that the properties distinguish, plus `other`. -/
inductive Err where
  | truncated | nilError | outOfRange | invalidFormat | invalidSource
  | invalidMType | invalidVersion | invalidMIC | other
  deriving DecidableEq, Repr, Inhabited

def Err.name : Err → String
  | .truncated => "truncated" | .nilError => "nil" | .outOfRange => "range"
  | .invalidFormat => "format" | .invalidSource => "source" | .invalidMType => "mtype"
  | .invalidVersion => "version" | .invalidMIC => "mic" | .other => "other"

/-- Outcome of a Go function: a value, a returned error, or a run-time panic
    (index / slice bounds out of range). -/
inductive Res (α : Type) where
  | ok (a : α) | err (e : Err) | panic
  deriving Repr

namespace Res
@[inline] def bind {α β} (x : Res α) (f : α → Res β) : Res β :=
  match x with
  | .ok a => f a
  | .err e => .err e
  | .panic => .panic
instance : Monad Res where
  pure := Res.ok
  bind := Res.bind
def isOk {α} : Res α → Bool | .ok _ => true | _ => false
def isPanic {α} : Res α → Bool | .panic => true | _ => false
def toOption {α} : Res α → Option α | .ok a => some a | _ => none
@[simp] theorem bind_ok {α β} (a : α) (f : α → Res β) : (Res.ok a >>= f) = f a := rfl
@[simp] theorem bind_err {α β} (e : Err) (f : α → Res β) : ((Res.err e : Res α) >>= f) = .err e := rfl
@[simp] theorem bind_panic {α β} (f : α → Res β) : ((Res.panic : Res α) >>= f) = .panic := rfl
@[simp] theorem pure_eq {α} (a : α) : (pure a : Res α) = .ok a := rfl
end Res

/-- `buffer[i]` in Go: panics when `i ≥ len`. -/
def idx (bs : Bytes) (i : Nat) : Res Byte :=
  match bs[i]? with
  | some b => .ok b
  | none => .panic

/-- `buffer[a:b]` in Go for `b ≤ len` (we never reslice into spare capacity): panics otherwise. -/
def slice (bs : Bytes) (a b : Nat) : Res Bytes :=
  if a ≤ b ∧ b ≤ bs.length then .ok ((bs.take b).drop a) else .panic

/-! ### hex text (driver protocol, and the textual columns of the store) -/

def hexDigit (n : Nat) : Char :=
  if n < 10 then Char.ofNat (48 + n) else Char.ofNat (87 + n)

def byteHex (b : Byte) : List Char := [hexDigit (b.toNat / 16), hexDigit (b.toNat % 16)]

def toHexChars (bs : Bytes) : List Char := bs.flatMap byteHex
def toHex (bs : Bytes) : String := String.ofList (toHexChars bs)

def hexVal (c : Char) : Option Nat :=
  if '0' ≤ c ∧ c ≤ '9' then some (c.toNat - 48)
  else if 'a' ≤ c ∧ c ≤ 'f' then some (c.toNat - 87)
  else if 'A' ≤ c ∧ c ≤ 'F' then some (c.toNat - 55)
  else none

def ofHexChars : List Char → Option Bytes
  | [] => some []
  | [_] => none
  | a :: b :: rest =>
    match hexVal a, hexVal b, ofHexChars rest with
    | some x, some y, some r => some (BitVec.ofNat 8 (16 * x + y) :: r)
    | _, _, _ => none

def ofHex (s : String) : Option Bytes := ofHexChars s.toList

/-! ### integers on the wire -/

def byteOf (n : Nat) : Byte := BitVec.ofNat 8 n

def le16 (n : Nat) : Bytes := [byteOf n, byteOf (n / 256)]
def le24 (n : Nat) : Bytes := [byteOf n, byteOf (n / 256), byteOf (n / 65536)]
def le32 (n : Nat) : Bytes := [byteOf n, byteOf (n / 256), byteOf (n / 65536), byteOf (n / 16777216)]
def be16 (n : Nat) : Bytes := [byteOf (n / 256), byteOf n]
def be24 (n : Nat) : Bytes := [byteOf (n / 65536), byteOf (n / 256), byteOf n]
def be64 (n : Nat) : Bytes :=
  [byteOf (n / 2^56), byteOf (n / 2^48), byteOf (n / 2^40), byteOf (n / 2^32),
   byteOf (n / 2^24), byteOf (n / 2^16), byteOf (n / 2^8), byteOf n]
def le64 (n : Nat) : Bytes := (be64 n).reverse

def unle (bs : Bytes) : Nat := bs.foldr (fun b acc => b.toNat + 256 * acc) 0
def unbe (bs : Bytes) : Nat := bs.foldl (fun acc b => 256 * acc + b.toNat) 0

def zeros (n : Nat) : Bytes := List.replicate n 0#8

def xorB (a b : Bytes) : Bytes := List.zipWith (· ^^^ ·) a b

@[simp] theorem xorB_length (a b : Bytes) : (xorB a b).length = min a.length b.length := by
  simp [xorB]

@[simp] theorem zeros_length (n : Nat) : (zeros n).length = n := by simp [zeros]

theorem byteOf_toNat (n : Nat) : (byteOf n).toNat = n % 256 := by simp [byteOf]

@[simp] theorem unle_nil : unle [] = 0 := rfl
@[simp] theorem unle_cons (b : Byte) (bs : Bytes) : unle (b :: bs) = b.toNat + 256 * unle bs := rfl

theorem unle_le16 (n : Nat) (h : n < 65536) : unle (le16 n) = n := by
  simp [le16, byteOf]; omega
theorem unle_le24 (n : Nat) (h : n < 16777216) : unle (le24 n) = n := by
  simp [le24, byteOf]; omega
theorem unle_le32 (n : Nat) (h : n < 4294967296) : unle (le32 n) = n := by
  simp [le32, byteOf]; omega

theorem le16_unle (a b : Byte) : le16 (unle [a, b]) = [a, b] := by
  simp only [le16, unle_cons, unle_nil, byteOf]
  congr 1
  · bv_omega
  · congr 1; bv_omega
theorem le32_unle (a b c d : Byte) : le32 (unle [a, b, c, d]) = [a, b, c, d] := by
  simp only [le32, unle_cons, unle_nil, byteOf]
  congr 1
  · bv_omega
  · congr 1
    · bv_omega
    · congr 1
      · bv_omega
      · congr 1; bv_omega

theorem unle_lt_16 (a b : Byte) : unle [a, b] < 65536 := by
  simp only [unle_cons, unle_nil]; omega
theorem unle_lt_32 (a b c d : Byte) : unle [a, b, c, d] < 4294967296 := by
  simp only [unle_cons, unle_nil]; omega

end LospanVerif
