import LospanVerif.Basic
import LospanVerif.Model.Mac
/-
  LoRaWAN 1.0 MAC command layouts, from §5 (class A, CID 0x02..0x08) and §14 (class B,
  CID 0x10..0x13), as arithmetic on the field values (most significant field first within
  an octet, multi-octet fields little endian). The command *vocabulary* (`Model.Mac.Cmd`)
  is shared with the model; the octets are derived here independently of its masks/shifts.
-/
namespace LospanVerif
namespace Spec.MacLayout
open Model.Mac

def b2n (b : Bool) : Nat := if b then 1 else 0

/-- The field values fit the widths the specification gives them. -/
def fits : Cmd → Prop
  | .linkCheckAns margin gwCnt => margin < 256 ∧ gwCnt < 256
  | .linkADRReq dr txp chMask red => dr < 16 ∧ txp < 16 ∧ chMask < 65536 ∧ red < 256
  | .dutyCycleReq m => m < 256
  | .rxParamSetupReq off dr freq => off < 8 ∧ dr < 16 ∧ freq < 16777216
  | .devStatusAns battery margin => battery < 256 ∧ margin < 64
  | .newChannelReq ch freq maxDR minDR => ch < 256 ∧ freq < 16777216 ∧ maxDR < 16 ∧ minDR < 16
  | .rxTimingSetupReq del => del < 16
  | .pingSlotInfoReq per dr => per < 8 ∧ dr < 16
  | .pingSlotChannelReq freq maxDR minDR => freq < 16777216 ∧ maxDR < 16 ∧ minDR < 16
  | .beaconTimingAns delay ch => delay < 65536 ∧ ch < 256
  | .beaconFreqReq freq => freq < 16777216
  | _ => True

instance (c : Cmd) : Decidable (fits c) := by
  cases c <;> unfold fits <;> infer_instance

/-- Payload octets (without the CID). -/
def payload : Cmd → Bytes
  | .linkCheckReq => []
  | .linkCheckAns margin gwCnt => [byteOf margin, byteOf gwCnt]
  | .linkADRReq dr txp chMask red => [byteOf (16 * dr + txp)] ++ le16 chMask ++ [byteOf red]
  | .linkADRAns p d c => [byteOf (4 * b2n p + 2 * b2n d + b2n c)]
  | .dutyCycleReq m => [byteOf m]
  | .dutyCycleAns => []
  | .rxParamSetupReq off dr freq => [byteOf (16 * off + dr)] ++ le24 freq
  | .rxParamSetupAns a b c => [byteOf (4 * b2n a + 2 * b2n b + b2n c)]
  | .devStatusReq => []
  | .devStatusAns battery margin => [byteOf battery, byteOf margin]
  | .newChannelReq ch freq maxDR minDR => [byteOf ch] ++ le24 freq ++ [byteOf (16 * maxDR + minDR)]
  | .newChannelAns d f => [byteOf (2 * b2n d + b2n f)]
  | .rxTimingSetupReq del => [byteOf del]
  | .rxTimingSetupAns => []
  | .pingSlotInfoReq per dr => [byteOf (16 * per + dr)]
  | .pingSlotInfoAns => []
  | .pingSlotChannelReq freq maxDR minDR => le24 freq ++ [byteOf (16 * maxDR + minDR)]
  | .pingSlotFreqAns d f => [byteOf (2 * b2n d + b2n f)]
  | .beaconTimingReq => []
  | .beaconTimingAns delay ch => le16 delay ++ [byteOf ch]
  | .beaconFreqReq freq => le24 freq
  | .beaconFreqAns => []

/-- CID per the specification tables (request and answer share it). -/
def cid : Cmd → Nat
  | .linkCheckReq | .linkCheckAns .. => 0x02
  | .linkADRReq .. | .linkADRAns .. => 0x03
  | .dutyCycleReq .. | .dutyCycleAns => 0x04
  | .rxParamSetupReq .. | .rxParamSetupAns .. => 0x05
  | .devStatusReq | .devStatusAns .. => 0x06
  | .newChannelReq .. | .newChannelAns .. => 0x07
  | .rxTimingSetupReq .. | .rxTimingSetupAns => 0x08
  | .pingSlotInfoReq .. | .pingSlotInfoAns => 0x10
  | .pingSlotChannelReq .. | .pingSlotFreqAns .. => 0x11
  | .beaconTimingReq | .beaconTimingAns .. => 0x12
  | .beaconFreqReq .. | .beaconFreqAns => 0x13

/-- Sent by the end-device (uplink) per the specification tables. -/
def sentByDevice : Cmd → Bool
  | .linkCheckReq | .linkADRAns .. | .dutyCycleAns | .rxParamSetupAns .. | .devStatusAns ..
  | .newChannelAns .. | .rxTimingSetupAns | .pingSlotInfoReq .. | .pingSlotFreqAns ..
  | .beaconTimingReq | .beaconFreqAns => true
  | _ => false

def layout (c : Cmd) : Bytes := byteOf (cid c) :: payload c

end Spec.MacLayout
end LospanVerif
