import LospanVerif.Basic
import LospanVerif.Spec.Rfc4493
import LospanVerif.Spec.Frame
/-
  LoRaWAN 1.0 §4.3.3 (FRMPayload encryption), §4.4 (MIC), §6.2 (join), written from the
  specification for an arbitrary block cipher `E` (AES-128 encryption) and its inverse `D`.

    A_i = 0x01 | 4 x 0x00 | Dir | DevAddr (LE) | FCnt (LE, 32 bit) | 0x00 | i          i = 1..k
    S   = E(K, A_1) | … | E(K, A_k),   K = NwkSKey if FPort = 0 else AppSKey
    B_0 = 0x49 | 4 x 0x00 | Dir | DevAddr (LE) | FCnt (LE, 32 bit) | 0x00 | len(msg)
    MIC = cmac(NwkSKey, B_0 | msg)[0..3],   msg = MHDR | FHDR | FPort | FRMPayload
    Dir = 0 uplink, 1 downlink
-/
namespace LospanVerif
namespace Spec.Lorawan
open Spec.Rfc4493 (BlockFn)

def aBlock (dir addr fcnt i : Nat) : Bytes :=
  [0x01#8, 0#8, 0#8, 0#8, 0#8, byteOf dir] ++ le32 addr ++ le32 fcnt ++ [0#8, byteOf i]

/-- The key stream S for `n` payload octets. -/
def keyStream (E : BlockFn) (key : Bytes) (dir addr fcnt n : Nat) : Bytes :=
  ((List.range ((n + 15) / 16)).flatMap (fun j => E key (aBlock dir addr fcnt (j + 1)))).take n

/-- Encryption = decryption: payload XOR the truncated key stream. -/
def cryptPayload (E : BlockFn) (key : Bytes) (dir addr fcnt : Nat) (pld : Bytes) : Bytes :=
  xorB pld (keyStream E key dir addr fcnt pld.length)

def b0Block (dir addr fcnt len : Nat) : Bytes :=
  [0x49#8, 0#8, 0#8, 0#8, 0#8, byteOf dir] ++ le32 addr ++ le32 fcnt ++ [0#8, byteOf len]

def mic (E : BlockFn) (nwkSKey : Bytes) (dir addr fcnt : Nat) (msg : Bytes) : Bytes :=
  (Spec.Rfc4493.cmac E nwkSKey (b0Block dir addr fcnt msg.length ++ msg)).take 4

def dirOf (mtype : Nat) : Nat := if mtype == 2 || mtype == 4 || mtype == 0 then 0 else 1

/-- A complete data frame as a conformant end-device (uplink) or network (downlink) builds it:
    header fields, raw FOpts octets, optional port with *plaintext* payload. -/
def buildFrame (E : BlockFn) (nwkSKey appSKey : Bytes) (mtype addr : Nat) (adr aar ack bit4 : Bool)
    (fcnt : Nat) (fopts : Bytes) (port : Option Nat) (payload : Bytes) : Bytes :=
  let dir := dirOf mtype
  let key := if port = some 0 then nwkSKey else appSKey
  let enc := cryptPayload E key dir addr fcnt payload
  let f : Spec.Frame.DataFrame :=
    { mtype := mtype, major := 0, devAddr := addr, adr := adr, adrAckReq := aar, ack := ack, bit4 := bit4,
      fcnt := fcnt, fopts := fopts, port := port, frm := enc, mic := 0 }
  let withZeroMic := Spec.Frame.layout f
  let msg := withZeroMic.take (withZeroMic.length - 4)
  msg ++ mic E nwkSKey dir addr fcnt msg

/-- What a device recovers from a frame addressed to it: MIC verdict, port and plaintext. -/
structure Received where
  micOK : Bool
  frame : Spec.Frame.DataFrame
  plain : Bytes
  deriving Repr

def receive (E : BlockFn) (nwkSKey appSKey : Bytes) (raw : Bytes) : Option Received :=
  match Spec.Frame.parse raw with
  | none => none
  | some f =>
    let dir := dirOf f.mtype
    let msg := raw.take (raw.length - 4)
    let key := if f.port = some 0 then nwkSKey else appSKey
    some { micOK := mic E nwkSKey dir f.devAddr f.fcnt msg == raw.drop (raw.length - 4),
           frame := f, plain := cryptPayload E key dir f.devAddr f.fcnt f.frm }

/-! ### Join (§6.2) -/

/-- join-request: MHDR(0x00) | AppEUI | DevEUI | DevNonce | MIC, EUIs and nonce as sent on the air
    (`appEUIwire`, `devEUIwire` 8 octets each, `devNonceWire` 2 octets), MIC = cmac(AppKey, first 19)[0..3]. -/
def joinRequest (E : BlockFn) (appKey appEUIwire devEUIwire devNonceWire : Bytes) : Bytes :=
  let body := [0x00#8] ++ appEUIwire ++ devEUIwire ++ devNonceWire
  body ++ (Spec.Rfc4493.cmac E appKey body).take 4

def joinRequestMicOK (E : BlockFn) (appKey raw : Bytes) : Bool :=
  raw.length == 23 && (Spec.Rfc4493.cmac E appKey (raw.take 19)).take 4 == raw.drop 19

/-- What the device does with a join-accept (17 octets, no CFList): `aes128_encrypt(AppKey, body)`
    recovers AppNonce | NetID | DevAddr | DLSettings | RxDelay | MIC; the MIC is
    cmac(AppKey, MHDR | AppNonce | NetID | DevAddr | DLSettings | RxDelay)[0..3]. -/
structure JoinAcceptSeen where
  appNonceWire : Bytes    -- 3 octets as on the air
  netIDWire : Bytes       -- 3 octets as on the air
  devAddr : Nat
  dlSettings : Byte
  rxDelay : Byte
  deriving DecidableEq, Repr

def deviceAccepts (E : BlockFn) (appKey raw : Bytes) : Option JoinAcceptSeen :=
  if raw.length ≠ 17 then none
  else
    let mhdr := raw.take 1
    let plain := E appKey (raw.drop 1)
    let body := plain.take 12
    if (Spec.Rfc4493.cmac E appKey (mhdr ++ body)).take 4 != plain.drop 12 then none
    else some { appNonceWire := body.take 3, netIDWire := (body.drop 3).take 3,
                devAddr := unle ((body.drop 6).take 4), dlSettings := body.getD 10 0#8, rxDelay := body.getD 11 0#8 }

/-- NwkSKey = E(AppKey, 0x01 | AppNonce | NetID | DevNonce | pad16), AppSKey likewise with 0x02,
    all three fields in the octet order seen on the air. -/
def sessionKey (E : BlockFn) (appKey : Bytes) (pfx : Nat) (appNonceWire netIDWire devNonceWire : Bytes) : Bytes :=
  E appKey ([byteOf pfx] ++ appNonceWire ++ netIDWire ++ devNonceWire ++ zeros 7)

end Spec.Lorawan
end LospanVerif
