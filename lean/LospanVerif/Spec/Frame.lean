import LospanVerif.Basic
/-
  LoRaWAN 1.0 data-frame layout (§4), written from the specification text:

    PHYPayload = MHDR | MACPayload | MIC
    MHDR       = MType (bits 7..5) | RFU (4..2) | Major (1..0)
    MACPayload = FHDR | [FPort | FRMPayload]
    FHDR       = DevAddr (4, little endian) | FCtrl (1) | FCnt (2, little endian) | FOpts (0..15)
    FCtrl      = ADR (7) | ADRACKReq (6) | ACK (5) | FPending / RFU / ClassB (4) | FOptsLen (3..0)
    MIC        = 4 octets, little endian

  Independent of the Go code: fields are carved out with div/mod on octet values.
-/
namespace LospanVerif
namespace Spec.Frame

structure DataFrame where
  mtype : Nat
  major : Nat
  devAddr : Nat
  adr : Bool
  adrAckReq : Bool
  ack : Bool
  bit4 : Bool            -- FPending (downlink) / ClassB (uplink): one wire bit
  fcnt : Nat
  fopts : Bytes          -- exactly FOptsLen octets
  port : Option Nat
  frm : Bytes
  mic : Nat
  deriving DecidableEq, Repr

def isDataMType (t : Nat) : Bool := t == 2 || t == 3 || t == 4 || t == 5

def testBit (n : Nat) (k : Nat) : Bool := (n / 2 ^ k) % 2 == 1

/-- Parse a data frame; `none` when the octets are not a data frame of major version 0. -/
def parse (bs : Bytes) : Option DataFrame :=
  match bs with
  | mhdr :: a0 :: a1 :: a2 :: a3 :: fctrl :: c0 :: c1 :: rest =>
    let mtype := mhdr.toNat / 32
    let major := mhdr.toNat % 4
    let foptsLen := fctrl.toNat % 16
    if major ≠ 0 ∨ !isDataMType mtype then none
    else if rest.length < foptsLen + 4 then none
    else
      let fopts := rest.take foptsLen
      let tail := rest.drop foptsLen            -- [FPort | FRMPayload] | MIC
      let body := tail.take (tail.length - 4)
      let micB := tail.drop (tail.length - 4)
      some {
        mtype := mtype, major := major,
        devAddr := unle [a0, a1, a2, a3],
        adr := testBit fctrl.toNat 7, adrAckReq := testBit fctrl.toNat 6, ack := testBit fctrl.toNat 5,
        bit4 := testBit fctrl.toNat 4,
        fcnt := unle [c0, c1],
        fopts := fopts,
        port := body.head?.map (·.toNat),
        frm := body.drop 1,
        mic := unle micB }
  | _ => none

def b2n (b : Bool) : Nat := if b then 1 else 0

/-- The octets of a data frame. -/
def layout (f : DataFrame) : Bytes :=
  [byteOf (32 * f.mtype + f.major)] ++ le32 f.devAddr ++
  [byteOf (128 * b2n f.adr + 64 * b2n f.adrAckReq + 32 * b2n f.ack + 16 * b2n f.bit4 + f.fopts.length)] ++
  le16 f.fcnt ++ f.fopts ++
  (match f.port with | none => [] | some p => byteOf p :: f.frm) ++
  le32 f.mic

end Spec.Frame
end LospanVerif
