import LospanVerif.Basic
/-
  RFC 4493 (AES-CMAC), written from the RFC text, for an arbitrary 128-bit block cipher.
  Bit strings are `List Bool`, most significant bit first, exactly as the RFC speaks of
  them ("L << 1", "MSB(L)", "XOR"); octet strings are `Bytes`.
-/
namespace LospanVerif
namespace Spec.Rfc4493

/-- A block cipher: key → 16-byte block → 16-byte block. The theorems hold for every `E`. -/
abbrev BlockFn := Bytes → Bytes → Bytes

/-- Bits of one octet, most significant first. -/
def byteBits (b : Byte) : List Bool :=
  [b.getLsbD 7, b.getLsbD 6, b.getLsbD 5, b.getLsbD 4, b.getLsbD 3, b.getLsbD 2, b.getLsbD 1, b.getLsbD 0]

def toBits (bs : Bytes) : List Bool := bs.flatMap byteBits

def bitsByte : List Bool → Byte
  | [b7, b6, b5, b4, b3, b2, b1, b0] =>
      BitVec.ofNat 8 (128 * b7.toNat + 64 * b6.toNat + 32 * b5.toNat + 16 * b4.toNat +
        8 * b3.toNat + 4 * b2.toNat + 2 * b1.toNat + b0.toNat)
  | _ => 0#8

def ofBits : List Bool → Bytes
  | b7 :: b6 :: b5 :: b4 :: b3 :: b2 :: b1 :: b0 :: rest => bitsByte [b7, b6, b5, b4, b3, b2, b1, b0] :: ofBits rest
  | _ => []

/-- `x << 1` on a bit string: drop the most significant bit, append a zero. -/
def shl1 (x : List Bool) : List Bool := x.drop 1 ++ (if x.isEmpty then [] else [false])
def msb (x : List Bool) : Bool := x.headD false
def xorBits (x y : List Bool) : List Bool := List.zipWith bne x y

/-- const_Rb = 0x00000000000000000000000000000087 -/
def constRb : List Bool := toBits (zeros 15 ++ [0x87#8])

/-- One step of Generate_Subkey: `if MSB(L) = 0 then L << 1 else (L << 1) XOR const_Rb`. -/
def dblBits (l : List Bool) : List Bool :=
  if msb l then xorBits (shl1 l) constRb else shl1 l

def dbl (l : Bytes) : Bytes := ofBits (dblBits (toBits l))

/-- padding(x): x ‖ 10^i to 128 bits. -/
def pad (x : Bytes) : Bytes := x ++ [0x80#8] ++ zeros (15 - x.length)

/-- Steps 5–6 for the first n-1 complete blocks. -/
def cbc (E : BlockFn) (k : Bytes) : Bytes → List Bytes → Bytes
  | x, [] => x
  | x, m :: ms => cbc E k (E k (xorB x m)) ms

/-- Split into 16-octet blocks (the last one possibly shorter; none for the empty string). -/
def chunks : Nat → Bytes → List Bytes
  | 0, _ => []
  | fuel + 1, bs => if bs.isEmpty then [] else bs.take 16 :: chunks fuel (bs.drop 16)

/-- AES-CMAC(K, M) per RFC 4493 §2.4. -/
def cmac (E : BlockFn) (k : Bytes) (m : Bytes) : Bytes :=
  let l := E k (zeros 16)
  let k1 := dbl l
  let k2 := dbl k1
  let len := m.length
  -- Step 2/3: n blocks, `flag` = last block complete
  let n := if len = 0 then 1 else (len + 15) / 16
  let flag := len ≠ 0 ∧ len % 16 = 0
  let blocks := chunks len (m.take (16 * (n - 1)))
  let mn := m.drop (16 * (n - 1))
  let mLast := if flag then xorB mn k1 else xorB (pad mn) k2
  let x := cbc E k (zeros 16) blocks
  E k (xorB mLast x)

end Spec.Rfc4493
end LospanVerif
