import LospanVerif.Spec.Frame
/-
  The specification's own round trip: parsing the layout of a well-formed frame value gives the
  value back. Together with C12_decode_fields (library decode agrees with `parse`) and
  C12_marshal_is_layout (library encode = `layout`) this closes the codec's round trip.
-/
namespace LospanVerif
namespace Spec.Frame

/-- Well-formed frame values: what a frame can carry on the wire. -/
structure WF (f : DataFrame) : Prop where
  mtype : isDataMType f.mtype = true
  major : f.major = 0
  addr : f.devAddr < 4294967296
  fcnt : f.fcnt < 65536
  fopts : f.fopts.length ≤ 15
  port : ∀ p, f.port = some p → p < 256
  noport : f.port = none → f.frm = []
  mic : f.mic < 4294967296

theorem fctrl_val (a b c d : Bool) (n : Nat) (h : n ≤ 15) :
    let v := 128 * b2n a + 64 * b2n b + 32 * b2n c + 16 * b2n d + n
    v < 256 ∧ testBit v 7 = a ∧ testBit v 6 = b ∧ testBit v 5 = c ∧ testBit v 4 = d ∧ v % 16 = n := by
  cases a <;> cases b <;> cases c <;> cases d <;> simp [b2n, testBit] <;> omega

theorem take_len_append {α} (a b : List α) : (a ++ b).take a.length = a := by simp
theorem drop_len_append {α} (a b : List α) : (a ++ b).drop a.length = b := by simp

theorem parse_layout (f : DataFrame) (h : WF f) : parse (layout f) = some f := by
  obtain ⟨hm, hj, ha, hc, hfo, hp, hnp, hmic⟩ := h
  have hmt : f.mtype = 2 ∨ f.mtype = 3 ∨ f.mtype = 4 ∨ f.mtype = 5 := by
    simp [isDataMType] at hm; omega
  obtain ⟨hv, h7, h6, h5, h4, hl⟩ := fctrl_val f.adr f.adrAckReq f.ack f.bit4 f.fopts.length hfo

  have hb0 : (byteOf (32 * f.mtype + f.major)).toNat = 32 * f.mtype + f.major := by rw [byteOf_toNat]; omega
  have hfc : (byteOf (128 * b2n f.adr + 64 * b2n f.adrAckReq + 32 * b2n f.ack + 16 * b2n f.bit4 + f.fopts.length)).toNat
      = 128 * b2n f.adr + 64 * b2n f.adrAckReq + 32 * b2n f.ack + 16 * b2n f.bit4 + f.fopts.length := by
    rw [byteOf_toNat]; omega
  have hdiv : (32 * f.mtype + f.major) / 32 = f.mtype := by omega
  have hmod : (32 * f.mtype + f.major) % 4 = 0 := by omega
  have haddr : unle [byteOf f.devAddr, byteOf (f.devAddr / 256), byteOf (f.devAddr / 65536), byteOf (f.devAddr / 16777216)] = f.devAddr :=
    unle_le32 f.devAddr ha
  have hcnt : unle [byteOf f.fcnt, byteOf (f.fcnt / 256)] = f.fcnt := unle_le16 f.fcnt hc
  have hmicv : unle [byteOf f.mic, byteOf (f.mic / 256), byteOf (f.mic / 65536), byteOf (f.mic / 16777216)] = f.mic :=
    unle_le32 f.mic hmic
  have key : ∀ body : Bytes, (f.port = none → body = []) → (∀ p, f.port = some p → body = byteOf p :: f.frm) →
      parse ([byteOf (32 * f.mtype + f.major)] ++ le32 f.devAddr ++
        [byteOf (128 * b2n f.adr + 64 * b2n f.adrAckReq + 32 * b2n f.ack + 16 * b2n f.bit4 + f.fopts.length)] ++
        le16 f.fcnt ++ f.fopts ++ body ++ le32 f.mic) = some f := by
    intro body hb1 hb2
    simp only [le32, le16, List.cons_append, List.nil_append]
    unfold parse
    simp only [hb0, hfc, hl, hdiv, hmod, hm, haddr, hcnt, h7, h6, h5, h4]
    have hlen : ¬ ((f.fopts ++ body) ++ [byteOf f.mic, byteOf (f.mic / 256), byteOf (f.mic / 65536), byteOf (f.mic / 16777216)]).length
        < f.fopts.length + 4 := by simp
    simp only [ne_eq, not_true_eq_false, Bool.not_true, Bool.false_eq_true, or_self, if_false, hlen]
    rw [List.append_assoc, take_len_append, drop_len_append]
    have hl4 : (body ++ [byteOf f.mic, byteOf (f.mic / 256), byteOf (f.mic / 65536), byteOf (f.mic / 16777216)]).length - 4 = body.length := by simp
    rw [hl4, take_len_append, drop_len_append, hmicv]
    cases hport : f.port with
    | none =>
      have := hb1 hport
      have := hnp hport
      cases f
      simp_all
    | some p =>
      have := hb2 p hport
      have hp' := hp p hport
      have : (byteOf p).toNat = p := by rw [byteOf_toNat]; omega
      cases f
      simp_all
  unfold layout
  cases hport : f.port with
  | none => exact key [] (fun _ => rfl) (fun p hp => by rw [hport] at hp; cases hp)
  | some p => exact key (byteOf p :: f.frm) (fun h => by rw [hport] at h; cases h) (fun q hq => by rw [hport] at hq; cases hq; rfl)

end Spec.Frame
end LospanVerif
