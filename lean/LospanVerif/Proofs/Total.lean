import LospanVerif.Proofs.Phy
import LospanVerif.Props.C13
/-
  Totality of the data-frame decoder on well-formed input: whatever the specification parses as a
  LoRaWAN 1.0 data frame (major version 0, FPort absent or not 0), `UnmarshalBinary` accepts —
  whatever octets sit in FOpts (known, unknown, repeated or cut-off command identifiers).
  The loop of `MACCommandSet.decode` returns because (i) it only looks one octet beyond the budget
  FOptsLen, and the MIC follows; (ii) a command is decoded only when it fits the remaining budget;
  (iii) `Add` cannot fail: the direction is the constructor's and the set's encoded length never
  exceeds the running count.
-/
namespace LospanVerif
namespace Proofs.Total
open Model.Mac Model.Phy Proofs.Phy

theorem newUplink_shape (k : Nat) (c : Cmd) (h : newUplink k = some c) : c.cid = k ∧ c.uplink = true ∧ 1 ≤ c.length := by
  unfold newUplink at h
  split at h <;> first | (cases h; exact ⟨rfl, rfl, by decide⟩) | cases h

theorem newDownlink_shape (k : Nat) (c : Cmd) (h : newDownlink k = some c) : c.cid = k ∧ c.uplink = false ∧ 1 ≤ c.length := by
  unfold newDownlink at h
  split at h <;> first | (cases h; exact ⟨rfl, rfl, by decide⟩) | cases h

theorem newCmd_shape (up : Bool) (k : Nat) (c : Cmd) (h : newCmd up k = some c) : c.cid = k ∧ c.uplink = up ∧ 1 ≤ c.length := by
  unfold newCmd at h
  cases up
  · simpa using newDownlink_shape k c (by simpa using h)
  · simpa using newUplink_shape k c (by simpa using h)

theorem readFields_shape (c : Cmd) (p : Nat → Byte) :
    (c.readFields p).cid = c.cid ∧ (c.readFields p).uplink = c.uplink ∧ (c.readFields p).length = c.length := by
  cases c <;> exact ⟨rfl, rfl, rfl⟩

theorem decodeAt_ok (buffer : Bytes) (pos : Nat) (c : Cmd) (hroom : pos + c.length < buffer.length)
    (hcid : (buffer.getD pos 0#8).toNat = c.cid) :
    decodeAt buffer pos c = .ok (c.readFields (fun i => buffer.getD (pos + 1 + i) 0#8), pos + c.length) := by
  unfold decodeAt
  have hv : isValidBuffer buffer.length pos c = true := by simp [isValidBuffer]; omega
  rw [hv]
  simp only [Bool.not_true, Bool.false_eq_true, if_false]
  rw [idx_lt buffer pos (by omega)]
  simp only [Res.bind_ok]
  rw [if_neg (by simpa using hcid)]

theorem sum_insert_le (c : Cmd) (l : List Cmd) : ((insertCmd c l).map Cmd.length).sum ≤ (l.map Cmd.length).sum + c.length := by
  induction l with
  | nil => simp [insertCmd]
  | cons d rest ih =>
    simp only [insertCmd]
    split
    · simp; omega
    · split
      · simp; omega
      · simp only [List.map_cons, List.sum_cons]; omega

/-- `MACCommandSet.decode`'s loop returns (it neither errors nor runs out of fuel) whenever the
    buffer reaches one octet beyond what the set's limit still allows. -/
theorem decodeLoop_total (buffer : Bytes) (uplink : Bool) :
    ∀ (fuel : Nat) (s : CmdSet) (pos cur : Nat), cur ≤ s.maxLength → s.encodedLength ≤ cur →
      isUplinkMType s.message = uplink → pos + (s.maxLength - cur) < buffer.length → buffer.length - pos < fuel →
      ∃ r, decodeLoop buffer uplink fuel s pos cur = .ok r := by
  intro fuel
  induction fuel with
  | zero => intro s pos cur _ _ _ _ h; omega
  | succ fuel ih =>
    intro s pos cur hcur henc hdir hroom hfuel
    simp only [decodeLoop]
    rw [if_neg (by omega)]
    cases hnc : newCmd uplink (buffer.getD pos 0#8).toNat with
    | none => exact ⟨_, rfl⟩
    | some c =>
      simp only []
      obtain ⟨hcid, hup, hlen1⟩ := newCmd_shape _ _ _ hnc
      by_cases hcl : cur + c.length > s.maxLength
      · rw [if_pos hcl]; exact ⟨_, rfl⟩
      · rw [if_neg hcl]
        rw [decodeAt_ok buffer pos c (by omega) hcid.symm]
        simp only []
        obtain ⟨_, hup', hlen'⟩ := readFields_shape c (fun i => buffer.getD (pos + 1 + i) 0#8)
        have hadd : (s.add (c.readFields (fun i => buffer.getD (pos + 1 + i) 0#8))).2 = true := by
          unfold CmdSet.add
          rw [if_neg (by rw [hlen']; omega), if_neg (by rw [hup', hup, hdir]; simp)]
        rw [if_pos hadd]
        have hm := add_maxLength s (c.readFields (fun i => buffer.getD (pos + 1 + i) 0#8))
        apply ih
        · rw [hm]; omega
        · -- the set's encoded length stays below the running count
          unfold CmdSet.add
          rw [if_neg (by rw [hlen']; omega), if_neg (by rw [hup', hup, hdir]; simp)]
          simp only [CmdSet.encodedLength]
          have := sum_insert_le (c.readFields (fun i => buffer.getD (pos + 1 + i) 0#8)) s.cmds
          rw [hlen'] at this
          simp only [CmdSet.encodedLength] at henc
          omega
        · unfold CmdSet.add
          rw [if_neg (by rw [hlen']; omega), if_neg (by rw [hup', hup, hdir]; simp)]
          exact hdir
        · rw [hm]; omega
        · omega

theorem setDecode_total (msg n : Nat) (buffer : Bytes) (pos : Nat) (hroom : pos + n < buffer.length) :
    ∃ r, (CmdSet.new msg n).decode buffer pos = .ok r := by
  unfold CmdSet.decode
  rw [if_neg (by omega)]
  exact decodeLoop_total buffer _ (buffer.length + 1) _ pos 0 (Nat.zero_le _) (by simp [CmdSet.encodedLength, CmdSet.new])
    (by simp [CmdSet.new]) (by simp [CmdSet.new]; omega) (by omega)

/-- `FHDR.decode` returns whenever the buffer holds the 7 header octets, the FOpts octets the
    header announces and one octet more. -/
theorem fhdr_decode_total (fo : CmdSet) (o : Bytes) (pos : Nat)
    (hlen : pos + 7 + ((o.getD (pos + 4) 0#8) &&& 0x0F#8).toNat < o.length) :
    ∃ h, FHDR.decode fo o pos = .ok (h, pos + 7 + ((o.getD (pos + 4) 0#8) &&& 0x0F#8).toNat) := by
  generalize hn : ((o.getD (pos + 4) 0#8) &&& 0x0F#8).toNat = n at hlen ⊢
  unfold FHDR.decode
  have h1 : DevAddr.decode o pos = .ok (⟨unle ((o.drop pos).take 4) / 33554432, unle ((o.drop pos).take 4) % 33554432⟩, pos + 4) := by
    unfold DevAddr.decode; rw [if_neg (by omega)]
  rw [h1]
  simp only [Res.bind_ok]
  obtain ⟨fc, h2, hfl⟩ : ∃ fc : FCtrl, FCtrl.decode o (pos + 4) = .ok (fc, pos + 4 + 1) ∧ fc.foptsLen = n := by
    unfold FCtrl.decode; rw [if_neg (by omega)]; exact ⟨_, rfl, hn⟩
  rw [h2]
  simp only [Res.bind_ok]
  subst hfl
  rw [if_neg (by omega)]
  by_cases hz : fc.foptsLen > 0
  · rw [if_pos hz]
    have hnl : ¬ (o.length < pos + 4 + 1 + 2 + fc.foptsLen) := by omega
    rw [if_neg hnl]
    obtain ⟨⟨s, p', e⟩, hr⟩ := setDecode_total fo.message fc.foptsLen o (pos + 4 + 1 + 2) (by omega)
    rw [hr]
    exact ⟨_, rfl⟩
  · rw [if_neg hz]
    have h0 : fc.foptsLen = 0 := by omega
    rw [h0]
    exact ⟨_, rfl⟩

/-- `MACPayload.decode` returns for every buffer that holds the header, the announced FOpts octets
    and the 4 MIC octets, when the FPort (if any payload follows) is not 0. -/
theorem macPayload_decode_total (m0 : MACPayload) (bs : Bytes) (pos : Nat)
    (hlen : pos + 7 + ((bs.getD (pos + 4) 0#8) &&& 0x0F#8).toNat + 4 ≤ bs.length)
    (hport : pos + 7 + ((bs.getD (pos + 4) 0#8) &&& 0x0F#8).toNat + 4 < bs.length →
      (bs.getD (pos + 7 + ((bs.getD (pos + 4) 0#8) &&& 0x0F#8).toNat) 0#8).toNat ≠ 0) :
    ∃ r, MACPayload.decode m0 bs pos = .ok r := by
  generalize hn : ((bs.getD (pos + 4) 0#8) &&& 0x0F#8).toNat = n at hlen hport
  obtain ⟨h, hh⟩ := fhdr_decode_total m0.fhdr.fopts bs pos (by rw [hn]; omega)
  rw [hn] at hh
  unfold MACPayload.decode
  rw [hh]
  simp only [Res.bind_ok]
  rw [if_neg (by omega)]
  by_cases hz : bs.length - (pos + 7 + n) - 4 = 0
  · rw [if_pos hz]; exact ⟨_, rfl⟩
  · rw [if_neg hz]
    rw [idx_lt bs (pos + 7 + n) (by omega)]
    simp only [Res.bind_ok]
    rw [if_neg (hport (by omega))]
    rw [slice_ok bs _ _ (by omega) (by omega)]
    exact ⟨_, rfl⟩

theorem bind_ok_exists {α β} (x : Res α) (f : α → Res β) (hx : ∃ a, x = .ok a) (hf : ∀ a, ∃ b, f a = .ok b) :
    ∃ b, (x >>= f) = .ok b := by
  obtain ⟨a, rfl⟩ := hx
  exact hf a

/-- `UnmarshalBinary` accepts every octet string that is a LoRaWAN 1.0 data frame of major version
    0 whose FPort, if present, is not 0. -/
theorem unmarshal_total (bs : Bytes) (hlen12 : 12 ≤ bs.length)
    (hmaj : ((bs.getD 0 0#8) &&& 0x03#8).toNat = 0)
    (hdata : isDataMType (((bs.getD 0 0#8) &&& 0xE0#8) >>> 5).toNat = true)
    (hlen : 1 + 7 + ((bs.getD 5 0#8) &&& 0x0F#8).toNat + 4 ≤ bs.length)
    (hport : 1 + 7 + ((bs.getD 5 0#8) &&& 0x0F#8).toNat + 4 < bs.length →
      (bs.getD (1 + 7 + ((bs.getD 5 0#8) &&& 0x0F#8).toNat) 0#8).toNat ≠ 0) :
    ∃ p, unmarshal bs = .ok p := by
  unfold unmarshal
  rw [if_neg (by simp [minimumMessageSize]; omega)]
  have hm : MHDR.decode bs 0 = .ok (⟨(((bs.getD 0 0#8) &&& 0xE0#8) >>> 5).toNat, ((bs.getD 0 0#8) &&& 0x03#8).toNat⟩, 0 + 1) := by
    unfold MHDR.decode
    rw [idx_lt bs 0 (by omega)]
    simp only [Res.bind_ok]
    rw [if_neg (by rw [hmaj]; simp [maxSupportedVersion])]
  rw [hm]
  simp only [Res.bind_ok]
  rw [if_pos hdata]
  exact bind_ok_exists _ _ (macPayload_decode_total _ bs (0 + 1) (by simpa [Nat.add_comm] using hlen) (by simpa [Nat.add_comm] using hport))
    (fun r => ⟨_, rfl⟩)

/-- **Whatever the specification parses as a data frame (FPort absent or not 0), the library accepts.** -/
theorem unmarshal_of_parse (bs : Bytes) (q : Spec.Frame.DataFrame) (h : Spec.Frame.parse bs = some q) (hp : q.port ≠ some 0) :
    ∃ p, unmarshal bs = .ok p := by
  unfold Spec.Frame.parse at h
  match bs, h with
  | m :: a0 :: a1 :: a2 :: a3 :: fc :: c0 :: c1 :: rest, h =>
    simp only [] at h
    split at h
    · cases h
    · rename_i hhdr
      split at h
      · cases h
      · rename_i hrest
        simp only [Option.some.injEq] at h
        have hmaj : m.toNat % 4 = 0 := by
          rcases Nat.eq_zero_or_pos (m.toNat % 4) with h0 | h0
          · exact h0
          · exact absurd (Or.inl (by omega)) hhdr
        have hdat : Spec.Frame.isDataMType (m.toNat / 32) = true := by
          cases hd : Spec.Frame.isDataMType (m.toNat / 32)
          · exact absurd (Or.inr (by simp [hd])) hhdr
          · rfl
        have hfl : (fc &&& 0x0F#8).toNat = fc.toNat % 16 := foptslen_bits fc
        apply unmarshal_total
        · simp at hrest ⊢; omega
        · simp only [List.getD_cons_zero]; rw [major_bits]; exact hmaj
        · simp only [List.getD_cons_zero]; rw [mtype_bits]; exact hdat
        · simp only [List.getD_cons_succ, List.getD_cons_zero, hfl]; simp at hrest ⊢; omega
        · intro hmore
          simp only [List.getD_cons_succ, List.getD_cons_zero, hfl] at hmore ⊢
          -- the FPort is the head of the body
          subst h
          simp only at hp
          intro h0
          apply hp
          have hb : 0 < ((rest.drop (fc.toNat % 16)).take ((rest.drop (fc.toNat % 16)).length - 4)).length := by
            simp at hmore ⊢; omega
          generalize fc.toNat % 16 = n at *
          have hidx : (m :: a0 :: a1 :: a2 :: a3 :: fc :: c0 :: c1 :: rest).getD (1 + 7 + n) 0#8 = rest.getD n 0#8 := by
            have : 1 + 7 + n = n + 1 + 1 + 1 + 1 + 1 + 1 + 1 + 1 := by omega
            rw [this]
            simp only [List.getD_cons_succ]
          rw [hidx] at h0
          cases hD : rest.drop n with
          | nil => rw [hD] at hb; simp at hb
          | cons d D' =>
            rw [hD] at hb
            have hd : rest.getD n 0#8 = d := by
              have := List.getElem?_drop (xs := rest) (i := n) (j := 0)
              rw [hD] at this
              simp at this
              simp [List.getD, ← this]
            obtain ⟨k, hk⟩ : ∃ k, (d :: D').length - 4 = k + 1 := by
              cases hkk : (d :: D').length - 4 with
              | zero => rw [hkk] at hb; simp at hb
              | succ k => exact ⟨k, rfl⟩
            rw [hk]
            simp only [List.take_succ_cons, List.head?_cons, Option.map_some, Option.some.injEq]
            rw [← hd]; exact h0

end Proofs.Total
end LospanVerif
