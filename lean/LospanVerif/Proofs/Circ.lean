import LospanVerif.Proofs.Counters
/-
  Composition for C03 and C07: every counter in circulation — carried by a thread that obtained
  it from the store, or already turned into an observable effect (inbox row, emitted frame) — was
  issued by the store operation (`AdvanceFCntUp` / `NextFCntDn`), and no counter is in circulation
  twice. Holds for every event list (all interleavings, faults, crashes), per device, for as long
  as the device's counter epoch lasts (no join, no 16-bit wrap).

  The argument is the same for both directions, so it is written once over a `Book`:
    held    the counter a thread carries (encoder after `NextFCntDn`; uplink handler of a strict
            device between `AdvanceFCntUp` and the inbox insert)
    out     the history of observable effects (emittedDn / recordedUp)
    issued  the history of successful store operations (issuedDn / acceptedUp)
    resets  devices whose epoch has ended (resetsDn / resetsUp)
-/
namespace LospanVerif
namespace Proofs.Circ
open Model.Pipeline Model.Phy Proofs.Counters

section lists
variable {α β : Type} [BEq β] [LawfulBEq β]

theorem split_at {l : List α} {i : Nat} {t : α} (h : l[i]? = some t) :
    l = l.take i ++ t :: l.drop (i + 1) ∧ i < l.length := by
  have hi : i < l.length := by
    rcases Nat.lt_or_ge i l.length with h' | h'
    · exact h'
    · rw [List.getElem?_eq_none h'] at h; cases h
  refine ⟨?_, hi⟩
  have hget : l[i] = t := by
    rw [List.getElem?_eq_getElem hi] at h; exact Option.some.inj h
  conv => lhs; rw [← List.take_append_drop i l]
  rw [List.drop_eq_getElem_cons hi, hget]

theorem set_at {l : List α} {i : Nat} {t t0 : α} (h : l[i]? = some t) :
    l.set i t0 = l.take i ++ t0 :: l.drop (i + 1) := by
  obtain ⟨_, hi⟩ := split_at h
  rw [List.set_eq_take_append_cons_drop, if_pos hi]

/-- How the multiset of values held by the threads changes when thread `i` is replaced by `t0`
    and the threads `more` are appended. -/
theorem count_step (f : α → Option β) {l : List α} {i : Nat} {t : α} (t0 : α) (more : List α) (x : β)
    (h : l[i]? = some t) :
    ((l.set i t0 ++ more).filterMap f).count x + (f t).toList.count x
      = (l.filterMap f).count x + (f t0).toList.count x + (more.filterMap f).count x := by
  have h1 := set_at (t0 := t0) h
  obtain ⟨h2, _⟩ := split_at h
  rw [h1]
  conv => rhs; rw [h2]
  simp only [List.filterMap_append, List.filterMap_cons, List.count_append]
  cases hft : f t <;> cases hft0 : f t0 <;> simp [List.count_cons] <;> omega
end lists

structure Book where
  held : Thread → Option (Bytes × Nat)
  out : Sys → List (Bytes × Nat)
  issued : Sys → List (Bytes × Nat)
  resets : Sys → List Bytes

def Book.heldAll (B : Book) (ts : List Thread) : List (Bytes × Nat) := ts.filterMap B.held

/-- Counters in circulation. -/
def Book.circ (B : Book) (s : Sys) (x : Bytes × Nat) : Nat := (B.out s).count x + (B.heldAll s.threads).count x

/-- The local effect of one thread step on the bookkeeping of counters. -/
inductive LS (B : Book) (s : Sys) (t : Thread) (s' : Sys) (ts : List Thread) : Prop where
  | quiet (he : B.out s' = B.out s) (hi : B.issued s' = B.issued s) (hr : B.resets s' = B.resets s)
      (ht : B.held t = none) (hts : B.heldAll ts = [])
  | reset (e : Bytes) (he : B.out s' = B.out s) (hi : B.issued s' = forget (B.issued s) e) (hr : B.resets s' = e :: B.resets s)
      (ht : B.held t = none) (hts : ∀ x ∈ B.heldAll ts, x.1 = e)
  | issue (e : Bytes) (f : Nat) (he : B.out s' = B.out s) (hi : B.issued s' = B.issued s ++ [(e, f)]) (hr : B.resets s' = B.resets s)
      (ht : B.held t = none) (hts : B.heldAll ts = [(e, f)] ∨ B.heldAll ts = []) (hfresh : (e, f) ∉ B.issued s)
  | keep (x : Bytes × Nat) (he : B.out s' = B.out s) (hi : B.issued s' = B.issued s) (hr : B.resets s' = B.resets s)
      (ht : B.held t = some x) (hts : B.heldAll ts = [x])
  | emit (x : Bytes × Nat) (he : B.out s' = B.out s ++ [x]) (hi : B.issued s' = B.issued s) (hr : B.resets s' = B.resets s)
      (ht : B.held t = some x) (hts : B.heldAll ts = [])
  | drop (he : B.out s' = B.out s) (hi : B.issued s' = B.issued s) (hr : B.resets s' = B.resets s)
      (hts : B.heldAll ts = [])

/-- The invariant: for a device whose counter epoch is still running, whatever is in circulation
    was issued, and at most once. -/
def K (B : Book) (s : Sys) : Prop :=
  ∀ x : Bytes × Nat, x.1 ∉ B.resets s → B.circ s x ≤ 1 ∧ (0 < B.circ s x → x ∈ B.issued s)

theorem circ_after (B : Book) (sys s' r : Sys) (i : Nat) (t t0 : Thread) (more : List Thread) (x : Bytes × Nat)
    (hi : sys.threads[i]? = some t) (hth : r.threads = replaceAt sys.threads i t0 ++ more) (ho : B.out r = B.out s') :
    B.circ r x + (B.held t).toList.count x
      = (B.out s').count x + (B.heldAll sys.threads).count x + (B.heldAll (t0 :: more)).count x := by
  have h1 := count_step B.held t0 more x hi
  have h2 : (B.heldAll (t0 :: more)).count x = (B.held t0).toList.count x + (B.heldAll more).count x := by
    simp only [Book.heldAll, List.filterMap_cons]
    cases B.held t0 <;> simp [List.count_cons]
    omega
  have h3 : B.circ r x = (B.out s').count x + ((sys.threads.set i t0 ++ more).filterMap B.held).count x := by
    simp only [Book.circ, Book.heldAll, hth, ho, replaceAt]
  rw [h3, h2]
  simp only [Book.heldAll] at h1 ⊢
  omega

/-- The invariant is preserved by any thread step with a local effect of the six kinds. -/
theorem k_after (B : Book) (sys s' r : Sys) (i : Nat) (t t0 : Thread) (more : List Thread)
    (hi : sys.threads[i]? = some t) (hth : r.threads = replaceAt sys.threads i t0 ++ more)
    (ho : B.out r = B.out s') (his : B.issued r = B.issued s') (hrs : B.resets r = B.resets s')
    (hls : LS B sys t s' (t0 :: more)) (hk : K B sys) : K B r := by
  intro x hx
  have hcount := circ_after B sys s' r i t t0 more x hi hth ho
  rw [hrs] at hx
  rw [his]
  cases hls with
  | quiet he hi' hr ht hts =>
    rw [hr] at hx
    obtain ⟨h1, h2⟩ := hk x hx
    simp only [Book.circ] at h1 h2
    rw [he, ht, hts] at hcount
    simp at hcount
    rw [hi']
    exact ⟨by omega, fun h => h2 (by omega)⟩
  | drop he hi' hr hts =>
    rw [hr] at hx
    obtain ⟨h1, h2⟩ := hk x hx
    simp only [Book.circ] at h1 h2
    rw [he, hts] at hcount
    simp at hcount
    rw [hi']
    exact ⟨by omega, fun h => h2 (by omega)⟩
  | keep y he hi' hr ht hts =>
    rw [hr] at hx
    obtain ⟨h1, h2⟩ := hk x hx
    simp only [Book.circ] at h1 h2
    rw [he, ht, hts] at hcount
    simp at hcount
    rw [hi']
    exact ⟨by omega, fun h => h2 (by omega)⟩
  | emit y he hi' hr ht hts =>
    rw [hr] at hx
    obtain ⟨h1, h2⟩ := hk x hx
    simp only [Book.circ] at h1 h2
    rw [he, ht, hts] at hcount
    simp [List.count_append] at hcount
    rw [hi']
    exact ⟨by omega, fun h => h2 (by omega)⟩
  | reset e he hi' hr ht hts =>
    rw [hr] at hx
    have hne : x.1 ≠ e := fun h => hx (by rw [h]; exact List.mem_cons_self)
    have hx' : x.1 ∉ B.resets sys := fun h => hx (List.mem_cons_of_mem _ h)
    obtain ⟨h1, h2⟩ := hk x hx'
    simp only [Book.circ] at h1 h2
    have hz : (B.heldAll (t0 :: more)).count x = 0 := by
      apply List.count_eq_zero.mpr
      intro hm
      exact hne (hts x hm)
    rw [he, ht, hz] at hcount
    simp at hcount
    rw [hi']
    exact ⟨by omega, fun h => mem_forget.mpr ⟨h2 (by omega), hne⟩⟩
  | issue e f he hi' hr ht hts hfresh =>
    rw [hr] at hx
    obtain ⟨h1, h2⟩ := hk x hx
    simp only [Book.circ] at h1 h2
    rw [hi']
    rcases hts with hts | hts
    · rw [he, ht, hts] at hcount
      by_cases hxe : x = (e, f)
      · subst hxe
        have h0 : (B.out sys).count (e, f) + (B.heldAll sys.threads).count (e, f) = 0 := by
          rcases Nat.eq_zero_or_pos ((B.out sys).count (e, f) + (B.heldAll sys.threads).count (e, f)) with h | h
          · exact h
          · exact absurd (h2 h) hfresh
        simp at hcount
        exact ⟨by omega, fun _ => List.mem_append_right _ (List.mem_singleton.mpr rfl)⟩
      · have : List.count x [(e, f)] = 0 := by
          apply List.count_eq_zero.mpr; simp; exact hxe
        simp [this] at hcount
        exact ⟨by omega, fun h => List.mem_append_left _ (h2 (by omega))⟩
    · rw [he, ht, hts] at hcount
      simp at hcount
      exact ⟨by omega, fun h => List.mem_append_left _ (h2 (by omega))⟩

/-- Dropping threads (crash, end of a settled run) or changing anything but the bookkeeping keeps `K`. -/
theorem k_mono (B : Book) {s s' : Sys} (hk : K B s) (he : B.out s' = B.out s) (hi : B.issued s' = B.issued s)
    (hr : B.resets s' = B.resets s) (hh : ∀ x, (B.heldAll s'.threads).count x ≤ (B.heldAll s.threads).count x) : K B s' := by
  intro x hx
  rw [hr] at hx
  obtain ⟨h1, h2⟩ := hk x hx
  simp only [Book.circ] at h1 h2 ⊢
  have := hh x
  rw [he, hi]
  exact ⟨by omega, fun h => h2 (by omega)⟩

theorem ls_nil_done {B : Book} (hd : B.held .done = none) {s s' : Sys} {t : Thread} (h : LS B s t s' []) : LS B s t s' [.done] := by
  have hd' : B.heldAll [Thread.done] = [] := by simp [Book.heldAll, hd]
  cases h with
  | quiet he hi hr ht hts => exact .quiet he hi hr ht hd'
  | reset e he hi hr ht hts => exact .reset e he hi hr ht (by intro x hx; rw [hd'] at hx; cases hx)
  | issue e f he hi hr ht hts hw => exact .issue e f he hi hr ht (Or.inr hd') hw
  | keep x he hi hr ht hts => exact absurd hts (by simp [Book.heldAll])
  | emit x he hi hr ht hts => exact .emit x he hi hr ht hd'
  | drop he hi hr hts => exact .drop he hi hr hd'

/-! ### the two books -/

/-- The downlink counter an encoder thread carries once it has fetched it. -/
def heldDn : Thread → Option (Bytes × Nat)
  | .encoder pc p c _ =>
    if (p.mhdr.mtype = mtUnconfirmedDataDown ∨ p.mhdr.mtype = mtConfirmedDataDown) ∧ 1 ≤ pc then some (c.device.eui, p.mac.fhdr.fcnt) else none
  | _ => none

/-- The uplink counter the handler of a strict-counter device carries between the counter step
    and the inbox insert. -/
def heldUp : Thread → Option (Bytes × Nat)
  | .uplink s => if s.pc = 2 ∧ s.cur.relaxed = false then some (s.cur.eui, s.p.mac.fhdr.fcnt) else none
  | _ => none

def dnBook : Book := ⟨heldDn, fun s => s.emittedDn, fun s => s.issuedDn, fun s => s.resetsDn⟩
def upBook : Book := ⟨heldUp, fun s => s.recordedUp, fun s => s.acceptedUp, fun s => s.resetsUp⟩

/-! ### downlink book: local effects of the three step functions -/

theorem dn_stepUplink (E : Spec.Rfc4493.BlockFn) (sys : Sys) (s : UpSt) (fault : Bool) :
    LS dnBook sys (.uplink s) (stepUplink E sys s fault).1 (stepUplink E sys s fault).2 := by
  unfold stepUplink
  simp only []
  split
  all_goals (repeat' split)
  all_goals exact LS.quiet rfl rfl rfl rfl (by simp [Book.heldAll, dnBook, heldDn])

theorem dn_stepJoin (E : Spec.Rfc4493.BlockFn) (cfg : Config) (sys : Sys) (s : JoinSt) (fault : Bool) :
    LS dnBook sys (.join s) (stepJoin E cfg sys s fault).1 (stepJoin E cfg sys s fault).2 := by
  unfold stepJoin
  simp only []
  split
  all_goals (repeat' split)
  all_goals first
    | exact LS.quiet rfl rfl rfl rfl (by simp [Book.heldAll, dnBook, heldDn])
    | exact LS.reset _ rfl rfl rfl rfl (by simp [Book.heldAll, dnBook, heldDn])

theorem held_enc (pc : Nat) (p : PHY) (c : Ctx) (b : Bytes) (hd : p.mhdr.mtype = mtUnconfirmedDataDown ∨ p.mhdr.mtype = mtConfirmedDataDown)
    (hpc : 1 ≤ pc) : dnBook.held (.encoder pc p c b) = some (c.device.eui, p.mac.fhdr.fcnt) := by
  simp [dnBook, heldDn, hd, hpc]

theorem held_enc0 (p : PHY) (c : Ctx) (b : Bytes) : dnBook.held (.encoder 0 p c b) = none := by
  simp [dnBook, heldDn]

theorem held_enc_other (pc : Nat) (p : PHY) (c : Ctx) (b : Bytes)
    (hd : ¬ (p.mhdr.mtype = mtUnconfirmedDataDown ∨ p.mhdr.mtype = mtConfirmedDataDown)) : dnBook.held (.encoder pc p c b) = none := by
  simp [dnBook, heldDn, hd]

theorem ja_not_data {p : PHY} (h : p.mhdr.mtype = mtJoinAccept) :
    ¬ (p.mhdr.mtype = mtUnconfirmedDataDown ∨ p.mhdr.mtype = mtConfirmedDataDown) := by
  rw [h]; decide

theorem dn_stepEncoder (E D : Spec.Rfc4493.BlockFn) (sys : Sys) (pc : Nat) (p : PHY) (c : Ctx) (b : Bytes) (fault : Bool)
    (hc : CInv sys) :
    LS dnBook sys (.encoder pc p c b) (stepEncoder E D sys pc p c b fault).1 (stepEncoder E D sys pc p c b fault).2 := by
  unfold stepEncoder
  simp only []
  split
  · -- join-accept
    rename_i hja
    have hnd := ja_not_data hja
    split
    · split
      · exact LS.quiet rfl rfl rfl (held_enc_other _ p c b hnd) rfl
      · split
        · exact LS.quiet rfl rfl rfl (held_enc_other _ p c b hnd) rfl
        · split
          · refine LS.reset _ rfl rfl rfl (held_enc_other _ p c b hnd) ?_
            intro x hx
            simp [Book.heldAll, dnBook, heldDn, hja, mtJoinAccept, mtUnconfirmedDataDown, mtConfirmedDataDown] at hx
          · exact LS.reset _ rfl rfl rfl (held_enc_other _ p c b hnd) (by intro x hx; cases hx)
    · exact LS.quiet rfl rfl rfl (held_enc_other _ p c b hnd) rfl
  · split
    · -- data downlink
      rename_i hnja hd
      split
      · -- pc = 0
        split
        · exact LS.quiet rfl rfl rfl (held_enc0 p c b) rfl
        · split
          · exact LS.quiet rfl rfl rfl (held_enc0 p c b) rfl
          · rename_i db f hn
            obtain ⟨_, _, d, hdm, hde, hdf⟩ := next_views hn
            have hfresh : (c.device.eui, f) ∉ sys.issuedDn := by
              intro hm
              have := hc.dnB c.device.eui f hm d hdm hde
              omega
            split
            · -- encoded
              by_cases hwrap : f + 1 < 65536
              · refine LS.issue c.device.eui f rfl ?_ ?_ (held_enc0 p c b) (Or.inl ?_) hfresh
                · simp [dnBook, noteCounter, hwrap]
                · simp [dnBook, hwrap]
                · simp [Book.heldAll, dnBook, heldDn, hd]
              · refine LS.reset c.device.eui rfl ?_ ?_ (held_enc0 p c b) ?_
                · simp [dnBook, noteCounter, hwrap]
                · simp [dnBook, hwrap]
                · intro x hx
                  simp [Book.heldAll, dnBook, heldDn, hd] at hx
                  rw [hx]
            · by_cases hwrap : f + 1 < 65536
              · refine LS.issue c.device.eui f rfl ?_ ?_ (held_enc0 p c b) (Or.inr rfl) hfresh
                · simp [dnBook, noteCounter, hwrap]
                · simp [dnBook, hwrap]
              · refine LS.reset c.device.eui rfl ?_ ?_ (held_enc0 p c b) (by intro x hx; cases hx)
                · simp [dnBook, noteCounter, hwrap]
                · simp [dnBook, hwrap]
      · -- pc = 1
        refine LS.keep (c.device.eui, p.mac.fhdr.fcnt) ?_ ?_ ?_ (held_enc 1 p c b hd (Nat.le_refl _)) ?_
        · split <;> rfl
        · split <;> rfl
        · split <;> rfl
        · simp [Book.heldAll, dnBook, heldDn, hd]
      · -- pc ≥ 2
        rename_i h0 h1
        have hpc : 1 ≤ pc := by
          rcases Nat.lt_or_ge pc 1 with h | h
          · exact absurd (by omega) h0
          · exact h
        exact LS.emit (c.device.eui, p.mac.fhdr.fcnt) rfl rfl rfl (held_enc pc p c b hd hpc) rfl
    · rename_i hnja hnd
      exact LS.quiet rfl rfl rfl (held_enc_other _ p c b hnd) rfl

theorem up_fresh {sys : Sys} (hc : CInv sys) {e : Bytes} {f : Nat} {kw : Bool} {db : DB}
    (h : sys.db.advanceFCntUp e f kw = some db) : (e, f) ∉ sys.acceptedUp := by
  intro hm
  obtain ⟨_, _, t, ht, hte, htf⟩ := advance_views h
  have := hc.upB e f hm t ht hte
  omega

/-- The thread after a successful counter step holds the counter exactly when the device copy is strict. -/
theorem up_issue_shape (s : UpSt) (d : Device) (hr : d.relaxed = s.cur.relaxed) (he : d.eui = s.cur.eui) :
    upBook.heldAll [Thread.uplink { s with pc := 2, cur := d }] = [(s.cur.eui, s.p.mac.fhdr.fcnt)] ∨
    upBook.heldAll [Thread.uplink { s with pc := 2, cur := d }] = [] := by
  cases hrel : s.cur.relaxed
  · left; simp [Book.heldAll, upBook, heldUp, hr, he, hrel]
  · right; simp [Book.heldAll, upBook, heldUp, hr, hrel]

theorem up_stepUplink (E : Spec.Rfc4493.BlockFn) (sys : Sys) (s : UpSt) (fault : Bool) (hc : CInv sys) :
    LS upBook sys (.uplink s) (stepUplink E sys s fault).1 (stepUplink E sys s fault).2 := by
  unfold stepUplink
  simp only []
  split
  all_goals (repeat' split)
  all_goals first
    | ((refine LS.quiet rfl rfl rfl ?_ ?_ <;> simp_all [Book.heldAll, upBook, heldUp]); done)
    | ((refine LS.drop rfl rfl rfl ?_ <;> simp_all [Book.heldAll, upBook, heldUp]); done)
    | skip
  · -- several devices match: key warning set on the copy
    rename_i hadv hwrap
    have hpc : s.pc = 1 := by assumption
    refine LS.issue s.cur.eui s.p.mac.fhdr.fcnt rfl ?_ ?_ ?_ (up_issue_shape s _ rfl rfl) (up_fresh hc hadv)
    · simp [upBook, noteCounter, hwrap]
    · simp [upBook, hwrap]
    · simp [upBook, heldUp, hpc]
  · rename_i hadv hwrap
    have hpc : s.pc = 1 := by assumption
    refine LS.reset s.cur.eui rfl ?_ ?_ ?_ ?_
    · simp [upBook, noteCounter, hwrap]
    · simp [upBook, hwrap]
    · simp [upBook, heldUp, hpc]
    · intro x hx
      rcases up_issue_shape s { s.cur with keyWarning := true, fcntUp := (s.p.mac.fhdr.fcnt + 1) % 65536 } rfl rfl with h | h
      · rw [h] at hx; simp at hx; rw [hx]
      · rw [h] at hx; cases hx
  · rename_i hadv hwrap
    have hpc : s.pc = 1 := by assumption
    refine LS.issue s.cur.eui s.p.mac.fhdr.fcnt rfl ?_ ?_ ?_ (up_issue_shape s _ rfl rfl) (up_fresh hc hadv)
    · simp [upBook, noteCounter, hwrap]
    · simp [upBook, hwrap]
    · simp [upBook, heldUp, hpc]
  · rename_i hadv hwrap
    have hpc : s.pc = 1 := by assumption
    refine LS.reset s.cur.eui rfl ?_ ?_ ?_ ?_
    · simp [upBook, noteCounter, hwrap]
    · simp [upBook, hwrap]
    · simp [upBook, heldUp, hpc]
    · intro x hx
      rcases up_issue_shape s { s.cur with fcntUp := (s.p.mac.fhdr.fcnt + 1) % 65536 } rfl rfl with h | h
      · rw [h] at hx; simp at hx; rw [hx]
      · rw [h] at hx; cases hx
  · -- the inbox insert of a strict device's frame
    rename_i hrel
    have hpc : s.pc = 2 := by assumption
    have hstrict : s.cur.relaxed = false := by simpa using hrel
    refine LS.emit (s.cur.eui, s.p.mac.fhdr.fcnt) ?_ rfl rfl ?_ ?_
    · simp [upBook, hstrict]
    · simp [upBook, heldUp, hpc, hstrict]
    · simp [Book.heldAll, upBook, heldUp]

theorem up_stepJoin (E : Spec.Rfc4493.BlockFn) (cfg : Config) (sys : Sys) (s : JoinSt) (fault : Bool) :
    LS upBook sys (.join s) (stepJoin E cfg sys s fault).1 (stepJoin E cfg sys s fault).2 := by
  unfold stepJoin
  simp only []
  split
  all_goals (repeat' split)
  all_goals first
    | exact LS.quiet rfl rfl rfl rfl (by simp [Book.heldAll, upBook, heldUp])
    | exact LS.reset _ rfl rfl rfl rfl (by simp [Book.heldAll, upBook, heldUp])

theorem up_stepEncoder (E D : Spec.Rfc4493.BlockFn) (sys : Sys) (pc : Nat) (p : PHY) (c : Ctx) (b : Bytes) (fault : Bool) :
    LS upBook sys (.encoder pc p c b) (stepEncoder E D sys pc p c b fault).1 (stepEncoder E D sys pc p c b fault).2 := by
  unfold stepEncoder
  simp only []
  repeat' split
  all_goals first
    | exact LS.quiet rfl rfl rfl rfl (by simp [Book.heldAll, upBook, heldUp])
    | exact LS.reset _ rfl rfl rfl rfl (by simp [Book.heldAll, upBook, heldUp])

/-! ### the join book: a DevNonce leads to at most one key change -/

def heldJn (cfg : Config) : Thread → Option (Bytes × Nat)
  | .join s => if s.pc = 4 ∧ cfg.nonceCheckOff = false then some (s.dev.eui, s.p.joinReq.devNonce) else none
  | _ => none

/-- held: the join handler between its nonce insert and the key change; out: key changes made;
    issued: the nonce table itself (primary key (device, nonce)); no epochs. -/
def jnBook (cfg : Config) : Book := ⟨heldJn cfg, fun s => s.keyedJoins, fun s => s.db.nonces, fun _ => []⟩

theorem nonces_advance {db db' : DB} {e : Bytes} {f : Nat} {kw : Bool} (h : db.advanceFCntUp e f kw = some db') : db'.nonces = db.nonces := by
  unfold DB.advanceFCntUp at h; split at h <;> cases h; rfl
theorem nonces_next {db db' : DB} {e : Bytes} {f : Nat} (h : db.nextFCntDn e = some (db', f)) : db'.nonces = db.nonces := by
  unfold DB.nextFCntDn at h; split at h
  · cases h
  · simp only [Option.some.injEq, Prod.mk.injEq] at h; obtain ⟨rfl, _⟩ := h; rfl
theorem nonces_updateDevice {db db' : DB} {d : Device} (h : db.updateDevice d = some db') : db'.nonces = db.nonces := by
  unfold DB.updateDevice at h; split at h <;> cases h; rfl
theorem nonces_updateState {db db' : DB} {d : Device} (h : db.updateState d = some db') : db'.nonces = db.nonces := by
  unfold DB.updateState at h; split at h <;> cases h; rfl
theorem nonces_addInbox {db db' : DB} {r : InRow} (h : db.addInbox r = some db') : db'.nonces = db.nonces := by
  unfold DB.addInbox at h; split at h <;> cases h; rfl
theorem nonces_addOutbox (db : DB) (m : OutRow) : ((db.addOutbox m).getD db).nonces = db.nonces := by
  unfold DB.addOutbox; split <;> rfl

theorem jn_stepUplink (cfg : Config) (E : Spec.Rfc4493.BlockFn) (sys : Sys) (s : UpSt) (fault : Bool) :
    LS (jnBook cfg) sys (.uplink s) (stepUplink E sys s fault).1 (stepUplink E sys s fault).2 := by
  unfold stepUplink
  simp only []
  split
  all_goals (repeat' split)
  all_goals first
    | exact LS.quiet rfl rfl rfl rfl (by simp [Book.heldAll, jnBook, heldJn])
    | (rename_i h; exact LS.quiet rfl (nonces_advance h) rfl rfl (by simp [Book.heldAll, jnBook, heldJn]))
    | (rename_i h _; exact LS.quiet rfl (nonces_advance h) rfl rfl (by simp [Book.heldAll, jnBook, heldJn]))
    | (rename_i h; exact LS.quiet rfl (nonces_addInbox h) rfl rfl (by simp [Book.heldAll, jnBook, heldJn]))
    | (rename_i h _; exact LS.quiet rfl (nonces_addInbox h) rfl rfl (by simp [Book.heldAll, jnBook, heldJn]))

theorem jn_stepEncoder (cfg : Config) (E D : Spec.Rfc4493.BlockFn) (sys : Sys) (pc : Nat) (p : PHY) (c : Ctx) (b : Bytes) (fault : Bool) :
    LS (jnBook cfg) sys (.encoder pc p c b) (stepEncoder E D sys pc p c b fault).1 (stepEncoder E D sys pc p c b fault).2 := by
  unfold stepEncoder
  simp only []
  repeat' split
  all_goals first
    | exact LS.quiet rfl rfl rfl rfl (by simp [Book.heldAll, jnBook, heldJn])
    | (rename_i h _ _ _; exact LS.quiet rfl (nonces_updateState h) rfl rfl (by simp [Book.heldAll, jnBook, heldJn]))
    | (rename_i h _ _; exact LS.quiet rfl (nonces_updateState h) rfl rfl (by simp [Book.heldAll, jnBook, heldJn]))
    | (rename_i h _ _ _ _; exact LS.quiet rfl (nonces_next h) rfl rfl (by simp [Book.heldAll, jnBook, heldJn]))
    | (rename_i h _ _ _; exact LS.quiet rfl (nonces_next h) rfl rfl (by simp [Book.heldAll, jnBook, heldJn]))
    | (rename_i h _ _; exact LS.quiet rfl (nonces_next h) rfl rfl (by simp [Book.heldAll, jnBook, heldJn]))

theorem jn_stepJoin (cfg : Config) (E : Spec.Rfc4493.BlockFn) (sys : Sys) (s : JoinSt) (fault : Bool) :
    LS (jnBook cfg) sys (.join s) (stepJoin E cfg sys s fault).1 (stepJoin E cfg sys s fault).2 := by
  unfold stepJoin
  simp only []
  split
  all_goals (repeat' split)
  all_goals first
    | ((refine LS.quiet rfl rfl rfl ?_ ?_ <;> simp_all [Book.heldAll, jnBook, heldJn]); done)
    | ((refine LS.drop rfl rfl rfl ?_ <;> simp_all [Book.heldAll, jnBook, heldJn]); done)
    | skip
  · -- the nonce insert succeeded
    rename_i hoff _ _ db hadd
    have hpc : s.pc = 3 := by assumption
    have hon : cfg.nonceCheckOff = false := by simpa using hoff
    unfold DB.addNonce at hadd
    split at hadd
    · cases hadd
    · rename_i hfresh
      cases hadd
      refine LS.issue s.dev.eui s.p.joinReq.devNonce rfl rfl rfl ?_ (Or.inl ?_) ?_
      · simp [jnBook, heldJn, hpc]
      · simp [Book.heldAll, jnBook, heldJn, hon]
      · have : (s.dev.eui, s.p.joinReq.devNonce) ∉ sys.db.nonces := by simpa using hfresh
        exact this
  · rename_i hupd hoff _
    have hpc : s.pc = 4 := by assumption
    refine LS.quiet ?_ (nonces_updateDevice hupd) rfl ?_ ?_
    · simp [jnBook, hoff]
    · simp [jnBook, heldJn, hoff]
    · simp [Book.heldAll, jnBook, heldJn]
  · rename_i hupd hoff _
    have hpc : s.pc = 4 := by assumption
    refine LS.quiet ?_ (nonces_updateDevice hupd) rfl ?_ ?_
    · simp [jnBook, hoff]
    · simp [jnBook, heldJn, hoff]
    · simp [Book.heldAll, jnBook, heldJn]
  · rename_i hupd hoff _
    have hpc : s.pc = 4 := by assumption
    have hon : cfg.nonceCheckOff = false := by simpa using hoff
    refine LS.emit (s.dev.eui, s.p.joinReq.devNonce) ?_ (nonces_updateDevice hupd) rfl ?_ ?_
    · simp [jnBook, hon]
    · simp [jnBook, heldJn, hpc, hon]
    · simp [Book.heldAll, jnBook, heldJn]
  · rename_i hupd hoff _
    have hpc : s.pc = 4 := by assumption
    have hon : cfg.nonceCheckOff = false := by simpa using hoff
    refine LS.emit (s.dev.eui, s.p.joinReq.devNonce) ?_ (nonces_updateDevice hupd) rfl ?_ ?_
    · simp [jnBook, hon]
    · simp [jnBook, heldJn, hpc, hon]
    · simp [Book.heldAll, jnBook, heldJn]

/-! ### every step preserves the invariants -/

theorem threads_stepUplink (E : Spec.Rfc4493.BlockFn) (sys : Sys) (s : UpSt) (fault : Bool) :
    (stepUplink E sys s fault).1.threads = sys.threads := by
  unfold stepUplink
  simp only []
  split
  all_goals (repeat' split)
  all_goals rfl

theorem threads_stepJoin (E : Spec.Rfc4493.BlockFn) (cfg : Config) (sys : Sys) (s : JoinSt) (fault : Bool) :
    (stepJoin E cfg sys s fault).1.threads = sys.threads := by
  unfold stepJoin
  simp only []
  split
  all_goals (repeat' split)
  all_goals rfl

theorem threads_stepEncoder (E D : Spec.Rfc4493.BlockFn) (sys : Sys) (pc : Nat) (p : PHY) (c : Ctx) (b : Bytes) (fault : Bool) :
    (stepEncoder E D sys pc p c b fault).1.threads = sys.threads := by
  unfold stepEncoder
  simp only []
  repeat' split
  all_goals rfl

/-- A book whose history variables do not depend on the thread pool and whose `held` is `none` on
    the thread kinds that never carry a counter. -/
structure Book.Ok (B : Book) : Prop where
  out_thr : ∀ (s : Sys) (ts : List Thread), B.out { s with threads := ts } = B.out s
  iss_thr : ∀ (s : Sys) (ts : List Thread), B.issued { s with threads := ts } = B.issued s
  res_thr : ∀ (s : Sys) (ts : List Thread), B.resets { s with threads := ts } = B.resets s
  out_fob : ∀ (s : Sys) (f : List (Bytes × FobEntry)) (sc : List Bytes), B.out { s with fob := f, scheduled := sc } = B.out s
  iss_fob : ∀ (s : Sys) (f : List (Bytes × FobEntry)) (sc : List Bytes), B.issued { s with fob := f, scheduled := sc } = B.issued s
  res_fob : ∀ (s : Sys) (f : List (Bytes × FobEntry)) (sc : List Bytes), B.resets { s with fob := f, scheduled := sc } = B.resets s
  out_ack : ∀ (s : Sys) (f : List (Bytes × FobEntry)) (a : List Bytes), B.out { s with fob := f, ackFrames := a } = B.out s
  iss_ack : ∀ (s : Sys) (f : List (Bytes × FobEntry)) (a : List Bytes), B.issued { s with fob := f, ackFrames := a } = B.issued s
  res_ack : ∀ (s : Sys) (f : List (Bytes × FobEntry)) (a : List Bytes), B.resets { s with fob := f, ackFrames := a } = B.resets s
  out_db : ∀ (s : Sys) (m : OutRow), B.out { s with db := (s.db.addOutbox m).getD s.db } = B.out s
  iss_db : ∀ (s : Sys) (m : OutRow), B.issued { s with db := (s.db.addOutbox m).getD s.db } = B.issued s
  res_db : ∀ (s : Sys) (m : OutRow), B.resets { s with db := (s.db.addOutbox m).getD s.db } = B.resets s
  done : B.held .done = none
  notify : ∀ p c, B.held (.notify p c) = none
  sendAt : ∀ c, B.held (.sendAt c) = none
  sendDone : ∀ e, B.held (.sendDone e) = none
  enc0 : ∀ p c b, B.held (.encoder 0 p c b) = none
  up0 : ∀ s, s.pc = 0 → B.held (.uplink s) = none
  join0 : ∀ s, s.pc = 0 → B.held (.join s) = none

theorem dnBook_ok : dnBook.Ok :=
  { out_thr := fun _ _ => rfl, iss_thr := fun _ _ => rfl, res_thr := fun _ _ => rfl,
    out_fob := fun _ _ _ => rfl, iss_fob := fun _ _ _ => rfl, res_fob := fun _ _ _ => rfl,
    out_ack := fun _ _ _ => rfl, iss_ack := fun _ _ _ => rfl, res_ack := fun _ _ _ => rfl,
    out_db := fun _ _ => rfl, iss_db := fun _ _ => rfl, res_db := fun _ _ => rfl,
    done := rfl, notify := fun _ _ => rfl, sendAt := fun _ => rfl, sendDone := fun _ => rfl,
    enc0 := fun p c b => held_enc0 p c b, up0 := fun _ _ => rfl, join0 := fun _ _ => rfl }

theorem upBook_ok : upBook.Ok :=
  { out_thr := fun _ _ => rfl, iss_thr := fun _ _ => rfl, res_thr := fun _ _ => rfl,
    out_fob := fun _ _ _ => rfl, iss_fob := fun _ _ _ => rfl, res_fob := fun _ _ _ => rfl,
    out_ack := fun _ _ _ => rfl, iss_ack := fun _ _ _ => rfl, res_ack := fun _ _ _ => rfl,
    out_db := fun _ _ => rfl, iss_db := fun _ _ => rfl, res_db := fun _ _ => rfl,
    done := rfl, notify := fun _ _ => rfl, sendAt := fun _ => rfl, sendDone := fun _ => rfl,
    enc0 := fun _ _ _ => rfl, up0 := fun s h => by simp [upBook, heldUp, h], join0 := fun _ _ => rfl }

theorem jnBook_ok (cfg : Config) : (jnBook cfg).Ok :=
  { out_thr := fun _ _ => rfl, iss_thr := fun _ _ => rfl, res_thr := fun _ _ => rfl,
    out_fob := fun _ _ _ => rfl, iss_fob := fun _ _ _ => rfl, res_fob := fun _ _ _ => rfl,
    out_ack := fun _ _ _ => rfl, iss_ack := fun _ _ _ => rfl, res_ack := fun _ _ _ => rfl,
    out_db := fun _ _ => rfl, iss_db := fun s m => nonces_addOutbox s.db m, res_db := fun _ _ => rfl,
    done := rfl, notify := fun _ _ => rfl, sendAt := fun _ => rfl, sendDone := fun _ => rfl,
    enc0 := fun _ _ _ => rfl, up0 := fun _ _ => rfl, join0 := fun s h => by simp [jnBook, heldJn, h] }

/-- One step of any thread preserves the circulation invariant of a book, given the local effects
    of the three step functions for that book. -/
theorem k_step (B : Book) (ok : B.Ok) (E D : Spec.Rfc4493.BlockFn) (cfg : Config) (sys : Sys) (i : Nat) (fault : Bool)
    (hU : ∀ s, LS B sys (.uplink s) (stepUplink E sys s fault).1 (stepUplink E sys s fault).2)
    (hJ : ∀ s, LS B sys (.join s) (stepJoin E cfg sys s fault).1 (stepJoin E cfg sys s fault).2)
    (hE : ∀ pc p c b, LS B sys (.encoder pc p c b) (stepEncoder E D sys pc p c b fault).1 (stepEncoder E D sys pc p c b fault).2)
    (hk : K B sys) : K B (step E D cfg sys i fault) := by
  unfold step
  split
  · exact hk
  · rename_i t hi
    have key : ∀ (r : Sys × List Thread), LS B sys t r.1 r.2 → r.1.threads = sys.threads →
        K B (match r.2 with
          | [] => { r.1 with threads := replaceAt r.1.threads i .done }
          | t0 :: more => { r.1 with threads := replaceAt r.1.threads i t0 ++ more }) := by
      intro r hls hth
      split
      · rename_i hnil
        rw [hnil] at hls
        exact k_after B sys r.1 _ i t .done [] hi (by simp [hth]) (ok.out_thr _ _) (ok.iss_thr _ _) (ok.res_thr _ _)
          (ls_nil_done ok.done hls) hk
      · rename_i t0 more hcons
        rw [hcons] at hls
        exact k_after B sys r.1 _ i t t0 more hi (by simp [hth]) (ok.out_thr _ _) (ok.iss_thr _ _) (ok.res_thr _ _) hls hk
    have hq : ∀ (s' : Sys) (ts : List Thread), B.out s' = B.out sys → B.issued s' = B.issued sys → B.resets s' = B.resets sys →
        B.held t = none → B.heldAll ts = [] → LS B sys t s' ts := fun _ _ a b c d e => LS.quiet a b c d e
    cases t with
    | uplink s => exact key _ (hU s) (threads_stepUplink E sys s fault)
    | join s => exact key _ (hJ s) (threads_stepJoin E cfg sys s fault)
    | notify p c =>
      refine key (stepNotify sys c) ?_ ?_
      · unfold stepNotify
        split
        · exact hq _ _ rfl rfl rfl (ok.notify p c) (by simp [Book.heldAll, ok.done])
        · exact hq _ _ (ok.out_fob sys sys.fob _) (ok.iss_fob sys sys.fob _) (ok.res_fob sys sys.fob _) (ok.notify p c)
            (by simp [Book.heldAll, ok.sendAt])
      · unfold stepNotify; split <;> rfl
    | sendAt c =>
      refine key (stepSendAt sys c) ?_ ?_
      · unfold stepSendAt
        split
        · exact hq _ _ (ok.out_ack sys _ _) (ok.iss_ack sys _ _) (ok.res_ack sys _ _) (ok.sendAt c)
            (by simp [Book.heldAll, ok.sendDone, ok.enc0])
        · exact hq _ _ (ok.out_fob sys _ sys.scheduled) (ok.iss_fob sys _ sys.scheduled) (ok.res_fob sys _ sys.scheduled) (ok.sendAt c)
            (by simp [Book.heldAll, ok.sendDone])
      · unfold stepSendAt; split <;> rfl
    | sendDone e =>
      exact key (stepSendDone sys e)
        (hq _ _ (ok.out_fob sys sys.fob _) (ok.iss_fob sys sys.fob _) (ok.res_fob sys sys.fob _) (ok.sendDone e) (by simp [stepSendDone, Book.heldAll, ok.done])) rfl
    | encoder pc p c b => exact key _ (hE pc p c b) (threads_stepEncoder E D sys pc p c b fault)
    | done => exact key (sys, [.done]) (hq _ _ rfl rfl rfl ok.done (by simp [Book.heldAll, ok.done])) rfl

/-- The counter invariants together with the three circulation invariants. -/
structure KInv (cfg : Config) (s : Sys) : Prop where
  c : CInv s
  dn : K dnBook s
  up : K upBook s
  jn : K (jnBook cfg) s

theorem kinv_init (cfg : Config) (db : DB) : KInv cfg (Sys.init db) :=
  ⟨CInv.init db, by intro x _; simp [Book.circ, Book.heldAll, dnBook, Sys.init],
   by intro x _; simp [Book.circ, Book.heldAll, upBook, Sys.init],
   by intro x _; simp [Book.circ, Book.heldAll, jnBook, Sys.init]⟩

theorem kinv_step (E D : Spec.Rfc4493.BlockFn) (cfg : Config) (sys : Sys) (i : Nat) (fault : Bool) (h : KInv cfg sys) :
    KInv cfg (step E D cfg sys i fault) :=
  ⟨cinv_step E D cfg sys i fault h.c,
   k_step dnBook dnBook_ok E D cfg sys i fault (dn_stepUplink E sys · fault) (dn_stepJoin E cfg sys · fault)
     (fun pc p c b => dn_stepEncoder E D sys pc p c b fault h.c) h.dn,
   k_step upBook upBook_ok E D cfg sys i fault (fun s => up_stepUplink E sys s fault h.c) (up_stepJoin E cfg sys · fault)
     (fun pc p c b => up_stepEncoder E D sys pc p c b fault) h.up,
   k_step (jnBook cfg) (jnBook_ok cfg) E D cfg sys i fault (jn_stepUplink cfg E sys · fault) (jn_stepJoin cfg E sys · fault)
     (fun pc p c b => jn_stepEncoder cfg E D sys pc p c b fault) h.jn⟩

theorem k_drop_threads (B : Book) (ok : B.Ok) {s : Sys} (hk : K B s) (f : List (Bytes × FobEntry)) (sc : List Bytes) :
    K B { s with fob := f, scheduled := sc, threads := [] } := by
  refine k_mono B hk ?_ ?_ ?_ (by intro x; simp [Book.heldAll])
  · exact (ok.out_thr { s with fob := f, scheduled := sc } []).trans (ok.out_fob s f sc)
  · exact (ok.iss_thr { s with fob := f, scheduled := sc } []).trans (ok.iss_fob s f sc)
  · exact (ok.res_thr { s with fob := f, scheduled := sc } []).trans (ok.res_fob s f sc)

theorem kinv_settle (E D : Spec.Rfc4493.BlockFn) (cfg : Config) (fuel : Nat) (sys : Sys) (h : KInv cfg sys) :
    KInv cfg (settle E D cfg fuel sys) := by
  induction fuel generalizing sys with
  | zero => exact h
  | succ n ih =>
    unfold settle
    split
    · exact ⟨⟨h.c.upB, h.c.dnB, h.c.upI, h.c.dnI⟩, k_drop_threads dnBook dnBook_ok h.dn sys.fob sys.scheduled,
             k_drop_threads upBook upBook_ok h.up sys.fob sys.scheduled,
             k_drop_threads (jnBook cfg) (jnBook_ok cfg) h.jn sys.fob sys.scheduled⟩
    · exact ih _ (kinv_step E D cfg sys _ false h)

theorem k_spawn (B : Book) (ok : B.Ok) {s : Sys} (hk : K B s) (t : Thread) (ht : B.held t = none) :
    K B { s with threads := s.threads ++ [t] } := by
  refine k_mono B hk (ok.out_thr s _) (ok.iss_thr s _) (ok.res_thr s _) ?_
  intro x
  simp [Book.heldAll, List.filterMap_append, ht]

theorem kinv_apply (E D : Spec.Rfc4493.BlockFn) (cfg : Config) (sys : Sys) (ev : Event) (h : KInv cfg sys) :
    KInv cfg (apply E D cfg sys ev) := by
  have hc := cinv_apply E D cfg sys ev h.c
  cases ev with
  | deliver raw gw an na =>
    simp only [apply]
    split
    · rename_i t ht
      have hshape : (∃ s, t = .join s ∧ s.pc = 0) ∨ (∃ s, t = .uplink s ∧ s.pc = 0) := by
        unfold spawn at ht
        split at ht
        · split at ht
          · cases ht; exact Or.inl ⟨_, rfl, rfl⟩
          · cases ht; exact Or.inr ⟨_, rfl, rfl⟩
        · cases ht
      have hnone : ∀ (B : Book), B.Ok → B.held t = none := by
        intro B ok
        rcases hshape with ⟨s, rfl, hs⟩ | ⟨s, rfl, hs⟩
        · exact ok.join0 s hs
        · exact ok.up0 s hs
      exact ⟨⟨h.c.upB, h.c.dnB, h.c.upI, h.c.dnI⟩, k_spawn dnBook dnBook_ok h.dn t (hnone _ dnBook_ok),
             k_spawn upBook upBook_ok h.up t (hnone _ upBook_ok),
             k_spawn (jnBook cfg) (jnBook_ok cfg) h.jn t (hnone _ (jnBook_ok cfg))⟩
    · exact h
  | submit m =>
    exact ⟨hc, k_mono dnBook h.dn (dnBook_ok.out_db _ _) (dnBook_ok.iss_db _ _) (dnBook_ok.res_db _ _) (fun _ => Nat.le_refl _),
           k_mono upBook h.up (upBook_ok.out_db _ _) (upBook_ok.iss_db _ _) (upBook_ok.res_db _ _) (fun _ => Nat.le_refl _),
           k_mono (jnBook cfg) h.jn ((jnBook_ok cfg).out_db _ _) ((jnBook_ok cfg).iss_db _ _) ((jnBook_ok cfg).res_db _ _) (fun _ => Nat.le_refl _)⟩
  | stepT i f => exact kinv_step E D cfg sys i f h
  | quiesce => exact kinv_settle E D cfg 200 sys h
  | crash => exact ⟨hc, k_drop_threads dnBook dnBook_ok h.dn [] [], k_drop_threads upBook upBook_ok h.up [] [],
                    k_drop_threads (jnBook cfg) (jnBook_ok cfg) h.jn [] []⟩

theorem kinv_run (E D : Spec.Rfc4493.BlockFn) (cfg : Config) (sys : Sys) (evs : List Event) (h : KInv cfg sys) :
    KInv cfg (run E D cfg sys evs) := by
  induction evs generalizing sys with
  | nil => exact h
  | cons ev rest ih => exact ih _ (kinv_apply E D cfg sys ev h)

end Proofs.Circ
end LospanVerif
