import LospanVerif.Proofs.Counters
/-
  Composition for C07: every downlink counter in circulation — carried by an encoder thread that
  has fetched it, or already emitted — was handed out by `NextFCntDn`, and no counter is in
  circulation twice. Holds for every event list (all interleavings, faults, crashes), per device,
  for as long as the device's counter epoch lasts (no join, no 16-bit wrap: `resetsDn`).
-/
namespace LospanVerif
namespace Proofs.Circ
open Model.Pipeline Model.Phy Proofs.Counters

section lists
variable {α β : Type} [BEq β] [LawfulBEq β]

theorem split_at {l : List α} {i : Nat} {t : α} (h : l[i]? = some t) :
    l = l.take i ++ t :: l.drop (i + 1) ∧ i < l.length := by
  have hi : i < l.length := by
    rcases Nat.lt_or_ge i l.length with h' | h'
    · exact h'
    · rw [List.getElem?_eq_none h'] at h; cases h
  refine ⟨?_, hi⟩
  have hget : l[i] = t := by
    rw [List.getElem?_eq_getElem hi] at h; exact Option.some.inj h
  conv => lhs; rw [← List.take_append_drop i l]
  rw [List.drop_eq_getElem_cons hi, hget]

theorem set_at {l : List α} {i : Nat} {t t0 : α} (h : l[i]? = some t) :
    l.set i t0 = l.take i ++ t0 :: l.drop (i + 1) := by
  obtain ⟨_, hi⟩ := split_at h
  rw [List.set_eq_take_append_cons_drop, if_pos hi]

/-- How the multiset of values held by the threads changes when thread `i` is replaced by `t0`
    and the threads `more` are appended. -/
theorem count_step (f : α → Option β) {l : List α} {i : Nat} {t : α} (t0 : α) (more : List α) (x : β)
    (h : l[i]? = some t) :
    ((l.set i t0 ++ more).filterMap f).count x + (f t).toList.count x
      = (l.filterMap f).count x + (f t0).toList.count x + (more.filterMap f).count x := by
  have h1 := set_at (t0 := t0) h
  obtain ⟨h2, _⟩ := split_at h
  rw [h1]
  conv => rhs; rw [h2]
  simp only [List.filterMap_append, List.filterMap_cons, List.count_append]
  cases hft : f t <;> cases hft0 : f t0 <;> simp [List.count_cons] <;> omega
end lists

/-- The downlink counter an encoder thread carries once it has fetched it. -/
def heldDn : Thread → Option (Bytes × Nat)
  | .encoder pc p c _ =>
    if (p.mhdr.mtype = mtUnconfirmedDataDown ∨ p.mhdr.mtype = mtConfirmedDataDown) ∧ 1 ≤ pc then some (c.device.eui, p.mac.fhdr.fcnt) else none
  | _ => none

def heldAll (ts : List Thread) : List (Bytes × Nat) := ts.filterMap heldDn

/-- Counters in circulation. -/
def circCount (s : Sys) (x : Bytes × Nat) : Nat := s.emittedDn.count x + (heldAll s.threads).count x

/-- The local effect of one thread step on the bookkeeping of downlink counters. -/
inductive LS (s : Sys) (t : Thread) (s' : Sys) (ts : List Thread) : Prop where
  | quiet (he : s'.emittedDn = s.emittedDn) (hi : s'.issuedDn = s.issuedDn) (hr : s'.resetsDn = s.resetsDn)
      (ht : heldDn t = none) (hts : heldAll ts = [])
  | reset (e : Bytes) (he : s'.emittedDn = s.emittedDn) (hi : s'.issuedDn = forget s.issuedDn e) (hr : s'.resetsDn = e :: s.resetsDn)
      (ht : heldDn t = none) (hts : ∀ x ∈ heldAll ts, x.1 = e)
  | issue (e : Bytes) (f : Nat) (he : s'.emittedDn = s.emittedDn) (hi : s'.issuedDn = s.issuedDn ++ [(e, f)]) (hr : s'.resetsDn = s.resetsDn)
      (ht : heldDn t = none) (hts : heldAll ts = [(e, f)] ∨ heldAll ts = []) (hw : ∃ d ∈ dnView s.db, d.1 = e ∧ d.2 = f)
  | keep (x : Bytes × Nat) (he : s'.emittedDn = s.emittedDn) (hi : s'.issuedDn = s.issuedDn) (hr : s'.resetsDn = s.resetsDn)
      (ht : heldDn t = some x) (hts : heldAll ts = [x])
  | emit (x : Bytes × Nat) (he : s'.emittedDn = s.emittedDn ++ [x]) (hi : s'.issuedDn = s.issuedDn) (hr : s'.resetsDn = s.resetsDn)
      (ht : heldDn t = some x) (hts : heldAll ts = [])
  | drop (he : s'.emittedDn = s.emittedDn) (hi : s'.issuedDn = s.issuedDn) (hr : s'.resetsDn = s.resetsDn)
      (hts : heldAll ts = [])

/-- The invariant: for a device whose counter epoch is still running, whatever is in circulation
    was handed out, and at most once. -/
def K (s : Sys) : Prop :=
  ∀ x : Bytes × Nat, x.1 ∉ s.resetsDn → circCount s x ≤ 1 ∧ (0 < circCount s x → x ∈ s.issuedDn)

macro "quiet_ls" : tactic => `(tactic| exact LS.quiet rfl rfl rfl rfl (by simp [heldAll, heldDn]))

theorem ls_stepUplink (E : Spec.Rfc4493.BlockFn) (sys : Sys) (s : UpSt) (fault : Bool) :
    LS sys (.uplink s) (stepUplink E sys s fault).1 (stepUplink E sys s fault).2 := by
  unfold stepUplink
  simp only []
  split
  all_goals (repeat' split)
  all_goals quiet_ls

theorem ls_stepJoin (E : Spec.Rfc4493.BlockFn) (cfg : Config) (sys : Sys) (s : JoinSt) (fault : Bool) :
    LS sys (.join s) (stepJoin E cfg sys s fault).1 (stepJoin E cfg sys s fault).2 := by
  unfold stepJoin
  simp only []
  split
  all_goals (repeat' split)
  all_goals first
    | quiet_ls
    | exact LS.reset _ rfl rfl rfl rfl (by simp [heldAll, heldDn])

theorem held_enc (pc : Nat) (p : PHY) (c : Ctx) (b : Bytes) (hd : p.mhdr.mtype = mtUnconfirmedDataDown ∨ p.mhdr.mtype = mtConfirmedDataDown)
    (hpc : 1 ≤ pc) : heldDn (.encoder pc p c b) = some (c.device.eui, p.mac.fhdr.fcnt) := by
  simp [heldDn, hd, hpc]

theorem held_enc0 (p : PHY) (c : Ctx) (b : Bytes) : heldDn (.encoder 0 p c b) = none := by
  simp [heldDn]

theorem held_enc_other (pc : Nat) (p : PHY) (c : Ctx) (b : Bytes)
    (hd : ¬ (p.mhdr.mtype = mtUnconfirmedDataDown ∨ p.mhdr.mtype = mtConfirmedDataDown)) : heldDn (.encoder pc p c b) = none := by
  simp [heldDn, hd]

theorem ja_not_data {p : PHY} (h : p.mhdr.mtype = mtJoinAccept) :
    ¬ (p.mhdr.mtype = mtUnconfirmedDataDown ∨ p.mhdr.mtype = mtConfirmedDataDown) := by
  rw [h]; decide

theorem ls_stepEncoder (E D : Spec.Rfc4493.BlockFn) (sys : Sys) (pc : Nat) (p : PHY) (c : Ctx) (b : Bytes) (fault : Bool) :
    LS sys (.encoder pc p c b) (stepEncoder E D sys pc p c b fault).1 (stepEncoder E D sys pc p c b fault).2 := by
  unfold stepEncoder
  simp only []
  split
  · -- join-accept
    rename_i hja
    have hnd := ja_not_data hja
    split
    · split
      · exact LS.quiet rfl rfl rfl (held_enc_other _ p c b hnd) rfl
      · split
        · exact LS.quiet rfl rfl rfl (held_enc_other _ p c b hnd) rfl
        · split
          · refine LS.reset _ rfl rfl rfl (held_enc_other _ p c b hnd) ?_
            intro x hx
            simp [heldAll, heldDn, hja, mtJoinAccept, mtUnconfirmedDataDown, mtConfirmedDataDown] at hx
          · exact LS.reset _ rfl rfl rfl (held_enc_other _ p c b hnd) (by intro x hx; cases hx)
    · exact LS.quiet rfl rfl rfl (held_enc_other _ p c b hnd) rfl
  · split
    · -- data downlink
      rename_i hnja hd
      split
      · -- pc = 0
        split
        · exact LS.quiet rfl rfl rfl (held_enc0 p c b) rfl
        · split
          · exact LS.quiet rfl rfl rfl (held_enc0 p c b) rfl
          · rename_i db f hn
            obtain ⟨_, _, hw⟩ := next_views hn
            split
            · -- encoded
              by_cases hwrap : f + 1 < 65536
              · refine LS.issue c.device.eui f rfl ?_ ?_ (held_enc0 p c b) (Or.inl ?_) hw
                · simp [noteCounter, hwrap]
                · simp [hwrap]
                · simp [heldAll, heldDn, hd]
              · refine LS.reset c.device.eui rfl ?_ ?_ (held_enc0 p c b) ?_
                · simp [noteCounter, hwrap]
                · simp [hwrap]
                · intro x hx
                  simp [heldAll, heldDn, hd] at hx
                  rw [hx]
            · by_cases hwrap : f + 1 < 65536
              · refine LS.issue c.device.eui f rfl ?_ ?_ (held_enc0 p c b) (Or.inr rfl) hw
                · simp [noteCounter, hwrap]
                · simp [hwrap]
              · refine LS.reset c.device.eui rfl ?_ ?_ (held_enc0 p c b) (by intro x hx; cases hx)
                · simp [noteCounter, hwrap]
                · simp [hwrap]
      · -- pc = 1
        refine LS.keep (c.device.eui, p.mac.fhdr.fcnt) ?_ ?_ ?_ (held_enc 1 p c b hd (Nat.le_refl _)) ?_
        · split <;> rfl
        · split <;> rfl
        · split <;> rfl
        · simp [heldAll, heldDn, hd]
      · -- pc ≥ 2
        rename_i h0 h1
        have hpc : 1 ≤ pc := by
          rcases Nat.lt_or_ge pc 1 with h | h
          · exact absurd (by omega) h0
          · exact h
        exact LS.emit (c.device.eui, p.mac.fhdr.fcnt) rfl rfl rfl (held_enc pc p c b hd hpc) rfl
    · rename_i hnja hnd
      exact LS.quiet rfl rfl rfl (held_enc_other _ p c b hnd) rfl

/-- Thread `i` (= `t`) of `sys` is replaced by `t0`, the threads `more` are appended, and the rest of
    the state is `s'`. -/
def after (sys s' : Sys) (i : Nat) (t0 : Thread) (more : List Thread) : Sys :=
  { s' with threads := replaceAt sys.threads i t0 ++ more }

theorem circ_after (sys s' : Sys) (i : Nat) (t t0 : Thread) (more : List Thread) (x : Bytes × Nat)
    (hi : sys.threads[i]? = some t) :
    circCount (after sys s' i t0 more) x + (heldDn t).toList.count x
      = s'.emittedDn.count x + (heldAll sys.threads).count x + (heldAll (t0 :: more)).count x := by
  have h1 := count_step heldDn t0 more x hi
  have h2 : (heldAll (t0 :: more)).count x = (heldDn t0).toList.count x + (heldAll more).count x := by
    simp only [heldAll, List.filterMap_cons]
    cases heldDn t0 <;> simp [List.count_cons]
    omega
  have h3 : circCount (after sys s' i t0 more) x = s'.emittedDn.count x + ((sys.threads.set i t0 ++ more).filterMap heldDn).count x := rfl
  rw [h3, h2]
  simp only [heldAll] at h1 ⊢
  omega

theorem mem_note {l : List (Bytes × Nat)} {e : Bytes} {f : Nat} {x : Bytes × Nat} (hx : x ∈ l) (hne : x.1 ≠ e) :
    x ∈ noteCounter l e f := by
  unfold noteCounter
  split
  · exact List.mem_append_left _ hx
  · exact mem_forget.mpr ⟨hx, hne⟩

/-- The invariant is preserved by any thread step with a local effect of the six kinds. -/
theorem k_after (sys s' : Sys) (i : Nat) (t t0 : Thread) (more : List Thread)
    (hi : sys.threads[i]? = some t) (hls : LS sys t s' (t0 :: more)) (hc : CInv sys) (hk : K sys) :
    K (after sys s' i t0 more) := by
  intro x hx
  have hcount := circ_after sys s' i t t0 more x hi
  have hres : (after sys s' i t0 more).resetsDn = s'.resetsDn := rfl
  have hiss : (after sys s' i t0 more).issuedDn = s'.issuedDn := rfl
  rw [hres] at hx
  rw [hiss]
  cases hls with
  | quiet he hi' hr ht hts =>
    rw [hr] at hx
    obtain ⟨h1, h2⟩ := hk x hx
    simp only [circCount] at h1 h2
    rw [he, ht, hts] at hcount
    simp at hcount
    rw [hi']
    exact ⟨by omega, fun h => h2 (by omega)⟩
  | drop he hi' hr hts =>
    rw [hr] at hx
    obtain ⟨h1, h2⟩ := hk x hx
    simp only [circCount] at h1 h2
    rw [he, hts] at hcount
    simp at hcount
    rw [hi']
    exact ⟨by omega, fun h => h2 (by omega)⟩
  | keep y he hi' hr ht hts =>
    rw [hr] at hx
    obtain ⟨h1, h2⟩ := hk x hx
    simp only [circCount] at h1 h2
    rw [he, ht, hts] at hcount
    simp at hcount
    rw [hi']
    exact ⟨by omega, fun h => h2 (by omega)⟩
  | emit y he hi' hr ht hts =>
    rw [hr] at hx
    obtain ⟨h1, h2⟩ := hk x hx
    simp only [circCount] at h1 h2
    rw [he, ht, hts] at hcount
    simp [List.count_append] at hcount
    rw [hi']
    exact ⟨by omega, fun h => h2 (by omega)⟩
  | reset e he hi' hr ht hts =>
    rw [hr] at hx
    have hne : x.1 ≠ e := fun h => hx (by rw [h]; exact List.mem_cons_self)
    have hx' : x.1 ∉ sys.resetsDn := fun h => hx (List.mem_cons_of_mem _ h)
    obtain ⟨h1, h2⟩ := hk x hx'
    simp only [circCount] at h1 h2
    have hz : (heldAll (t0 :: more)).count x = 0 := by
      apply List.count_eq_zero.mpr
      intro hm
      exact hne (hts x hm)
    rw [he, ht, hz] at hcount
    simp at hcount
    rw [hi']
    exact ⟨by omega, fun h => mem_forget.mpr ⟨h2 (by omega), hne⟩⟩
  | issue e f he hi' hr ht hts hw =>
    rw [hr] at hx
    obtain ⟨h1, h2⟩ := hk x hx
    simp only [circCount] at h1 h2
    rw [hi']
    -- the counter just handed out was not in circulation
    have hfresh : (e, f) ∉ sys.issuedDn := by
      intro hm
      obtain ⟨d, hd, hde, hdf⟩ := hw
      have := hc.dnB e f hm d hd hde
      omega
    rcases hts with hts | hts
    · rw [he, ht, hts] at hcount
      by_cases hxe : x = (e, f)
      · subst hxe
        have h0 : sys.emittedDn.count (e, f) + (heldAll sys.threads).count (e, f) = 0 := by
          rcases Nat.eq_zero_or_pos (sys.emittedDn.count (e, f) + (heldAll sys.threads).count (e, f)) with h | h
          · exact h
          · exact absurd (h2 h) hfresh
        simp at hcount
        exact ⟨by omega, fun _ => List.mem_append_right _ (List.mem_singleton.mpr rfl)⟩
      · have : List.count x [(e, f)] = 0 := by
          apply List.count_eq_zero.mpr; simp; exact hxe
        simp [this] at hcount
        exact ⟨by omega, fun h => List.mem_append_left _ (h2 (by omega))⟩
    · rw [he, ht, hts] at hcount
      simp at hcount
      exact ⟨by omega, fun h => List.mem_append_left _ (h2 (by omega))⟩

theorem threads_stepUplink (E : Spec.Rfc4493.BlockFn) (sys : Sys) (s : UpSt) (fault : Bool) :
    (stepUplink E sys s fault).1.threads = sys.threads := by
  unfold stepUplink
  simp only []
  split
  all_goals (repeat' split)
  all_goals rfl

theorem threads_stepJoin (E : Spec.Rfc4493.BlockFn) (cfg : Config) (sys : Sys) (s : JoinSt) (fault : Bool) :
    (stepJoin E cfg sys s fault).1.threads = sys.threads := by
  unfold stepJoin
  simp only []
  split
  all_goals (repeat' split)
  all_goals rfl

theorem threads_stepEncoder (E D : Spec.Rfc4493.BlockFn) (sys : Sys) (pc : Nat) (p : PHY) (c : Ctx) (b : Bytes) (fault : Bool) :
    (stepEncoder E D sys pc p c b fault).1.threads = sys.threads := by
  unfold stepEncoder
  simp only []
  repeat' split
  all_goals rfl

theorem ls_nil_done {s s' : Sys} {t : Thread} (h : LS s t s' []) : LS s t s' [.done] := by
  have hd : heldAll [Thread.done] = [] := rfl
  cases h with
  | quiet he hi hr ht hts => exact .quiet he hi hr ht hd
  | reset e he hi hr ht hts => exact .reset e he hi hr ht (by intro x hx; rw [hd] at hx; cases hx)
  | issue e f he hi hr ht hts hw => exact .issue e f he hi hr ht (Or.inr hd) hw
  | keep x he hi hr ht hts => exact absurd hts (by simp [heldAll])
  | emit x he hi hr ht hts => exact .emit x he hi hr ht hd
  | drop he hi hr hts => exact .drop he hi hr hd

/-- One step of any thread preserves the circulation invariant. -/
theorem k_step (E D : Spec.Rfc4493.BlockFn) (cfg : Config) (sys : Sys) (i : Nat) (fault : Bool) (hc : CInv sys) (hk : K sys) :
    K (step E D cfg sys i fault) := by
  unfold step
  split
  · exact hk
  · rename_i t hi
    have key : ∀ (r : Sys × List Thread), LS sys t r.1 r.2 → r.1.threads = sys.threads →
        K (match r.2 with
          | [] => { r.1 with threads := replaceAt r.1.threads i .done }
          | t0 :: more => { r.1 with threads := replaceAt r.1.threads i t0 ++ more }) := by
      intro r hls hth
      split
      · rename_i hnil
        rw [hnil] at hls
        have := k_after sys r.1 i t .done [] hi (ls_nil_done hls) hc hk
        simpa [after, hth] using this
      · rename_i t0 more hcons
        rw [hcons] at hls
        have := k_after sys r.1 i t t0 more hi hls hc hk
        simpa [after, hth] using this
    cases t with
    | uplink s => exact key _ (ls_stepUplink E sys s fault) (threads_stepUplink E sys s fault)
    | join s => exact key _ (ls_stepJoin E cfg sys s fault) (threads_stepJoin E cfg sys s fault)
    | notify p c =>
      refine key (if sys.scheduled.contains c.device.eui then (sys, [.done])
        else ({ sys with scheduled := c.device.eui :: sys.scheduled }, [.sendAt c])) ?_ ?_
      · split <;> exact LS.quiet rfl rfl rfl rfl rfl
      · split <;> rfl
    | sendAt c =>
      refine key (match (fobTake sys.fob c.device c.gw.dataRate).2 with
        | some p => ({ sys with fob := (fobTake sys.fob c.device c.gw.dataRate).1 }, [.sendDone c.device.eui, .encoder 0 p c []])
        | none => ({ sys with fob := (fobTake sys.fob c.device c.gw.dataRate).1 }, [.sendDone c.device.eui])) ?_ ?_
      · split
        · exact LS.quiet rfl rfl rfl rfl (by simp [heldAll, heldDn])
        · exact LS.quiet rfl rfl rfl rfl rfl
      · split <;> rfl
    | sendDone e => exact key ({ sys with scheduled := sys.scheduled.filter (· != e) }, [.done]) (LS.quiet rfl rfl rfl rfl rfl) rfl
    | encoder pc p c b => exact key _ (ls_stepEncoder E D sys pc p c b fault) (threads_stepEncoder E D sys pc p c b fault)
    | done => exact key (sys, [.done]) (LS.quiet rfl rfl rfl rfl rfl) rfl

/-- Dropping threads (crash, end of a settled run) or changing anything but the bookkeeping keeps `K`. -/
theorem k_mono {s s' : Sys} (hk : K s) (he : s'.emittedDn = s.emittedDn) (hi : s'.issuedDn = s.issuedDn)
    (hr : s'.resetsDn = s.resetsDn) (hh : ∀ x, (heldAll s'.threads).count x ≤ (heldAll s.threads).count x) : K s' := by
  intro x hx
  rw [hr] at hx
  obtain ⟨h1, h2⟩ := hk x hx
  simp only [circCount] at h1 h2 ⊢
  have := hh x
  rw [he, hi]
  exact ⟨by omega, fun h => h2 (by omega)⟩

structure KInv (s : Sys) : Prop where
  c : CInv s
  k : K s

theorem kinv_init (db : DB) : KInv (Sys.init db) :=
  ⟨CInv.init db, by intro x _; simp [circCount, heldAll, Sys.init]⟩

theorem kinv_step (E D : Spec.Rfc4493.BlockFn) (cfg : Config) (sys : Sys) (i : Nat) (fault : Bool) (h : KInv sys) :
    KInv (step E D cfg sys i fault) := ⟨cinv_step E D cfg sys i fault h.c, k_step E D cfg sys i fault h.c h.k⟩

theorem kinv_settle (E D : Spec.Rfc4493.BlockFn) (cfg : Config) (fuel : Nat) (sys : Sys) (h : KInv sys) :
    KInv (settle E D cfg fuel sys) := by
  induction fuel generalizing sys with
  | zero => exact h
  | succ n ih =>
    unfold settle
    split
    · exact ⟨⟨h.c.upB, h.c.dnB, h.c.upI, h.c.dnI⟩, k_mono h.k rfl rfl rfl (by intro x; simp [heldAll])⟩
    · exact ih _ (kinv_step E D cfg sys _ false h)

theorem kinv_apply (E D : Spec.Rfc4493.BlockFn) (cfg : Config) (sys : Sys) (ev : Event) (h : KInv sys) :
    KInv (apply E D cfg sys ev) := by
  refine ⟨cinv_apply E D cfg sys ev h.c, ?_⟩
  cases ev with
  | deliver raw gw an na =>
    simp only [apply]
    split
    · rename_i t ht
      refine k_mono h.k rfl rfl rfl ?_
      intro x
      have : heldDn t = none := by
        unfold spawn at ht
        split at ht
        · split at ht <;> (cases ht; rfl)
        · cases ht
      simp [heldAll, List.filterMap_append, this]
    · exact h.k
  | submit m => exact k_mono h.k rfl rfl rfl (fun _ => Nat.le_refl _)
  | stepT i f => exact k_step E D cfg sys i f h.c h.k
  | quiesce => exact (kinv_settle E D cfg 200 sys h).k
  | crash => exact k_mono h.k rfl rfl rfl (by intro x; simp [heldAll, apply])

theorem kinv_run (E D : Spec.Rfc4493.BlockFn) (cfg : Config) (sys : Sys) (evs : List Event) (h : KInv sys) :
    KInv (run E D cfg sys evs) := by
  induction evs generalizing sys with
  | nil => exact h
  | cons ev rest ih => exact ih _ (kinv_apply E D cfg sys ev h)

end Proofs.Circ
end LospanVerif
