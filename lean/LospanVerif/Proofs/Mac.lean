import LospanVerif.Model.Mac
import LospanVerif.Spec.MacLayout
/-
  Lemmas for C13: the code's masks and shifts against the specification's field arithmetic.
-/
namespace LospanVerif
namespace Proofs.Mac
open Model.Mac

/-! Octet packing: finite, decided in the kernel over all values that fit. -/

theorem pack44 : ∀ a, a < 16 → ∀ b, b < 16 →
    (byteOf a <<< 4) ||| (byteOf b &&& 0x0F#8) = byteOf (16 * a + b) := by decide

theorem pack44m : ∀ a, a < 16 → ∀ b, b < 16 →
    ((byteOf a &&& 0x0F#8) <<< 4) ||| (byteOf b &&& 0x0F#8) = byteOf (16 * a + b) := by decide

theorem pack34 : ∀ a, a < 8 → ∀ b, b < 16 →
    ((byteOf a &&& 0x07#8) <<< 4) ||| (byteOf b &&& 0x0F#8) = byteOf (16 * a + b) := by decide

theorem mask6 : ∀ m, m < 64 → byteOf m &&& 0x3F#8 = byteOf m := by decide
theorem mask4 : ∀ m, m < 16 → byteOf m &&& 0x0F#8 = byteOf m := by decide

theorem unpack44_hi : ∀ a, a < 16 → ∀ b, b < 16 → ((byteOf (16 * a + b) &&& 0xF0#8) >>> 4).toNat = a := by decide
theorem unpack44_lo : ∀ a, a < 16 → ∀ b, b < 16 → (byteOf (16 * a + b) &&& 0x0F#8).toNat = b := by decide
theorem unpack34_hi : ∀ a, a < 8 → ∀ b, b < 16 → ((byteOf (16 * a + b) &&& 0x70#8) >>> 4).toNat = a := by decide

theorem flags3 : ∀ a b c : Bool,
    (bit (byteOf (4 * b2n a + 2 * b2n b + b2n c)) 0x04#8 = a) ∧
    (bit (byteOf (4 * b2n a + 2 * b2n b + b2n c)) 0x02#8 = b) ∧
    (bit (byteOf (4 * b2n a + 2 * b2n b + b2n c)) 0x01#8 = c) := by decide

theorem flags2 : ∀ a b : Bool,
    (bit (byteOf (2 * b2n a + b2n b)) 0x02#8 = a) ∧ (bit (byteOf (2 * b2n a + b2n b)) 0x01#8 = b) := by decide

theorem byteOf_toNat_lt (n : Nat) (h : n < 256) : (byteOf n).toNat = n := by
  simp [byteOf]; omega

theorem le16_val (n : Nat) (h : n < 65536) : (byteOf n).toNat + 256 * (byteOf (n / 256)).toNat = n := by
  simp [byteOf]; omega

theorem le24_val (n : Nat) (h : n < 16777216) :
    (byteOf n).toNat + 256 * (byteOf (n / 256)).toNat + 65536 * (byteOf (n / 65536)).toNat = n := by
  simp [byteOf]; omega

theorem b2n_eq (b : Bool) : Model.Mac.b2n b = Spec.MacLayout.b2n b := rfl

end Proofs.Mac
end LospanVerif
