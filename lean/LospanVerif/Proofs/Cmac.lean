import LospanVerif.Model.Cmac
/-
  Lemmas relating the byte-level helpers of pkg/cmac to the bit-string operations of RFC 4493.
-/
namespace LospanVerif
namespace Proofs.Cmac
open Spec.Rfc4493 Model.Cmac

theorem bitsByte_byteBits : ∀ b : Byte, bitsByte (byteBits b) = b := by decide

theorem ofBits_toBits (bs : Bytes) : ofBits (toBits bs) = bs := by
  induction bs with
  | nil => rfl
  | cons b rest ih =>
    have : toBits (b :: rest) = byteBits b ++ toBits rest := by simp [toBits]
    rw [this]
    simp only [byteBits, List.cons_append, List.nil_append, ofBits]
    rw [ih]
    congr 1
    exact bitsByte_byteBits b

theorem byteBits_shift : ∀ (b : Byte) (c : Bool),
    byteBits ((b <<< 1) ||| (if c then 1#8 else 0#8)) = (byteBits b).drop 1 ++ [c] := by decide

theorem carry_eq : ∀ b : Byte, (b &&& 0x80#8) >>> 7 = if b.getLsbD 7 then 1#8 else 0#8 := by decide

theorem msb_cons_shl1 (x : List Bool) : msb x :: shl1 x = x ++ [false] := by
  cases x with
  | nil => simp [msb, shl1]
  | cons a t => simp [msb, shl1]

theorem toBits_cons (b : Byte) (rest : Bytes) : toBits (b :: rest) = byteBits b ++ toBits rest := by
  simp [toBits]

theorem msb_toBits_cons (b : Byte) (rest : Bytes) : msb (toBits (b :: rest)) = b.getLsbD 7 := by
  simp [toBits_cons, msb, byteBits]

/-- `shiftLeft` is `<< 1` on the bit string, and the carry out is the most significant bit. -/
theorem shiftLeftAux_spec (buf : Bytes) :
    toBits (shiftLeftAux buf).1 = shl1 (toBits buf) ∧
    (shiftLeftAux buf).2 = if msb (toBits buf) then 1#8 else 0#8 := by
  induction buf with
  | nil => simp [shiftLeftAux, toBits, shl1, msb]
  | cons b rest ih =>
    obtain ⟨ih1, ih2⟩ := ih
    constructor
    · simp only [shiftLeftAux]
      rw [toBits_cons, ih2, byteBits_shift, ih1, toBits_cons]
      have h8 : (byteBits b).drop 1 ++ [msb (toBits rest)] ++ shl1 (toBits rest)
          = (byteBits b).drop 1 ++ (toBits rest ++ [false]) := by
        rw [List.append_assoc]; congr 1
        exact msb_cons_shl1 _
      rw [h8]
      simp [shl1, byteBits]
    · simp only [shiftLeftAux]
      rw [carry_eq, msb_toBits_cons]

theorem toBits_shiftLeft (buf : Bytes) : toBits (shiftLeft buf) = shl1 (toBits buf) :=
  (shiftLeftAux_spec buf).1

theorem byteBits_xor (x y : Byte) : byteBits (x ^^^ y) = xorBits (byteBits x) (byteBits y) := by
  simp [byteBits, xorBits]

theorem xorBits_append (a b c d : List Bool) (h : a.length = c.length) :
    xorBits (a ++ b) (c ++ d) = xorBits a c ++ xorBits b d := by
  simp [xorBits, List.zipWith_append h]

theorem byteBits_length (b : Byte) : (byteBits b).length = 8 := rfl

theorem toBits_xorB (a b : Bytes) : toBits (xorB a b) = xorBits (toBits a) (toBits b) := by
  induction a generalizing b with
  | nil => simp [xorB, toBits, xorBits]
  | cons x xs ih =>
    cases b with
    | nil => simp [xorB, toBits, xorBits]
    | cons y ys =>
      have : xorB (x :: xs) (y :: ys) = (x ^^^ y) :: xorB xs ys := by simp [xorB]
      rw [this, toBits_cons, toBits_cons, toBits_cons, ih,
        xorBits_append _ _ _ _ (by simp [byteBits_length]), byteBits_xor]

theorem msb_model_spec (l : Bytes) : (msbByte l = 0#8) = (msb (toBits l) = false) := by
  cases l with
  | nil => simp [msbByte, msb, toBits]
  | cons b rest =>
    rw [msb_toBits_cons]
    simp only [msbByte, List.headD_cons]
    revert b; decide

theorem constRb_bits : Spec.Rfc4493.constRb = toBits Model.Cmac.constRb := rfl

/-- One subkey step of the code is the RFC's doubling. -/
theorem dbl_eq (l : Bytes) : subkeyStep l = dbl l := by
  unfold subkeyStep dbl dblBits
  by_cases h : msb (toBits l) = true
  · have h0 : ¬ (msbByte l = 0#8) := by rw [msb_model_spec]; simp [h]
    rw [if_neg h0, if_pos h, constRb_bits, ← toBits_shiftLeft, ← toBits_xorB, ofBits_toBits]
    rfl
  · have hf : msb (toBits l) = false := by simpa using h
    have h0 : msbByte l = 0#8 := by rw [msb_model_spec]; exact hf
    rw [if_pos h0, if_neg h, ← toBits_shiftLeft, ofBits_toBits]

theorem generateSubkeys_eq (E : BlockFn) (k : Bytes) :
    generateSubkeys E k = (dbl (E k (zeros 16)), dbl (dbl (E k (zeros 16)))) := by
  simp only [generateSubkeys, Model.Cmac.constZero, dbl_eq]

/-- `buffer[pos:pos+16]` expressed on the suffix. -/
theorem take_drop_eq (m : Bytes) (pos : Nat) :
    (m.take (pos + 16)).drop pos = (m.drop pos).take 16 := by
  rw [List.drop_take]; simp

/-- The Step-6 loop of the code is CBC-MAC over the 16-byte chunks of the bytes it visits. -/
theorem loop_eq_cbc (E : BlockFn) (k m : Bytes) :
    ∀ (i pos fuel : Nat) (x : Bytes), pos + 16 * i ≤ m.length → i ≤ fuel →
      loop E k m i pos x = cbc E k x (chunks fuel ((m.drop pos).take (16 * i))) := by
  intro i
  induction i with
  | zero => intro pos fuel x _ _; cases fuel <;> simp [loop, chunks, cbc]
  | succ i ih =>
    intro pos fuel x hlen hf
    cases fuel with
    | zero => omega
    | succ fuel =>
      have hne : ((m.drop pos).take (16 * (i + 1))).isEmpty = false := by
        rw [List.isEmpty_eq_false_iff]
        intro h
        have := congrArg List.length h
        simp at this
        omega
      simp only [loop, chunks, hne, Model.Cmac.constBSize, Model.Cmac.xor]
      simp only [Bool.false_eq_true, ↓reduceIte, cbc]
      rw [ih (pos + 16) fuel _ (by omega) (by omega), take_drop_eq]
      have h1 : ((m.drop pos).take (16 * (i + 1))).take 16 = (m.drop pos).take 16 := by
        rw [List.take_take]; congr 1
      have h2 : ((m.drop pos).take (16 * (i + 1))).drop 16 = (m.drop (pos + 16)).take (16 * i) := by
        rw [List.drop_take, List.drop_drop]; congr 1
      rw [h1, h2]

end Proofs.Cmac
end LospanVerif
