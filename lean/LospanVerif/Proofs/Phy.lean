import LospanVerif.Model.Phy
import LospanVerif.Spec.Frame
/-
  Lemmas about the frame decoder model: it never panics (C11), its cursor arithmetic (C12).
-/
namespace LospanVerif
namespace Proofs.Phy
open Model.Mac Model.Phy

/-! ### byte-level facts, decided over all 256 values -/

theorem mtype_bits : ∀ b : Byte, ((b &&& 0xE0#8) >>> 5).toNat = b.toNat / 32 := by decide
theorem major_bits : ∀ b : Byte, (b &&& 0x03#8).toNat = b.toNat % 4 := by decide
theorem foptslen_bits : ∀ b : Byte, (b &&& 0x0F#8).toNat = b.toNat % 16 := by decide
theorem bit7 : ∀ b : Byte, bit b 0x80#8 = Spec.Frame.testBit b.toNat 7 := by decide
theorem bit6 : ∀ b : Byte, bit b 0x40#8 = Spec.Frame.testBit b.toNat 6 := by decide
theorem bit5 : ∀ b : Byte, bit b 0x20#8 = Spec.Frame.testBit b.toNat 5 := by decide
theorem bit4 : ∀ b : Byte, bit b 0x10#8 = Spec.Frame.testBit b.toNat 4 := by decide

/-! ### idx / slice -/

theorem idx_lt (bs : Bytes) (i : Nat) (h : i < bs.length) : idx bs i = .ok (bs.getD i 0#8) := by
  simp [idx, List.getD, h]

theorem idx_ne_panic (bs : Bytes) (i : Nat) (h : i < bs.length) : idx bs i ≠ .panic := by
  rw [idx_lt bs i h]; simp

theorem slice_ok (bs : Bytes) (a b : Nat) (h1 : a ≤ b) (h2 : b ≤ bs.length) :
    slice bs a b = .ok ((bs.take b).drop a) := by
  simp [slice, h1, h2]

/-! ### MAC command decoding never panics and stays within its limit -/

theorem decodeAt_ne_panic (buffer : Bytes) (pos : Nat) (c : Cmd) : decodeAt buffer pos c ≠ .panic := by
  unfold decodeAt
  split
  · simp
  · rename_i h
    have hg : buffer.length > pos + c.length := by simpa [isValidBuffer] using h
    rw [idx_lt buffer pos (by omega)]
    simp only [Res.bind_ok]
    split <;> simp

theorem decodeAt_pos (buffer : Bytes) (pos : Nat) (c c' : Cmd) (pos' : Nat)
    (h : decodeAt buffer pos c = .ok (c', pos')) : pos' = pos + c.length := by
  unfold decodeAt at h
  split at h
  · cases h
  · rename_i hv
    have hg : buffer.length > pos + c.length := by simpa [isValidBuffer] using hv
    rw [idx_lt buffer pos (by omega)] at h
    simp only [Res.bind_ok] at h
    split at h
    · cases h
    · cases h; rfl

theorem add_maxLength (s : CmdSet) (c : Cmd) : (s.add c).1.maxLength = s.maxLength := by
  unfold CmdSet.add; split
  · rfl
  · split <;> rfl

/-- Loop invariant of `MACCommandSet.decode`: no panic, and the cursor never moves further than
    the set's limit allows (`pos' - pos ≤ maxLength - currentLength`). -/
theorem decodeLoop_spec (buffer : Bytes) (uplink : Bool) :
    ∀ (fuel : Nat) (s : CmdSet) (pos cur : Nat), cur ≤ s.maxLength →
      decodeLoop buffer uplink fuel s pos cur ≠ .panic ∧
      ∀ s' pos' e, decodeLoop buffer uplink fuel s pos cur = .ok (s', pos', e) →
        pos ≤ pos' ∧ pos' + cur ≤ pos + s.maxLength ∧ s'.maxLength = s.maxLength := by
  intro fuel
  induction fuel with
  | zero => intro s pos cur _; simp [decodeLoop]
  | succ fuel ih =>
    intro s pos cur hcur
    simp only [decodeLoop]
    by_cases hlen : buffer.length ≤ pos
    · simp [hlen]
    · rw [if_neg hlen]
      cases hnc : newCmd uplink (buffer.getD pos 0#8).toNat with
      | none =>
        constructor
        · simp
        · intro s' pos' e h; cases h; exact ⟨Nat.le_refl _, by omega, rfl⟩
      | some c =>
        simp only []
        by_cases hcl : cur + c.length > s.maxLength
        · rw [if_pos hcl]
          constructor
          · simp
          · intro s' pos' e h; cases h; exact ⟨Nat.le_refl _, by omega, rfl⟩
        · rw [if_neg hcl]
          cases hdec : decodeAt buffer pos c with
          | panic => exact absurd hdec (decodeAt_ne_panic buffer pos c)
          | err e => simp
          | ok r =>
            obtain ⟨c', pos1⟩ := r
            simp only []
            have hp := decodeAt_pos buffer pos c c' pos1 hdec
            by_cases hadd : (s.add c').2 = true
            · rw [if_pos hadd]
              have hm := add_maxLength s c'
              have := ih (s.add c').1 pos1 (cur + c.length) (by rw [hm]; omega)
              constructor
              · exact this.1
              · intro s' pos' e h
                have h2 := this.2 s' pos' e h
                rw [hm] at h2
                subst hp
                exact ⟨by omega, by omega, h2.2.2⟩
            · rw [if_neg hadd]; simp

theorem setDecode_spec (s : CmdSet) (buffer : Bytes) (pos : Nat) :
    s.decode buffer pos ≠ .panic ∧
    ∀ s' pos' e, s.decode buffer pos = .ok (s', pos', e) → pos ≤ pos' ∧ pos' ≤ pos + s.maxLength := by
  unfold CmdSet.decode
  split
  · simp
  · have := decodeLoop_spec buffer (isUplinkMType s.message) (buffer.length + 1) { s with cmds := [] } pos 0 (Nat.zero_le _)
    constructor
    · exact this.1
    · intro s' pos' e h
      have := this.2 s' pos' e h
      simp at this
      omega

/-! ### header decoding -/

theorem devAddr_decode_ne_panic (o : Bytes) (p : Nat) : DevAddr.decode o p ≠ .panic := by
  unfold DevAddr.decode; split <;> simp

theorem fctrl_decode_ne_panic (o : Bytes) (p : Nat) : FCtrl.decode o p ≠ .panic := by
  unfold FCtrl.decode; split <;> simp

/-- What `FHDR.decode` returns when it succeeds from position `p`. -/
theorem fhdr_decode_ok (fo : CmdSet) (o : Bytes) (p : Nat) (h : FHDR) (q : Nat)
    (hd : FHDR.decode fo o p = .ok (h, q)) :
    p + 7 ≤ o.length ∧
    h.devAddr = ⟨unle ((o.drop p).take 4) / 33554432, unle ((o.drop p).take 4) % 33554432⟩ ∧
    h.fctrl = { adr := bit (o.getD (p + 4) 0#8) 0x80#8, adrAckReq := bit (o.getD (p + 4) 0#8) 0x40#8,
                ack := bit (o.getD (p + 4) 0#8) 0x20#8, fPending := bit (o.getD (p + 4) 0#8) 0x10#8,
                classB := bit (o.getD (p + 4) 0#8) 0x10#8, foptsLen := ((o.getD (p + 4) 0#8) &&& 0x0F#8).toNat } ∧
    h.fcnt = unle ((o.drop (p + 5)).take 2) ∧
    q = p + 7 + h.fctrl.foptsLen ∧ q ≤ o.length := by
  unfold FHDR.decode at hd
  unfold DevAddr.decode at hd
  split at hd
  · cases hd
  · rename_i h4
    simp only [Res.bind_ok] at hd
    unfold FCtrl.decode at hd
    split at hd
    · cases hd
    · rename_i h5
      simp only [Res.bind_ok] at hd
      split at hd
      · cases hd
      · rename_i h7
        split at hd
        · rename_i hfo
          split at hd
          · cases hd
          · rename_i hend
            split at hd
            · cases hd
              refine ⟨by omega, rfl, rfl, rfl, ?_, ?_⟩ <;> (try dsimp only) <;> omega
            · cases hd
            · cases hd
        · rename_i hfo
          cases hd
          refine ⟨by omega, rfl, rfl, rfl, ?_, ?_⟩ <;> (try dsimp only) <;> omega

theorem fhdr_decode_ne_panic (fo : CmdSet) (o : Bytes) (p : Nat) : FHDR.decode fo o p ≠ .panic := by
  unfold FHDR.decode DevAddr.decode
  split
  · simp
  · simp only [Res.bind_ok]
    unfold FCtrl.decode
    split
    · simp
    · simp only [Res.bind_ok]
      split
      · simp
      · split
        · split
          · simp
          · split
            · simp
            · simp
            · rename_i hp
              exact absurd hp (setDecode_spec _ _ _).1
        · simp

/-! ### MACPayload / PHY never panic -/

theorem macPayload_decode_ne_panic (m0 : MACPayload) (payload : Bytes) (pos : Nat) :
    MACPayload.decode m0 payload pos ≠ .panic := by
  unfold MACPayload.decode
  cases hf : FHDR.decode m0.fhdr.fopts payload pos with
  | panic => exact absurd hf (fhdr_decode_ne_panic _ _ _)
  | err e => simp
  | ok r =>
    obtain ⟨fhdr, q⟩ := r
    simp only [Res.bind_ok]
    split
    · simp
    · rename_i hlen
      split
      · simp
      · rename_i h0
        have hq : q < payload.length := by omega
        rw [idx_lt payload q hq]
        simp only [Res.bind_ok]
        split
        · -- port 0: MAC commands
          have hs := setDecode_spec (CmdSet.new m0.macCommands.message (payload.length - q - 4 - 1)) payload (q + 1)
          split
          · simp
          · rename_i s pos' hdec
            have := hs.2 s pos' .full hdec
            simp [CmdSet.new] at this
            rw [slice_ok payload pos' (q + 1 + (payload.length - q - 4) - 1) (by omega) (by omega)]
            simp
          · simp
          · rename_i hp; exact absurd hp hs.1
        · rw [slice_ok payload (q + 1) (q + 1 + (payload.length - q - 4) - 1) (by omega) (by omega)]
          simp

/-- What `MACPayload.decode` returns when it succeeds: header from `FHDR.decode`, then no port,
    or an application port with the bytes up to the MIC, or port 0 with a remainder that lies
    between the port and the MIC. -/
theorem macPayload_decode_ok (m0 : MACPayload) (bs : Bytes) (p : Nat) (m : MACPayload) (pos' : Nat)
    (h : MACPayload.decode m0 bs p = .ok (m, pos')) :
    ∃ hd q, FHDR.decode m0.fhdr.fopts bs p = .ok (hd, q) ∧ m.fhdr = hd ∧ q + 4 ≤ bs.length ∧
      ((bs.length = q + 4 ∧ m.fport = m0.fport ∧ m.frm = m0.frm) ∨
       (q + 5 ≤ bs.length ∧ m.fport = (bs.getD q 0#8).toNat ∧
         ((m.fport ≠ 0 ∧ m.frm = (bs.take (bs.length - 4)).drop (q + 1)) ∨
          (m.fport = 0 ∧ (m.frm = m0.frm ∨
             ∃ r, q + 1 ≤ r ∧ r ≤ bs.length - 4 ∧ m.frm = (bs.take (bs.length - 4)).drop r))))) := by
  unfold MACPayload.decode at h
  cases hf : FHDR.decode m0.fhdr.fopts bs p with
  | panic => rw [hf] at h; cases h
  | err e => rw [hf] at h; cases h
  | ok r =>
    obtain ⟨fhdr, q⟩ := r
    rw [hf] at h
    simp only [Res.bind_ok] at h
    refine ⟨fhdr, q, rfl, ?_⟩
    split at h
    · cases h
    · rename_i hlen
      split at h
      · rename_i h0
        cases h
        exact ⟨rfl, by omega, Or.inl ⟨by omega, rfl, rfl⟩⟩
      · rename_i h0
        have hq : q < bs.length := by omega
        rw [idx_lt bs q hq] at h
        simp only [Res.bind_ok] at h
        have hfend : q + 1 + (bs.length - q - 4) - 1 = bs.length - 4 := by omega
        split at h
        · rename_i hport
          have hs := setDecode_spec (CmdSet.new m0.macCommands.message (bs.length - q - 4 - 1)) bs (q + 1)
          split at h
          · rename_i s pos1 hdec
            cases h
            exact ⟨rfl, by omega, Or.inr ⟨by omega, rfl, Or.inr ⟨hport, Or.inl rfl⟩⟩⟩
          · rename_i s pos1 hdec
            have hb := hs.2 s pos1 .full hdec
            simp [CmdSet.new] at hb
            rw [slice_ok bs pos1 (q + 1 + (bs.length - q - 4) - 1) (by omega) (by omega)] at h
            simp only [Res.bind_ok] at h
            cases h
            exact ⟨rfl, by omega, Or.inr ⟨by omega, rfl, Or.inr ⟨hport, Or.inr ⟨pos', by omega, by omega, by dsimp only; rw [hfend]⟩⟩⟩⟩
          · cases h
          · cases h
        · rename_i hport
          rw [slice_ok bs (q + 1) (q + 1 + (bs.length - q - 4) - 1) (by omega) (by omega)] at h
          simp only [Res.bind_ok] at h
          cases h
          exact ⟨rfl, by omega, Or.inr ⟨by omega, rfl, Or.inl ⟨hport, by dsimp only; rw [hfend]⟩⟩⟩

theorem joinRequest_decode_ne_panic (b : Bytes) (p : Nat) : JoinRequest.decode b p ≠ .panic := by
  unfold JoinRequest.decode; split <;> simp

theorem joinAccept_decode_ne_panic (b : Bytes) (p : Nat) : JoinAccept.decode b p ≠ .panic := by
  unfold JoinAccept.decode
  split
  · simp
  · rename_i h
    unfold DevAddr.decode
    rw [if_neg (by omega)]
    simp only [Res.bind_ok]
    rw [idx_lt b (p + 6 + 4) (by omega), Res.bind_ok, idx_lt b (p + 6 + 4 + 1) (by omega)]
    simp

end Proofs.Phy
end LospanVerif
