import LospanVerif.Model.Pipeline
/-
  Frame-counter invariants of the pipeline transition system, for every event list: every
  interleaving of handler, scheduler and encoder steps, faults and crashes included.

  `Below l v`  every counter noted in the history `l` for a device is below what the store holds
               for that device (view `v` = (EUI, stored counter) per device row);
  `Inc l`      per device, the noted counters are strictly increasing in the order they were noted.

  The two storage operations that move a counter (`AdvanceFCntUp`, `NextFCntDn`) preserve both;
  every other operation leaves the views alone or starts a new epoch for the device (join).
-/
namespace LospanVerif
namespace Proofs.Counters
open Model.Pipeline

abbrev Hist := List (Bytes × Nat)
abbrev View := List (Bytes × Nat)

def Below (l : Hist) (v : View) : Prop := ∀ e f, (e, f) ∈ l → ∀ t ∈ v, t.1 = e → f < t.2
def Inc (l : Hist) : Prop := ∀ e, ((l.filter (fun x => x.1 == e)).map (·.2)).Pairwise (· < ·)

def upView (db : DB) : View := db.devices.map (fun d => (d.eui, d.fcntUp))
def dnView (db : DB) : View := db.devices.map (fun d => (d.eui, d.fcntDn))

/-- The effect of `AdvanceFCntUp e f` on the view. -/
def adv (v : View) (e : Bytes) (f : Nat) : View :=
  v.map (fun t => if t.1 == e && t.2 ≤ f then (t.1, (f + 1) % 65536) else t)
/-- The effect of `NextFCntDn e` (value read: `f`) on the view. -/
def bump (v : View) (e : Bytes) (f : Nat) : View :=
  v.map (fun t => if t.1 == e then (t.1, (f + 1) % 65536) else t)

theorem mem_forget {l : Hist} {e e' : Bytes} {f : Nat} : (e', f) ∈ forget l e ↔ (e', f) ∈ l ∧ e' ≠ e := by
  simp [forget, List.mem_filter]

theorem below_nil (v : View) : Below [] v := by intro e f h; cases h

theorem inc_nil : Inc [] := by intro e; simp

/-- A history restricted to other devices stays below any view that agrees on those devices. -/
theorem below_forget {l : Hist} {v v' : View} {e : Bytes} (h : Below l v)
    (hv : ∀ t ∈ v', t.1 ≠ e → t ∈ v) : Below (forget l e) v' := by
  intro e' f hm t ht hte
  obtain ⟨hm, hne⟩ := mem_forget.mp hm
  exact h e' f hm t (hv t ht (by rw [hte]; exact hne)) hte

theorem inc_forget {l : Hist} (e : Bytes) (h : Inc l) : Inc (forget l e) := by
  intro e'
  have hs : ((forget l e).filter (fun x => x.1 == e')).Sublist (l.filter (fun x => x.1 == e')) := by
    unfold forget
    exact List.Sublist.filter _ List.filter_sublist
  exact List.Pairwise.sublist (List.Sublist.map _ hs) (h e')

/-- Noting counter `f` for `e` after the store moved every row of `e` that was not past `f` to `f+1`. -/
theorem below_note_adv {l : Hist} {v : View} {e : Bytes} {f : Nat} (h : Below l v) :
    Below (noteCounter l e f) (adv v e f) := by
  unfold noteCounter
  split
  · rename_i hlt
    intro e' f' hm t' ht' hte'
    simp only [adv, List.mem_map] at ht'
    obtain ⟨t, ht, rfl⟩ := ht'
    rcases List.mem_append.mp hm with hm | hm
    · -- an older entry
      by_cases hc : (t.1 == e && t.2 ≤ f) = true
      · rw [if_pos hc] at hte' ⊢
        have := h e' f' hm t ht hte'
        simp only [Bool.and_eq_true, decide_eq_true_eq] at hc
        have h2 : (f + 1) % 65536 = f + 1 := Nat.mod_eq_of_lt hlt
        simp only [h2]; omega
      · rw [if_neg hc] at hte' ⊢
        exact h e' f' hm t ht hte'
    · -- the new entry
      simp only [List.mem_singleton, Prod.mk.injEq] at hm
      obtain ⟨rfl, rfl⟩ := hm
      by_cases hc : (t.1 == e' && t.2 ≤ f') = true
      · rw [if_pos hc]
        have h2 : (f' + 1) % 65536 = f' + 1 := Nat.mod_eq_of_lt hlt
        simp only [h2]; omega
      · rw [if_neg hc] at hte' ⊢
        have hte2 : (t.1 == e') = true := by simp [hte']
        simp only [hte2, Bool.true_and, decide_eq_true_eq] at hc
        omega
  · -- the counter wrapped: a new epoch for `e`
    apply below_forget h
    intro t' ht' hne
    simp only [adv, List.mem_map] at ht'
    obtain ⟨t, ht, rfl⟩ := ht'
    by_cases hc : (t.1 == e && t.2 ≤ f) = true
    · rw [if_pos hc] at hne
      simp only [Bool.and_eq_true, beq_iff_eq] at hc
      exact absurd hc.1 hne
    · rw [if_neg hc]; exact ht

theorem inc_note {l : Hist} {v : View} {e : Bytes} {f : Nat} (hi : Inc l) (hb : Below l v)
    (hw : ∃ t ∈ v, t.1 = e ∧ t.2 ≤ f) : Inc (noteCounter l e f) := by
  unfold noteCounter
  split
  · intro e'
    simp only [List.filter_append, List.map_append]
    by_cases hee : e' = e
    · subst hee
      simp only [List.filter_cons, BEq.rfl, if_true, List.filter_nil, List.map_cons, List.map_nil]
      rw [List.pairwise_append]
      refine ⟨hi e', by simp, ?_⟩
      intro a ha b hb'
      simp only [List.mem_singleton] at hb'
      subst hb'
      simp only [List.mem_map, List.mem_filter] at ha
      obtain ⟨x, ⟨hx, hxe⟩, rfl⟩ := ha
      obtain ⟨t, ht, hte, htf⟩ := hw
      have hxe' : x.1 = e' := by simpa using hxe
      have := hb x.1 x.2 (by simpa using hx) t ht (by rw [hte, hxe'])
      omega
    · have : ((e, f).1 == e') = false := by
        simp only [beq_eq_false_iff_ne, ne_eq]
        exact fun h => hee h.symm
      simp only [List.filter_cons, this, List.filter_nil]
      simpa using hi e'
  · exact inc_forget e hi

/-- Noting the counter `f` read from a row of `e` after the store moved every row of `e` to `f+1`. -/
theorem below_note_bump {l : Hist} {v : View} {e : Bytes} {f : Nat} (h : Below l v)
    (hw : ∃ t ∈ v, t.1 = e ∧ t.2 = f) : Below (noteCounter l e f) (bump v e f) := by
  unfold noteCounter
  split
  · rename_i hlt
    have h2 : (f + 1) % 65536 = f + 1 := Nat.mod_eq_of_lt hlt
    intro e' f' hm t' ht' hte'
    simp only [bump, List.mem_map] at ht'
    obtain ⟨t, ht, rfl⟩ := ht'
    rcases List.mem_append.mp hm with hm | hm
    · by_cases hc : (t.1 == e) = true
      · rw [if_pos hc] at hte' ⊢
        obtain ⟨t0, ht0, hte0, htf0⟩ := hw
        have hte : t.1 = e := by simpa using hc
        have := h e' f' hm t0 ht0 (by rw [hte0, ← hte, hte'])
        simp only [h2]; omega
      · rw [if_neg hc] at hte' ⊢
        exact h e' f' hm t ht hte'
    · simp only [List.mem_singleton, Prod.mk.injEq] at hm
      obtain ⟨rfl, rfl⟩ := hm
      by_cases hc : (t.1 == e') = true
      · rw [if_pos hc]; simp only [h2]; omega
      · rw [if_neg hc] at hte'
        simp [hte'] at hc
  · apply below_forget h
    intro t' ht' hne
    simp only [bump, List.mem_map] at ht'
    obtain ⟨t, ht, rfl⟩ := ht'
    by_cases hc : (t.1 == e) = true
    · rw [if_pos hc] at hne
      exact absurd (by simpa using hc) hne
    · rw [if_neg hc]; exact ht

/-! ### the storage operations on the views -/

theorem advance_views {db db' : DB} {e : Bytes} {f : Nat} {kw : Bool} (h : db.advanceFCntUp e f kw = some db') :
    upView db' = adv (upView db) e f ∧ dnView db' = dnView db ∧ ∃ t ∈ upView db, t.1 = e ∧ t.2 ≤ f := by
  unfold DB.advanceFCntUp at h
  split at h
  · rename_i hany
    cases h
    refine ⟨?_, ?_, ?_⟩
    · simp only [upView, adv, List.map_map]
      apply List.map_congr_left
      intro d _
      simp only [Function.comp]
      by_cases hc : (d.eui == e && decide (d.fcntUp ≤ f)) = true
      · rw [if_pos hc, if_pos hc]
      · rw [if_neg hc, if_neg hc]
    · simp only [dnView, List.map_map]
      apply List.map_congr_left
      intro d _
      simp only [Function.comp]
      split <;> rfl
    · simp only [List.any_eq_true, Bool.and_eq_true, beq_iff_eq, decide_eq_true_eq] at hany
      obtain ⟨d, hd, hde, hdf⟩ := hany
      exact ⟨(d.eui, d.fcntUp), List.mem_map.mpr ⟨d, hd, rfl⟩, hde, hdf⟩
  · cases h

theorem next_views {db db' : DB} {e : Bytes} {f : Nat} (h : db.nextFCntDn e = some (db', f)) :
    dnView db' = bump (dnView db) e f ∧ upView db' = upView db ∧ ∃ t ∈ dnView db, t.1 = e ∧ t.2 = f := by
  unfold DB.nextFCntDn at h
  split at h
  · cases h
  · rename_i d hd
    simp only [Option.some.injEq, Prod.mk.injEq] at h
    obtain ⟨rfl, rfl⟩ := h
    refine ⟨?_, ?_, ?_⟩
    · simp only [dnView, bump, List.map_map]
      apply List.map_congr_left
      intro x _
      simp only [Function.comp]
      by_cases hc : (x.eui == e) = true
      · rw [if_pos hc, if_pos hc]
      · rw [if_neg hc, if_neg hc]
    · simp only [upView, List.map_map]
      apply List.map_congr_left
      intro x _
      simp only [Function.comp]
      split <;> rfl
    · unfold DB.rowByEUI at hd
      have hm := List.mem_of_find?_eq_some hd
      have hp := List.find?_some hd
      exact ⟨(d.eui, d.fcntDn), List.mem_map.mpr ⟨d, hm, rfl⟩, by simpa using hp, rfl⟩

theorem updateDevice_views {db db' : DB} {d : Device} (h : db.updateDevice d = some db') :
    (∀ t ∈ upView db', t.1 ≠ d.eui → t ∈ upView db) ∧ (∀ t ∈ dnView db', t.1 ≠ d.eui → t ∈ dnView db) := by
  unfold DB.updateDevice at h
  split at h
  · cases h
    constructor <;>
    · intro t ht hne
      simp only [upView, dnView, List.map_map, List.mem_map, Function.comp] at ht ⊢
      obtain ⟨x, hx, rfl⟩ := ht
      by_cases hc : (x.eui == d.eui) = true
      · rw [if_pos hc] at hne
        exact absurd (by simpa using hc) hne
      · rw [if_neg hc]; exact ⟨x, hx, rfl⟩
  · cases h

theorem updateState_views {db db' : DB} {d : Device} (h : db.updateState d = some db') :
    (∀ t ∈ upView db', t.1 ≠ d.eui → t ∈ upView db) ∧ (∀ t ∈ dnView db', t.1 ≠ d.eui → t ∈ dnView db) := by
  unfold DB.updateState at h
  split at h
  · cases h
    constructor <;>
    · intro t ht hne
      simp only [upView, dnView, List.map_map, List.mem_map, Function.comp] at ht ⊢
      obtain ⟨x, hx, rfl⟩ := ht
      by_cases hc : (x.eui == d.eui) = true
      · rw [if_pos hc] at hne
        exact absurd (by simpa using hc) hne
      · rw [if_neg hc]; exact ⟨x, hx, rfl⟩
  · cases h

theorem addNonce_views {db db' : DB} {e : Bytes} {n : Nat} (h : db.addNonce e n = some db') :
    upView db' = upView db ∧ dnView db' = dnView db := by
  unfold DB.addNonce at h
  split at h
  · cases h
  · cases h; exact ⟨rfl, rfl⟩

theorem addInbox_devices {db db' : DB} {r : InRow} (h : db.addInbox r = some db') : db'.devices = db.devices := by
  unfold DB.addInbox at h
  split at h <;> cases h
  rfl

/-! ### the invariant and the four kinds of effect a step can have on it -/

structure CInv (s : Sys) : Prop where
  upB : Below s.acceptedUp (upView s.db)
  dnB : Below s.issuedDn (dnView s.db)
  upI : Inc s.acceptedUp
  dnI : Inc s.issuedDn

inductive Eff (s s' : Sys) : Prop where
  | same (hu : upView s'.db = upView s.db) (hd : dnView s'.db = dnView s.db)
      (ha : s'.acceptedUp = s.acceptedUp) (hi : s'.issuedDn = s.issuedDn)
  | advance (e : Bytes) (f : Nat) (hw : ∃ t ∈ upView s.db, t.1 = e ∧ t.2 ≤ f)
      (hu : upView s'.db = adv (upView s.db) e f) (hd : dnView s'.db = dnView s.db)
      (ha : s'.acceptedUp = noteCounter s.acceptedUp e f) (hi : s'.issuedDn = s.issuedDn)
  | next (e : Bytes) (f : Nat) (hw : ∃ t ∈ dnView s.db, t.1 = e ∧ t.2 = f)
      (hu : upView s'.db = upView s.db) (hd : dnView s'.db = bump (dnView s.db) e f)
      (ha : s'.acceptedUp = s.acceptedUp) (hi : s'.issuedDn = noteCounter s.issuedDn e f)
  | reset (e : Bytes) (hu : ∀ t ∈ upView s'.db, t.1 ≠ e → t ∈ upView s.db) (hd : ∀ t ∈ dnView s'.db, t.1 ≠ e → t ∈ dnView s.db)
      (ha : s'.acceptedUp = forget s.acceptedUp e) (hi : s'.issuedDn = forget s.issuedDn e)

theorem Eff.refl (s : Sys) : Eff s s := .same rfl rfl rfl rfl

/-- A step that leaves the device rows and the history variables alone. -/
theorem Eff.of_devices {s s' : Sys} (hd : s'.db.devices = s.db.devices) (ha : s'.acceptedUp = s.acceptedUp)
    (hi : s'.issuedDn = s.issuedDn) : Eff s s' :=
  .same (by simp [upView, hd]) (by simp [dnView, hd]) ha hi

theorem CInv.eff {s s' : Sys} (h : CInv s) (e : Eff s s') : CInv s' := by
  cases e with
  | same hu hd ha hi => exact ⟨by rw [ha, hu]; exact h.upB, by rw [hi, hd]; exact h.dnB, by rw [ha]; exact h.upI, by rw [hi]; exact h.dnI⟩
  | advance e f hw hu hd ha hi =>
    exact ⟨by rw [ha, hu]; exact below_note_adv h.upB, by rw [hi, hd]; exact h.dnB,
           by rw [ha]; exact inc_note h.upI h.upB hw, by rw [hi]; exact h.dnI⟩
  | next e f hw hu hd ha hi =>
    obtain ⟨t, ht, hte, htf⟩ := hw
    exact ⟨by rw [ha, hu]; exact h.upB, by rw [hi, hd]; exact below_note_bump h.dnB ⟨t, ht, hte, htf⟩,
           by rw [ha]; exact h.upI, by rw [hi]; exact inc_note h.dnI h.dnB ⟨t, ht, hte, by omega⟩⟩
  | reset e hu hd ha hi =>
    exact ⟨by rw [ha]; exact below_forget h.upB hu, by rw [hi]; exact below_forget h.dnB hd,
           by rw [ha]; exact inc_forget e h.upI, by rw [hi]; exact inc_forget e h.dnI⟩

theorem CInv.init (db : DB) : CInv (Sys.init db) :=
  ⟨below_nil _, below_nil _, inc_nil, inc_nil⟩

/-! ### every step of every thread has one of the four effects -/

open Model.Phy

macro "close_eff" : tactic => `(tactic| first
  | exact Eff.refl _
  | exact Eff.of_devices rfl rfl rfl
  | skip)

theorem eff_of_advance {sys s' : Sys} {db : DB} {e : Bytes} {f : Nat} {kw : Bool} (h : sys.db.advanceFCntUp e f kw = some db)
    (hdb : s'.db = db) (ha : s'.acceptedUp = noteCounter sys.acceptedUp e f) (hi : s'.issuedDn = sys.issuedDn) : Eff sys s' := by
  obtain ⟨hu, hd, hw⟩ := advance_views h
  exact Eff.advance e f hw (by rw [hdb]; exact hu) (by rw [hdb]; exact hd) ha hi

theorem eff_of_next {sys s' : Sys} {db : DB} {e : Bytes} {f : Nat} (h : sys.db.nextFCntDn e = some (db, f))
    (hdb : s'.db = db) (ha : s'.acceptedUp = sys.acceptedUp) (hi : s'.issuedDn = noteCounter sys.issuedDn e f) : Eff sys s' := by
  obtain ⟨hd, hu, hw⟩ := next_views h
  exact Eff.next e f hw (by rw [hdb]; exact hu) (by rw [hdb]; exact hd) ha hi

theorem eff_of_updateDevice {sys s' : Sys} {db : DB} {d : Device} (h : sys.db.updateDevice d = some db)
    (hdb : s'.db = db) (ha : s'.acceptedUp = forget sys.acceptedUp d.eui) (hi : s'.issuedDn = forget sys.issuedDn d.eui) : Eff sys s' := by
  obtain ⟨hu, hd⟩ := updateDevice_views h
  exact Eff.reset d.eui (by rw [hdb]; exact hu) (by rw [hdb]; exact hd) ha hi

theorem eff_of_updateState {sys s' : Sys} {db : DB} {d : Device} (h : sys.db.updateState d = some db)
    (hdb : s'.db = db) (ha : s'.acceptedUp = forget sys.acceptedUp d.eui) (hi : s'.issuedDn = forget sys.issuedDn d.eui) : Eff sys s' := by
  obtain ⟨hu, hd⟩ := updateState_views h
  exact Eff.reset d.eui (by rw [hdb]; exact hu) (by rw [hdb]; exact hd) ha hi

theorem eff_of_addNonce {sys s' : Sys} {db : DB} {e : Bytes} {n : Nat} (h : sys.db.addNonce e n = some db)
    (hdb : s'.db = db) (ha : s'.acceptedUp = sys.acceptedUp) (hi : s'.issuedDn = sys.issuedDn) : Eff sys s' := by
  obtain ⟨hu, hd⟩ := addNonce_views h
  exact Eff.same (by rw [hdb]; exact hu) (by rw [hdb]; exact hd) ha hi

theorem eff_of_addInbox {sys s' : Sys} {db : DB} {r : InRow} (h : sys.db.addInbox r = some db)
    (hdb : s'.db = db) (ha : s'.acceptedUp = sys.acceptedUp) (hi : s'.issuedDn = sys.issuedDn) : Eff sys s' :=
  Eff.of_devices (by rw [hdb]; exact addInbox_devices h) ha hi

theorem eff_stepUplink (E : Spec.Rfc4493.BlockFn) (sys : Sys) (s : UpSt) (fault : Bool) :
    Eff sys (stepUplink E sys s fault).1 := by
  unfold stepUplink
  simp only []
  split
  all_goals (repeat' split)
  all_goals close_eff
  all_goals first
    | (rename_i h; exact eff_of_advance h rfl rfl rfl)
    | (rename_i h _; exact eff_of_advance h rfl rfl rfl)
    | (rename_i h; exact eff_of_addInbox h rfl rfl rfl)
    | (rename_i h _; exact eff_of_addInbox h rfl rfl rfl)

theorem eff_stepJoin (E : Spec.Rfc4493.BlockFn) (cfg : Config) (sys : Sys) (s : JoinSt) (fault : Bool) :
    Eff sys (stepJoin E cfg sys s fault).1 := by
  unfold stepJoin
  simp only []
  split
  all_goals (repeat' split)
  all_goals close_eff
  all_goals first
    | (rename_i h; exact eff_of_addNonce h rfl rfl rfl)
    | (rename_i h _; exact eff_of_updateDevice h rfl rfl rfl)
    | (rename_i h _ _; exact eff_of_updateDevice h rfl rfl rfl)
    | (rename_i h; exact eff_of_updateDevice h rfl rfl rfl)

theorem eff_stepEncoder (E D : Spec.Rfc4493.BlockFn) (sys : Sys) (pc : Nat) (p : PHY) (c : Ctx) (b : Bytes) (fault : Bool) :
    Eff sys (stepEncoder E D sys pc p c b fault).1 := by
  unfold stepEncoder
  simp only []
  repeat' split
  all_goals close_eff
  all_goals first
    | (rename_i h _ _ _; exact eff_of_updateState h rfl rfl rfl)
    | (rename_i h _ _; exact eff_of_updateState h rfl rfl rfl)
    | (rename_i h _ _ _ _; exact eff_of_next h rfl rfl rfl)
    | (rename_i h _ _ _; exact eff_of_next h rfl rfl rfl)
    | (rename_i h _ _; exact eff_of_next h rfl rfl rfl)

theorem Eff.congr {s s' s'' : Sys} (h : Eff s s') (hdb : s''.db = s'.db) (ha : s''.acceptedUp = s'.acceptedUp)
    (hi : s''.issuedDn = s'.issuedDn) : Eff s s'' := by
  cases h with
  | same hu hd ha' hi' => exact .same (by rw [hdb]; exact hu) (by rw [hdb]; exact hd) (by rw [ha]; exact ha') (by rw [hi]; exact hi')
  | advance e f hw hu hd ha' hi' =>
    exact .advance e f hw (by rw [hdb]; exact hu) (by rw [hdb]; exact hd) (by rw [ha]; exact ha') (by rw [hi]; exact hi')
  | next e f hw hu hd ha' hi' =>
    exact .next e f hw (by rw [hdb]; exact hu) (by rw [hdb]; exact hd) (by rw [ha]; exact ha') (by rw [hi]; exact hi')
  | reset e hu hd ha' hi' =>
    exact .reset e (by rw [hdb]; exact hu) (by rw [hdb]; exact hd) (by rw [ha]; exact ha') (by rw [hi]; exact hi')

/-- One step of any thread, with or without an injected fault. -/
theorem eff_step (E D : Spec.Rfc4493.BlockFn) (cfg : Config) (sys : Sys) (i : Nat) (fault : Bool) :
    Eff sys (step E D cfg sys i fault) := by
  unfold step
  split
  · exact Eff.refl _
  · rename_i t _
    -- the effect of the thread's own step function
    have key : ∀ (r : Sys × List Thread), Eff sys r.1 →
        Eff sys (match r.2 with
          | [] => { r.1 with threads := replaceAt r.1.threads i .done }
          | t0 :: more => { r.1 with threads := replaceAt r.1.threads i t0 ++ more }) := by
      intro r hr
      split <;> exact hr.congr rfl rfl rfl
    cases t with
    | uplink s => exact key _ (eff_stepUplink E sys s fault)
    | join s => exact key _ (eff_stepJoin E cfg sys s fault)
    | notify p c =>
      refine key (stepNotify sys c) ?_
      unfold stepNotify
      split
      · exact Eff.refl _
      · exact Eff.of_devices rfl rfl rfl
    | sendAt c =>
      refine key (stepSendAt sys c) ?_
      unfold stepSendAt
      split <;> exact Eff.of_devices rfl rfl rfl
    | sendDone e => exact key (stepSendDone sys e) (Eff.of_devices rfl rfl rfl)
    | encoder pc p c b => exact key _ (eff_stepEncoder E D sys pc p c b fault)
    | done => exact key (sys, [.done]) (Eff.refl _)

/-! ### the invariant holds after every event list -/

theorem cinv_step (E D : Spec.Rfc4493.BlockFn) (cfg : Config) (sys : Sys) (i : Nat) (fault : Bool) (h : CInv sys) :
    CInv (step E D cfg sys i fault) := h.eff (eff_step E D cfg sys i fault)

theorem cinv_settle (E D : Spec.Rfc4493.BlockFn) (cfg : Config) (fuel : Nat) (sys : Sys) (h : CInv sys) :
    CInv (settle E D cfg fuel sys) := by
  induction fuel generalizing sys with
  | zero => exact h
  | succ n ih =>
    unfold settle
    split
    · exact ⟨h.upB, h.dnB, h.upI, h.dnI⟩
    · exact ih _ (cinv_step E D cfg sys _ false h)

theorem cinv_apply (E D : Spec.Rfc4493.BlockFn) (cfg : Config) (sys : Sys) (ev : Event) (h : CInv sys) :
    CInv (apply E D cfg sys ev) := by
  cases ev with
  | deliver raw gw an na =>
    simp only [apply]
    split
    · exact ⟨h.upB, h.dnB, h.upI, h.dnI⟩
    · exact h
  | submit m =>
    simp only [apply]
    refine h.eff (Eff.of_devices ?_ rfl rfl)
    unfold DB.addOutbox
    split <;> rfl
  | stepT i f => exact cinv_step E D cfg sys i f h
  | quiesce => exact cinv_settle E D cfg 200 sys h
  | crash => exact ⟨h.upB, h.dnB, h.upI, h.dnI⟩

theorem cinv_run (E D : Spec.Rfc4493.BlockFn) (cfg : Config) (sys : Sys) (evs : List Event) (h : CInv sys) :
    CInv (run E D cfg sys evs) := by
  induction evs generalizing sys with
  | nil => exact h
  | cons ev rest ih => exact ih _ (cinv_apply E D cfg sys ev h)

end Proofs.Counters
end LospanVerif
