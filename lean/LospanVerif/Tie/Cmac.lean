import LospanVerif.Facts.Cmac
import LospanVerif.Model.Cmac
/- Tie: the constants of pkg/cmac as extracted from the source are the model's. -/
namespace LospanVerif
namespace Tie.Cmac

theorem tie_constBSize : Facts.Cmac.constBSize = some Model.Cmac.constBSize := by decide
theorem tie_constZero : Facts.Cmac.constZero.bind ofHex = some Model.Cmac.constZero := by decide
theorem tie_constRb : Facts.Cmac.constRb.bind ofHex = some Model.Cmac.constRb := by decide

end Tie.Cmac
end LospanVerif
