import LospanVerif.Facts.Server
/- Tie: every EventRouter and FrameOutputBuffer method body is one critical section
   (`mutex.Lock(); defer mutex.Unlock()` first, no other lock operation), which is what lets the
   sequential models stand for concurrent executions in lock order. -/
namespace LospanVerif
namespace Tie.Server

theorem tie_routerLocked :
    Facts.Server.eventRouterSubscribeLocked = true ∧ Facts.Server.eventRouterUnsubscribeLocked = true ∧
    Facts.Server.eventRouterPublishLocked = true := by decide

theorem tie_outputBufferLocked :
    Facts.Server.frameOutputBufferAddMACCommandLocked = true ∧ Facts.Server.frameOutputBufferSetPayloadLocked = true ∧
    Facts.Server.frameOutputBufferSetJoinAcceptPayloadLocked = true ∧ Facts.Server.frameOutputBufferGetPHYPayloadForDeviceLocked = true ∧
    Facts.Server.frameOutputBufferSetMessageAckFlagLocked = true := by decide

end Tie.Server
end LospanVerif
