import LospanVerif.Facts.Storage
/- Tie: the SQL statements behind the row-level operations of Model/Pipeline.lean are the ones the
   model transcribes:
     DB.advanceFCntUp  one UPDATE, conditional on `fcnt_up <= fCnt`, writing fcnt_up and key_warning only
     DB.nextFCntDn     SELECT fcnt_dn / UPDATE fcnt_dn in one transaction inside one critical section
     DB.updateState    fcnt_dn, fcnt_up, key_warning of the row with that EUI
     DB.setSent        sent_time and fcnt_up of the row (device, created)
     DB.ackTime        rows of the device with that fcnt_up, sent, not yet acknowledged
     DB.resetAcks      rows of the device sent, not acknowledged, ack requested: back to unsent
     DB.nextUnsent     oldest (created_time) row of the device with sent_time = 0
   A change to any of these texts breaks the build of this module (the statements are compared as
   text, white space normalised). -/
namespace LospanVerif
namespace Tie.Storage

theorem tie_advanceFCntUp : Facts.Storage.advanceFCntUpSQL =
    some "UPDATE lora_devices SET fcnt_up = $1, key_warning = $2 WHERE eui = $3 AND fcnt_up <= $4" := rfl

theorem tie_nextFCntDn :
    Facts.Storage.getFCntDnSQL = some "SELECT fcnt_dn FROM lora_devices WHERE eui = $1" ∧
    Facts.Storage.setFCntDnSQL = some "UPDATE lora_devices SET fcnt_dn = $1 WHERE eui = $2" ∧
    Facts.Storage.nextFCntDnLocked = true ∧ Facts.Storage.nextFCntDnInTx = true := ⟨rfl, rfl, rfl, rfl⟩

theorem tie_updateState : Facts.Storage.updateStateSQL =
    some "UPDATE lora_devices SET fcnt_dn = $1, fcnt_up = $2, key_warning = $3 WHERE eui = $4" := rfl

theorem tie_messageLifeCycle :
    Facts.Storage.setMessageSentTimeSQL =
      some "UPDATE lora_downstream_messages SET sent_time = $1, fcnt_up = $2 WHERE device_eui = $3 AND created_time = $4" ∧
    Facts.Storage.updateMessageAckTimeSQL =
      some "UPDATE lora_downstream_messages SET ack_time = $1 WHERE device_eui = $2 AND fcnt_up = $3 AND sent_time > 0 AND ack_time = 0" ∧
    Facts.Storage.resetActiveAcksSQL =
      some "UPDATE lora_downstream_messages SET sent_time = 0, fcnt_up = 0 WHERE device_eui = $1 AND sent_time > 0 AND ack_time = 0 AND ack = 1" ∧
    Facts.Storage.listUnsentDownstreamSQL =
      some "SELECT data, port, ack, created_time, sent_time, ack_time, fcnt_up FROM lora_downstream_messages WHERE device_eui = $1 AND sent_time = 0 ORDER BY created_time LIMIT 100" :=
  ⟨rfl, rfl, rfl, rfl⟩

end Tie.Storage
end LospanVerif
