import LospanVerif.Facts.Storage
/- Tie: the SQL statements behind the row-level operations of Model/Pipeline.lean are the ones the
   model transcribes:
     DB.advanceFCntUp  one UPDATE, conditional on `fcnt_up <= fCnt`, writing fcnt_up and key_warning only
     DB.nextFCntDn     SELECT fcnt_dn / UPDATE fcnt_dn in one transaction inside one critical section, whose
                       commit error is returned (a counter is handed out only when the commit went through)
     DB.updateState    fcnt_dn, fcnt_up, key_warning of the row with that EUI
     DB.setSent        sent_time and fcnt_up of the row (device, created)
     DB.ackTime        rows of the device with that fcnt_up, sent, not yet acknowledged
     DB.resetAcks      rows of the device sent, not acknowledged, ack requested: back to unsent
     DB.nextUnsent     oldest (created_time) row of the device with sent_time = 0
   A change to any of these texts breaks the build of this module (the statements are compared as
   text, white space normalised). -/
namespace LospanVerif
namespace Tie.Storage

theorem tie_advanceFCntUp : Facts.Storage.advanceFCntUpSQL =
    some "UPDATE lora_devices SET fcnt_up = $1, key_warning = $2 WHERE eui = $3 AND fcnt_up <= $4" := rfl

theorem tie_nextFCntDn :
    Facts.Storage.getFCntDnSQL = some "SELECT fcnt_dn FROM lora_devices WHERE eui = $1" ∧
    Facts.Storage.setFCntDnSQL = some "UPDATE lora_devices SET fcnt_dn = $1 WHERE eui = $2" ∧
    Facts.Storage.nextFCntDnLocked = true ∧ Facts.Storage.nextFCntDnInTx = true ∧
    Facts.Storage.nextFCntDnCommitChecked = true := ⟨rfl, rfl, rfl, rfl, rfl⟩

theorem tie_updateState : Facts.Storage.updateStateSQL =
    some "UPDATE lora_devices SET fcnt_dn = $1, fcnt_up = $2, key_warning = $3 WHERE eui = $4" := rfl

theorem tie_messageLifeCycle :
    Facts.Storage.setMessageSentTimeSQL =
      some "UPDATE lora_downstream_messages SET sent_time = $1, fcnt_up = $2 WHERE device_eui = $3 AND created_time = $4" ∧
    Facts.Storage.updateMessageAckTimeSQL =
      some "UPDATE lora_downstream_messages SET ack_time = $1 WHERE device_eui = $2 AND fcnt_up = $3 AND sent_time > 0 AND ack_time = 0" ∧
    Facts.Storage.resetActiveAcksSQL =
      some "UPDATE lora_downstream_messages SET sent_time = 0, fcnt_up = 0 WHERE device_eui = $1 AND sent_time > 0 AND ack_time = 0 AND ack = 1" ∧
    Facts.Storage.listUnsentDownstreamSQL =
      some "SELECT data, port, ack, created_time, sent_time, ack_time, fcnt_up FROM lora_downstream_messages WHERE device_eui = $1 AND sent_time = 0 ORDER BY created_time LIMIT 100" :=
  ⟨rfl, rfl, rfl, rfl⟩

/-- Model/Row.lean: which column gets which encoding, which decoder reads it back, and the row-level
    statements (`toRow`, `ofRow`, `create`, `update`, `delete`, `get`, `list`). -/
theorem tie_deviceRow :
    Facts.Storage.createDeviceArgs =
      ["device.DeviceEUI.ToInt64()", "device.DevAddr.String()", "device.AppKey.String()", "device.AppSKey.String()",
       "device.NwkSKey.String()", "device.AppEUI.ToInt64()", "uint8(device.State)", "device.FCntUp", "device.FCntDn",
       "device.RelaxedCounter", "device.KeyWarning", "device.Tag"] ∧
    Facts.Storage.readDeviceScan =
      ["&devEUI", "&devAddrStr", "&appKeyStr", "&appSkeyStr", "&nwkSkeyStr", "&appEUI", "&ret.State", "&ret.FCntUp", "&ret.FCntDn",
       "&ret.RelaxedCounter", "&ret.KeyWarning", "&ret.Tag"] ∧
    Facts.Storage.readDeviceDecode =
      ["ret.DeviceEUI = protocol.EUIFromInt64(devEUI)", "ret.DevAddr = protocol.DevAddrFromString(devAddrStr)",
       "ret.AppEUI = protocol.EUIFromInt64(appEUI)", "ret.AppKey = protocol.AESKeyFromString(appKeyStr)",
       "ret.AppSKey = protocol.AESKeyFromString(appSkeyStr)", "ret.NwkSKey = protocol.AESKeyFromString(nwkSkeyStr)"] ∧
    Facts.Storage.updateDeviceArgs =
      ["device.DevAddr.String()", "device.AppKey.String()", "device.AppSKey.String()", "device.NwkSKey.String()", "uint8(device.State)",
       "device.FCntUp", "device.FCntDn", "device.RelaxedCounter", "device.KeyWarning", "device.Tag", "device.DeviceEUI.ToInt64()"] ∧
    Facts.Storage.deleteDeviceArgs = ["eui.ToInt64()"] :=
  ⟨rfl, rfl, rfl, rfl, rfl⟩

theorem tie_deviceSQL :
    Facts.Storage.deviceSqlInsertSQL =
      some "INSERT INTO lora_devices ( eui, dev_addr, app_key, apps_key, nwks_key, application_eui, state, fcnt_up, fcnt_dn, relaxed_counter, key_warning, tag) VALUES ( $1, $2, $3, $4, $5, $6, $7, $8, $9, $10, $11, $12)" ∧
    Facts.Storage.deviceEuiSelectSQL =
      some "SELECT eui, dev_addr, app_key, apps_key, nwks_key, application_eui, state, fcnt_up, fcnt_dn, relaxed_counter, key_warning, tag FROM lora_devices WHERE eui = $1" ∧
    Facts.Storage.deviceSqlSelectSQL =
      some "SELECT eui, dev_addr, app_key, apps_key, nwks_key, application_eui, state, fcnt_up, fcnt_dn, relaxed_counter, key_warning, tag FROM lora_devices WHERE dev_addr = $1" ∧
    Facts.Storage.deviceSqlListSQL =
      some "SELECT eui, dev_addr, app_key, apps_key, nwks_key, application_eui, state, fcnt_up, fcnt_dn, relaxed_counter, key_warning, tag FROM lora_devices WHERE application_eui = $1" ∧
    Facts.Storage.deviceUpdateSQL =
      some "UPDATE lora_devices SET dev_addr = $1, app_key = $2, apps_key = $3, nwks_key = $4, state = $5, fcnt_up = $6, fcnt_dn = $7, relaxed_counter = $8, key_warning = $9, tag = $10 WHERE eui = $11" ∧
    Facts.Storage.deviceDeleteSQL = some "DELETE FROM lora_devices WHERE eui = $1" :=
  ⟨rfl, rfl, rfl, rfl, rfl, rfl⟩

/-- schema.sql: one row per device EUI (Model/Row.lean `create`), one row per (device, nonce)
    (Model/Pipeline.lean `DB.addNonce`), one per (device, created_time) in the downstream queue. -/
theorem tie_primaryKeys :
    "lora_devices:eui" ∈ Facts.Storage.primaryKeys ∧
    "lora_device_nonces:device_eui,nonce" ∈ Facts.Storage.primaryKeys ∧
    "lora_downstream_messages:device_eui,created_time" ∈ Facts.Storage.primaryKeys := by decide

end Tie.Storage
end LospanVerif
