import LospanVerif.Facts.Protocol
import LospanVerif.Model.Phy
/- Tie: constants, message types, masks and the MAC command table of pkg/protocol as extracted
   from the source are the model's. -/
namespace LospanVerif
namespace Tie.Protocol
open Model.Mac Model.Phy

theorem tie_minimumMessageSize : Facts.Protocol.minimumMessageSize = some Model.Phy.minimumMessageSize := by decide
theorem tie_maxFOptsLen : Facts.Protocol.maxFOptsLen = some Model.Phy.maxFOptsLen := by decide
theorem tie_maxPayloadSize : Facts.Protocol.maxPayloadSize = some Model.Phy.maxPayloadSize := by decide
theorem tie_maxSupportedVersion : Facts.Protocol.maxSupportedVersion = some Model.Phy.maxSupportedVersion := by decide

theorem tie_mtypes :
    [Facts.Protocol.joinRequest, Facts.Protocol.joinAccept, Facts.Protocol.unconfirmedDataUp, Facts.Protocol.unconfirmedDataDown,
     Facts.Protocol.confirmedDataUp, Facts.Protocol.confirmedDataDown, Facts.Protocol.rFU, Facts.Protocol.proprietary]
    = [some mtJoinRequest, some mtJoinAccept, some mtUnconfirmedDataUp, some mtUnconfirmedDataDown,
       some mtConfirmedDataUp, some mtConfirmedDataDown, some mtRFU, some mtProprietary] := by decide

/-- MaxNwkID = 0x7F, MaxNwkAddr = 2^25-1, NetworkIDMask = 0xFE000000: the divisors used by the model. -/
theorem tie_devAddrMasks :
    Facts.Protocol.maxNwkID = some 127 ∧ Facts.Protocol.maxNwkAddr = some (33554432 - 1) ∧
    Facts.Protocol.networkIDMask = some (4294967296 - 33554432) := by decide

theorem tie_isValidBufferOp : Facts.Protocol.isValidBufferOp = some ">" := by decide

/-- Every case of NewUplinkMACCommand constructs a command whose CID, direction flag and Length()
    are the model's for that CID, and the model knows no other uplink CID. -/
def rowOK (up : Bool) (row : Nat × String × Nat × Bool × Int) : Bool :=
  match (if up then newUplink row.1 else newDownlink row.1) with
  | some c => c.cid == row.2.2.1 && c.uplink == row.2.2.2.1 && (c.length : Int) == row.2.2.2.2 && c.cid == row.1 && c.uplink == up
  | none => false

def knownCids (up : Bool) : List Nat := (List.range 256).filter (fun n => (if up then newUplink n else newDownlink n).isSome)

theorem tie_macUplinkTable :
    Facts.Protocol.macUplinkTable.all (rowOK true) = true ∧
    (knownCids true).all (fun n => (Facts.Protocol.macUplinkTable.map (·.1)).contains n) = true ∧
    Facts.Protocol.macUplinkTable.length = (knownCids true).length := by decide

theorem tie_macDownlinkTable :
    Facts.Protocol.macDownlinkTable.all (rowOK false) = true ∧
    (knownCids false).all (fun n => (Facts.Protocol.macDownlinkTable.map (·.1)).contains n) = true ∧
    Facts.Protocol.macDownlinkTable.length = (knownCids false).length := by decide

end Tie.Protocol
end LospanVerif
