import LospanVerif.Facts.Protocol
/- Tie: the address parser is `strconv.ParseUint(s, 16, 32)` — unsigned, base 16, 32 bits —
   which is what Model.Text.parseUint32 transcribes. -/
namespace LospanVerif
namespace Tie.Text

theorem tie_devAddrParser :
    Facts.Protocol.devAddrParseFn = some "ParseUint" ∧ Facts.Protocol.devAddrParseBase = some 16 ∧
    Facts.Protocol.devAddrParseBits = some 32 := by decide

end Tie.Text
end LospanVerif
