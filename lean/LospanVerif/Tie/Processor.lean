import LospanVerif.Facts.Processor
import LospanVerif.Facts.Server
/- Tie: the order of storage / output-buffer operations in the pipeline handlers and what each
   does when the operation fails ("!" = the handler stops, "?" = the error is only looked at,
   no mark = result ignored), as extracted from the source, are the thread programs of
   Model/Pipeline.lean (stepUplink pc 0..8, stepJoin pc 0..5, stepEncoder). -/
namespace LospanVerif
namespace Tie.Processor

theorem tie_uplinkLookup : Facts.Processor.decrypterVerifyAndDecryptMessageCalls = ["Storage.GetDeviceByDevAddr!"] := by decide

theorem tie_uplinkHandler : Facts.Processor.decrypterProcessMessageCalls =
    ["Storage.AdvanceFCntUp!", "Storage.CreateUpstreamMessage!", "Storage.GetApplicationByEUI!", "FrameOutput.SetMessageAckFlag",
     "Storage.UpdateMessageAckTime", "Storage.ResetActiveAcks?", "Storage.GetNextUnsentMessage?", "FrameOutput.SetPayload",
     "Storage.SetMessageSentTime"] := by decide

theorem tie_joinVerify : Facts.Processor.decrypterVerifyAndProcessJoinRequestCalls = ["Storage.GetDeviceByEUI!"] := by decide

theorem tie_joinHandler : Facts.Processor.decrypterProcessJoinRequestCalls =
    ["Storage.GetDeviceByEUI!", "Storage.GetApplicationByEUI!", "Storage.AddDevNonce!", "Storage.UpdateDevice!",
     "FrameOutput.SetJoinAcceptPayload"] := by decide

theorem tie_encoder : Facts.Processor.encoderProcessMessageCalls =
    ["Storage.UpdateDeviceState!", "Storage.NextFCntDn!", "Storage.SetMessageSentTime?"] := by decide

theorem tie_joinRequestSize : Facts.Processor.joinRequestSize = some 23 := by decide

end Tie.Processor
end LospanVerif
