import LospanVerif.Facts.Keys
import LospanVerif.Facts.Protocol
import LospanVerif.Model.Eui
/- Tie: key space limit, MA sizes and the per-size NetID limits as extracted are the model's. -/
namespace LospanVerif
namespace Tie.Keys
open Model.Eui

theorem tie_maxID : Facts.Keys.maxID = some Model.Eui.maxID := by decide
theorem tie_maSizes : [Facts.Protocol.mALarge, Facts.Protocol.mAMedium, Facts.Protocol.mASmall] = [some maLarge, some maMedium, some maSmall] := by decide
theorem tie_maxNetIDs :
    [Facts.Protocol.maxNetworkBitsMAL, Facts.Protocol.maxNetworkBitsMAM, Facts.Protocol.maxNetworkBitsMAS]
    = [some (maxNetID maLarge), some (maxNetID maMedium), some (maxNetID maSmall)] := by decide
/-- The three dispatchers reserve blocks of at least one id (the allocator theorem holds for every interval). -/
theorem tie_intervals :
    Facts.Keys.appEUIdispatcherInterval = some 10 ∧ Facts.Keys.deviceEUIdispatcherInterval = some 100 ∧
    Facts.Keys.outputEUIdispatcherInterval = some 10 := by decide

/-- The allocator model's `reserve` event is one atomic step: in the code the counter is read and
    advanced under the storage mutex held for the whole body, the read going through the same
    transaction as the write. -/
theorem tie_reservation_atomic :
    Facts.Keys.allocateKeysLocked = true ∧ Facts.Keys.allocateKeysReadsInTx = true := by decide

end Tie.Keys
end LospanVerif
