import LospanVerif.Facts.Gateway
import LospanVerif.Facts.Processor
import LospanVerif.Model.Gateway
/- Tie: packet identifiers, the txpk JSON tags (presence rules), the channel→frequency table,
   the RX-delay multiplier and the encoder's RX1 delays as extracted from the source are the model's. -/
namespace LospanVerif
namespace Tie.Gateway
open Model.Gateway

theorem tie_identifiers :
    [Facts.Gateway.pushData, Facts.Gateway.pushAck, Facts.Gateway.pullData, Facts.Gateway.pullResp, Facts.Gateway.pullAck, Facts.Gateway.txAck]
    = [some idPushData, some idPushAck, some idPullData, some idPullResp, some idPullAck, some idTxAck] := by decide

/-- The JSON names of the txpk fields the model speaks about, and that `tmst`, `freq`, `rfch`,
    `modu`, `datr`, `size`, `data`, `imme` are always emitted (no omitempty); `ipol` and `codr`
    carry omitempty but the model's values (true, "4/5") are never empty. -/
theorem tie_txpkTags :
    (Facts.Gateway.txpkTags.lookup "Timestamp" = some "tmst") ∧
    (Facts.Gateway.txpkTags.lookup "Frequency" = some "freq") ∧
    (Facts.Gateway.txpkTags.lookup "RFChain" = some "rfch") ∧
    (Facts.Gateway.txpkTags.lookup "Modulation" = some "modu") ∧
    (Facts.Gateway.txpkTags.lookup "LoRaDataRate" = some "datr") ∧
    (Facts.Gateway.txpkTags.lookup "PayloadSize" = some "size") ∧
    (Facts.Gateway.txpkTags.lookup "Data" = some "data") ∧
    (Facts.Gateway.txpkTags.lookup "Immediate" = some "imme") ∧
    (Facts.Gateway.txpkTags.lookup "LoraInvPol" = some "ipol,omitempty") ∧
    (Facts.Gateway.txpkTags.lookup "EccCoding" = some "codr,omitempty") := by decide

theorem tie_freqTable :
    Facts.Gateway.freqTable = (List.range 8).map (fun c => (c, lookupFrequency c)) ∧
    Facts.Gateway.freqDefault = some (lookupFrequency 8) := by decide

theorem tie_rxDelayMultiplier : Facts.Gateway.rxDelayMultiplier = some 1000000 := by decide

/-- encoder.go sets RX1Delay 5 for a join-accept (first assignment) and 1 for data (second). -/
theorem tie_encoderDelays : Facts.Processor.encoderRx1Delays = [(0, 5), (1, 1)] := by decide

end Tie.Gateway
end LospanVerif
