import LospanVerif.Props.C09All
import LospanVerif.Props.C08
import LospanVerif.Proofs.Circ
/-
  C06, for every event list: whatever payload is handed to the gateway for a device stems from a
  message queued for that device. `emittedPl` records (device, plaintext FRMPayload) of every data
  downlink at the step that hands the frame over. The invariant follows the payload from the outbox
  row (picked by `GetNextUnsentMessage` for the handler's own device) through the output-buffer
  entry of that device and the frame `GetPHYPayloadForDevice` assembles for it to the encoder.
-/
namespace LospanVerif
namespace Props.C06
open Model.Pipeline Model.Phy Props.C09

/-- `x` is (a piece of) a message queued for device `e`. -/
def Own (db : DB) (e : Bytes) (x : Bytes) : Prop := ∃ m ∈ db.outbox, m.dev = e ∧ ∃ pre suf, m.data = pre ++ x ++ suf

theorem own_take {db : DB} {e : Bytes} {x : Bytes} (h : Own db e x) (n : Nat) : Own db e (x.take n) := by
  obtain ⟨m, hm, hd, pre, suf, hx⟩ := h
  refine ⟨m, hm, hd, pre, x.drop n ++ suf, ?_⟩
  rw [hx]
  have : pre ++ x.take n ++ (x.drop n ++ suf) = pre ++ (x.take n ++ x.drop n) ++ suf := by
    simp only [List.append_assoc]
  rw [this, List.take_append_drop]
theorem own_drop {db : DB} {e : Bytes} {x : Bytes} (h : Own db e x) (n : Nat) : Own db e (x.drop n) := by
  obtain ⟨m, hm, hd, pre, suf, hx⟩ := h
  refine ⟨m, hm, hd, pre ++ x.take n, suf, ?_⟩
  rw [hx]
  have : pre ++ x.take n ++ x.drop n ++ suf = pre ++ (x.take n ++ x.drop n) ++ suf := by
    simp only [List.append_assoc]
  rw [this, List.take_append_drop]

/-- The outbox keeps every message's device and bytes: `db'` has a row for every row of `db`. -/
def Keeps (db db' : DB) : Prop := ∀ m ∈ db.outbox, ∃ m' ∈ db'.outbox, m'.dev = m.dev ∧ m'.data = m.data

theorem own_keeps {db db' : DB} (hk : Keeps db db') {e : Bytes} {x : Bytes} (h : Own db e x) : Own db' e x := by
  obtain ⟨m, hm, hd, pre, suf, hx⟩ := h
  obtain ⟨m', hm', hd', hx'⟩ := hk m hm
  exact ⟨m', hm', by rw [hd', hd], pre, suf, by rw [hx', hx]⟩

theorem keeps_refl (db : DB) : Keeps db db := fun m hm => ⟨m, hm, rfl, rfl⟩
theorem keeps_of_outbox {db db' : DB} (h : db'.outbox = db.outbox) : Keeps db db' := by
  intro m hm; exact ⟨m, by rw [h]; exact hm, rfl, rfl⟩
theorem keeps_map (db : DB) (f : OutRow → OutRow) (hf : ∀ m, (f m).dev = m.dev ∧ (f m).data = m.data) :
    Keeps db { db with outbox := db.outbox.map f } := by
  intro m hm; exact ⟨f m, List.mem_map.mpr ⟨m, hm, rfl⟩, (hf m).1, (hf m).2⟩
theorem keeps_ackTime (db : DB) (e : Bytes) (f n : Nat) : Keeps db (db.ackTime e f n) := by
  unfold DB.ackTime; apply keeps_map; intro m; split <;> exact ⟨rfl, rfl⟩
theorem keeps_resetAcks (db : DB) (e : Bytes) : Keeps db (db.resetAcks e) := by
  unfold DB.resetAcks; apply keeps_map; intro m; split <;> exact ⟨rfl, rfl⟩
theorem keeps_setSent (db : DB) (e : Bytes) (c n f : Nat) : Keeps db (db.setSent e c n f) := by
  unfold DB.setSent; apply keeps_map; intro m; split <;> exact ⟨rfl, rfl⟩
theorem keeps_addOutbox (db : DB) (m : OutRow) : Keeps db ((db.addOutbox m).getD db) := by
  unfold DB.addOutbox
  split
  · exact keeps_refl db
  · intro x hx; exact ⟨x, by simp [hx], rfl, rfl⟩

/-- The payload waiting in the output buffer for a device (empty when there is no entry). -/
def pl (fob : List (Bytes × FobEntry)) (e : Bytes) : Bytes := ((fobGet fob e).map (·.payload)).getD []

theorem pl_set_self (fob : List (Bytes × FobEntry)) (e : Bytes) (v : FobEntry) : pl (fobSet fob e v) e = v.payload := by
  simp [pl, fobGet_fobSet]
theorem pl_set_ne (fob : List (Bytes × FobEntry)) (e e' : Bytes) (v : FobEntry) (h : e' ≠ e) : pl (fobSet fob e v) e' = pl fob e' := by
  simp [pl, fobGet_fobSet_ne _ _ _ _ h]
theorem pl_del (fob : List (Bytes × FobEntry)) (e e' : Bytes) : pl (fobDel fob e) e' = if e' = e then [] else pl fob e' := by
  simp only [pl, fobGet_fobDel]
  split <;> simp

theorem pl_setAck (fob : List (Bytes × FobEntry)) (e e' : Bytes) : pl (fobSetAck fob e) e' = pl fob e' := by
  unfold fobSetAck
  by_cases h : e' = e
  · subst h
    rw [pl_set_self]
    unfold pl
    cases fobGet fob e' <;> simp [newEntry]
  · exact pl_set_ne _ _ _ _ h

theorem pl_setPayload (fob : List (Bytes × FobEntry)) (e e' : Bytes) (x : Bytes) (port : Nat) (ack : Bool) :
    pl (fobSetPayload fob e x port ack) e' = if e' = e then x else pl fob e' := by
  unfold fobSetPayload
  by_cases h : e' = e
  · subst h; rw [pl_set_self]; simp
  · rw [pl_set_ne _ _ _ _ h]; simp [h]

theorem pl_setJoinAccept (fob : List (Bytes × FobEntry)) (e e' : Bytes) (ja : JoinAccept) :
    pl (fobSetJoinAccept fob e ja) e' = pl fob e' := by
  unfold fobSetJoinAccept
  by_cases h : e' = e
  · subst h
    cases hg : fobGet fob e' <;> simp [pl, fobGet_fobSet, hg]
  · cases hg : fobGet fob e <;> simp only [] <;> exact pl_set_ne _ _ _ _ h

theorem pl_take_other (fob : List (Bytes × FobEntry)) (d : Device) (dr : String) (e' : Bytes) (h : e' ≠ d.eui) :
    pl (fobTake fob d dr).1 e' = pl fob e' := by
  unfold fobTake
  split
  · rfl
  · simp only []
    split
    · simp [pl_del, h]
    · split
      · split
        · rfl
        · simp only []
          split <;> exact pl_set_ne _ _ _ _ h
      · split <;> exact pl_set_ne _ _ _ _ h

/-- What is taken and what stays are pieces of what was waiting for that device. -/
theorem pl_take_self (fob : List (Bytes × FobEntry)) (d : Device) (dr : String) :
    (∃ k, pl (fobTake fob d dr).1 d.eui = (pl fob d.eui).drop k) ∧
    (∀ p, (fobTake fob d dr).2 = some p → ∃ k, p.mac.frm = (pl fob d.eui).take k) := by
  unfold fobTake
  split
  · rename_i hg
    exact ⟨⟨0, by simp⟩, by intro p hp; cases hp⟩
  · rename_i fd hg
    have hpl : pl fob d.eui = fd.payload := by simp [pl, hg]
    simp only []
    split
    · rename_i hnone
      refine ⟨⟨fd.payload.length, ?_⟩, by intro p hp; cases hp⟩
      rw [hpl]; simp [pl_del]
    · split
      · rename_i hpos
        split
        · exact ⟨⟨0, by simp⟩, by intro p hp; cases hp⟩
        · rename_i mx hmx
          simp only []
          by_cases hlong : fd.payload.length > mx
          · simp only [hlong, if_true]
            constructor
            · refine ⟨mx, ?_⟩
              rw [hpl]
              split <;> simp [pl_set_self]
            · intro p hp
              simp only [Option.some.injEq] at hp
              subst hp
              exact ⟨mx, by rw [hpl]⟩
          · simp only [hlong, if_false]
            constructor
            · refine ⟨fd.payload.length, ?_⟩
              rw [hpl]
              split <;> simp [pl_set_self]
            · intro p hp
              simp only [Option.some.injEq] at hp
              subst hp
              exact ⟨fd.payload.length, by rw [hpl]; simp⟩
      · rename_i hzero
        have hz : fd.payload = [] := by
          cases hfp : fd.payload with
          | nil => rfl
          | cons a b => rw [hfp] at hzero; simp at hzero
        constructor
        · refine ⟨0, ?_⟩
          rw [hpl]
          split <;> simp [pl_set_self, hz]
        · intro p hp
          simp only [Option.some.injEq] at hp
          subst hp
          exact ⟨0, by simp⟩

def payloadOK (db : DB) (e : Bytes) (x : Bytes) : Prop := x = [] ∨ Own db e x

theorem payloadOK_keeps {db db' : DB} (hk : Keeps db db') {e : Bytes} {x : Bytes} (h : payloadOK db e x) : payloadOK db' e x := by
  rcases h with h | h
  · exact Or.inl h
  · exact Or.inr (own_keeps hk h)
theorem payloadOK_take {db : DB} {e : Bytes} {x : Bytes} (h : payloadOK db e x) (n : Nat) : payloadOK db e (x.take n) := by
  rcases h with h | h
  · left; simp [h]
  · exact Or.inr (own_take h n)
theorem payloadOK_drop {db : DB} {e : Bytes} {x : Bytes} (h : payloadOK db e x) (n : Nat) : payloadOK db e (x.drop n) := by
  rcases h with h | h
  · left; simp [h]
  · exact Or.inr (own_drop h n)

/-- What a thread carries towards a downlink stems from the device it works for. -/
def ThreadOK (db : DB) : Thread → Prop
  | .uplink u => ∀ m, u.msg = some m → Own db u.cur.eui m.data
  | .encoder _ p c _ => payloadOK db c.device.eui p.mac.frm
  | _ => True

theorem threadOK_keeps {db db' : DB} (hk : Keeps db db') {t : Thread} (h : ThreadOK db t) : ThreadOK db' t := by
  cases t with
  | uplink u => intro m hm; exact own_keeps hk (h m hm)
  | encoder pc p c b => exact payloadOK_keeps hk h
  | _ => trivial

structure FInv (s : Sys) : Prop where
  fob : ∀ e, payloadOK s.db e (pl s.fob e)
  thr : ∀ t ∈ s.threads, ThreadOK s.db t
  out : ∀ x ∈ s.emittedPl, payloadOK s.db x.1 x.2

/-- The local effect of one thread step, as far as payloads are concerned. -/
structure FStep (sys s' : Sys) (ts : List Thread) : Prop where
  keeps : Keeps sys.db s'.db
  fob : ∀ e, payloadOK s'.db e (pl s'.fob e)
  ts : ∀ t' ∈ ts, ThreadOK s'.db t'
  out : ∀ x ∈ s'.emittedPl, payloadOK s'.db x.1 x.2

theorem fstep_plain {sys s' : Sys} {ts : List Thread} (h : FInv sys) (hk : Keeps sys.db s'.db) (hf : s'.fob = sys.fob)
    (he : s'.emittedPl = sys.emittedPl) (hts : ∀ t' ∈ ts, ThreadOK s'.db t') : FStep sys s' ts :=
  ⟨hk, by intro e; rw [hf]; exact payloadOK_keeps hk (h.fob e), hts, by intro x hx; rw [he] at hx; exact payloadOK_keeps hk (h.out x hx)⟩

theorem outbox_advance {db db' : DB} {e : Bytes} {f : Nat} {kw : Bool} (h : db.advanceFCntUp e f kw = some db') : db'.outbox = db.outbox := by
  unfold DB.advanceFCntUp at h; split at h <;> cases h; rfl
theorem outbox_next {db db' : DB} {e : Bytes} {f : Nat} (h : db.nextFCntDn e = some (db', f)) : db'.outbox = db.outbox := by
  unfold DB.nextFCntDn at h; split at h
  · cases h
  · simp only [Option.some.injEq, Prod.mk.injEq] at h; obtain ⟨rfl, _⟩ := h; rfl
theorem outbox_updateDevice {db db' : DB} {d : Device} (h : db.updateDevice d = some db') : db'.outbox = db.outbox := by
  unfold DB.updateDevice at h; split at h <;> cases h; rfl
theorem outbox_updateState {db db' : DB} {d : Device} (h : db.updateState d = some db') : db'.outbox = db.outbox := by
  unfold DB.updateState at h; split at h <;> cases h; rfl
theorem outbox_addInbox {db db' : DB} {r : InRow} (h : db.addInbox r = some db') : db'.outbox = db.outbox := by
  unfold DB.addInbox at h; split at h <;> cases h; rfl
theorem outbox_addNonce {db db' : DB} {e : Bytes} {n : Nat} (h : db.addNonce e n = some db') : db'.outbox = db.outbox := by
  unfold DB.addNonce at h; split at h <;> cases h; rfl

/-- (B) the uplink handler keeps the outbox rows' devices and bytes. -/
theorem up_keeps (E : Spec.Rfc4493.BlockFn) (sys : Sys) (s : UpSt) (fault : Bool) : Keeps sys.db (stepUplink E sys s fault).1.db := by
  unfold stepUplink
  simp only []
  split
  all_goals (repeat' split)
  all_goals first
    | exact keeps_refl _
    | exact keeps_ackTime _ _ _ _
    | exact keeps_resetAcks _ _
    | exact keeps_setSent _ _ _ _ _
    | (rename_i hh; exact keeps_of_outbox (outbox_advance hh))
    | (rename_i hh _; exact keeps_of_outbox (outbox_advance hh))
    | (rename_i hh; exact keeps_of_outbox (outbox_addInbox hh))
    | (rename_i hh _; exact keeps_of_outbox (outbox_addInbox hh))

/-- (D) it emits nothing. -/
theorem up_out (E : Spec.Rfc4493.BlockFn) (sys : Sys) (s : UpSt) (fault : Bool) : (stepUplink E sys s fault).1.emittedPl = sys.emittedPl := by
  unfold stepUplink
  simp only []
  split
  all_goals (repeat' split)
  all_goals rfl

/-- (C) the only buffer payload it writes is the message it picked, for the device it works for. -/
theorem up_fob (E : Spec.Rfc4493.BlockFn) (sys : Sys) (s : UpSt) (fault : Bool) (e : Bytes) :
    pl (stepUplink E sys s fault).1.fob e = pl sys.fob e ∨
    ∃ m, s.msg = some m ∧ e = s.cur.eui ∧ pl (stepUplink E sys s fault).1.fob e = m.data := by
  unfold stepUplink
  simp only []
  split
  all_goals (repeat' split)
  all_goals first
    | exact Or.inl rfl
    | exact Or.inl (pl_setAck _ _ _)
    | skip
  · rename_i m hm
    by_cases he : e = s.cur.eui
    · right
      refine ⟨m, hm, he, ?_⟩
      simp only [pl_setPayload, he, if_true]
    · left
      simp only [pl_setPayload, he, if_false]

/-- (A) every handler thread that comes out carries either no message, the message this thread
    already carried for the same device, or a message it just picked from that device's queue. -/
theorem up_threads (E : Spec.Rfc4493.BlockFn) (sys : Sys) (s : UpSt) (fault : Bool) (hs : ThreadOK sys.db (.uplink s)) :
    ∀ t' ∈ (stepUplink E sys s fault).2, ThreadOK sys.db t' := by
  unfold stepUplink
  simp only []
  split
  all_goals (repeat' split)
  all_goals first
    | (intro t' ht'; simp only [List.mem_cons, List.mem_singleton, List.mem_append, List.not_mem_nil, or_false] at ht';
       rcases ht' with rfl | rfl | rfl <;> first | trivial | exact hs | (intro m hm; cases hm))
    | skip
  · -- the message just picked from the device's queue
    intro t' ht'
    simp only [List.mem_singleton] at ht'
    subst ht'
    intro m hm
    simp only at hm
    obtain ⟨h1, h2, _⟩ := Props.C08.C08_only_unsent_transmitted sys.db s.cur.eui m hm
    exact ⟨m, h1, h2, [], [], by simp⟩

theorem fstep_uplink (E : Spec.Rfc4493.BlockFn) (sys : Sys) (s : UpSt) (fault : Bool) (h : FInv sys) (hs : ThreadOK sys.db (.uplink s)) :
    FStep sys (stepUplink E sys s fault).1 (stepUplink E sys s fault).2 := by
  have hk := up_keeps E sys s fault
  refine ⟨hk, ?_, ?_, ?_⟩
  · intro e
    rcases up_fob E sys s fault e with he | ⟨m, hm, he, hpl⟩
    · rw [he]; exact payloadOK_keeps hk (h.fob e)
    · rw [hpl, he]; exact Or.inr (own_keeps hk (hs m hm))
  · intro t' ht'; exact threadOK_keeps hk (up_threads E sys s fault hs t' ht')
  · intro x hx; rw [up_out] at hx; exact payloadOK_keeps hk (h.out x hx)

/-! join handler -/

theorem jn_keeps (E : Spec.Rfc4493.BlockFn) (cfg : Config) (sys : Sys) (s : JoinSt) (fault : Bool) : Keeps sys.db (stepJoin E cfg sys s fault).1.db := by
  unfold stepJoin
  simp only []
  split
  all_goals (repeat' split)
  all_goals first
    | exact keeps_refl _
    | (rename_i hh; exact keeps_of_outbox (outbox_addNonce hh))
    | (rename_i hh _; exact keeps_of_outbox (outbox_updateDevice hh))
    | (rename_i hh _ _; exact keeps_of_outbox (outbox_updateDevice hh))
    | (rename_i hh; exact keeps_of_outbox (outbox_updateDevice hh))

theorem jn_fob (E : Spec.Rfc4493.BlockFn) (cfg : Config) (sys : Sys) (s : JoinSt) (fault : Bool) (e : Bytes) :
    pl (stepJoin E cfg sys s fault).1.fob e = pl sys.fob e := by
  unfold stepJoin
  simp only []
  split
  all_goals (repeat' split)
  all_goals first
    | rfl
    | exact pl_setJoinAccept _ _ _ _

theorem jn_out (E : Spec.Rfc4493.BlockFn) (cfg : Config) (sys : Sys) (s : JoinSt) (fault : Bool) :
    (stepJoin E cfg sys s fault).1.emittedPl = sys.emittedPl := by
  unfold stepJoin
  simp only []
  split
  all_goals (repeat' split)
  all_goals rfl

theorem jn_threads (E : Spec.Rfc4493.BlockFn) (cfg : Config) (sys : Sys) (s : JoinSt) (fault : Bool) (db : DB) :
    ∀ t' ∈ (stepJoin E cfg sys s fault).2, ThreadOK db t' := by
  unfold stepJoin
  simp only []
  split
  all_goals (repeat' split)
  all_goals (intro t' ht'; simp only [List.mem_cons, List.mem_singleton, List.not_mem_nil, or_false] at ht';
             rcases ht' with rfl | rfl <;> trivial)

theorem fstep_join (E : Spec.Rfc4493.BlockFn) (cfg : Config) (sys : Sys) (s : JoinSt) (fault : Bool) (h : FInv sys) :
    FStep sys (stepJoin E cfg sys s fault).1 (stepJoin E cfg sys s fault).2 := by
  have hk := jn_keeps E cfg sys s fault
  refine ⟨hk, ?_, jn_threads E cfg sys s fault _, ?_⟩
  · intro e; rw [jn_fob]; exact payloadOK_keeps hk (h.fob e)
  · intro x hx; rw [jn_out] at hx; exact payloadOK_keeps hk (h.out x hx)

/-! encoder -/

theorem en_keeps (E D : Spec.Rfc4493.BlockFn) (sys : Sys) (pc : Nat) (p : PHY) (c : Ctx) (b : Bytes) (fault : Bool) :
    Keeps sys.db (stepEncoder E D sys pc p c b fault).1.db := by
  unfold stepEncoder
  simp only []
  repeat' split
  all_goals first
    | exact keeps_refl _
    | exact keeps_setSent _ _ _ _ _
    | (rename_i hh _ _ _; exact keeps_of_outbox (outbox_updateState hh))
    | (rename_i hh _ _; exact keeps_of_outbox (outbox_updateState hh))
    | (rename_i hh _ _ _ _; exact keeps_of_outbox (outbox_next hh))
    | (rename_i hh _ _ _; exact keeps_of_outbox (outbox_next hh))
    | (rename_i hh _ _; exact keeps_of_outbox (outbox_next hh))

theorem en_fob (E D : Spec.Rfc4493.BlockFn) (sys : Sys) (pc : Nat) (p : PHY) (c : Ctx) (b : Bytes) (fault : Bool) :
    (stepEncoder E D sys pc p c b fault).1.fob = sys.fob := by
  unfold stepEncoder
  simp only []
  repeat' split
  all_goals rfl

theorem en_out (E D : Spec.Rfc4493.BlockFn) (sys : Sys) (pc : Nat) (p : PHY) (c : Ctx) (b : Bytes) (fault : Bool) :
    (stepEncoder E D sys pc p c b fault).1.emittedPl = sys.emittedPl ∨
    (stepEncoder E D sys pc p c b fault).1.emittedPl = sys.emittedPl ++ [(c.device.eui, p.mac.frm)] := by
  unfold stepEncoder
  simp only []
  repeat' split
  all_goals first
    | exact Or.inl rfl
    | exact Or.inr rfl

theorem en_threads (E D : Spec.Rfc4493.BlockFn) (sys : Sys) (pc : Nat) (p : PHY) (c : Ctx) (b : Bytes) (fault : Bool)
    (hs : ThreadOK sys.db (.encoder pc p c b)) : ∀ t' ∈ (stepEncoder E D sys pc p c b fault).2, ThreadOK sys.db t' := by
  unfold stepEncoder
  simp only []
  repeat' split
  all_goals (intro t' ht'; simp only [List.mem_cons, List.mem_singleton, List.not_mem_nil, or_false] at ht';
             rcases ht' with rfl | rfl <;> first | trivial | exact hs)

theorem fstep_encoder (E D : Spec.Rfc4493.BlockFn) (sys : Sys) (pc : Nat) (p : PHY) (c : Ctx) (b : Bytes) (fault : Bool)
    (h : FInv sys) (hs : ThreadOK sys.db (.encoder pc p c b)) :
    FStep sys (stepEncoder E D sys pc p c b fault).1 (stepEncoder E D sys pc p c b fault).2 := by
  have hk := en_keeps E D sys pc p c b fault
  refine ⟨hk, ?_, ?_, ?_⟩
  · intro e; rw [en_fob]; exact payloadOK_keeps hk (h.fob e)
  · intro t' ht'; exact threadOK_keeps hk (en_threads E D sys pc p c b fault hs t' ht')
  · intro x hx
    rcases en_out E D sys pc p c b fault with he | he
    · rw [he] at hx; exact payloadOK_keeps hk (h.out x hx)
    · rw [he] at hx
      rcases List.mem_append.mp hx with hx | hx
      · exact payloadOK_keeps hk (h.out x hx)
      · simp only [List.mem_singleton] at hx
        subst hx
        exact payloadOK_keeps hk hs

/-! sendAt -/

theorem fstep_sendAt (sys : Sys) (c : Ctx) (h : FInv sys) : FStep sys (stepSendAt sys c).1 (stepSendAt sys c).2 := by
  obtain ⟨⟨k, hk⟩, hfrm⟩ := pl_take_self sys.fob c.device c.gw.dataRate
  have hfob : ∀ e, payloadOK sys.db e (pl (fobTake sys.fob c.device c.gw.dataRate).1 e) := by
    intro e
    by_cases he : e = c.device.eui
    · subst he; rw [hk]; exact payloadOK_drop (h.fob _) k
    · rw [pl_take_other _ _ _ _ he]; exact h.fob e
  unfold stepSendAt
  split
  · rename_i p hp
    obtain ⟨k', hk'⟩ := hfrm p hp
    refine ⟨keeps_refl _, hfob, ?_, h.out⟩
    intro t' ht'
    simp only [List.mem_cons, List.mem_singleton, List.not_mem_nil, or_false] at ht'
    rcases ht' with rfl | rfl
    · trivial
    · show payloadOK sys.db c.device.eui p.mac.frm
      rw [hk']; exact payloadOK_take (h.fob _) k'
  · refine ⟨keeps_refl _, hfob, ?_, h.out⟩
    intro t' ht'
    simp only [List.mem_singleton] at ht'
    subst ht'; trivial

/-! every step, every event list -/

theorem finv_after (sys s' : Sys) (i : Nat) (t t0 : Thread) (more : List Thread) (h : FInv sys)
    (hth : s'.threads = sys.threads) (hs : FStep sys s' (t0 :: more)) :
    FInv { s' with threads := replaceAt s'.threads i t0 ++ more } := by
  refine ⟨hs.fob, ?_, hs.out⟩
  intro t' ht'
  rcases List.mem_append.mp ht' with ht' | ht'
  · rw [hth] at ht'
    rcases List.mem_or_eq_of_mem_set ht' with hm | rfl
    · exact threadOK_keeps hs.keeps (h.thr t' hm)
    · exact hs.ts _ List.mem_cons_self
  · exact hs.ts _ (List.mem_cons_of_mem _ ht')

theorem finv_step (E D : Spec.Rfc4493.BlockFn) (cfg : Config) (sys : Sys) (i : Nat) (fault : Bool) (h : FInv sys) :
    FInv (step E D cfg sys i fault) := by
  unfold step
  split
  · exact h
  · rename_i t hi
    have hmem : t ∈ sys.threads := List.mem_of_getElem? hi
    have hok := h.thr t hmem
    have key : ∀ (r : Sys × List Thread), FStep sys r.1 r.2 → r.1.threads = sys.threads →
        FInv (match r.2 with
          | [] => { r.1 with threads := replaceAt r.1.threads i .done }
          | t0 :: more => { r.1 with threads := replaceAt r.1.threads i t0 ++ more }) := by
      intro r hr hth
      split
      · rename_i hnil
        have hr' : FStep sys r.1 [.done] := ⟨hr.keeps, hr.fob, by intro t' ht'; simp at ht'; subst ht'; trivial, hr.out⟩
        have := finv_after sys r.1 i t .done [] h hth hr'
        simpa using this
      · rename_i t0 more hcons
        rw [hcons] at hr
        exact finv_after sys r.1 i t t0 more h hth hr
    cases t with
    | uplink s => exact key _ (fstep_uplink E sys s fault h hok) (Proofs.Circ.threads_stepUplink E sys s fault)
    | join s => exact key _ (fstep_join E cfg sys s fault h) (Proofs.Circ.threads_stepJoin E cfg sys s fault)
    | notify p c =>
      refine key (stepNotify sys c) ?_ ?_
      · unfold stepNotify
        split
        · exact fstep_plain h (keeps_refl _) rfl rfl (by intro t' ht'; simp at ht'; subst ht'; trivial)
        · exact fstep_plain h (keeps_refl _) rfl rfl (by intro t' ht'; simp at ht'; subst ht'; trivial)
      · unfold stepNotify; split <;> rfl
    | sendAt c =>
      refine key (stepSendAt sys c) (fstep_sendAt sys c h) ?_
      unfold stepSendAt; split <;> rfl
    | sendDone e =>
      exact key (stepSendDone sys e) (fstep_plain h (keeps_refl _) rfl rfl (by intro t' ht'; simp [stepSendDone] at ht'; subst ht'; trivial)) rfl
    | encoder pc p c b => exact key _ (fstep_encoder E D sys pc p c b fault h hok) (Proofs.Circ.threads_stepEncoder E D sys pc p c b fault)
    | done => exact key (sys, [.done]) (fstep_plain h (keeps_refl _) rfl rfl (by intro t' ht'; simp at ht'; subst ht'; trivial)) rfl

theorem finv_settle (E D : Spec.Rfc4493.BlockFn) (cfg : Config) (fuel : Nat) (sys : Sys) (h : FInv sys) :
    FInv (settle E D cfg fuel sys) := by
  induction fuel generalizing sys with
  | zero => exact h
  | succ n ih =>
    unfold settle
    split
    · exact ⟨h.fob, (by intro t' ht'; cases ht'), h.out⟩
    · exact ih _ (finv_step E D cfg sys _ false h)

theorem finv_apply (E D : Spec.Rfc4493.BlockFn) (cfg : Config) (sys : Sys) (ev : Event) (h : FInv sys) :
    FInv (apply E D cfg sys ev) := by
  cases ev with
  | deliver raw gw an na =>
    simp only [apply]
    split
    · rename_i t ht
      refine ⟨h.fob, ?_, h.out⟩
      intro t' ht'
      rcases List.mem_append.mp ht' with hm | hm
      · exact h.thr t' hm
      · simp only [List.mem_singleton] at hm
        subst hm
        unfold spawn at ht
        split at ht
        · split at ht
          · cases ht; trivial
          · cases ht; intro m hm; cases hm
        · cases ht
    · exact h
  | submit m =>
    have hk := keeps_addOutbox sys.db m
    exact ⟨fun e => payloadOK_keeps hk (h.fob e), fun t' ht' => threadOK_keeps hk (h.thr t' ht'),
           fun x hx => payloadOK_keeps hk (h.out x hx)⟩
  | stepT i f => exact finv_step E D cfg sys i f h
  | quiesce => exact finv_settle E D cfg 200 sys h
  | crash => exact ⟨(by intro e; left; rfl), (by intro t' ht'; cases ht'), h.out⟩

theorem finv_run (E D : Spec.Rfc4493.BlockFn) (cfg : Config) (sys : Sys) (evs : List Event) (h : FInv sys) :
    FInv (run E D cfg sys evs) := by
  induction evs generalizing sys with
  | nil => exact h
  | cons ev rest ih => exact ih _ (finv_apply E D cfg sys ev h)

theorem finv_init (db : DB) : FInv (Sys.init db) :=
  ⟨(by intro e; left; rfl), (by intro t ht; cases ht), (by intro x hx; cases hx)⟩

/-- **All schedules.** Every payload handed to the gateway for a device is (a piece, when the
    message is longer than the data rate allows, of) a message queued for *that* device — for every
    event list: all interleavings of handlers, scheduler, sendAt and encoders of any number of
    devices, faults and crashes. No device ever receives data queued for another device. -/
theorem C06_payload_from_own_queue (E D : Spec.Rfc4493.BlockFn) (cfg : Config) (db : DB) (evs : List Event)
    (e : Bytes) (x : Bytes) (hx : (e, x) ∈ (run E D cfg (Sys.init db) evs).emittedPl) (hne : x ≠ []) :
    ∃ m ∈ (run E D cfg (Sys.init db) evs).db.outbox, m.dev = e ∧ ∃ pre suf, m.data = pre ++ x ++ suf := by
  rcases (finv_run E D cfg _ evs (finv_init db)).out (e, x) hx with h | h
  · exact absurd h hne
  · exact h

end Props.C06
end LospanVerif
