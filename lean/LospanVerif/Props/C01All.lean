import LospanVerif.Props.C01
import LospanVerif.Proofs.Circ
/-
  C01, for every event list: the handlers that can have an effect carry authentic frames.
-/
namespace LospanVerif
namespace Props.C01
open Model.Pipeline Model.Phy

/-- Authenticity of the frame a handler carries for a device copy: address, established key, MIC
    over exactly the received octets. -/
def authKey (E : Spec.Rfc4493.BlockFn) (p : PHY) (raw : Bytes) (d : Device) : Prop :=
  d.devAddr = p.mac.fhdr.devAddr.toUint32 ∧ isZeroKey d.nwkSKey = false ∧
  calculateMIC E d.nwkSKey p (raw.take (raw.length - 4)) = p.mic

/-- What a handler past the matching step knows about its frame. -/
def AuthLocal (E : Spec.Rfc4493.BlockFn) (u : UpSt) : Prop :=
  (u.p.mhdr.mtype = mtUnconfirmedDataUp ∨ u.p.mhdr.mtype = mtConfirmedDataUp) ∧
  authKey E u.p u.raw u.cur ∧ ∀ d ∈ u.todo, authKey E u.p u.raw d

theorem matching_auth (E : Spec.Rfc4493.BlockFn) (devs : List Device) (p : PHY) (raw : Bytes) (addr : Nat)
    (haddr : addr = p.mac.fhdr.devAddr.toUint32) :
    ∀ d ∈ matching E (devs.filter (·.devAddr == addr)) p raw, authKey E p raw d := by
  intro d hd
  simp only [matching, List.mem_filter, Bool.and_eq_true, Bool.not_eq_true', beq_iff_eq] at hd
  obtain ⟨⟨_, ha⟩, hz, hm⟩ := hd
  exact ⟨by rw [ha, haddr], by simpa [isZeroKey] using hz, hm⟩

theorem auth_congr {E : Spec.Rfc4493.BlockFn} {u u' : UpSt} (h : AuthLocal E u) (hp : u'.p = u.p) (hr : u'.raw = u.raw)
    (ha : u'.cur.devAddr = u.cur.devAddr) (hk : u'.cur.nwkSKey = u.cur.nwkSKey) (ht : u'.todo = u.todo) : AuthLocal E u' := by
  obtain ⟨h1, h2, h3⟩ := h
  refine ⟨by rw [hp]; exact h1, ?_, ?_⟩
  · unfold authKey at h2 ⊢; rw [hp, hr, ha, hk]; exact h2
  · intro d hd; rw [ht] at hd; have := h3 d hd; unfold authKey at this ⊢; rw [hp, hr]; exact this

theorem auth_next {E : Spec.Rfc4493.BlockFn} {u u' : UpSt} {d : Device} {rest : List Device} (h : AuthLocal E u) (htodo : u.todo = d :: rest)
    (hp : u'.p = u.p) (hr : u'.raw = u.raw) (hc : u'.cur = d) (ht : u'.todo = rest) : AuthLocal E u' := by
  obtain ⟨h1, _, h3⟩ := h
  refine ⟨by rw [hp]; exact h1, ?_, ?_⟩
  · have := h3 d (by rw [htodo]; exact List.mem_cons_self)
    unfold authKey at this ⊢; rw [hp, hr, hc]; exact this
  · intro x hx
    have := h3 x (by rw [htodo]; exact List.mem_cons_of_mem _ (by rw [← ht]; exact hx))
    unfold authKey at this ⊢; rw [hp, hr]; exact this

theorem auth_stepUplink (E : Spec.Rfc4493.BlockFn) (sys : Sys) (u : UpSt) (fault : Bool) (h : 1 ≤ u.pc → AuthLocal E u) :
    ∀ t' ∈ (stepUplink E sys u fault).2, ∀ u', t' = .uplink u' → 1 ≤ u'.pc → AuthLocal E u' := by
  unfold stepUplink
  simp only []
  split
  all_goals (repeat' split)
  all_goals first
    | (intro t' ht' u' hu' hpc
       simp only [List.mem_cons, List.mem_singleton, List.mem_append, List.not_mem_nil, or_false] at ht'
       rcases ht' with rfl | rfl | rfl <;>
         (cases hu' <;> first
           | exact auth_congr (h (by omega)) rfl rfl rfl rfl rfl
           | exact auth_next (h (by omega)) (by assumption) rfl rfl rfl rfl))
    | skip
  · -- the matching step: every matching device verifies the frame
    rename_i hmt _ _ _ d rest hm
    intro t' ht' u' hu' hpc
    simp only [List.mem_singleton] at ht'
    subst ht'
    cases hu'
    have hall := matching_auth E sys.db.devices u.p u.raw _ rfl
    have hmt' : u.p.mhdr.mtype = mtUnconfirmedDataUp ∨ u.p.mhdr.mtype = mtConfirmedDataUp := by
      by_cases h1 : u.p.mhdr.mtype = mtUnconfirmedDataUp
      · exact Or.inl h1
      · by_cases h2 : u.p.mhdr.mtype = mtConfirmedDataUp
        · exact Or.inr h2
        · exact absurd ⟨h1, h2⟩ hmt
    refine ⟨hmt', hall d ?_, fun x hx => hall x ?_⟩
    · show d ∈ matching E (sys.db.byAddr u.p.mac.fhdr.devAddr.toUint32) u.p u.raw
      rw [hm]; exact List.mem_cons_self
    · show x ∈ matching E (sys.db.byAddr u.p.mac.fhdr.devAddr.toUint32) u.p u.raw
      rw [hm]; exact List.mem_cons_of_mem _ hx
  · rename_i h0 _ _ _ _ _ _ _ _ _ d rest htodo
    intro t' ht' u' hu' hpc
    simp only [List.mem_cons, List.mem_singleton, List.mem_append, List.not_mem_nil, or_false] at ht'
    have h1 : 1 ≤ u.pc := by
      rcases Nat.eq_zero_or_pos u.pc with hz | hz
      · exact absurd hz h0
      · exact hz
    rcases ht' with rfl | rfl
    · cases hu'
      exact auth_next (h h1) htodo rfl rfl rfl rfl
    · cases hu'

/-- Every handler in the pool that is past the matching step carries a frame that is authentic
    for the device copy it works on (and for the copies still to be processed). -/
def TAuth (E : Spec.Rfc4493.BlockFn) (s : Sys) : Prop :=
  ∀ t ∈ s.threads, ∀ u, t = .uplink u → 1 ≤ u.pc → AuthLocal E u

theorem not_uplink_join (E : Spec.Rfc4493.BlockFn) (cfg : Config) (sys : Sys) (s : JoinSt) (fault : Bool) :
    ∀ t' ∈ (stepJoin E cfg sys s fault).2, ∀ u', t' ≠ .uplink u' := by
  unfold stepJoin
  simp only []
  split
  all_goals (repeat' split)
  all_goals (intro t' ht' u' hu'; simp only [List.mem_cons, List.mem_singleton, List.not_mem_nil, or_false] at ht';
             rcases ht' with rfl | rfl <;> cases hu')

theorem not_uplink_encoder (E D : Spec.Rfc4493.BlockFn) (sys : Sys) (pc : Nat) (p : PHY) (c : Ctx) (b : Bytes) (fault : Bool) :
    ∀ t' ∈ (stepEncoder E D sys pc p c b fault).2, ∀ u', t' ≠ .uplink u' := by
  unfold stepEncoder
  simp only []
  repeat' split
  all_goals (intro t' ht' u' hu'; simp only [List.mem_cons, List.mem_singleton, List.not_mem_nil, or_false] at ht';
             rcases ht' with rfl | rfl <;> cases hu')

theorem tauth_step (E D : Spec.Rfc4493.BlockFn) (cfg : Config) (sys : Sys) (i : Nat) (fault : Bool) (h : TAuth E sys) :
    TAuth E (step E D cfg sys i fault) := by
  unfold step
  split
  · exact h
  · rename_i t hi
    have hmem : t ∈ sys.threads := List.mem_of_getElem? hi
    have key : ∀ (r : Sys × List Thread), (∀ t' ∈ r.2, ∀ u', t' = .uplink u' → 1 ≤ u'.pc → AuthLocal E u') → r.1.threads = sys.threads →
        TAuth E (match r.2 with
          | [] => { r.1 with threads := replaceAt r.1.threads i .done }
          | t0 :: more => { r.1 with threads := replaceAt r.1.threads i t0 ++ more }) := by
      intro r hr hth
      split
      · intro t' ht' u' hu' hpc
        simp only [replaceAt, hth] at ht'
        rcases List.mem_or_eq_of_mem_set ht' with hm | rfl
        · exact h t' hm u' hu' hpc
        · cases hu'
      · rename_i t0 more hcons
        intro t' ht' u' hu' hpc
        simp only [replaceAt, hth] at ht'
        rcases List.mem_append.mp ht' with ht' | ht'
        · rcases List.mem_or_eq_of_mem_set ht' with hm | rfl
          · exact h t' hm u' hu' hpc
          · exact hr _ (by rw [hcons]; exact List.mem_cons_self) u' hu' hpc
        · exact hr _ (by rw [hcons]; exact List.mem_cons_of_mem _ ht') u' hu' hpc
    have none_up : ∀ (r : Sys × List Thread), (∀ t' ∈ r.2, ∀ u', t' ≠ .uplink u') →
        (∀ t' ∈ r.2, ∀ u', t' = .uplink u' → 1 ≤ u'.pc → AuthLocal E u') :=
      fun r hr t' ht' u' hu' _ => absurd hu' (hr t' ht' u')
    cases t with
    | uplink s => exact key _ (auth_stepUplink E sys s fault (fun hpc => h _ hmem s rfl hpc)) (Proofs.Circ.threads_stepUplink E sys s fault)
    | join s => exact key _ (none_up _ (not_uplink_join E cfg sys s fault)) (Proofs.Circ.threads_stepJoin E cfg sys s fault)
    | notify p c =>
      refine key (stepNotify sys c) (none_up _ ?_) ?_
      · unfold stepNotify; split <;> (intro t' ht' u' hu'; simp at ht'; subst ht'; cases hu')
      · unfold stepNotify; split <;> rfl
    | sendAt c =>
      refine key (stepSendAt sys c) (none_up _ ?_) ?_
      · unfold stepSendAt
        split <;> (intro t' ht' u' hu'; simp at ht'; rcases ht' with rfl | rfl <;> cases hu')
      · unfold stepSendAt; split <;> rfl
    | sendDone e =>
      exact key (stepSendDone sys e) (none_up _ (by intro t' ht' u' hu'; simp [stepSendDone] at ht'; subst ht'; cases hu')) rfl
    | encoder pc p c b => exact key _ (none_up _ (not_uplink_encoder E D sys pc p c b fault)) (Proofs.Circ.threads_stepEncoder E D sys pc p c b fault)
    | done => exact key (sys, [.done]) (none_up _ (by intro t' ht' u' hu'; simp at ht'; subst ht'; cases hu')) rfl

theorem tauth_settle (E D : Spec.Rfc4493.BlockFn) (cfg : Config) (fuel : Nat) (sys : Sys) (h : TAuth E sys) :
    TAuth E (settle E D cfg fuel sys) := by
  induction fuel generalizing sys with
  | zero => exact h
  | succ n ih =>
    unfold settle
    split
    · intro t ht; cases ht
    · exact ih _ (tauth_step E D cfg sys _ false h)

theorem tauth_apply (E D : Spec.Rfc4493.BlockFn) (cfg : Config) (sys : Sys) (ev : Event) (h : TAuth E sys) :
    TAuth E (apply E D cfg sys ev) := by
  cases ev with
  | deliver raw gw an na =>
    simp only [apply]
    split
    · rename_i t ht
      intro t' ht' u' hu' hpc
      rcases List.mem_append.mp ht' with hm | hm
      · exact h t' hm u' hu' hpc
      · simp only [List.mem_singleton] at hm
        subst hm
        unfold spawn at ht
        split at ht
        · split at ht
          · cases ht; cases hu'
          · cases ht; cases hu'; simp at hpc
        · cases ht
    · exact h
  | submit m => exact h
  | stepT i f => exact tauth_step E D cfg sys i f h
  | quiesce => exact tauth_settle E D cfg 200 sys h
  | crash => intro t ht; cases ht

/-- **All schedules.** For every event list — every interleaving of any number of frames, faults and
    crashes — each handler that is past the matching step (the only ones that touch counters, the
    inbox, the queues or the output buffer: the matching step itself changes nothing,
    `C01_processes_only_authentic`) works on an uplink data frame whose MIC verifies, over exactly the
    received octets, under the established network session key of the device copy it processes,
    at the frame's address. -/
theorem C01_handlers_authentic (E D : Spec.Rfc4493.BlockFn) (cfg : Config) (db : DB) (evs : List Event) :
    TAuth E (run E D cfg (Sys.init db) evs) := by
  have : ∀ (sys : Sys), TAuth E sys → TAuth E (run E D cfg sys evs) := by
    induction evs with
    | nil => intro sys h; exact h
    | cons ev rest ih => intro sys h; exact ih _ (tauth_apply E D cfg sys ev h)
  exact this _ (by intro t ht; cases ht)

end Props.C01
end LospanVerif
