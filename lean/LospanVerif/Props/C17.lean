import LospanVerif.Model.Gateway
/-
  C17 — downlinks are scheduled into RX1 on the right gateway: one PULL_RESP to the uplink's host
  and the source port of that gateway's most recent PULL_DATA; tmst = uplink clock + delay·10⁶
  modulo 2³², always present; frequency, data rate, polarity, size and data as prescribed.
-/
namespace LospanVerif
namespace Props.C17
open Model.Gateway

/-- The txpk record the protocol text prescribes for a downlink (written independently of `emit`). -/
def specTxpk (clock delaySeconds : Nat) (freq datr : String) (raw : Bytes) : Txpk :=
  { imme := false, tmst := (clock + delaySeconds * 1000000) % 2 ^ 32, tmstPresent := true, freq := freq, rfch := 0,
    modu := "LORA", datr := datr, codr := "4/5", ipol := true, size := raw.length, data := raw }

theorem C17_pull_resp (s : State) (dl : Downlink) :
    (emit s dl).1.identifier = idPullResp ∧ (emit s dl).1.host = dl.gwHost ∧
    (emit s dl).1.port = s.getPort dl.gwEUI ∧ (emit s dl).1.version = dl.version ∧
    (emit s dl).2 = specTxpk dl.gwClock dl.rx1Delay dl.freq dl.datr dl.raw := by
  refine ⟨rfl, rfl, rfl, rfl, ?_⟩
  simp only [emit, specTxpk]
  congr 1
  rw [Nat.mul_comm]

/-- The timestamp wraps modulo 2³² and is present for every clock, including the ones that wrap to 0. -/
theorem C17_tmst_present (s : State) (dl : Downlink) : (emit s dl).2.tmstPresent = true ∧ (emit s dl).2.tmst < 2 ^ 32 := by
  constructor
  · rfl
  · simp only [emit]; omega

theorem getPort_setPort_same (s : State) (e : Bytes) (p : Nat) : (s.setPort e p).getPort e = p := by
  simp [State.setPort, State.getPort]

theorem getPort_setPort_other (s : State) (e e' : Bytes) (p : Nat) (h : e' ≠ e) : (s.setPort e p).getPort e' = s.getPort e' := by
  simp only [State.setPort, State.getPort, List.find?_cons]
  have : ((e, p).1 == e') = false := by simp; exact fun h' => h h'.symm
  rw [this]
  simp only []
  congr 2
  induction s.pullPorts with
  | nil => rfl
  | cons x xs ih =>
    simp only [List.filter_cons]
    by_cases hx : x.1 = e
    · have hx' : (x.1 != e) = false := by simp [hx]
      have hx'' : (x.1 == e') = false := by simp [hx]; exact fun h' => h h'.symm
      simp only [hx', List.find?_cons, hx'']
      exact ih
    · have hx' : (x.1 != e) = true := by simp [hx]
      simp only [hx', if_true, List.find?_cons]
      split
      · rfl
      · exact ih

/-- The port of gateway `e` after any sequence of datagrams is the source port of its most recent
    PULL_DATA (0 if it never sent one), whatever else arrives in between and whatever the registry. -/
def lastPullPort (e : Bytes) : List Datagram → Nat → Nat
  | [], acc => acc
  | d :: rest, acc => lastPullPort e rest (if d.pkt.identifier = idPullData ∧ d.pkt.eui = e then d.port else acc)

theorem C17_latest_port (off : Bool) (reg : Bytes → Option GwReg) (e : Bytes) (ds : List Datagram) :
    ∀ s : State, (ds.foldl (fun st d => (step off reg st d).1) s).getPort e = lastPullPort e ds (s.getPort e) := by
  induction ds with
  | nil => intro s; rfl
  | cons d rest ih =>
    intro s
    simp only [List.foldl_cons, lastPullPort]
    rw [ih]
    congr 1
    unfold step
    by_cases hp : d.pkt.identifier = idPullData
    · simp only [hp, if_true, true_and]
      by_cases he : d.pkt.eui = e
      · subst he; simp [getPort_setPort_same]
      · rw [if_neg he]; exact getPort_setPort_other s d.pkt.eui e d.port (fun h => he h.symm)
    · simp only [hp, if_false, false_and]
      repeat' split
      all_goals rfl

/-- Non-vacuity / the repaired witness: clock 4293967296-… wraps to exactly 0 and is still present. -/
example : (emit ⟨[]⟩ ⟨[1#8], "868.1", "SF7BW125", 1, zeros 8, "h", 4293967296, 2⟩).2.tmst = 0 ∧
          (emit ⟨[]⟩ ⟨[1#8], "868.1", "SF7BW125", 1, zeros 8, "h", 4293967296, 2⟩).2.tmstPresent = true := by decide

end Props.C17
end LospanVerif
