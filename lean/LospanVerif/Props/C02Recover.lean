import LospanVerif.Props.C02
import LospanVerif.Props.C12Enc
/-
  C02, end to end at the codec level: a frame built by a conformant device, once accepted by the
  library's decoder, verifies and decrypts to the device's plaintext.
-/
namespace LospanVerif
namespace Props.C02
open Model.Phy Model.Mac Props.C12Enc

theorem unmarshal_mtype (bs : Bytes) (p : PHY) (h : unmarshal bs = .ok p) : p.mhdr.mtype = (bs.getD 0 0#8).toNat / 32 := by
  unfold unmarshal at h
  split at h
  · cases h
  · rename_i hlen
    simp only [minimumMessageSize, Nat.not_lt] at hlen
    obtain ⟨⟨mh, pos⟩, h1, h⟩ := bind_eq_ok h
    have hmh : mh.mtype = (bs.getD 0 0#8).toNat / 32 := by
      unfold MHDR.decode at h1
      rw [Proofs.Phy.idx_lt bs 0 (by omega)] at h1
      simp only [Res.bind_ok] at h1
      split at h1
      · cases h1
      · cases h1
        exact Proofs.Phy.mtype_bits _
    simp only [] at h
    split at h
    · obtain ⟨⟨m, _⟩, _, h⟩ := bind_eq_ok h
      cases h; exact hmh
    · split at h
      · obtain ⟨⟨j, _⟩, _, h⟩ := bind_eq_ok h
        cases h; exact hmh
      · split at h
        · obtain ⟨⟨j, _⟩, _, h⟩ := bind_eq_ok h
          cases h; exact hmh
        · cases h

theorem cmac_len (E : Spec.Rfc4493.BlockFn) (hE : ∀ k b, (E k b).length = 16) (k m : Bytes) : (Spec.Rfc4493.cmac E k m).length = 16 := by
  simp only [Spec.Rfc4493.cmac]; exact hE _ _

theorem keyStream_len (E : Spec.Rfc4493.BlockFn) (hE : ∀ k b, (E k b).length = 16) (key : Bytes) (dir addr fcnt n : Nat) :
    (Spec.Lorawan.keyStream E key dir addr fcnt n).length = n := by
  simp only [Spec.Lorawan.keyStream, List.length_take]
  rw [flatMap_len16 E hE]
  omega

theorem crypt_crypt (E : Spec.Rfc4493.BlockFn) (hE : ∀ k b, (E k b).length = 16) (key : Bytes) (dir addr fcnt : Nat) (pld : Bytes) :
    Spec.Lorawan.cryptPayload E key dir addr fcnt (Spec.Lorawan.cryptPayload E key dir addr fcnt pld) = pld := by
  have hl : (Spec.Lorawan.cryptPayload E key dir addr fcnt pld).length = pld.length := by
    simp [Spec.Lorawan.cryptPayload, xorB_length, keyStream_len E hE]
  unfold Spec.Lorawan.cryptPayload at hl ⊢
  rw [hl]
  exact xorB_xorB _ _ (by rw [keyStream_len E hE]; exact Nat.le_refl _)

/-- **Accept and recover.** A data frame a conformant device builds for an application port
    (Spec.Lorawan.buildFrame: payload encrypted in counter mode under the AppSKey, MIC per §4.4),
    once the library's decoder has accepted it, verifies under the NwkSKey over exactly the received
    octets and decrypts to exactly the device's plaintext, with the device's address, counter and
    port — for every cipher with 16-octet blocks, all keys, addresses, counters, ports 1..255,
    flag combinations, FOpts octets (≤ 15) and payloads. -/
theorem C02_accept_and_recover (E : Spec.Rfc4493.BlockFn) (hE : ∀ k b, (E k b).length = 16) (nwk app : Bytes)
    (mtype addr : Nat) (adr aar ack b4 : Bool) (fcnt : Nat) (fopts : Bytes) (port : Nat) (payload : Bytes)
    (hmt : Spec.Frame.isDataMType mtype = true) (haddr : addr < 4294967296) (hfc : fcnt < 65536) (hfo : fopts.length ≤ 15)
    (hp0 : 0 < port) (hp1 : port < 256) (p : PHY)
    (hacc : unmarshal (Spec.Lorawan.buildFrame E nwk app mtype addr adr aar ack b4 fcnt fopts (some port) payload) = .ok p) :
    let raw := Spec.Lorawan.buildFrame E nwk app mtype addr adr aar ack b4 fcnt fopts (some port) payload
    le32 (calculateMIC E nwk p (raw.take (raw.length - 4))) = raw.drop (raw.length - 4) ∧ le32 p.mic = raw.drop (raw.length - 4) ∧
    decryptFrm E nwk app p = payload ∧
    p.mac.fport = port ∧ p.mac.fhdr.devAddr.toUint32 = addr ∧ p.mac.fhdr.fcnt = fcnt := by
  intro raw
  have hmtv : mtype = 2 ∨ mtype = 3 ∨ mtype = 4 ∨ mtype = 5 := by
    simp [Spec.Frame.isDataMType] at hmt; omega
  have hkey : (if (some port : Option Nat) = some 0 then nwk else app) = app := by
    rw [if_neg]; intro h; cases h; omega
  -- the frame value and its octets
  generalize henc : Spec.Lorawan.cryptPayload E app (Spec.Lorawan.dirOf mtype) addr fcnt payload = enc
  let pre : Bytes := [byteOf (32 * mtype + 0)] ++ le32 addr ++
    [byteOf (128 * Spec.Frame.b2n adr + 64 * Spec.Frame.b2n aar + 32 * Spec.Frame.b2n ack + 16 * Spec.Frame.b2n b4 + fopts.length)] ++
    le16 fcnt ++ fopts ++ (byteOf port :: enc)
  generalize hmicB : Spec.Lorawan.mic E nwk (Spec.Lorawan.dirOf mtype) addr fcnt pre = micB
  have hraw : raw = pre ++ micB := by
    show Spec.Lorawan.buildFrame E nwk app mtype addr adr aar ack b4 fcnt fopts (some port) payload = pre ++ micB
    simp only [Spec.Lorawan.buildFrame, hkey, henc, Spec.Frame.layout]
    have : (pre ++ le32 0).take ((pre ++ le32 0).length - 4) = pre := by simp [le32]
    rw [this, hmicB]
  have hmicLen : micB.length = 4 := by
    rw [← hmicB]; simp [Spec.Lorawan.mic, cmac_len E hE]
  match micB, hmicLen with
  | [m0, m1, m2, m3], _ =>
    let f : Spec.Frame.DataFrame :=
      { mtype := mtype, major := 0, devAddr := addr, adr := adr, adrAckReq := aar, ack := ack, bit4 := b4,
        fcnt := fcnt, fopts := fopts, port := some port, frm := enc, mic := unle [m0, m1, m2, m3] }
    have hlay : Spec.Frame.layout f = raw := by
      rw [hraw]
      simp only [Spec.Frame.layout, f, le32_unle]
      rfl
    have hwf : Spec.Frame.WF f :=
      { mtype := hmt, major := rfl, addr := haddr, fcnt := hfc, fopts := hfo,
        port := (by intro q hq; cases hq; exact hp1), noport := (by intro h; cases h), mic := unle_lt_32 _ _ _ _ }
    have hparse : Spec.Frame.parse raw = some f := by rw [← hlay]; exact Spec.Frame.parse_layout f hwf
    have hpm : p.mhdr.mtype = mtype := by
      have h0 := unmarshal_mtype raw p hacc
      rw [hraw] at h0
      simp only [pre, List.cons_append, List.nil_append, List.getD_cons_zero, byteOf_toNat] at h0
      omega
    have hd : isDataMType p.mhdr.mtype = true := by
      rw [hpm]; rcases hmtv with h | h | h | h <;> subst h <;> rfl
    obtain ⟨q, hq, hag⟩ := Props.C12.C12_decode_fields raw p hacc hd
    rw [hparse] at hq
    cases hq
    obtain ⟨_, _, haddr', _, _, _, _, _, _, hfcnt', hmic', _, hport', _⟩ := hag
    obtain ⟨hfp, hfrm⟩ := hport' port rfl (by omega)
    have htake : raw.take (raw.length - 4) = pre := by rw [hraw]; simp
    have hdrop : raw.drop (raw.length - 4) = [m0, m1, m2, m3] := by rw [hraw]; simp
    refine ⟨?_, ?_, ?_, hfp, haddr', hfcnt'⟩
    · rw [C02_mic_is_spec E hE, htake, hdrop, hpm, haddr', hfcnt']
      exact hmicB
    · rw [hdrop, hmic']; exact le32_unle _ _ _ _
    · rw [C02_decrypt_is_spec, hfp, hpm, haddr', hfcnt', hfrm]
      have : (if port = 0 then nwk else app) = app := by rw [if_neg]; omega
      rw [this]
      show Spec.Lorawan.cryptPayload E app (Spec.Lorawan.dirOf mtype) addr fcnt enc = payload
      rw [← henc]
      exact crypt_crypt E hE _ _ _ _ _

/-- Non-vacuity: with a toy cipher (16-octet blocks) a device-built frame is accepted by the decoder. -/
example : Res.isOk (unmarshal (Spec.Lorawan.buildFrame (fun _ _ => zeros 16) [] [] 2 0x01020304 true false false false 0x1234 []
    (some 7) [0xaa#8, 0xbb#8, 0xcc#8])) = true := by decide

end Props.C02
end LospanVerif
