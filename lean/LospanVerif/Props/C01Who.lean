import LospanVerif.Props.C01All
/-
  C01: a frame that does not authenticate leaves no record. For every reachable state and every step
  of every thread: the inbox, the events published to applications and the pending-acknowledgement
  flags change only through a step of an uplink handler that is past the matching step — and such a
  handler carries a frame that is authentic for the device copy it works on
  (`C01_handlers_authentic`). Join handlers, the scheduler, sendAt and the encoders write none of
  them (sendAt consumes a flag; it never raises one).
-/
namespace LospanVerif
namespace Props.C01
open Model.Pipeline Model.Phy

/-- What a thread step adds to the records of received frames. -/
inductive REff (sys : Sys) (t : Thread) (sys' : Sys) : Prop where
  | same (hi : sys'.db.inbox = sys.db.inbox) (hp : sys'.published = sys.published) (ha : sys'.ackSets = sys.ackSets)
  | record (u : UpSt) (ht : t = .uplink u) (hpc : 1 ≤ u.pc) (r : InRow) (hr : r.dev = u.cur.eui)
      (hi : sys'.db.inbox = sys.db.inbox ++ [r]) (hp : sys'.published = sys.published) (ha : sys'.ackSets = sys.ackSets)
  | publish (u : UpSt) (ht : t = .uplink u) (hpc : 1 ≤ u.pc) (e : Published) (he : e.dev = u.cur.eui)
      (hi : sys'.db.inbox = sys.db.inbox) (hp : sys'.published = sys.published ++ [e]) (ha : sys'.ackSets = sys.ackSets)
  | ackOwed (u : UpSt) (ht : t = .uplink u) (hpc : 1 ≤ u.pc) (hc : u.p.mhdr.mtype = mtConfirmedDataUp)
      (hi : sys'.db.inbox = sys.db.inbox) (hp : sys'.published = sys.published) (ha : sys'.ackSets = sys.ackSets ++ [u.cur.eui])

theorem inbox_advance {db db' : DB} {eui : Bytes} {f : Nat} {kw : Bool} (h : db.advanceFCntUp eui f kw = some db') : db'.inbox = db.inbox := by
  unfold DB.advanceFCntUp at h; split at h <;> cases h; rfl
theorem inbox_next {db db' : DB} {eui : Bytes} {f : Nat} (h : db.nextFCntDn eui = some (db', f)) : db'.inbox = db.inbox := by
  unfold DB.nextFCntDn at h; split at h <;> cases h; rfl
theorem inbox_updateState {db db' : DB} {d : Device} (h : db.updateState d = some db') : db'.inbox = db.inbox := by
  unfold DB.updateState at h; split at h <;> cases h; rfl
theorem inbox_updateDevice {db db' : DB} {d : Device} (h : db.updateDevice d = some db') : db'.inbox = db.inbox := by
  unfold DB.updateDevice at h; split at h <;> cases h; rfl
theorem inbox_addNonce {db db' : DB} {e : Bytes} {n : Nat} (h : db.addNonce e n = some db') : db'.inbox = db.inbox := by
  unfold DB.addNonce at h; split at h <;> cases h; rfl
theorem inbox_addInbox {db db' : DB} {r : InRow} (h : db.addInbox r = some db') : db'.inbox = db.inbox ++ [r] := by
  unfold DB.addInbox at h; split at h <;> cases h; rfl

theorem reff_stepUplink (E : Spec.Rfc4493.BlockFn) (sys : Sys) (s : UpSt) (fault : Bool) :
    REff sys (.uplink s) (stepUplink E sys s fault).1 := by
  unfold stepUplink
  simp only []
  split
  all_goals (repeat' split)
  all_goals first
    | exact .same rfl rfl rfl
    | (rename_i hh; exact .same (inbox_advance hh) rfl rfl)
    | (rename_i hh _; exact .same (inbox_advance hh) rfl rfl)
    | (rename_i hpc _ _ _ hh; exact .record s rfl (by omega) _ rfl (inbox_addInbox hh) rfl rfl)
    | (rename_i hpc _ _ _ hh _; exact .record s rfl (by omega) _ rfl (inbox_addInbox hh) rfl rfl)
    | (rename_i hpc hc; exact .ackOwed s rfl (by omega) hc rfl rfl rfl)
    | skip
  all_goals
    (have hpc : 1 ≤ s.pc := by
       rcases Nat.eq_zero_or_pos s.pc with h0 | h0
       · simp_all
       · exact h0
     exact .publish s rfl hpc _ rfl rfl rfl rfl)

theorem reff_stepJoin (E : Spec.Rfc4493.BlockFn) (cfg : Config) (sys : Sys) (s : JoinSt) (fault : Bool) :
    REff sys (.join s) (stepJoin E cfg sys s fault).1 := by
  unfold stepJoin
  simp only []
  split
  all_goals (repeat' split)
  all_goals first
    | exact .same rfl rfl rfl
    | (rename_i hh; exact .same (inbox_addNonce hh) rfl rfl)
    | (rename_i hh _; exact .same (inbox_updateDevice hh) rfl rfl)
    | (rename_i hh _ _; exact .same (inbox_updateDevice hh) rfl rfl)
    | (rename_i hh; exact .same (inbox_updateDevice hh) rfl rfl)

theorem reff_stepEncoder (E D : Spec.Rfc4493.BlockFn) (sys : Sys) (pc : Nat) (p : PHY) (c : Ctx) (b : Bytes) (fault : Bool) :
    REff sys (.encoder pc p c b) (stepEncoder E D sys pc p c b fault).1 := by
  unfold stepEncoder
  simp only []
  repeat' split
  all_goals first
    | exact .same rfl rfl rfl
    | (rename_i hh _ _ _; exact .same (inbox_updateState hh) rfl rfl)
    | (rename_i hh _ _; exact .same (inbox_updateState hh) rfl rfl)
    | (rename_i hh _ _ _ _; exact .same (inbox_next hh) rfl rfl)
    | (rename_i hh _ _ _; exact .same (inbox_next hh) rfl rfl)
    | (rename_i hh _ _; exact .same (inbox_next hh) rfl rfl)

theorem reff_step (E D : Spec.Rfc4493.BlockFn) (cfg : Config) (sys : Sys) (i : Nat) (fault : Bool) (t : Thread)
    (hi : sys.threads[i]? = some t) : REff sys t (step E D cfg sys i fault) := by
  unfold step
  rw [hi]
  simp only []
  have key : ∀ (r : Sys × List Thread), REff sys t r.1 →
      REff sys t (match r.2 with
        | [] => { r.1 with threads := replaceAt r.1.threads i .done }
        | t0 :: more => { r.1 with threads := replaceAt r.1.threads i t0 ++ more }) := by
    intro r hr
    split <;>
    · cases hr with
      | same h1 h2 h3 => exact .same h1 h2 h3
      | record u ht hpc r hr h1 h2 h3 => exact .record u ht hpc r hr h1 h2 h3
      | publish u ht hpc e he h1 h2 h3 => exact .publish u ht hpc e he h1 h2 h3
      | ackOwed u ht hpc hc h1 h2 h3 => exact .ackOwed u ht hpc hc h1 h2 h3
  cases t with
  | uplink s => exact key _ (reff_stepUplink E sys s fault)
  | join s => exact key _ (reff_stepJoin E cfg sys s fault)
  | notify p c =>
    refine key (stepNotify sys c) ?_
    unfold stepNotify; split <;> exact .same rfl rfl rfl
  | sendAt c =>
    refine key (stepSendAt sys c) ?_
    unfold stepSendAt; split <;> exact .same rfl rfl rfl
  | sendDone e => exact key (stepSendDone sys e) (.same rfl rfl rfl)
  | encoder pc p c b => exact key _ (reff_stepEncoder E D sys pc p c b fault)
  | done => exact key (sys, [.done]) (.same rfl rfl rfl)

/-- **Only authentic frames leave a record.** After any event list, whatever thread steps next: if
    the inbox, the events published to the applications or the acknowledgements owed are different
    afterwards, then exactly one entry was added, for the device copy an uplink handler works on, and
    that handler carries an uplink data frame whose MIC verifies, over exactly the received octets,
    under that device copy's established network session key at the frame's address. Every other
    thread, and every frame that did not authenticate, leaves all three as they were. -/
theorem C01_records_only_for_authentic_frames (E D : Spec.Rfc4493.BlockFn) (cfg : Config) (db : DB) (evs : List Event)
    (i : Nat) (fault : Bool) (t : Thread) (hi : (run E D cfg (Sys.init db) evs).threads[i]? = some t) :
    let sys := run E D cfg (Sys.init db) evs
    let sys' := step E D cfg sys i fault
    (sys'.db.inbox = sys.db.inbox ∧ sys'.published = sys.published ∧ sys'.ackSets = sys.ackSets) ∨
    (∃ u, t = .uplink u ∧ AuthLocal E u ∧
      ((∃ r, r.dev = u.cur.eui ∧ sys'.db.inbox = sys.db.inbox ++ [r] ∧ sys'.published = sys.published ∧ sys'.ackSets = sys.ackSets) ∨
       (∃ e, e.dev = u.cur.eui ∧ sys'.db.inbox = sys.db.inbox ∧ sys'.published = sys.published ++ [e] ∧ sys'.ackSets = sys.ackSets) ∨
       (sys'.db.inbox = sys.db.inbox ∧ sys'.published = sys.published ∧ sys'.ackSets = sys.ackSets ++ [u.cur.eui]))) := by
  intro sys sys'
  have hinv := C01_handlers_authentic E D cfg db evs
  have hmem : t ∈ sys.threads := List.mem_of_getElem? hi
  have he := reff_step E D cfg sys i fault t hi
  cases he with
  | same h1 h2 h3 => exact .inl ⟨h1, h2, h3⟩
  | record u ht hpc r hr h1 h2 h3 => exact .inr ⟨u, ht, hinv t hmem u ht hpc, .inl ⟨r, hr, h1, h2, h3⟩⟩
  | publish u ht hpc e he h1 h2 h3 => exact .inr ⟨u, ht, hinv t hmem u ht hpc, .inr (.inl ⟨e, he, h1, h2, h3⟩)⟩
  | ackOwed u ht hpc hc h1 h2 h3 => exact .inr ⟨u, ht, hinv t hmem u ht hpc, .inr (.inr ⟨h1, h2, h3⟩)⟩

end Props.C01
end LospanVerif
