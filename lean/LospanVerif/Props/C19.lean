import LospanVerif.Model.Eui
/-
  C19 (bit packing part) — assigned EUIs carry the configured MA prefix, embed the network id and,
  within one prefix and network id, differ for different counters up to the advertised key space.
  (Allocator part: Props/C19Alloc.lean.)
-/
namespace LospanVerif
namespace Props.C19
open Model.Eui

def WF (m : MA) : Prop := m.pfx.length = 5 ∧ (m.size = maLarge ∨ m.size = maMedium ∨ m.size = maSmall)

theorem hiNib : ∀ p : Byte, (p &&& 0xF0#8).toNat = p.toNat / 16 * 16 := by decide
theorem loNib : ∀ e : Byte, (e &&& 0x0F#8).toNat = e.toNat % 16 := by decide
theorem orNib : ∀ (h l : BitVec 4), ((h.zeroExtend 8 <<< 4) ||| l.zeroExtend 8).toNat = h.toNat * 16 + l.toNat := by decide
theorem hiNib' : ∀ p : Byte, p &&& 0xF0#8 = (p.extractLsb' 4 4).zeroExtend 8 <<< 4 := by decide
theorem loNib' : ∀ e : Byte, e &&& 0x0F#8 = (e.extractLsb' 0 4).zeroExtend 8 := by decide
theorem ext_hi : ∀ p : Byte, (p.extractLsb' 4 4).toNat = p.toNat / 16 := by decide
theorem ext_lo : ∀ p : Byte, (p.extractLsb' 0 4).toNat = p.toNat % 16 := by decide

/-- The mixed octet: high nibble from the prefix, low nibble from the counter side. -/
theorem mix_val (p e : Byte) : ((p &&& 0xF0#8) ||| (e &&& 0x0F#8)).toNat = p.toNat / 16 * 16 + e.toNat % 16 := by
  rw [hiNib', loNib', orNib, ext_hi, ext_lo]

theorem or_eq_add (n c : Nat) (h : c < 2 ^ 25) : (n <<< 25) ||| c = n * 2 ^ 25 + c := by
  rw [Nat.shiftLeft_eq, Nat.mul_comm]
  exact (Nat.two_pow_add_eq_or_of_lt h n).symm

theorem getD_be64 (v : Nat) :
    (be64 v).getD 3 0#8 = byteOf (v / 2^32) ∧ (be64 v).getD 4 0#8 = byteOf (v / 2^24) ∧
    (be64 v).getD 5 0#8 = byteOf (v / 2^16) ∧ (be64 v).getD 6 0#8 = byteOf (v / 2^8) ∧ (be64 v).getD 7 0#8 = byteOf v := by
  simp [be64]

/-- Value of eight octets (most significant first), cut to the fields the theorems need. -/
theorem unbe8 (r0 r1 r2 r3 r4 r5 r6 r7 : Byte) :
    unbe [r0, r1, r2, r3, r4, r5, r6, r7] =
      r0.toNat * 2^56 + r1.toNat * 2^48 + r2.toNat * 2^40 + r3.toNat * 2^32 + r4.toNat * 2^24 + r5.toNat * 2^16 + r6.toNat * 2^8 + r7.toNat := by
  simp only [unbe, List.foldl]; omega

theorem unbe8_low (r0 r1 r2 r3 r4 r5 r6 r7 : Byte) :
    unbe [r0, r1, r2, r3, r4, r5, r6, r7] % 2^25 = (r4.toNat % 2) * 2^24 + r5.toNat * 2^16 + r6.toNat * 2^8 + r7.toNat := by
  rw [unbe8]; omega

theorem unbe8_mid (r0 r1 r2 r3 r4 r5 r6 r7 : Byte) :
    unbe [r0, r1, r2, r3, r4, r5, r6, r7] / 2^25 % 2^15 = r4.toNat / 2 + r3.toNat * 128 := by
  rw [unbe8]; omega

/-- The counter and network-id bits of `netID<<25 | counter` as they appear in octets 3..7. -/
theorem v_octets (nid c : Nat) (hc : c < 2^25) :
    ((byteOf ((nid * 2^25 + c) / 2^24)).toNat % 2) * 2^24 + (byteOf ((nid * 2^25 + c) / 2^16)).toNat * 2^16 +
      (byteOf ((nid * 2^25 + c) / 2^8)).toNat * 2^8 + (byteOf (nid * 2^25 + c)).toNat = c ∧
    (byteOf ((nid * 2^25 + c) / 2^24)).toNat / 2 = nid % 128 ∧ (byteOf ((nid * 2^25 + c) / 2^32)).toNat = nid / 128 % 256 := by
  simp only [byteOf, BitVec.toNat_ofNat]
  omega

/-- The mixed octet of MA-S keeps the lowest counter bit (bit 24) of the octet it overlays. -/
theorem mix_low (p e : Byte) : ((p &&& 0xF0#8) ||| (e &&& 0x0F#8)).toNat % 2 = e.toNat % 2 := by
  rw [mix_val]; omega

theorem mix_half (p e : Byte) : ((p &&& 0xF0#8) ||| (e &&& 0x0F#8)).toNat / 2 % 8 = e.toNat / 2 % 8 := by
  rw [mix_val]; omega

/-- The low 25 bits of every assigned EUI are the counter, for all three MA sizes. -/
theorem C19_counter_bits (m : MA) (hm : WF m) (nid c : Nat) (hc : c ≤ maxID) :
    unbe (newEUI m nid c) % 2 ^ 25 = c := by
  have hc' : c < 2 ^ 25 := by simp [maxID] at hc; omega
  obtain ⟨h3, h4, h5, h6, h7⟩ := getD_be64 (nid * 2 ^ 25 + c)
  obtain ⟨hv, _, _⟩ := v_octets nid c hc'
  unfold newEUI combine euiFromInt64
  rw [or_eq_add nid c hc']
  simp only [h3, h4, h5, h6, h7]
  rcases hm.2 with hs | hs | hs
  · simp only [hs, if_true]
    rw [unbe8_low]; exact hv
  · have h1 : maMedium ≠ maLarge := by decide
    simp only [hs, h1, if_true, if_false]
    rw [unbe8_low]; exact hv
  · have h1 : maSmall ≠ maLarge := by decide
    have h2 : maSmall ≠ maMedium := by decide
    simp only [hs, h1, h2, if_true, if_false]
    rw [unbe8_low, mix_low]; exact hv

/-- Within one prefix and network id, two counters of the advertised key space give different EUIs. -/
theorem C19_injective (m : MA) (hm : WF m) (nid c₁ c₂ : Nat) (h₁ : c₁ ≤ maxID) (h₂ : c₂ ≤ maxID)
    (he : newEUI m nid c₁ = newEUI m nid c₂) : c₁ = c₂ := by
  have e1 := C19_counter_bits m hm nid c₁ h₁
  have e2 := C19_counter_bits m hm nid c₂ h₂
  rw [he] at e1
  omega

/-- The network id is embedded: bits 25.. of the EUI value hold it, for every admissible network id. -/
theorem C19_netid_embedded (m : MA) (hm : WF m) (nid c : Nat) (hc : c ≤ maxID) (hn : nid ≤ maxNetID m.size) :
    (unbe (newEUI m nid c) / 2 ^ 25) % (maxNetID m.size + 1) = nid := by
  have hc' : c < 2 ^ 25 := by simp [maxID] at hc; omega
  obtain ⟨h3, h4, h5, h6, h7⟩ := getD_be64 (nid * 2 ^ 25 + c)
  obtain ⟨_, hn1, hn2⟩ := v_octets nid c hc'
  have hmod : ∀ x k, k ∣ 2^15 → x % 2^15 % k = x % k := fun x k hk => Nat.mod_mod_of_dvd x hk
  unfold newEUI combine euiFromInt64
  rw [or_eq_add nid c hc']
  simp only [h3, h4, h5, h6, h7]
  rcases hm.2 with hs | hs | hs
  · simp only [hs, maxNetID, if_true] at hn ⊢
    have := unbe8_mid (m.pfx.getD 0 0#8) (m.pfx.getD 1 0#8) (m.pfx.getD 2 0#8) (byteOf ((nid * 2^25 + c) / 2^32))
      (byteOf ((nid * 2^25 + c) / 2^24)) (byteOf ((nid * 2^25 + c) / 2^16)) (byteOf ((nid * 2^25 + c) / 2^8)) (byteOf (nid * 2^25 + c))
    omega
  · have h1 : maMedium ≠ maLarge := by decide
    simp only [hs, maxNetID, h1, if_true, if_false] at hn ⊢
    have := unbe8_mid (m.pfx.getD 0 0#8) (m.pfx.getD 1 0#8) (m.pfx.getD 2 0#8)
      ((m.pfx.getD 3 0#8 &&& 0xF0#8) ||| (byteOf ((nid * 2^25 + c) / 2^32) &&& 0x0F#8))
      (byteOf ((nid * 2^25 + c) / 2^24)) (byteOf ((nid * 2^25 + c) / 2^16)) (byteOf ((nid * 2^25 + c) / 2^8)) (byteOf (nid * 2^25 + c))
    rw [mix_val] at this
    omega
  · have h1 : maSmall ≠ maLarge := by decide
    have h2 : maSmall ≠ maMedium := by decide
    simp only [hs, maxNetID, h1, h2, if_true, if_false] at hn ⊢
    have := unbe8_mid (m.pfx.getD 0 0#8) (m.pfx.getD 1 0#8) (m.pfx.getD 2 0#8) (m.pfx.getD 3 0#8)
      ((m.pfx.getD 4 0#8 &&& 0xF0#8) ||| (byteOf ((nid * 2^25 + c) / 2^24) &&& 0x0F#8))
      (byteOf ((nid * 2^25 + c) / 2^16)) (byteOf ((nid * 2^25 + c) / 2^8)) (byteOf (nid * 2^25 + c))
    have hh := mix_half (m.pfx.getD 4 0#8) (byteOf ((nid * 2^25 + c) / 2^24))
    omega

/-- The EUI starts with the MA prefix: 24 bits (MA-L), 28 bits (MA-M), 36 bits (MA-S). -/
theorem C19_prefix (m : MA) (hm : WF m) (nid c : Nat) :
    (m.size = maLarge → (newEUI m nid c).take 3 = m.pfx.take 3) ∧
    (m.size = maMedium → (newEUI m nid c).take 3 = m.pfx.take 3 ∧
        ((newEUI m nid c).getD 3 0#8).toNat / 16 = ((m.pfx.getD 3 0#8).toNat) / 16) ∧
    (m.size = maSmall → (newEUI m nid c).take 4 = m.pfx.take 4 ∧
        ((newEUI m nid c).getD 4 0#8).toNat / 16 = ((m.pfx.getD 4 0#8).toNat) / 16) := by
  obtain ⟨hl, _⟩ := hm
  match hp : m.pfx, hl with
  | [p0, p1, p2, p3, p4], _ =>
    refine ⟨?_, ?_, ?_⟩
    · intro hs; simp [newEUI, combine, hs, hp]
    · intro hs
      have h1 : maMedium ≠ maLarge := by decide
      simp only [newEUI, combine, hs, h1, hp, if_true, if_false, List.getD_cons_zero, List.getD_cons_succ]
      refine ⟨rfl, ?_⟩
      rw [mix_val]; omega
    · intro hs
      have h1 : maSmall ≠ maLarge := by decide
      have h2 : maSmall ≠ maMedium := by decide
      simp only [newEUI, combine, hs, h1, h2, hp, if_true, if_false, List.getD_cons_zero, List.getD_cons_succ]
      refine ⟨rfl, ?_⟩
      rw [mix_val]; omega

/-- Non-vacuity, and the repaired witness: with the old limit 2^26-1, counters 5 and 5+2^25 collided
    for odd network ids; they are now outside the advertised key space. -/
example : newEUI ⟨[0x00#8, 0x09#8, 0x09#8, 0#8, 0#8], maLarge⟩ 1 5 = newEUI ⟨[0x00#8, 0x09#8, 0x09#8, 0#8, 0#8], maLarge⟩ 1 (5 + 2^25)
    ∧ ¬ (5 + 2^25 ≤ maxID) := by decide

end Props.C19
end LospanVerif
