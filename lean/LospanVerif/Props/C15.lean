import LospanVerif.Model.Gateway
/-
  C15 — gateway protocol: every request acknowledged once, token echoed, data intact; the
  six-packet header codec is its own inverse. (C11 for datagrams: the codec never panics.)
-/
namespace LospanVerif
namespace Props.C15
open Model.Gateway

/-- Every PULL_DATA is answered with exactly one PULL_ACK echoing token and version to the sender,
    whatever the registry and the configuration. -/
theorem C15_pull_ack (off : Bool) (reg : Bytes → Option GwReg) (s : State) (d : Datagram)
    (h : d.pkt.identifier = idPullData) :
    (step off reg s d).2.1 = [⟨d.host, d.port, idPullAck, d.pkt.token, d.pkt.version⟩] ∧ (step off reg s d).2.2 = [] := by
  simp [step, h]

/-- A PUSH_DATA from an authorised gateway is answered with exactly one PUSH_ACK echoing token
    and version to the sender. -/
theorem C15_push_ack (off : Bool) (reg : Bytes → Option GwReg) (s : State) (d : Datagram)
    (h : d.pkt.identifier = idPushData)
    (hauth : off = true ∨ ∃ g, reg d.pkt.eui = some g ∧ (g.strict = false ∨ g.ip = d.host)) :
    (step off reg s d).2.1 = [⟨d.host, d.port, idPushAck, d.pkt.token, d.pkt.version⟩] := by
  have hne : idPushData ≠ idPullData := by decide
  rcases hauth with hoff | ⟨g, hg, hs⟩
  · simp [step, h, hne, hoff]
  · rcases hs with hs | hs <;> simp [step, h, hne, hg, hs]

/-- When every rxpk entry carries valid base64, each entry is handed to the pipeline exactly once,
    in order, with its bytes, data rate, channel, RF chain, signal quality, gateway identity and
    gateway clock intact. -/
def pkt (d : Datagram) (r : Rxpk) (raw : Bytes) : Forwarded :=
  { raw := raw, datr := r.datr, chan := r.chan, rfch := r.rfch, freq := lookupFrequency r.chan, rssi := r.rssi,
    lsnr := r.lsnr, eui := d.pkt.eui, host := d.host, port := d.port, clock := r.tmst, version := d.pkt.version }

theorem forwardAll_valid (d : Datagram) (rs : List Rxpk) (hv : ∀ r ∈ rs, r.data.isSome) :
    forwardAll d rs = rs.map (fun r => pkt d r (r.data.getD [])) := by
  induction rs with
  | nil => rfl
  | cons r rest ih =>
    have hr := hv r (by simp)
    cases hd : r.data with
    | none => rw [hd] at hr; cases hr
    | some raw =>
      simp only [forwardAll, hd, List.map_cons, Option.getD_some, pkt]
      rw [ih (fun x hx => hv x (by simp [hx]))]
      rfl

theorem C15_rxpk_forwarded (off : Bool) (reg : Bytes → Option GwReg) (s : State) (d : Datagram) (rs : List Rxpk)
    (h : d.pkt.identifier = idPushData) (hj : d.rxpk = some rs) (hv : ∀ r ∈ rs, r.data.isSome)
    (hauth : off = true ∨ ∃ g, reg d.pkt.eui = some g ∧ (g.strict = false ∨ g.ip = d.host)) :
    (step off reg s d).2.2 = rs.map (fun r => pkt d r (r.data.getD [])) := by
  have hne : idPushData ≠ idPullData := by decide
  rw [← forwardAll_valid d rs hv]
  rcases hauth with hoff | ⟨g, hg, hs⟩
  · simp [step, h, hne, hoff, hj]
  · rcases hs with hs | hs <;> simp [step, h, hne, hg, hs, hj]

/-- No datagram makes the header decoder panic (C11 for the gateway port), and what it rejects
    is short headers, short PUSH/PULL_DATA and unknown identifiers. -/
theorem C15_unmarshal_total (data : Bytes) : unmarshal data ≠ .panic := by
  unfold unmarshal
  by_cases h4 : data.length < 4
  · simp [h4]
  · simp only [h4, if_false]
    generalize (data.getD 3 0#8).toNat = id
    by_cases h12 : data.length < 12
    · by_cases h0 : id = 0
      · simp [h0, h12]
      by_cases h1 : id = 1
      · simp [h1]
      by_cases h2 : id = 2
      · simp [h2, h12]
      by_cases h3 : id = 3
      · simp [h3]
      by_cases h4' : id = 4
      · simp [h4']
      by_cases h5 : id = 5
      · simp [h5]
      simp [h0, h1, h2, h3, h4', h5]
    · by_cases h0 : id = 0
      · simp [h0, h12]
      by_cases h1 : id = 1
      · simp [h1]
      by_cases h2 : id = 2
      · simp [h2, h12]
      by_cases h3 : id = 3
      · simp [h3]
      by_cases h4' : id = 4
      · simp [h4']
      by_cases h5 : id = 5
      · simp [h5]
      simp [h0, h1, h2, h3, h4', h5]

/-- Canonical form: the fields a packet type carries. -/
def canon (p : GwPacket) : GwPacket :=
  let carriesEUI := p.identifier = idPushData ∨ p.identifier = idPullData
  let carriesJSON := p.identifier = idPushData ∨ p.identifier = idPullResp ∨ p.identifier = idTxAck
  { p with version := p.version % 256, token := p.token % 65536,
           eui := if carriesEUI then pad8 p.eui else zeros 8,
           json := if carriesJSON then p.json else [] }

theorem hdr_bytes (v t : Nat) :
    ((byteOf v).toNat = v % 256) ∧ ((byteOf (t / 256)).toNat * 256 + (byteOf t).toNat = t % 65536) := by
  simp [byteOf]; omega

/-- decode ∘ encode = canon, for the six packet types. -/
theorem C15_unmarshal_marshal (p : GwPacket) (bs : Bytes) (h : marshal p = .ok bs) : unmarshal bs = .ok (canon p) := by
  obtain ⟨hv, ht⟩ := hdr_bytes p.version p.token
  unfold marshal at h
  have hp8 : (pad8 p.eui).length = 8 := by simp [pad8]
  split at h
  · rename_i hid; cases h
    simp [unmarshal, canon, hid, hv, ht, idPullAck, idPushData, idPullData, idPullResp, idTxAck]
  · split at h
    · rename_i hid; cases h
      simp [unmarshal, canon, hid, hv, ht, idPushAck, idPushData, idPullData, idPullResp, idTxAck]
    · split at h
      · rename_i hid; cases h
        simp [unmarshal, canon, hid, hv, ht, hp8, idPushData, idPullData]
        exact ⟨List.take_of_length_le (by omega), by simp [idPullResp, idTxAck]⟩
      · split at h
        · rename_i hid; cases h
          simp [unmarshal, canon, hid, hv, ht, hp8, idPushData]
          rw [if_neg (by omega), if_neg (by omega)]
        · split at h
          · rename_i hid; cases h
            simp [unmarshal, canon, hid, hv, ht, idPushData, idPullData, idPullResp, idTxAck]
          · split at h
            · rename_i hid; cases h
              simp [unmarshal, canon, hid, hv, ht, idPushData, idPullData, idPullResp, idTxAck]
            · cases h

/-- What a datagram keeps when it is re-encoded: the types without a body lose trailing octets,
    PULL_DATA keeps its 12 octets. -/
def canonD (d : Bytes) : Bytes :=
  let id := (d.getD 3 0#8).toNat
  if id = 1 ∨ id = 4 then d.take 4 else if id = 2 then d.take 12 else d

theorem byte_back (b : Byte) : byteOf b.toNat = b := by simp [byteOf]

theorem tok_back (b1 b2 : Byte) : byteOf ((b1.toNat * 256 + b2.toNat) / 256) = b1 ∧ byteOf (b1.toNat * 256 + b2.toNat) = b2 := by
  have h1 := b1.isLt
  have h2 := b2.isLt
  constructor
  · have : (b1.toNat * 256 + b2.toNat) / 256 = b1.toNat := by omega
    rw [this]; exact byte_back b1
  · apply BitVec.eq_of_toNat_eq
    simp [byteOf]; omega

/-- encode ∘ decode = canonD: an accepted datagram is reproduced octet for octet (up to what its
    type does not carry). -/
theorem C15_marshal_unmarshal (d : Bytes) (p : GwPacket) (h : unmarshal d = .ok p) : marshal p = .ok (canonD d) := by
  unfold unmarshal at h
  split at h
  · cases h
  · rename_i hlen
    match d, hlen with
    | d0 :: d1 :: d2 :: d3 :: rest, _ =>
      obtain ⟨t1, t2⟩ := tok_back d1 d2
      simp only [List.getD_cons_zero, List.getD_cons_succ, List.drop_succ_cons, List.drop_zero] at h
      have hpad : ∀ (r : Bytes), 8 ≤ r.length → pad8 (r.take 8) = r.take 8 := by
        intro r hr
        unfold pad8
        rw [List.take_append_of_le_length (by simp; omega)]
        exact List.take_of_length_le (by simp; omega)
      have b3 : ∀ k : Nat, k < 256 → d3.toNat = k → d3 = BitVec.ofNat 8 k := by
        intro k hk h; apply BitVec.eq_of_toNat_eq; simp [h]; omega
      split at h
      · rename_i hid
        split at h
        · cases h
        · rename_i hl; cases h
          have hr : 8 ≤ rest.length := by simp at hl; omega
          have := b3 0 (by omega) hid
          subst this
          simp [marshal, canonD, idPushData, idPullAck, idPushAck, idPullData, t1, t2, byte_back, hpad rest hr]
      · split at h
        · rename_i hid; cases h
          have := b3 1 (by omega) hid
          subst this
          simp [marshal, canonD, idPushData, idPullAck, idPushAck, idPullData, t1, t2, byte_back]
        · split at h
          · rename_i hid
            split at h
            · cases h
            · rename_i hl; cases h
              have hr : 8 ≤ rest.length := by simp at hl; omega
              have := b3 2 (by omega) hid
              subst this
              simp [marshal, canonD, idPushData, idPullAck, idPushAck, idPullData, t1, t2, byte_back, hpad rest hr]
          · split at h
            · rename_i hid; cases h
              have := b3 3 (by omega) hid
              subst this
              simp [marshal, canonD, idPushData, idPullAck, idPushAck, idPullData, idPullResp, t1, t2, byte_back]
            · split at h
              · rename_i hid; cases h
                have := b3 4 (by omega) hid
                subst this
                simp [marshal, canonD, idPushData, idPullAck, idPushAck, idPullData, idPullResp, t1, t2, byte_back]
              · split at h
                · rename_i hid; cases h
                  have := b3 5 (by omega) hid
                  subst this
                  simp [marshal, canonD, idPushData, idPullAck, idPushAck, idPullData, idPullResp, idTxAck, t1, t2, byte_back]
                · cases h

/-- Non-vacuity. -/
example : unmarshal [2#8, 0xAB#8, 0xCD#8, 2#8, 1#8, 2#8, 3#8, 4#8, 5#8, 6#8, 7#8, 8#8] =
    .ok ⟨2, 0xABCD, idPullData, [1#8, 2#8, 3#8, 4#8, 5#8, 6#8, 7#8, 8#8], []⟩ := by rfl

end Props.C15
end LospanVerif
