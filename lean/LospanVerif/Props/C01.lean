import LospanVerif.Model.Pipeline
import LospanVerif.Proofs.Phy
/-
  C01 — only authentic uplink data frames ever have an effect.
  C11 (pipeline part) — a frame the decoder rejects is a no-op.

  `authenticFor` is the property's own definition: a registered device owning the frame's
  address whose established (not all-zero) network session key verifies the MIC over exactly
  the received bytes, for an uplink data frame.
-/
namespace LospanVerif
namespace Props.C01
open Model.Pipeline Model.Phy

def isZeroKey (k : Bytes) : Bool := k.all (· == 0#8)

/-- Authenticity of the received bytes `raw` (decoded as `p`) for device `d` of the registry. -/
def authenticFor (E : Spec.Rfc4493.BlockFn) (db : DB) (p : PHY) (raw : Bytes) (d : Device) : Prop :=
  d ∈ db.devices ∧ d.devAddr = p.mac.fhdr.devAddr.toUint32 ∧ isZeroKey d.nwkSKey = false ∧
  calculateMIC E d.nwkSKey p (raw.take (raw.length - 4)) = p.mic

/-- The devices the handler goes on to process are exactly the authentic ones. -/
theorem C01_matching_iff (E : Spec.Rfc4493.BlockFn) (db : DB) (p : PHY) (raw : Bytes) (d : Device) :
    d ∈ matching E (db.byAddr p.mac.fhdr.devAddr.toUint32) p raw ↔ authenticFor E db p raw d := by
  simp only [matching, DB.byAddr, List.mem_filter, authenticFor, isZeroKey, beq_iff_eq, Bool.and_eq_true, Bool.not_eq_true']
  constructor
  · rintro ⟨⟨h1, h2⟩, h3, h4⟩; exact ⟨h1, h2, h3, h4⟩
  · rintro ⟨h1, h2, h3, h4⟩; exact ⟨⟨h1, h2⟩, h3, h4⟩

/-- A frame that is not an uplink data frame (downlink types, join-accept, RFU, proprietary) stops
    at the first step of the handler without touching anything. -/
theorem C01_wrong_type_dropped (E : Spec.Rfc4493.BlockFn) (sys : Sys) (s : UpSt) (fault : Bool) (h0 : s.pc = 0)
    (ht : s.p.mhdr.mtype ≠ mtUnconfirmedDataUp ∧ s.p.mhdr.mtype ≠ mtConfirmedDataUp) :
    stepUplink E sys s fault = (sys, [.done]) := by
  simp [stepUplink, h0, ht.1, ht.2]

/-- A frame that is authentic for no registered device stops at the first step of the handler
    without touching anything: no counter, no inbox row, no queue change, no downlink. -/
theorem C01_unauthentic_dropped (E : Spec.Rfc4493.BlockFn) (sys : Sys) (s : UpSt) (fault : Bool) (h0 : s.pc = 0)
    (hn : ∀ d, ¬ authenticFor E sys.db s.p s.raw d) :
    stepUplink E sys s fault = (sys, [.done]) := by
  have hm : matching E (sys.db.byAddr s.p.mac.fhdr.devAddr.toUint32) s.p s.raw = [] := by
    apply List.eq_nil_iff_forall_not_mem.mpr
    intro d hd
    exact hn d ((C01_matching_iff E sys.db s.p s.raw d).mp hd)
  simp only [stepUplink, h0]
  split
  · rfl
  · split
    · rfl
    · split
      · rfl
      · simp [hm]

/-- The handler only ever works on snapshots of authentic devices: whatever it processes after
    the first step was in the matching list. -/
theorem C01_processes_only_authentic (E : Spec.Rfc4493.BlockFn) (sys sys' : Sys) (s : UpSt) (fault : Bool) (h0 : s.pc = 0)
    (ts : List Thread) (h : stepUplink E sys s fault = (sys', ts)) :
    sys' = sys ∧ ∀ s', Thread.uplink s' ∈ ts → authenticFor E sys.db s.p s.raw s'.cur ∧ ∀ d ∈ s'.todo, authenticFor E sys.db s.p s.raw d := by
  simp only [stepUplink, h0] at h
  split at h
  · cases h; simp
  · split at h
    · cases h; simp
    · split at h
      · cases h; simp
      · cases hm : matching E (sys.db.byAddr s.p.mac.fhdr.devAddr.toUint32) s.p s.raw with
        | nil => rw [hm] at h; simp at h; obtain ⟨rfl, rfl⟩ := h; simp
        | cons d rest =>
          rw [hm] at h
          simp at h
          obtain ⟨rfl, rfl⟩ := h
          refine ⟨rfl, ?_⟩
          intro s' hs'
          simp at hs'
          subst hs'
          have hall : ∀ x ∈ d :: rest, authenticFor E sys.db s.p s.raw x := by
            intro x hx; rw [← hm] at hx; exact (C01_matching_iff E sys.db s.p s.raw x).mp hx
          exact ⟨hall d (by simp), fun x hx => hall x (by simp [hx])⟩

/-- C11, pipeline level: a byte string the decoder rejects spawns nothing and changes nothing. -/
theorem C11_reject_is_noop (E D : Spec.Rfc4493.BlockFn) (cfg : Config) (sys : Sys) (raw : Bytes) (gw : GwCtx) (an : Bytes) (na : Nat)
    (e : Err) (h : unmarshal raw = .err e) : apply E D cfg sys (.deliver raw gw an na) = sys := by
  simp [apply, spawn, h]

/-- …and the decoder never panics (C11_phy_total), so every delivery either spawns a handler or is a no-op. -/
theorem C11_deliver_total (E D : Spec.Rfc4493.BlockFn) (cfg : Config) (sys : Sys) (raw : Bytes) (gw : GwCtx) (an : Bytes) (na : Nat) :
    (apply E D cfg sys (.deliver raw gw an na) = sys) ∨ (∃ t, apply E D cfg sys (.deliver raw gw an na) = { sys with threads := sys.threads ++ [t] }) := by
  simp only [apply]
  cases spawn raw gw an na with
  | none => left; rfl
  | some t => right; exact ⟨t, rfl⟩

end Props.C01
end LospanVerif
