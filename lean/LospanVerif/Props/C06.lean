import LospanVerif.Props.C08
import LospanVerif.Props.C09
/-
  C06 — queued downlink messages are delivered faithfully, in order, to their device.
  Proved here, for every state: the message picked for an accepted uplink is an unsent message
  of *that* device and no unsent message of the device is older (oldest first); what is put into
  the output buffer for the device and taken out again is that message's port and payload
  (cut to the limit of the uplink's data rate) with the confirmed type exactly when
  acknowledgement was requested; buffers of different devices do not touch each other.
  That the encoded frame decrypts to the payload and carries a valid MIC is C02's codec statement
  (correspondence with the Lean LoRaWAN spec in engines phyenc/pipeseq).
-/
namespace LospanVerif
namespace Props.C06
open Model.Pipeline Model.Phy

/-- Insertion by `created` keeps the list sorted. -/
def Sorted : List OutRow → Prop
  | [] => True
  | [_] => True
  | a :: b :: rest => a.created ≤ b.created ∧ Sorted (b :: rest)

theorem sorted_tail (a : OutRow) (l : List OutRow) (h : Sorted (a :: l)) : Sorted l := by
  cases l with
  | nil => trivial
  | cons b rest => exact h.2

theorem sorted_insert (m : OutRow) (l : List OutRow) (h : Sorted l) : Sorted (insertByCreated m l) := by
  induction l with
  | nil => simp [insertByCreated, Sorted]
  | cons a rest ih =>
    simp only [insertByCreated]
    split
    · rename_i hlt; exact ⟨Nat.le_of_lt hlt, h⟩
    · rename_i hge
      have ih' := ih (sorted_tail a rest h)
      cases rest with
      | nil => simp only [insertByCreated]; exact ⟨by omega, trivial⟩
      | cons b rest' =>
        simp only [insertByCreated] at ih' ⊢
        split
        · rename_i h2; exact ⟨by omega, by simpa [insertByCreated, h2] using ih'⟩
        · rename_i h2; exact ⟨h.1, by simpa [insertByCreated, h2] using ih'⟩

theorem sorted_foldl (l acc : List OutRow) (h : Sorted acc) : Sorted (l.foldl (fun acc m => insertByCreated m acc) acc) := by
  induction l generalizing acc with
  | nil => exact h
  | cons a rest ih => exact ih _ (sorted_insert a acc h)

theorem sorted_head_le (a : OutRow) (l : List OutRow) (h : Sorted (a :: l)) : ∀ x ∈ a :: l, a.created ≤ x.created := by
  induction l generalizing a with
  | nil => intro x hx; simp at hx; subst hx; exact Nat.le_refl _
  | cons b rest ih =>
    intro x hx
    rcases List.mem_cons.mp hx with rfl | hx
    · exact Nat.le_refl _
    · exact Nat.le_trans h.1 (ih b h.2 x hx)

/-- Oldest first, own device only, unsent only. -/
theorem C06_oldest_first (db : DB) (e : Bytes) (m : OutRow) (h : db.nextUnsent e = some m) :
    m ∈ db.outbox ∧ m.dev = e ∧ m.sent = 0 ∧
    ∀ m' ∈ db.outbox, m'.dev = e → m'.sent = 0 → m.created ≤ m'.created := by
  obtain ⟨h1, h2, h3⟩ := Props.C08.C08_only_unsent_transmitted db e m h
  refine ⟨h1, h2, h3, ?_⟩
  intro m' hm' hd hs
  unfold DB.nextUnsent at h
  generalize hl : (db.outbox.filter (fun m => m.dev == e && m.sent == 0)).foldl (fun acc m => insertByCreated m acc) [] = sortedL at h
  have hsorted : Sorted sortedL := by rw [← hl]; exact sorted_foldl _ [] trivial
  have hmem : m' ∈ sortedL := by
    rw [← hl, Props.C08.mem_foldl_insert]
    right
    simp [List.mem_filter, hm', hd, hs]
  cases sortedL with
  | nil => simp at h
  | cons a rest =>
    simp at h
    subst h
    exact sorted_head_le a rest hsorted m' hmem

/-- What the handler puts into the buffer for a device is what `GetPHYPayloadForDevice` takes
    out for it: the queued port, the queued bytes (within the data-rate limit), confirmed type
    iff acknowledgement was requested. -/
theorem C06_buffer_faithful (fob : List (Bytes × FobEntry)) (d : Device) (dr : String) (payload : Bytes) (port : Nat) (ack : Bool)
    (mx : Nat) (hm : maxPayload dr = some mx) (hlen : 0 < payload.length) (hfit : payload.length ≤ mx) :
    ∃ p, (fobTake (fobSetPayload fob d.eui payload port ack) d dr).2 = some p ∧
      p.mac.frm = payload ∧ p.mac.fport = port ∧
      p.mhdr.mtype = (if ack then mtConfirmedDataDown else mtUnconfirmedDataDown) ∧
      p.mac.fhdr.devAddr = DevAddr.ofUint32 d.devAddr := by
  have hne : ¬ (payload.length = 0) := by omega
  have hng : ¬ (payload.length > mx) := by omega
  simp only [fobSetPayload, fobTake, Props.C09.fobGet_fobSet, hne, false_and, if_false, hlen, if_true, hm, hng]
  cases ack <;> simp [PHY.new, mtConfirmedDataDown, mtUnconfirmedDataDown, mtJoinAccept]

/-- Isolation: an operation on one device's buffer entry leaves every other device's entry alone. -/
theorem C06_isolation (fob : List (Bytes × FobEntry)) (e e' : Bytes) (v : FobEntry) (h : e' ≠ e) :
    fobGet (fobSet fob e v) e' = fobGet fob e' := by
  simp only [fobGet, fobSet, List.find?_cons]
  have h1 : ((e, v).1 == e') = false := by simp; exact fun hx => h hx.symm
  rw [h1]
  simp only []
  congr 1
  induction fob with
  | nil => rfl
  | cons x xs ih =>
    simp only [List.filter_cons]
    by_cases hx : x.1 = e
    · have : (x.1 != e) = false := by simp [hx]
      have h2 : (x.1 == e') = false := by simp [hx]; exact fun hy => h hy.symm
      simp only [this, List.find?_cons, h2]
      exact ih
    · have : (x.1 != e) = true := by simp [hx]
      simp only [this, if_true, List.find?_cons]
      split
      · rfl
      · exact ih

end Props.C06
end LospanVerif
