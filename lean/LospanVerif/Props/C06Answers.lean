import LospanVerif.Proofs.Circ
/-
  C06 / C08, for every event list: at most one frame per handled frame. `notified` records the
  device of every hand-over to the scheduler (last step of the uplink handler — the step that
  publishes the uplink to the application — and last step of the join handler). Every frame
  handed to a gateway, and every answer still on its way (a notification travelling to the
  scheduler, a pending sendAt, an encoder at work), is paid for by one such hand-over.
-/
namespace LospanVerif
namespace Props.C06
open Model.Pipeline Model.Phy Proofs.Circ

/-- The device a thread is producing an answer for. -/
def tok : Thread → Option Bytes
  | .notify _ c => some c.device.eui
  | .sendAt c => some c.device.eui
  | .encoder _ _ c _ => some c.device.eui
  | _ => none

/-- The devices of the frames handed to gateways so far. -/
def frames (s : Sys) : List Bytes := s.emitted.map (·.dev)

/-- Every frame out, and every answer in the making, has its own hand-over. -/
def NInv (s : Sys) : Prop :=
  ∀ e, (frames s).count e + (s.threads.filterMap tok).count e ≤ s.notified.count e

/-- The accounting of one thread step: what it puts out and keeps working on, against what it held
    and what it records. -/
def Acc (sys : Sys) (t : Thread) (r : Sys × List Thread) : Prop :=
  ∀ e, (frames r.1).count e + (r.2.filterMap tok).count e + sys.notified.count e
        ≤ (frames sys).count e + (tok t).toList.count e + r.1.notified.count e

theorem acc_stepUplink (E : Spec.Rfc4493.BlockFn) (sys : Sys) (s : UpSt) (fault : Bool) :
    Acc sys (.uplink s) (stepUplink E sys s fault) := by
  unfold stepUplink
  simp only []
  split
  all_goals (repeat' split)
  all_goals (intro e; simp [tok, frames, List.count_append, List.filterMap_cons, List.count_cons]; try omega)

theorem acc_stepJoin (E : Spec.Rfc4493.BlockFn) (cfg : Config) (sys : Sys) (s : JoinSt) (fault : Bool) :
    Acc sys (.join s) (stepJoin E cfg sys s fault) := by
  unfold stepJoin
  simp only []
  split
  all_goals (repeat' split)
  all_goals (intro e; simp [tok, frames, List.count_append, List.filterMap_cons, List.count_cons]; try omega)

theorem acc_stepEncoder (E D : Spec.Rfc4493.BlockFn) (sys : Sys) (pc : Nat) (p : PHY) (c : Ctx) (b : Bytes) (fault : Bool) :
    Acc sys (.encoder pc p c b) (stepEncoder E D sys pc p c b fault) := by
  unfold stepEncoder
  simp only []
  repeat' split
  all_goals (intro e; simp [tok, frames, List.count_append, List.filterMap_cons, List.count_cons]; try omega)

theorem acc_stepNotify (sys : Sys) (p : PHY) (c : Ctx) : Acc sys (.notify p c) (stepNotify sys c) := by
  unfold stepNotify
  split <;> (intro e; simp [tok, frames, List.filterMap_cons, List.count_cons])

theorem acc_stepSendAt (sys : Sys) (c : Ctx) : Acc sys (.sendAt c) (stepSendAt sys c) := by
  unfold stepSendAt
  split <;> (intro e; simp [tok, frames, List.filterMap_cons, List.count_cons])

theorem acc_stepSendDone (sys : Sys) (e0 : Bytes) : Acc sys (.sendDone e0) (stepSendDone sys e0) := by
  intro e; simp [stepSendDone, tok, frames, List.filterMap_cons]

theorem ninv_step (E D : Spec.Rfc4493.BlockFn) (cfg : Config) (sys : Sys) (i : Nat) (fault : Bool) (h : NInv sys) :
    NInv (step E D cfg sys i fault) := by
  unfold step
  split
  · exact h
  · rename_i t hi
    have key : ∀ (r : Sys × List Thread), Acc sys t r → r.1.threads = sys.threads →
        NInv (match r.2 with
          | [] => { r.1 with threads := replaceAt r.1.threads i .done }
          | t0 :: more => { r.1 with threads := replaceAt r.1.threads i t0 ++ more }) := by
      intro r hacc hth e
      have ha := hacc e
      have hinv := h e
      split
      · rename_i hnil
        have hc := count_step tok (l := sys.threads) (t := t) .done [] e hi
        rw [hnil] at ha
        simp only [frames, replaceAt, hth, List.filterMap_nil, List.count_nil, List.append_nil, tok, Option.toList] at ha hc ⊢
        simp only [frames] at hinv
        omega
      · rename_i t0 more hcons
        have hc := count_step tok (l := sys.threads) (t := t) t0 more e hi
        rw [hcons] at ha
        have hsplit : ((t0 :: more).filterMap tok).count e = (tok t0).toList.count e + (more.filterMap tok).count e := by
          rw [List.filterMap_cons]
          cases tok t0 <;> simp [List.count_cons]
          omega
        rw [hsplit] at ha
        simp only [frames, replaceAt, hth] at ha hc ⊢
        simp only [frames] at hinv
        omega
    cases t with
    | uplink s => exact key _ (acc_stepUplink E sys s fault) (threads_stepUplink E sys s fault)
    | join s => exact key _ (acc_stepJoin E cfg sys s fault) (threads_stepJoin E cfg sys s fault)
    | notify p c =>
      refine key (stepNotify sys c) (acc_stepNotify sys p c) ?_
      unfold stepNotify; split <;> rfl
    | sendAt c =>
      refine key (stepSendAt sys c) (acc_stepSendAt sys c) ?_
      unfold stepSendAt; split <;> rfl
    | sendDone e0 => exact key (stepSendDone sys e0) (acc_stepSendDone sys e0) rfl
    | encoder pc p c b => exact key _ (acc_stepEncoder E D sys pc p c b fault) (threads_stepEncoder E D sys pc p c b fault)
    | done => exact key (sys, [.done]) (by intro e; simp [tok, frames, List.filterMap_cons]) rfl

theorem ninv_settle (E D : Spec.Rfc4493.BlockFn) (cfg : Config) (fuel : Nat) (sys : Sys) (h : NInv sys) :
    NInv (settle E D cfg fuel sys) := by
  induction fuel generalizing sys with
  | zero => exact h
  | succ n ih =>
    unfold settle
    split
    · intro e
      have := h e
      simp only [frames, List.filterMap_nil, List.count_nil] at this ⊢
      omega
    · exact ih _ (ninv_step E D cfg sys _ false h)

theorem ninv_apply (E D : Spec.Rfc4493.BlockFn) (cfg : Config) (sys : Sys) (ev : Event) (h : NInv sys) :
    NInv (apply E D cfg sys ev) := by
  cases ev with
  | deliver raw gw an na =>
    simp only [apply]
    split
    · rename_i t ht
      intro e
      have := h e
      have htok : tok t = none := by
        unfold spawn at ht
        split at ht
        · split at ht <;> (cases ht; rfl)
        · cases ht
      simp only [frames, List.filterMap_append, List.count_append, List.filterMap_cons, htok, List.filterMap_nil, List.count_nil] at this ⊢
      omega
    · exact h
  | submit m => exact h
  | stepT i f => exact ninv_step E D cfg sys i f h
  | quiesce => exact ninv_settle E D cfg 200 sys h
  | crash =>
    intro e
    have := h e
    simp only [apply, frames, List.filterMap_nil, List.count_nil] at this ⊢
    omega

/-- **All schedules.** For every event list — all interleavings of handlers, scheduler, sendAt and
    encoders of any number of devices, injected faults, crashes — and every device: the frames handed
    to gateways for the device never outnumber the handled frames of that device (accepted uplinks
    published to the application, honoured join-requests). No frame is answered twice, nothing is
    sent that no handled frame paid for, and a rejected frame — which never reaches the hand-over
    (`C01_handlers_authentic`, `C04_joins_authentic`) — is not answered at all. -/
theorem C06_one_answer_per_handled_frame (E D : Spec.Rfc4493.BlockFn) (cfg : Config) (db : DB) (evs : List Event) (e : Bytes) :
    (frames (run E D cfg (Sys.init db) evs)).count e ≤ (run E D cfg (Sys.init db) evs).notified.count e := by
  have : ∀ (sys : Sys), NInv sys → NInv (run E D cfg sys evs) := by
    induction evs with
    | nil => intro sys h; exact h
    | cons ev rest ih => intro sys h; exact ih _ (ninv_apply E D cfg sys ev h)
  have h0 : NInv (Sys.init db) := by intro e; simp [Sys.init, frames]
  have := this _ h0 e
  omega

/-- The hand-over of the uplink handler is the step that publishes the uplink to the application:
    `notified` grows by the device exactly when `published` does. -/
theorem C06_handover_is_publication (E : Spec.Rfc4493.BlockFn) (sys : Sys) (s : UpSt) (fault : Bool) :
    ((stepUplink E sys s fault).1.published = sys.published ∧ (stepUplink E sys s fault).1.notified = sys.notified) ∨
    (∃ pl, (stepUplink E sys s fault).1.published = sys.published ++ [⟨s.cur.appEUI, s.cur.eui, pl⟩] ∧
      (stepUplink E sys s fault).1.notified = sys.notified ++ [s.cur.eui]) := by
  unfold stepUplink
  simp only []
  split
  all_goals (repeat' split)
  all_goals first
    | exact .inl ⟨rfl, rfl⟩
    | exact .inr ⟨_, rfl, rfl⟩

end Props.C06
end LospanVerif
