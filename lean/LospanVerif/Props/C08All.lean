import LospanVerif.Props.C08
/-
  C08, for every event list: the life-cycle invariant of the outbox ("reported acknowledged ⇒
  reported sent") is kept by every step of every thread under every interleaving, fault and crash.
-/
namespace LospanVerif
namespace Props.C08
open Model.Pipeline Model.Phy

/-- State invariant: the life-cycle invariant of the outbox and a positive logical clock. -/
structure LInv (s : Sys) : Prop where
  lc : LifeCycle s.db
  now : s.now > 0

theorem lc_of_outbox {db db' : DB} (h : LifeCycle db) (ho : db'.outbox = db.outbox) : LifeCycle db' := by
  intro m hm; rw [ho] at hm; exact h m hm

theorem outbox_advance {db db' : DB} {e : Bytes} {f : Nat} {kw : Bool} (h : db.advanceFCntUp e f kw = some db') : db'.outbox = db.outbox := by
  unfold DB.advanceFCntUp at h; split at h <;> cases h; rfl
theorem outbox_next {db db' : DB} {e : Bytes} {f : Nat} (h : db.nextFCntDn e = some (db', f)) : db'.outbox = db.outbox := by
  unfold DB.nextFCntDn at h; split at h
  · cases h
  · simp only [Option.some.injEq, Prod.mk.injEq] at h; obtain ⟨rfl, _⟩ := h; rfl
theorem outbox_updateDevice {db db' : DB} {d : Device} (h : db.updateDevice d = some db') : db'.outbox = db.outbox := by
  unfold DB.updateDevice at h; split at h <;> cases h; rfl
theorem outbox_updateState {db db' : DB} {d : Device} (h : db.updateState d = some db') : db'.outbox = db.outbox := by
  unfold DB.updateState at h; split at h <;> cases h; rfl
theorem outbox_addInbox {db db' : DB} {r : InRow} (h : db.addInbox r = some db') : db'.outbox = db.outbox := by
  unfold DB.addInbox at h; split at h <;> cases h; rfl
theorem outbox_addNonce {db db' : DB} {e : Bytes} {n : Nat} (h : db.addNonce e n = some db') : db'.outbox = db.outbox := by
  unfold DB.addNonce at h; split at h <;> cases h; rfl

theorem linv_stepUplink (E : Spec.Rfc4493.BlockFn) (sys : Sys) (s : UpSt) (fault : Bool) (h : LInv sys) :
    LInv (stepUplink E sys s fault).1 := by
  unfold stepUplink
  simp only []
  split
  all_goals (repeat' split)
  all_goals first
    | exact h
    | exact ⟨h.lc, h.now⟩
    | exact ⟨ackTime_inv _ _ _ _ h.lc, Nat.succ_pos _⟩
    | exact ⟨resetAcks_inv _ _ h.lc, h.now⟩
    | exact ⟨setSent_inv _ _ _ _ _ h.now h.lc, Nat.succ_pos _⟩
    | (rename_i hh; exact ⟨lc_of_outbox h.lc (outbox_advance hh), h.now⟩)
    | (rename_i hh _; exact ⟨lc_of_outbox h.lc (outbox_advance hh), h.now⟩)
    | (rename_i hh; exact ⟨lc_of_outbox h.lc (outbox_addInbox hh), h.now⟩)
    | (rename_i hh _; exact ⟨lc_of_outbox h.lc (outbox_addInbox hh), h.now⟩)

theorem linv_stepJoin (E : Spec.Rfc4493.BlockFn) (cfg : Config) (sys : Sys) (s : JoinSt) (fault : Bool) (h : LInv sys) :
    LInv (stepJoin E cfg sys s fault).1 := by
  unfold stepJoin
  simp only []
  split
  all_goals (repeat' split)
  all_goals first
    | exact h
    | exact ⟨h.lc, h.now⟩
    | (rename_i hh; exact ⟨lc_of_outbox h.lc (outbox_addNonce hh), h.now⟩)
    | (rename_i hh _; exact ⟨lc_of_outbox h.lc (outbox_updateDevice hh), h.now⟩)
    | (rename_i hh _ _; exact ⟨lc_of_outbox h.lc (outbox_updateDevice hh), h.now⟩)
    | (rename_i hh; exact ⟨lc_of_outbox h.lc (outbox_updateDevice hh), h.now⟩)

theorem linv_stepEncoder (E D : Spec.Rfc4493.BlockFn) (sys : Sys) (pc : Nat) (p : PHY) (c : Ctx) (b : Bytes) (fault : Bool) (h : LInv sys) :
    LInv (stepEncoder E D sys pc p c b fault).1 := by
  unfold stepEncoder
  simp only []
  repeat' split
  all_goals first
    | exact h
    | exact ⟨h.lc, h.now⟩
    | exact ⟨setSent_inv _ _ _ _ _ h.now h.lc, Nat.succ_pos _⟩
    | (rename_i hh _ _ _; exact ⟨lc_of_outbox h.lc (outbox_updateState hh), h.now⟩)
    | (rename_i hh _ _; exact ⟨lc_of_outbox h.lc (outbox_updateState hh), h.now⟩)
    | (rename_i hh _ _ _ _; exact ⟨lc_of_outbox h.lc (outbox_next hh), h.now⟩)
    | (rename_i hh _ _ _; exact ⟨lc_of_outbox h.lc (outbox_next hh), h.now⟩)
    | (rename_i hh _ _; exact ⟨lc_of_outbox h.lc (outbox_next hh), h.now⟩)

theorem linv_step (E D : Spec.Rfc4493.BlockFn) (cfg : Config) (sys : Sys) (i : Nat) (fault : Bool) (h : LInv sys) :
    LInv (step E D cfg sys i fault) := by
  unfold step
  split
  · exact h
  · rename_i t _
    have key : ∀ (r : Sys × List Thread), LInv r.1 →
        LInv (match r.2 with
          | [] => { r.1 with threads := replaceAt r.1.threads i .done }
          | t0 :: more => { r.1 with threads := replaceAt r.1.threads i t0 ++ more }) := by
      intro r hr
      split <;> exact ⟨hr.lc, hr.now⟩
    cases t with
    | uplink s => exact key _ (linv_stepUplink E sys s fault h)
    | join s => exact key _ (linv_stepJoin E cfg sys s fault h)
    | notify p c =>
      refine key (stepNotify sys c) ?_
      unfold stepNotify
      split
      · exact h
      · exact ⟨h.lc, h.now⟩
    | sendAt c =>
      refine key (stepSendAt sys c) ?_
      unfold stepSendAt
      split <;> exact ⟨h.lc, h.now⟩
    | sendDone e => exact key (stepSendDone sys e) ⟨h.lc, h.now⟩
    | encoder pc p c b => exact key _ (linv_stepEncoder E D sys pc p c b fault h)
    | done => exact key (sys, [.done]) h

theorem linv_settle (E D : Spec.Rfc4493.BlockFn) (cfg : Config) (fuel : Nat) (sys : Sys) (h : LInv sys) :
    LInv (settle E D cfg fuel sys) := by
  induction fuel generalizing sys with
  | zero => exact h
  | succ n ih =>
    unfold settle
    split
    · exact ⟨h.lc, h.now⟩
    · exact ih _ (linv_step E D cfg sys _ false h)

/-- Submissions enter the queue unacknowledged (the API's `SendMessage` stores ack_time 0). -/
def Event.wellFormed : Event → Prop
  | .submit m => m.acked = 0
  | _ => True

theorem linv_apply (E D : Spec.Rfc4493.BlockFn) (cfg : Config) (sys : Sys) (ev : Event) (hev : Event.wellFormed ev) (h : LInv sys) :
    LInv (apply E D cfg sys ev) := by
  cases ev with
  | deliver raw gw an na =>
    simp only [apply]
    split
    · exact ⟨h.lc, h.now⟩
    · exact h
  | submit m =>
    simp only [apply]
    refine ⟨?_, h.now⟩
    cases ha : sys.db.addOutbox m with
    | none => simpa using h.lc
    | some db' => simpa using addOutbox_inv sys.db db' m hev h.lc ha
  | stepT i f => exact linv_step E D cfg sys i f h
  | quiesce => exact linv_settle E D cfg 200 sys h
  | crash => exact ⟨h.lc, h.now⟩

/-- **All schedules.** Whatever the interleaving of handlers, scheduler and encoders, faults and
    crashes: a queued message is never reported acknowledged without being reported sent. -/
theorem C08_lifecycle_all_schedules (E D : Spec.Rfc4493.BlockFn) (cfg : Config) (db : DB) (evs : List Event)
    (h0 : LifeCycle db) (hev : ∀ ev ∈ evs, Event.wellFormed ev) : LifeCycle (run E D cfg (Sys.init db) evs).db := by
  have : ∀ (sys : Sys), LInv sys → (∀ ev ∈ evs, Event.wellFormed ev) → LInv (run E D cfg sys evs) := by
    induction evs with
    | nil => intro sys h _; exact h
    | cons ev rest ih =>
      intro sys h hw
      exact ih (fun e he => hev e (List.mem_cons_of_mem _ he)) _ (linv_apply E D cfg sys ev (hw ev List.mem_cons_self) h)
        (fun e he => hw e (List.mem_cons_of_mem _ he))
  exact (this (Sys.init db) ⟨h0, by simp [Sys.init]⟩ hev).lc

end Props.C08
end LospanVerif
