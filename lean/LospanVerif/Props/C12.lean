import LospanVerif.Proofs.Phy
/-
  C12 — whenever the library accepts a data frame, the fields it reports are the ones LoRaWAN 1.0
  framing defines for those bytes; decoding never reports bytes outside the supplied slice;
  unsupported versions and message types are rejected.
  (Encode direction: Props/C12Enc.lean.)
-/
namespace LospanVerif
namespace Props.C12
open Model.Mac Model.Phy Proofs.Phy

/-- What the model reports for a data frame, against the specification's parse `q` of the same
    octets. For port 0 (payload consumed as MAC commands) only containment of the reported
    remainder in the FRMPayload is claimed, as the property states. -/
def Agrees (p : PHY) (q : Spec.Frame.DataFrame) : Prop :=
  p.mhdr.mtype = q.mtype ∧ p.mhdr.major = q.major ∧
  p.mac.fhdr.devAddr.toUint32 = q.devAddr ∧
  p.mac.fhdr.fctrl.adr = q.adr ∧ p.mac.fhdr.fctrl.adrAckReq = q.adrAckReq ∧ p.mac.fhdr.fctrl.ack = q.ack ∧
  p.mac.fhdr.fctrl.fPending = q.bit4 ∧ p.mac.fhdr.fctrl.classB = q.bit4 ∧
  p.mac.fhdr.fctrl.foptsLen = q.fopts.length ∧
  p.mac.fhdr.fcnt = q.fcnt ∧ p.mic = q.mic ∧
  (q.port = none → p.mac.fport = 0 ∧ p.mac.frm = []) ∧
  (∀ n, q.port = some n → n ≠ 0 → p.mac.fport = n ∧ p.mac.frm = q.frm) ∧
  (q.port = some 0 → p.mac.fport = 0 ∧ ∃ a, q.frm = a ++ p.mac.frm)

theorem drop_split {α} (X : List α) (a r : Nat) (h1 : a ≤ r) (h2 : r ≤ X.length) :
    X.drop a = (X.take r).drop a ++ X.drop r := by
  conv => lhs; rw [← List.take_append_drop r X]
  rw [List.drop_append_of_le_length (by simp only [List.length_take]; omega)]

theorem devAddr_val (a0 a1 a2 a3 : Byte) :
    (DevAddr.mk (unle [a0, a1, a2, a3] / 33554432) (unle [a0, a1, a2, a3] % 33554432)).toUint32 = unle [a0, a1, a2, a3] := by
  have := unle_lt_32 a0 a1 a2 a3
  simp only [DevAddr.toUint32]
  omega

/-- Decode direction, for every byte string: an accepted data frame is a LoRaWAN 1.0 data frame
    and every reported field is the specification's. -/
theorem C12_decode_fields (bs : Bytes) (p : PHY) (h : unmarshal bs = .ok p) (hd : isDataMType p.mhdr.mtype = true) :
    ∃ q, Spec.Frame.parse bs = some q ∧ Agrees p q := by
  unfold unmarshal at h
  split at h
  · cases h
  · rename_i hlen
    simp only [minimumMessageSize, Nat.not_lt] at hlen
    match bs, hlen with
    | m :: a0 :: a1 :: a2 :: a3 :: fc :: c0 :: c1 :: rest, hlen =>
      have hrest : 4 ≤ rest.length := by simp at hlen; omega
      simp only [MHDR.decode, idx, List.getElem?_cons_zero, Res.bind_ok] at h
      split at h
      · cases h
      · rename_i hver
        simp only [Res.bind_ok] at h
        split at h
        · rename_i hdata
          -- data frame
          cases hm : MACPayload.decode _ (m :: a0 :: a1 :: a2 :: a3 :: fc :: c0 :: c1 :: rest) (0 + 1) with
          | panic => rw [hm] at h; cases h
          | err e => rw [hm] at h; cases h
          | ok r =>
            obtain ⟨mp, pos'⟩ := r
            rw [hm] at h
            simp only [Res.bind_ok] at h
            cases h
            obtain ⟨hdr, q, hfd, hmf, hq4, hcases⟩ := macPayload_decode_ok _ _ _ _ _ hm
            obtain ⟨_, hda, hfc, hfcnt, hqv, _⟩ := fhdr_decode_ok _ _ _ _ _ hfd
            simp only [Nat.zero_add, List.drop_succ_cons, List.drop_zero, List.take_succ_cons, List.take_zero,
              List.getD_cons_succ, List.getD_cons_zero] at hda hfc hfcnt
            have hfol : hdr.fctrl.foptsLen = fc.toNat % 16 := by rw [hfc]; exact foptslen_bits fc
            have hmaj : m.toNat % 4 = 0 := by
              have := major_bits m
              simp only [maxSupportedVersion] at hver
              omega
            have hmt : ((m &&& 0xE0#8) >>> 5).toNat = m.toNat / 32 := mtype_bits m
            have hq : q = 8 + fc.toNat % 16 := by rw [hqv, hfol]
            have hlen' : (m :: a0 :: a1 :: a2 :: a3 :: fc :: c0 :: c1 :: rest).length = 8 + rest.length := by simp; omega
            rw [hlen'] at hq4 hcases
            have hfits : ¬ rest.length < fc.toNat % 16 + 4 := by omega
            -- the specification's parse
            have hparse : Spec.Frame.parse (m :: a0 :: a1 :: a2 :: a3 :: fc :: c0 :: c1 :: rest) = some
                { mtype := m.toNat / 32, major := m.toNat % 4, devAddr := unle [a0, a1, a2, a3],
                  adr := Spec.Frame.testBit fc.toNat 7, adrAckReq := Spec.Frame.testBit fc.toNat 6,
                  ack := Spec.Frame.testBit fc.toNat 5, bit4 := Spec.Frame.testBit fc.toNat 4,
                  fcnt := unle [c0, c1], fopts := rest.take (fc.toNat % 16),
                  port := (((rest.drop (fc.toNat % 16)).take ((rest.drop (fc.toNat % 16)).length - 4)).head?).map (·.toNat),
                  frm := ((rest.drop (fc.toNat % 16)).take ((rest.drop (fc.toNat % 16)).length - 4)).drop 1,
                  mic := unle ((rest.drop (fc.toNat % 16)).drop ((rest.drop (fc.toNat % 16)).length - 4)) } := by
              have hdm : Spec.Frame.isDataMType (m.toNat / 32) = true := by
                rw [← hmt]; simpa [Spec.Frame.isDataMType, isDataMType] using hdata
              simp only [Spec.Frame.parse, hmaj, hdm, hfits]
              simp
            refine ⟨_, hparse, ?_⟩
            -- abbreviations
            have hfoptsLen : (rest.take (fc.toNat % 16)).length = fc.toNat % 16 := by
              rw [List.length_take]; omega
            have hmic : unle (List.drop ((m :: a0 :: a1 :: a2 :: a3 :: fc :: c0 :: c1 :: rest).length - 4)
                (m :: a0 :: a1 :: a2 :: a3 :: fc :: c0 :: c1 :: rest))
                = unle ((rest.drop (fc.toNat % 16)).drop ((rest.drop (fc.toNat % 16)).length - 4)) := by
              rw [hlen']
              have : 8 + rest.length - 4 = (rest.length - 4) + 8 := by omega
              rw [this]
              simp only [List.drop_succ_cons, List.drop_drop, List.length_drop]
              congr 2
              omega
            have hfrmGen : ∀ r, q + 1 ≤ r → r ≤ 8 + rest.length - 4 →
                ∃ a, ((rest.drop (fc.toNat % 16)).take ((rest.drop (fc.toNat % 16)).length - 4)).drop 1
                  = a ++ List.drop r (List.take (8 + rest.length - 4) (m :: a0 :: a1 :: a2 :: a3 :: fc :: c0 :: c1 :: rest)) ∧
                  a.length = r - (q + 1) := by
              intro r hr1 hr2
              have h8 : 8 + rest.length - 4 = (rest.length - 4) + 8 := by omega
              obtain ⟨r', rfl⟩ : ∃ r', r = r' + 8 := ⟨r - 8, by omega⟩
              rw [h8]
              simp only [List.take_succ_cons, List.drop_succ_cons, List.length_drop]
              refine ⟨((rest.take (rest.length - 4)).take r').drop (fc.toNat % 16 + 1), ?_, ?_⟩
              · have e1 : (rest.drop (fc.toNat % 16)).take (rest.length - fc.toNat % 16 - 4)
                    = (rest.take (rest.length - 4)).drop (fc.toNat % 16) := by
                  rw [List.drop_take]; congr 1; omega
                rw [e1, List.drop_drop]
                exact drop_split _ _ _ (by omega) (by simp only [List.length_take]; omega)
              · simp only [List.length_take, List.length_drop]; omega
            simp only [Agrees]
            refine ⟨hmt, major_bits m, ?_, ?_, ?_, ?_, ?_, ?_, ?_, ?_, hmic, ?_, ?_, ?_⟩
            · rw [hmf, hda]; exact devAddr_val a0 a1 a2 a3
            · rw [hmf, hfc]; exact bit7 fc
            · rw [hmf, hfc]; exact bit6 fc
            · rw [hmf, hfc]; exact bit5 fc
            · rw [hmf, hfc]; exact bit4 fc
            · rw [hmf, hfc]; exact bit4 fc
            · rw [hmf, hfol, hfoptsLen]
            · rw [hmf, hfcnt]
            · -- no port
              intro hnone
              simp only [Option.map_eq_none_iff, List.head?_eq_none_iff, List.take_eq_nil_iff, List.length_drop,
                List.drop_eq_nil_iff] at hnone
              rcases hcases with ⟨_, hp, hf⟩ | ⟨h6, _⟩
              · exact ⟨hp, hf⟩
              · omega
            · -- application port
              intro n hsome hn0
              rcases hcases with ⟨h4, _, _⟩ | ⟨h6, hport, hfrm⟩
              · exfalso
                have : ((rest.drop (fc.toNat % 16)).take ((rest.drop (fc.toNat % 16)).length - 4)) = [] := by
                  rw [List.take_eq_nil_iff]; left; simp only [List.length_drop]; omega
                rw [this] at hsome; cases hsome
              · have hportv : (List.getD (m :: a0 :: a1 :: a2 :: a3 :: fc :: c0 :: c1 :: rest) q 0#8).toNat = n := by
                  obtain ⟨q', rfl⟩ : ∃ q', q = q' + 8 := ⟨q - 8, by omega⟩
                  have hq' : q' = fc.toNat % 16 := by omega
                  simp only [List.getD_cons_succ]
                  subst hq'
                  simp only [List.head?_take, List.head?_drop, List.length_drop] at hsome
                  split at hsome
                  · cases hsome
                  · simp only [Option.map_eq_some_iff] at hsome
                    obtain ⟨b, hb, rfl⟩ := hsome
                    simp [List.getD, hb]
                rw [hportv] at hport
                rcases hfrm with ⟨_, hf⟩ | ⟨h0, _⟩
                · refine ⟨hport, ?_⟩
                  obtain ⟨a, ha, hal⟩ := hfrmGen (q + 1) (Nat.le_refl _) (by omega)
                  have : a = [] := List.eq_nil_of_length_eq_zero (by omega)
                  subst this
                  rw [hf, ha]; simp
                · omega
            · -- port 0: containment
              intro hsome
              rcases hcases with ⟨h4, _, _⟩ | ⟨h6, hport, hfrm⟩
              · exfalso
                have : ((rest.drop (fc.toNat % 16)).take ((rest.drop (fc.toNat % 16)).length - 4)) = [] := by
                  rw [List.take_eq_nil_iff]; left; simp only [List.length_drop]; omega
                rw [this] at hsome; cases hsome
              · have hportv : (List.getD (m :: a0 :: a1 :: a2 :: a3 :: fc :: c0 :: c1 :: rest) q 0#8).toNat = 0 := by
                  obtain ⟨q', rfl⟩ : ∃ q', q = q' + 8 := ⟨q - 8, by omega⟩
                  have hq' : q' = fc.toNat % 16 := by omega
                  simp only [List.getD_cons_succ]
                  subst hq'
                  simp only [List.head?_take, List.head?_drop, List.length_drop] at hsome
                  split at hsome
                  · cases hsome
                  · simp only [Option.map_eq_some_iff] at hsome
                    obtain ⟨b, hb, hb0⟩ := hsome
                    simp [List.getD, hb, hb0]
                rw [hportv] at hport
                rcases hfrm with ⟨hne, _⟩ | ⟨_, hf⟩
                · omega
                · refine ⟨hport, ?_⟩
                  rcases hf with hf | ⟨r, hr1, hr2, hf⟩
                  · rw [hf]; exact ⟨_, (List.append_nil _).symm⟩
                  · obtain ⟨a, ha, _⟩ := hfrmGen r hr1 hr2
                    exact ⟨a, by rw [hf, ha]⟩
        · -- not a data type: the result's mtype is not a data type
          rename_i hnd
          exfalso
          split at h
          · cases hj : JoinRequest.decode (m :: a0 :: a1 :: a2 :: a3 :: fc :: c0 :: c1 :: rest) 1 with
            | panic => rw [hj] at h; cases h
            | err e => rw [hj] at h; cases h
            | ok r => rw [hj] at h; simp only [Res.bind_ok] at h; cases h; simp_all
          · split at h
            · cases hj : JoinAccept.decode (m :: a0 :: a1 :: a2 :: a3 :: fc :: c0 :: c1 :: rest) (0 + 1) with
              | panic => rw [hj] at h; cases h
              | err e => rw [hj] at h; cases h
              | ok r => rw [hj] at h; simp only [Res.bind_ok] at h; cases h; simp_all
            · cases h

/-- Frames with an unsupported major version are rejected with the version error. -/
theorem C12_reject_version (bs : Bytes) (h : 12 ≤ bs.length) (hv : (bs.getD 0 0#8).toNat % 4 ≠ 0) :
    unmarshal bs = .err .invalidVersion := by
  match bs, h with
  | m :: rest, h =>
    have hm := major_bits m
    simp only [List.getD_cons_zero] at hv
    unfold unmarshal
    rw [if_neg (by simp only [minimumMessageSize]; omega)]
    simp only [MHDR.decode, idx, List.getElem?_cons_zero, Res.bind_ok]
    split
    · rfl
    · rename_i hh; simp only [maxSupportedVersion] at hh; omega

/-- Frames of type RFU / Proprietary (major version 0) are rejected with the message-type error. -/
theorem C12_reject_mtype (bs : Bytes) (h : 12 ≤ bs.length) (hv : (bs.getD 0 0#8).toNat % 4 = 0)
    (ht : (bs.getD 0 0#8).toNat / 32 = 6 ∨ (bs.getD 0 0#8).toNat / 32 = 7) :
    unmarshal bs = .err .invalidMType := by
  match bs, h with
  | m :: rest, h =>
    have h1 := major_bits m
    have h2 := mtype_bits m
    simp only [List.getD_cons_zero] at hv ht
    unfold unmarshal
    rw [if_neg (by simp only [minimumMessageSize]; omega)]
    simp only [MHDR.decode, idx, List.getElem?_cons_zero, Res.bind_ok]
    split
    · rename_i hh; simp only [maxSupportedVersion] at hh; omega
    · simp only [Res.bind_ok, h2]
      rcases ht with ht | ht <;> simp [ht, isDataMType, mtJoinRequest, mtJoinAccept]

/-- Containment: whatever is reported as FRMPayload is no longer than the bytes between the
    8-byte header and the 4-byte MIC of the supplied slice. -/
theorem C12_contained (bs : Bytes) (p : PHY) (h : unmarshal bs = .ok p) (hd : isDataMType p.mhdr.mtype = true) :
    p.mac.frm.length + 12 ≤ bs.length := by
  obtain ⟨q, hq, hag⟩ := C12_decode_fields bs p h hd
  obtain ⟨_, _, _, _, _, _, _, _, _, _, _, hnone, hport, hzero⟩ := hag
  have hqlen : q.frm.length + 12 ≤ bs.length := by
    unfold Spec.Frame.parse at hq
    split at hq
    · rename_i m a0 a1 a2 a3 fc c0 c1 rest
      simp only at hq
      split at hq
      · cases hq
      · split at hq
        · cases hq
        · rename_i hfit
          cases hq
          simp only [List.length_cons, List.length_drop, List.length_take]
          omega
    · cases hq
  cases hp : q.port with
  | none => rw [(hnone hp).2]; simp only [List.length_nil]; omega
  | some n =>
    by_cases hn : n = 0
    · subst hn
      obtain ⟨_, a, ha⟩ := hzero hp
      have := congrArg List.length ha
      simp only [List.length_append] at this
      omega
    · rw [(hport n hp hn).2]; exact hqlen

/-- Non-vacuity: a concrete accepted frame with FOpts and an application port. -/
example : ∃ p, unmarshal [0x40#8, 1#8, 2#8, 3#8, 4#8, 0x81#8, 1#8, 0#8, 0x02#8, 7#8, 0xAA#8, 9#8, 9#8, 9#8, 9#8] = .ok p ∧
    isDataMType p.mhdr.mtype = true ∧ p.mac.fport = 7 ∧ p.mac.frm = [0xAA#8] := by
  refine ⟨_, rfl, ?_, ?_, ?_⟩ <;> decide

end Props.C12
end LospanVerif
