import LospanVerif.Model.Alloc
/-
  C19 (allocator part) — no id is ever handed out twice: not with any number of concurrent
  requesters, not after a restart, not after a crash before or after the commit of a reservation.
-/
namespace LospanVerif
namespace Props.C19Alloc
open Model.Alloc

/-- Invariant: everything handed out or still reserved lies below the durable counter; the live
    blocks are disjoint from each other and from everything already handed out. -/
structure Inv (initial : Nat) (s : St) : Prop where
  below : ∀ id ∈ s.issued, id < s.counter.getD initial
  blockBelow : ∀ r, (s.blocks r).1 < (s.blocks r).2 → (s.blocks r).2 ≤ s.counter.getD initial
  fresh : ∀ r, ∀ id ∈ s.issued, ¬ ((s.blocks r).1 ≤ id ∧ id < (s.blocks r).2)
  disjoint : ∀ r r', r ≠ r' → (s.blocks r).1 < (s.blocks r).2 → (s.blocks r').1 < (s.blocks r').2 →
    (s.blocks r).2 ≤ (s.blocks r').1 ∨ (s.blocks r').2 ≤ (s.blocks r).1
  nodup : s.issued.Nodup

theorem inv_init (initial : Nat) : Inv initial init := by
  constructor <;> simp [init, noBlocks]

theorem inv_noBlocks (initial : Nat) (s : St) (c : Option Nat) (h : Inv initial s)
    (hc : s.counter.getD initial ≤ c.getD initial) : Inv initial { s with counter := c, blocks := noBlocks } := by
  constructor
  · intro id hid; have := h.below id hid; simp only at *; omega
  · intro r hr; simp [noBlocks] at hr
  · intro r id _; simp [noBlocks]
  · intro r r' _ hr; simp [noBlocks] at hr
  · exact h.nodup

theorem inv_step (initial interval : Nat) (s : St) (e : Ev) (h : Inv initial s) : Inv initial (step initial interval s e) := by
  cases e with
  | restart => exact inv_noBlocks initial s s.counter h (Nat.le_refl _)
  | crashInReserve c =>
    cases c with
    | false => exact inv_noBlocks initial s s.counter h (Nat.le_refl _)
    | true => exact inv_noBlocks initial s (some (s.counter.getD initial + interval)) h (by simp)
  | reserve r =>
    simp only [step]
    constructor
    · intro id hid; have := h.below id hid; simp only [Option.getD_some]; omega
    · intro x hx
      simp only [upd] at hx ⊢
      split at hx
      · rename_i hxr; rw [if_pos hxr]; simp
      · rename_i hne; rw [if_neg hne]; have := h.blockBelow x hx; simp only [Option.getD_some]; omega
    · intro x id hid
      simp only [upd]
      split
      · have := h.below id hid; simp only; omega
      · exact h.fresh x id hid
    · intro x x' hne hx hx'
      simp only [upd] at hx hx' ⊢
      by_cases h1 : x = r
      · have h2 : x' ≠ r := fun h' => hne (h1.trans h'.symm)
        rw [if_pos h1]; rw [if_neg h2] at hx' ⊢
        have := h.blockBelow x' hx'
        right; simp only; omega
      · by_cases h2 : x' = r
        · rw [if_neg h1] at hx ⊢; rw [if_pos h2]
          have := h.blockBelow x hx
          left; simp only; omega
        · rw [if_neg h1] at hx ⊢; rw [if_neg h2] at hx' ⊢
          exact h.disjoint x x' hne hx hx'
    · exact h.nodup
  | issue r =>
    simp only [step]
    split
    · rename_i hlt
      constructor
      · intro id hid
        rcases List.mem_cons.mp hid with rfl | hid
        · have := h.blockBelow r hlt; dsimp only; omega
        · exact h.below id hid
      · intro x hx
        simp only [upd] at hx ⊢
        split at hx
        · rename_i hxr; subst hxr; rw [if_pos rfl]; exact h.blockBelow x hlt
        · rename_i hne; rw [if_neg hne]; exact h.blockBelow x hx
      · intro x id hid
        simp only [upd]
        rcases List.mem_cons.mp hid with rfl | hid
        · split
          · simp only; omega
          · rename_i hne
            intro hc
            have hx : (s.blocks x).1 < (s.blocks x).2 := by omega
            rcases h.disjoint x r hne hx hlt with hd | hd <;> omega
        · split
          · have := h.fresh r id hid; simp only; omega
          · exact h.fresh x id hid
      · intro x x' hne hx hx'
        simp only [upd] at hx hx' ⊢
        by_cases h1 : x = r
        · have h2 : x' ≠ r := fun h' => hne (h1.trans h'.symm)
          rw [if_pos h1] at hx ⊢; rw [if_neg h2] at hx' ⊢
          subst h1
          have := h.disjoint x x' hne hlt hx'
          simp only at hx ⊢; omega
        · by_cases h2 : x' = r
          · rw [if_neg h1] at hx ⊢; rw [if_pos h2] at hx' ⊢
            subst h2
            have := h.disjoint x x' hne hx hlt
            simp only at hx' ⊢; omega
          · rw [if_neg h1] at hx ⊢; rw [if_neg h2] at hx' ⊢
            exact h.disjoint x x' hne hx hx'
      · refine List.nodup_cons.mpr ⟨?_, h.nodup⟩
        intro hmem
        exact h.fresh r _ hmem ⟨Nat.le_refl _, hlt⟩
    · exact h

/-- For every sequence of reservations by any number of requesters, hand-outs, restarts and
    crashes inside a reservation (before or after its commit), no id is handed out twice. -/
theorem C19_never_twice (initial interval : Nat) (evs : List Ev) : (run initial interval init evs).issued.Nodup := by
  have : ∀ s, Inv initial s → Inv initial (run initial interval s evs) := by
    induction evs with
    | nil => intro s h; exact h
    | cons e rest ih => intro s h; exact ih _ (inv_step initial interval s e h)
  exact (this init (inv_init initial)).nodup

/-- Non-vacuity: two requesters, a crash after commit, a restart; ids 1,2,11,21 handed out. -/
example : (run 1 10 init [.reserve 0, .issue 0, .issue 0, .reserve 1, .issue 1, .crashInReserve true, .reserve 0, .issue 0]).issued
    = [31, 11, 2, 1] := by decide

end Props.C19Alloc
end LospanVerif
