import LospanVerif.Model.Pipeline
/-
  C05 — a DevNonce is honoured at most once per device (unless the check is switched off).
  The nonce insert is one atomic storage operation with a primary key (device, nonce); a handler
  continues past it only if *its* insert succeeded. Hence for every interleaving of any number
  of handlers: at most one of them gets past the insert for a given (device, nonce).
-/
namespace LospanVerif
namespace Props.C05
open Model.Pipeline Model.Phy

/-- The check on the snapshot: a nonce already in the device's history stops the handler, no effect. -/
theorem C05_reused_nonce_ignored (E : Spec.Rfc4493.BlockFn) (cfg : Config) (sys : Sys) (s : JoinSt) (fault : Bool)
    (h1 : s.pc = 1) (hon : cfg.nonceCheckOff = false) (d : Device) (hd : sys.db.byEUI s.p.joinReq.devEUI = some d)
    (hused : d.nonces.contains s.p.joinReq.devNonce = true) :
    stepJoin E cfg sys s fault = (sys, [.done]) := by
  have hmem : s.p.joinReq.devNonce ∈ d.nonces := by simpa using hused
  simp only [stepJoin, h1]
  split
  · rfl
  · simp [hd, hon, hmem]

/-- The insert succeeds only for a nonce not yet stored, and stores it. -/
theorem addNonce_fresh (db db' : DB) (e : Bytes) (n : Nat) (d : Device) (hd : db.byEUI e = some d)
    (h : db.addNonce e n = some db') : d.nonces.contains n = false := by
  unfold DB.addNonce at h
  rw [hd] at h
  simp only at h
  split at h
  · cases h
  · rename_i hc; simpa using hc

theorem byEUI_eui (db : DB) (e : Bytes) (d : Device) (h : db.byEUI e = some d) : d.eui = e := by
  unfold DB.byEUI at h
  have := List.find?_some h
  simpa using this

theorem find_map_eui (l : List Device) (e : Bytes) (f : Device → Device) (hf : ∀ x, (f x).eui = x.eui) :
    (l.map f).find? (·.eui == e) = (l.find? (·.eui == e)).map f := by
  induction l with
  | nil => rfl
  | cons x xs ih =>
    simp only [List.map_cons, List.find?_cons, hf]
    split
    · rfl
    · exact ih

theorem addNonce_stores (db db' : DB) (e : Bytes) (n : Nat) (d : Device) (hd : db.byEUI e = some d)
    (h : db.addNonce e n = some db') : ∃ d', db'.byEUI e = some d' ∧ n ∈ d'.nonces := by
  have he := byEUI_eui db e d hd
  unfold DB.addNonce at h
  rw [hd] at h
  simp only at h
  split at h
  · cases h
  · cases h
    unfold DB.byEUI at hd ⊢
    simp only
    rw [find_map_eui _ _ _ (by intro x; split <;> rfl), hd]
    refine ⟨_, rfl, ?_⟩
    simp [he]

/-- Once a nonce is stored, a second insert of it fails — whichever handler tries, whenever. -/
theorem C05_second_insert_fails (db db' : DB) (e : Bytes) (n : Nat) (d : Device) (hd : db.byEUI e = some d)
    (h : db.addNonce e n = some db') : db'.addNonce e n = none := by
  obtain ⟨d', hd', hc⟩ := addNonce_stores db db' e n d hd h
  unfold DB.addNonce
  rw [hd']
  simp [hc]

/-- A handler whose insert fails (nonce already stored by another copy, or write error) stops:
    no key change, no join-accept. -/
theorem C05_failed_insert_stops (E : Spec.Rfc4493.BlockFn) (cfg : Config) (sys : Sys) (s : JoinSt)
    (h3 : s.pc = 3) (hon : cfg.nonceCheckOff = false)
    (hfail : sys.db.addNonce s.dev.eui s.p.joinReq.devNonce = none) :
    stepJoin E cfg sys s false = (sys, [.done]) ∧ stepJoin E cfg sys s true = (sys, [.done]) := by
  constructor <;> simp [stepJoin, h3, hon, hfail]

end Props.C05
end LospanVerif
