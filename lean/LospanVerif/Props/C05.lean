import LospanVerif.Model.Pipeline
import LospanVerif.Proofs.Circ
/-
  C05 — a DevNonce is honoured at most once per device (unless the check is switched off).
  The nonce insert is one atomic storage operation on a table with primary key (device, nonce); a
  handler changes keys only after *its own* insert succeeded. `keyedJoins` is the history of key
  changes (device, DevNonce) made with the check on. The first theorem holds for EVERY event list:
  any number of copies of a join-request through any number of gateways, every interleaving of their
  handlers at storage-operation granularity, injected faults, crashes and restarts anywhere.
-/
namespace LospanVerif
namespace Props.C05
open Model.Pipeline Model.Phy Proofs.Circ

/-- **All schedules.** No (device, DevNonce) leads to a key change twice, and every key change was
    preceded by the insert of its nonce into the table (so a later request with that nonce — also
    after a crash or restart, the table being durable — fails the insert: `C05_second_insert_fails`). -/
theorem C05_keyed_once (E D : Spec.Rfc4493.BlockFn) (cfg : Config) (db : DB) (evs : List Event) (x : Bytes × Nat) :
    (run E D cfg (Sys.init db) evs).keyedJoins.count x ≤ 1 ∧
    (x ∈ (run E D cfg (Sys.init db) evs).keyedJoins → x ∈ (run E D cfg (Sys.init db) evs).db.nonces) := by
  obtain ⟨h1, h2⟩ := (kinv_run E D cfg _ evs (kinv_init cfg db)).jn x (by simp [jnBook])
  simp only [Book.circ, jnBook] at h1 h2
  refine ⟨by omega, fun hm => h2 ?_⟩
  have : 0 < (run E D cfg (Sys.init db) evs).keyedJoins.count x := List.count_pos_iff.mpr hm
  omega

/-- The history entry and the key change are written together (check on). -/
theorem C05_keychange_records (E : Spec.Rfc4493.BlockFn) (cfg : Config) (sys : Sys) (s : JoinSt) (h4 : s.pc = 4)
    (hon : cfg.nonceCheckOff = false) :
    (stepJoin E cfg sys s false).1.keyedJoins = sys.keyedJoins ∨
    (stepJoin E cfg sys s false).1.keyedJoins = sys.keyedJoins ++ [(s.dev.eui, s.p.joinReq.devNonce)] := by
  simp only [stepJoin, h4, Bool.false_eq_true, if_false]
  split <;> simp [hon]

/-- The check on the copy the handler read: a nonce already in the device's history stops the handler, no effect. -/
theorem C05_reused_nonce_ignored (E : Spec.Rfc4493.BlockFn) (cfg : Config) (sys : Sys) (s : JoinSt) (fault : Bool)
    (h1 : s.pc = 1) (hon : cfg.nonceCheckOff = false) (d : Device) (hd : sys.db.byEUI s.p.joinReq.devEUI = some d)
    (hused : d.nonces.contains s.p.joinReq.devNonce = true) :
    stepJoin E cfg sys s fault = (sys, [.done]) := by
  have hmem : s.p.joinReq.devNonce ∈ d.nonces := by simpa using hused
  simp only [stepJoin, h1]
  split
  · rfl
  · simp [hd, hon, hmem]

/-- The history a handler reads is the device's rows of the nonce table. -/
theorem byEUI_nonces (db : DB) (e : Bytes) (d : Device) (h : db.byEUI e = some d) (n : Nat) :
    n ∈ d.nonces ↔ (e, n) ∈ db.nonces := by
  unfold DB.byEUI at h
  cases hr : db.rowByEUI e with
  | none => rw [hr] at h; cases h
  | some r =>
    rw [hr] at h
    simp only [Option.map_some, Option.some.injEq] at h
    subst h
    simp [DB.noncesOf]

/-- The insert succeeds only for a nonce not yet in the table, and stores it. -/
theorem addNonce_fresh (db db' : DB) (e : Bytes) (n : Nat) (h : db.addNonce e n = some db') : (e, n) ∉ db.nonces := by
  unfold DB.addNonce at h
  split at h
  · cases h
  · rename_i hc; simpa using hc

theorem addNonce_stores (db db' : DB) (e : Bytes) (n : Nat) (h : db.addNonce e n = some db') : (e, n) ∈ db'.nonces := by
  unfold DB.addNonce at h
  split at h
  · cases h
  · cases h; simp

/-- Once a nonce is stored, a second insert of it fails — whichever handler tries, whenever. -/
theorem C05_second_insert_fails (db : DB) (e : Bytes) (n : Nat) (h : (e, n) ∈ db.nonces) : db.addNonce e n = none := by
  unfold DB.addNonce
  rw [if_pos]
  simpa using h

/-- A handler whose insert fails (nonce already stored by another copy, or write error) stops:
    no key change, no join-accept. -/
theorem C05_failed_insert_stops (E : Spec.Rfc4493.BlockFn) (cfg : Config) (sys : Sys) (s : JoinSt)
    (h3 : s.pc = 3) (hon : cfg.nonceCheckOff = false)
    (hfail : sys.db.addNonce s.dev.eui s.p.joinReq.devNonce = none) :
    stepJoin E cfg sys s false = (sys, [.done]) ∧ stepJoin E cfg sys s true = (sys, [.done]) := by
  constructor <;> simp [stepJoin, h3, hon, hfail]

end Props.C05
end LospanVerif
