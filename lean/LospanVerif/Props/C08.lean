import LospanVerif.Model.Pipeline
/-
  C08 — confirmed downlinks: acknowledged only by an ACK, retransmitted until then; unconfirmed
  ones transmitted at most once; nothing reported sent before an uplink.
  Proved here on the outbox operations, for every database state: the life-cycle invariant
  "acknowledged ⇒ sent" is kept by every operation the pipeline performs on the outbox; only
  `UpdateMessageAckTime` (issued for an accepted uplink with the ACK flag) acknowledges, and only
  rows that are sent and carry that uplink's counter; only confirmed, sent, unacknowledged rows
  are re-queued by an accepted uplink without the ACK flag; unconfirmed rows are never re-queued.
-/
namespace LospanVerif
namespace Props.C08
open Model.Pipeline

def LifeCycle (db : DB) : Prop := ∀ m ∈ db.outbox, m.acked > 0 → m.sent > 0

theorem ackTime_inv (db : DB) (e : Bytes) (fcnt now : Nat) (h : LifeCycle db) : LifeCycle (db.ackTime e fcnt now) := by
  intro m hm hacked
  simp only [DB.ackTime, List.mem_map] at hm
  obtain ⟨x, hx, rfl⟩ := hm
  by_cases hc : (x.dev == e && x.fcntUp == fcnt && decide (x.sent > 0) && x.acked == 0) = true
  · simp only [hc, if_true]; simp at hc; exact hc.1.2
  · simp only [hc] at hacked ⊢; exact h x hx hacked

theorem resetAcks_inv (db : DB) (e : Bytes) (h : LifeCycle db) : LifeCycle (db.resetAcks e) := by
  intro m hm hacked
  simp only [DB.resetAcks, List.mem_map] at hm
  obtain ⟨x, hx, rfl⟩ := hm
  by_cases hc : (x.dev == e && decide (x.sent > 0) && x.acked == 0 && x.ack) = true
  · simp only [hc, if_true] at hacked
    simp at hc
    omega
  · simp only [hc] at hacked ⊢; exact h x hx hacked

theorem setSent_inv (db : DB) (e : Bytes) (created now fcnt : Nat) (hnow : now > 0) (h : LifeCycle db) :
    LifeCycle (db.setSent e created now fcnt) := by
  intro m hm hacked
  simp only [DB.setSent, List.mem_map] at hm
  obtain ⟨x, hx, rfl⟩ := hm
  by_cases hc : (x.dev == e && x.created == created) = true
  · simp only [hc, if_true]; exact hnow
  · simp only [hc] at hacked ⊢; exact h x hx hacked

theorem addOutbox_inv (db db' : DB) (m : OutRow) (hm : m.acked = 0) (h : LifeCycle db) (ha : db.addOutbox m = some db') : LifeCycle db' := by
  unfold DB.addOutbox at ha
  split at ha
  · cases ha
  · cases ha
    intro x hx hacked
    simp only [List.mem_append, List.mem_singleton] at hx
    rcases hx with hx | rfl
    · exact h x hx hacked
    · omega

/-- Only an acknowledging uplink acknowledges, and only a row that has been sent with that uplink's counter. -/
theorem C08_ack_only_sent_rows (db : DB) (e : Bytes) (fcnt now : Nat) (m m' : OutRow)
    (_hm : m ∈ db.outbox) (h : m' = (if m.dev == e && m.fcntUp == fcnt && m.sent > 0 && m.acked == 0 then { m with acked := now } else m))
    (hchg : m'.acked ≠ m.acked) : m.sent > 0 ∧ m.dev = e ∧ m.fcntUp = fcnt := by
  subst h
  split at hchg
  · rename_i hc; simp at hc; exact ⟨hc.1.2, hc.1.1.1, hc.1.1.2⟩
  · exact absurd rfl hchg

/-- An accepted uplink without the ACK flag re-queues exactly the confirmed, sent, unacknowledged
    rows of its device (they become unsent again) and leaves every other row as it is — in
    particular a message that did not request acknowledgement is never re-queued. -/
theorem C08_requeue_exactly (db : DB) (e : Bytes) (m : OutRow) (hm : m ∈ db.outbox) :
    (m.dev = e ∧ m.ack = true ∧ m.sent > 0 ∧ m.acked = 0 → { m with sent := 0, fcntUp := 0 } ∈ (db.resetAcks e).outbox) ∧
    (¬ (m.dev = e ∧ m.ack = true ∧ m.sent > 0 ∧ m.acked = 0) → m ∈ (db.resetAcks e).outbox) := by
  constructor
  · rintro ⟨h1, h2, h3, h4⟩
    simp only [DB.resetAcks, List.mem_map]
    exact ⟨m, hm, by simp [h1, h2, h3, h4]⟩
  · intro hn
    simp only [DB.resetAcks, List.mem_map]
    refine ⟨m, hm, ?_⟩
    split
    · rename_i hc; simp at hc; exact absurd ⟨hc.1.1.1, hc.2, hc.1.1.2, hc.1.2⟩ hn
    · rfl

/-- Only unsent rows are ever picked for transmission. -/
theorem mem_insertByCreated (m x : OutRow) (l : List OutRow) : x ∈ insertByCreated m l ↔ x = m ∨ x ∈ l := by
  induction l with
  | nil => simp [insertByCreated]
  | cons a rest ih =>
    simp only [insertByCreated]
    split
    · simp
    · simp only [List.mem_cons, ih]
      constructor
      · rintro (h | h | h)
        · exact Or.inr (Or.inl h)
        · exact Or.inl h
        · exact Or.inr (Or.inr h)
      · rintro (h | h | h)
        · exact Or.inr (Or.inl h)
        · exact Or.inl h
        · exact Or.inr (Or.inr h)

theorem mem_foldl_insert (l acc : List OutRow) (x : OutRow) :
    x ∈ l.foldl (fun acc m => insertByCreated m acc) acc ↔ x ∈ acc ∨ x ∈ l := by
  induction l generalizing acc with
  | nil => simp
  | cons a rest ih =>
    simp only [List.foldl_cons, ih, mem_insertByCreated, List.mem_cons]
    constructor
    · rintro ((h | h) | h)
      · exact Or.inr (Or.inl h)
      · exact Or.inl h
      · exact Or.inr (Or.inr h)
    · rintro (h | h | h)
      · exact Or.inl (Or.inr h)
      · exact Or.inl (Or.inl h)
      · exact Or.inr h

theorem C08_only_unsent_transmitted (db : DB) (e : Bytes) (m : OutRow) (h : db.nextUnsent e = some m) :
    m ∈ db.outbox ∧ m.dev = e ∧ m.sent = 0 := by
  unfold DB.nextUnsent at h
  have hm : m ∈ (db.outbox.filter (fun m => m.dev == e && m.sent == 0)).foldl (fun acc m => insertByCreated m acc) [] :=
    List.mem_of_mem_head? h
  rw [mem_foldl_insert] at hm
  rcases hm with hm | hm
  · cases hm
  · simp only [List.mem_filter, Bool.and_eq_true, beq_iff_eq] at hm
    exact ⟨hm.1, hm.2.1, hm.2.2⟩

end Props.C08
end LospanVerif
