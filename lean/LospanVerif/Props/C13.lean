import LospanVerif.Proofs.Mac
/-
  C13 — all 22 MAC commands encode to their specified layout, occupy their declared length and
  round-trip; command sets respect their limit and direction, list deterministically and report
  the length they write.
-/
namespace LospanVerif
namespace Props.C13
open Model.Mac Proofs.Mac
open Spec.MacLayout (fits layout)

/-- CID and direction of every command are the specification's. -/
theorem C13_cid_dir (c : Cmd) : c.cid = Spec.MacLayout.cid c ∧ c.uplink = Spec.MacLayout.sentByDevice c := by
  cases c <;> exact ⟨rfl, rfl⟩

/-- Every command occupies exactly its declared length. -/
theorem C13_length (c : Cmd) : c.body.length = c.length := by
  cases c <;> rfl

/-- For all field values that fit, the code's octets are the specification's layout. -/
theorem C13_layout (c : Cmd) (h : fits c) : c.body = layout c := by
  cases c <;> simp only [fits] at h <;>
    simp only [Cmd.body, layout, Spec.MacLayout.payload, Spec.MacLayout.cid, le16, le24, byteOf,
      List.cons_append, List.nil_append] <;> (try rfl)
  case linkADRReq dr txp ch red =>
    obtain ⟨h1, h2, _, _⟩ := h
    have := pack44 dr h1 txp h2; simp only [byteOf] at this; rw [this]
  case rxParamSetupReq off dr f =>
    obtain ⟨h1, h2, _⟩ := h
    have := pack34 off h1 dr h2; simp only [byteOf] at this; rw [this]
  case devStatusAns b m =>
    have := mask6 m h.2; simp only [byteOf] at this; rw [this]
  case newChannelReq ch f mx mn =>
    obtain ⟨_, _, h3, h4⟩ := h
    have := pack44m mx h3 mn h4; simp only [byteOf] at this; rw [this]
  case rxTimingSetupReq d =>
    have := mask4 d h; simp only [byteOf] at this; rw [this]
  case pingSlotInfoReq p d =>
    have := pack34 p h.1 d h.2; simp only [byteOf] at this; rw [this]
  case pingSlotChannelReq f mx mn =>
    obtain ⟨_, h3, h4⟩ := h
    have := pack44m mx h3 mn h4; simp only [byteOf] at this; rw [this]

/-- The zero-valued command the decoder starts from (what `New…MACCommand(cid)` returns). -/
def blank (c : Cmd) : Option Cmd := if c.uplink then newUplink c.cid else newDownlink c.cid

/-- The constructor tables map each CID and direction to a command of that CID and direction. -/
theorem C13_constructors (c : Cmd) : ∃ z, blank c = some z ∧ z.cid = c.cid ∧ z.uplink = c.uplink ∧ z.length = c.length := by
  cases c <;> exact ⟨_, rfl, rfl, rfl, rfl⟩

/-- Decoding the octets of a command gives the command back (all values that fit). `p` is the
    accessor for the octets following the CID. -/
theorem C13_roundtrip_fields (c z : Cmd) (hz : blank c = some z) (h : fits c) :
    z.readFields (fun i => (c.body.drop 1).getD i 0#8) = c := by
  cases c <;> simp only [blank, Cmd.uplink, Cmd.cid, newUplink, newDownlink, if_true, if_false, Bool.false_eq_true,
    Option.some.injEq] at hz <;> subst hz <;> simp only [fits] at h <;>
    simp only [Cmd.readFields, Cmd.body, List.drop_succ_cons, List.drop_zero, List.getD_cons_zero, List.getD_cons_succ] <;>
    (try rfl)
  case linkCheckAns m g => rw [byteOf_toNat_lt m h.1, byteOf_toNat_lt g h.2]
  case linkADRReq dr txp ch red =>
    obtain ⟨h1, h2, h3, h4⟩ := h
    rw [pack44 dr h1 txp h2, unpack44_hi dr h1 txp h2, unpack44_lo dr h1 txp h2, le16_val ch h3, byteOf_toNat_lt red h4]
  case linkADRAns a b c => obtain ⟨x, y, z⟩ := flags3 a b c; rw [x, y, z]
  case dutyCycleReq m => rw [byteOf_toNat_lt m h]
  case rxParamSetupReq off dr f =>
    obtain ⟨h1, h2, h3⟩ := h
    rw [pack34 off h1 dr h2, unpack34_hi off h1 dr h2, unpack44_lo off (by omega) dr h2, le24_val f h3]
  case rxParamSetupAns a b c => obtain ⟨x, y, z⟩ := flags3 a b c; rw [x, y, z]
  case devStatusAns b m =>
    rw [mask6 m h.2, byteOf_toNat_lt b h.1, byteOf_toNat_lt m (by omega)]
  case newChannelReq ch f mx mn =>
    obtain ⟨h1, h2, h3, h4⟩ := h
    rw [pack44m mx h3 mn h4, unpack44_hi mx h3 mn h4, unpack44_lo mx h3 mn h4, le24_val f h2, byteOf_toNat_lt ch h1]
  case newChannelAns a b => obtain ⟨x, y⟩ := flags2 a b; rw [x, y]
  case rxTimingSetupReq d =>
    rw [mask4 d h, mask4 d h, byteOf_toNat_lt d (by omega)]
  case pingSlotInfoReq p d =>
    rw [pack34 p h.1 d h.2, unpack34_hi p h.1 d h.2, unpack44_lo p (by omega) d h.2]
  case pingSlotChannelReq f mx mn =>
    obtain ⟨h2, h3, h4⟩ := h
    rw [pack44m mx h3 mn h4, unpack44_hi mx h3 mn h4, unpack44_lo mx h3 mn h4, le24_val f h2]
  case pingSlotFreqAns a b => obtain ⟨x, y⟩ := flags2 a b; rw [x, y]
  case beaconTimingAns d ch => rw [le16_val d h.1, byteOf_toNat_lt ch h.2]
  case beaconFreqReq f => rw [le24_val f h]

/-- The buffer guard: an encode succeeds exactly when `len(buffer) > pos + Length()`, and then
    appends exactly the command's octets. -/
theorem C13_encode_guard (cap : Nat) (out : Bytes) (c : Cmd) :
    (cap > out.length + c.length → encodeAt cap out c = .ok (out ++ c.body)) ∧
    (¬ cap > out.length + c.length → encodeAt cap out c = .err .truncated) := by
  constructor <;> intro h <;> simp [encodeAt, isValidBuffer, h]

/-! ### Command sets -/

/-- Strictly increasing CIDs: one command per CID, listed in CID order. -/
def SortedCids : List Cmd → Prop
  | [] => True
  | [_] => True
  | a :: b :: rest => a.cid < b.cid ∧ SortedCids (b :: rest)

def Inv (s : CmdSet) : Prop :=
  s.encodedLength ≤ s.maxLength ∧ (∀ c ∈ s.cmds, c.uplink = isUplinkMType s.message) ∧ SortedCids s.cmds

theorem inv_new (message maxLength : Nat) : Inv (CmdSet.new message maxLength) := by
  simp [Inv, CmdSet.new, CmdSet.encodedLength, SortedCids]

theorem mem_insertCmd (c x : Cmd) (l : List Cmd) : x ∈ insertCmd c l → x = c ∨ x ∈ l := by
  induction l with
  | nil => simp [insertCmd]
  | cons d rest ih =>
    simp only [insertCmd]
    split
    · simp
    · split
      · simp; intro h; rcases h with h | h
        · exact Or.inl h
        · exact Or.inr (Or.inr h)
      · simp; intro h; rcases h with h | h
        · exact Or.inr (Or.inl h)
        · rcases ih h with h | h
          · exact Or.inl h
          · exact Or.inr (Or.inr h)

theorem sorted_head_lt (a : Cmd) (l : List Cmd) (h : SortedCids (a :: l)) : ∀ x ∈ l, a.cid < x.cid := by
  induction l generalizing a with
  | nil => simp
  | cons b rest ih =>
    intro x hx
    simp only [SortedCids] at h
    rcases List.mem_cons.mp hx with rfl | hx
    · exact h.1
    · exact Nat.lt_trans h.1 (ih b h.2 x hx)

theorem sorted_cons (a : Cmd) (l : List Cmd) (hl : SortedCids l) (h : ∀ x ∈ l, a.cid < x.cid) : SortedCids (a :: l) := by
  cases l with
  | nil => simp [SortedCids]
  | cons b rest => exact ⟨h b (by simp), hl⟩

theorem sorted_tail (a : Cmd) (l : List Cmd) (h : SortedCids (a :: l)) : SortedCids l := by
  cases l with
  | nil => simp [SortedCids]
  | cons b rest => exact h.2

theorem sorted_insert (c : Cmd) (l : List Cmd) (h : SortedCids l) : SortedCids (insertCmd c l) := by
  induction l with
  | nil => simp [insertCmd, SortedCids]
  | cons d rest ih =>
    simp only [insertCmd]
    split
    · rename_i hlt; exact ⟨hlt, h⟩
    · split
      · rename_i heq
        apply sorted_cons c rest (sorted_tail d rest h)
        intro x hx; rw [heq]; exact sorted_head_lt d rest h x hx
      · rename_i hnlt hne
        apply sorted_cons d _ (ih (sorted_tail d rest h))
        intro x hx
        rcases mem_insertCmd c x rest hx with rfl | hx
        · omega
        · exact sorted_head_lt d rest h x hx

/-- Commands of one CID and one direction have one length (request/answer pairs differ only by direction). -/
theorem length_of_cid_dir (a b : Cmd) (h1 : a.cid = b.cid) (h2 : a.uplink = b.uplink) : a.length = b.length := by
  cases a <;> cases b <;> simp_all [Cmd.cid, Cmd.uplink, Cmd.length]

theorem sum_insert_le (c : Cmd) (l : List Cmd) (u : Bool) (hc : c.uplink = u) (hl : ∀ x ∈ l, x.uplink = u) :
    ((insertCmd c l).map Cmd.length).sum ≤ (l.map Cmd.length).sum + c.length := by
  induction l with
  | nil => simp [insertCmd]
  | cons d rest ih =>
    simp only [insertCmd]
    split
    · simp; omega
    · split
      · rename_i heq
        have := length_of_cid_dir c d heq (by rw [hc, hl d (by simp)])
        simp; omega
      · have := ih (fun x hx => hl x (by simp [hx]))
        simp at this ⊢; omega

/-- `Add` keeps the invariant: never more bytes than the limit, only commands of the set's
    direction, one per CID in CID order — whatever is offered, in whatever order. -/
theorem C13_add_inv (s : CmdSet) (c : Cmd) (h : Inv s) : Inv (s.add c).1 := by
  unfold CmdSet.add
  split
  · exact h
  · split
    · exact h
    · rename_i hlen hdir
      obtain ⟨h1, h2, h3⟩ := h
      have hdir' : c.uplink = isUplinkMType s.message := by simpa using hdir
      refine ⟨?_, ?_, sorted_insert c s.cmds h3⟩
      · have := sum_insert_le c s.cmds _ hdir' h2
        simp only [CmdSet.encodedLength] at *
        omega
      · intro x hx
        rcases mem_insertCmd c x s.cmds hx with rfl | hx
        · exact hdir'
        · exact h2 x hx

/-- Every set reachable from an empty one by any sequence of offers satisfies the invariant. -/
theorem C13_reachable_inv (message maxLength : Nat) (cs : List Cmd) :
    Inv (cs.foldl (fun s c => (s.add c).1) (CmdSet.new message maxLength)) := by
  have : ∀ (s : CmdSet), Inv s → Inv (cs.foldl (fun s c => (s.add c).1) s) := by
    induction cs with
    | nil => intro s h; exact h
    | cons c rest ih => intro s h; exact ih _ (C13_add_inv s c h)
  exact this _ (inv_new message maxLength)

/-- What `encode` writes is the commands' octets in `List()` order, and its size is `EncodedLength()`. -/
theorem encodeAt_ok (cap : Nat) (cs : List Cmd) : ∀ (out out' : Bytes),
    cs.foldl (fun acc c => acc >>= fun o => Model.Mac.encodeAt cap o c) (.ok out) = .ok out' →
    out' = out ++ cs.flatMap Cmd.body := by
  induction cs with
  | nil => intro out out' h; simp at h; simp [h]
  | cons c rest ih =>
    intro out out' h
    simp only [List.foldl_cons, Res.bind_ok] at h
    by_cases hg : cap > out.length + c.length
    · rw [(C13_encode_guard cap out c).1 hg] at h
      rw [ih _ _ h]; simp
    · rw [(C13_encode_guard cap out c).2 hg] at h
      have : ∀ (l : List Cmd), l.foldl (fun acc c => acc >>= fun o => Model.Mac.encodeAt cap o c) (.err .truncated) = .err .truncated := by
        intro l; induction l with
        | nil => rfl
        | cons _ _ ih => simp [ih]
      rw [this] at h; cases h

theorem C13_encoded_length_exact (cap : Nat) (s : CmdSet) (out out' : Bytes)
    (h : s.encodeAt cap out = .ok out') : out'.length = out.length + s.encodedLength := by
  have := encodeAt_ok cap s.cmds out out' h
  subst this
  simp only [List.length_append, CmdSet.encodedLength]
  congr 1
  induction s.cmds with
  | nil => rfl
  | cons c rest ih => simp [List.flatMap_cons, C13_length, ih]

/-- Non-vacuity: a concrete non-trivial set (three offers, one of the wrong direction, limit 15). -/
def exSet : CmdSet :=
  [Cmd.linkADRAns true false true, .linkCheckAns 1 2, .linkCheckReq].foldl (fun s c => (s.add c).1) (CmdSet.new 2 15)
example : exSet.list = [.linkCheckReq, .linkADRAns true false true] ∧ exSet.encodedLength = 3 := by decide

example : fits (.newChannelReq 3 8681000 5 0) := by decide

end Props.C13
end LospanVerif
