import LospanVerif.Props.C04
import LospanVerif.Proofs.Circ
/-
  C04, for every event list: a join handler that can have an effect (nonce insert, key change,
  join-accept) carries a join-request that is authentic for the registered device it names, and
  the registered root key / application of a device never change.
-/
namespace LospanVerif
namespace Props.C04
open Model.Pipeline Model.Phy

/-- What is registered for a device EUI: its root key and its application. -/
def Reg (db : DB) (e : Bytes) : Option (Bytes × Bytes) := (db.rowByEUI e).map fun d => (d.appKey, d.appEUI)

theorem reg_of_devices {db db' : DB} (h : db'.devices = db.devices) (e : Bytes) : Reg db' e = Reg db e := by
  simp only [Reg, DB.rowByEUI, h]

/-- Rewriting the device rows with a function that keeps EUI, root key and application. -/
theorem reg_map (db db' : DB) (f : Device → Device) (hd : db'.devices = db.devices.map f)
    (he : ∀ x, (f x).eui = x.eui) (e : Bytes)
    (hk : ∀ x, db.rowByEUI e = some x → (f x).appKey = x.appKey ∧ (f x).appEUI = x.appEUI) : Reg db' e = Reg db e := by
  unfold Reg DB.rowByEUI at *
  rw [hd, List.find?_map]
  have : ((fun x : Device => x.eui == e) ∘ f) = (fun x : Device => x.eui == e) := by
    funext x; simp only [Function.comp, he]
  rw [this]
  cases hx : db.devices.find? (fun x => x.eui == e) with
  | none => rfl
  | some x =>
    obtain ⟨h1, h2⟩ := hk x hx
    simp only [Option.map, h1, h2]

theorem reg_updateState {db db' : DB} {d : Device} (h : db.updateState d = some db') (e : Bytes) : Reg db' e = Reg db e := by
  unfold DB.updateState at h
  split at h
  · cases h
    refine reg_map db _ _ rfl ?_ e ?_
    · intro x; split <;> rfl
    · intro x _; split <;> exact ⟨rfl, rfl⟩
  · cases h

theorem reg_advance {db db' : DB} {eui : Bytes} {f : Nat} {kw : Bool} (h : db.advanceFCntUp eui f kw = some db') (e : Bytes) :
    Reg db' e = Reg db e := by
  unfold DB.advanceFCntUp at h
  split at h
  · cases h
    refine reg_map db _ _ rfl ?_ e ?_
    · intro x; split <;> rfl
    · intro x _; split <;> exact ⟨rfl, rfl⟩
  · cases h

theorem reg_next {db db' : DB} {eui : Bytes} {f : Nat} (h : db.nextFCntDn eui = some (db', f)) (e : Bytes) :
    Reg db' e = Reg db e := by
  unfold DB.nextFCntDn at h
  split at h
  · cases h
  · cases h
    refine reg_map db _ _ rfl ?_ e ?_
    · intro x; split <;> rfl
    · intro x _; split <;> exact ⟨rfl, rfl⟩

theorem reg_addNonce {db db' : DB} {eui : Bytes} {n : Nat} (h : db.addNonce eui n = some db') (e : Bytes) : Reg db' e = Reg db e := by
  unfold DB.addNonce at h
  split at h <;> cases h
  rfl

theorem reg_addInbox {db db' : DB} {r : InRow} (h : db.addInbox r = some db') (e : Bytes) : Reg db' e = Reg db e :=
  reg_of_devices (Proofs.Counters.addInbox_devices h) e

/-- `UpdateDevice` writes the root key column too: it keeps what is registered as long as the copy
    it writes back carries the registered root key. -/
theorem reg_updateDevice {db db' : DB} {d : Device} (h : db.updateDevice d = some db')
    (hk : ∀ k a, Reg db d.eui = some (k, a) → d.appKey = k) (e : Bytes) : Reg db' e = Reg db e := by
  unfold DB.updateDevice at h
  split at h
  · cases h
    refine reg_map db _ _ rfl ?_ e ?_
    · intro x; split <;> rfl
    · intro x hx
      split
      · rename_i hc
        have hxe : x.eui = e := by
          have := List.find?_some hx
          simpa using this
        have hde : d.eui = e := by rw [← hxe]; exact (by simpa using hc : x.eui = d.eui).symm
        have : Reg db d.eui = some (x.appKey, x.appEUI) := by
          unfold Reg; rw [hde, hx]; rfl
        exact ⟨hk _ _ this, rfl⟩
      · exact ⟨rfl, rfl⟩
  · cases h

/-- What a join handler knows about its request, in terms of the registry `R`. -/
def JoinLocal (E : Spec.Rfc4493.BlockFn) (R : Bytes → Option (Bytes × Bytes)) (j : JoinSt) : Prop :=
  (1 ≤ j.pc → j.raw.length = 23 ∧ ∃ k a, R j.p.joinReq.devEUI = some (k, a) ∧ micOf E k (j.raw.take (j.raw.length - 4)) = j.p.mic) ∧
  (2 ≤ j.pc → j.dev.eui = j.p.joinReq.devEUI ∧ R j.p.joinReq.devEUI = some (j.dev.appKey, j.p.joinReq.appEUI))

theorem byEUI_reg {db : DB} {e : Bytes} {d : Device} (h : db.byEUI e = some d) :
    d.eui = e ∧ Reg db e = some (d.appKey, d.appEUI) := by
  unfold DB.byEUI at h
  cases hr : db.rowByEUI e with
  | none => rw [hr] at h; cases h
  | some x =>
    rw [hr] at h
    simp only [Option.map] at h
    cases h
    have hp := List.find?_some (by unfold DB.rowByEUI at hr; exact hr)
    exact ⟨by simpa using hp, by unfold Reg; rw [hr]; rfl⟩

/-- One operation of the join handler: what is registered stays, and the handler (if it goes on)
    knows its request to be authentic. -/
theorem join_step (E : Spec.Rfc4493.BlockFn) (cfg : Config) (sys : Sys) (R : Bytes → Option (Bytes × Bytes))
    (hR : ∀ e, Reg sys.db e = R e) (s : JoinSt) (fault : Bool) (h : JoinLocal E R s) :
    (∀ e, Reg (stepJoin E cfg sys s fault).1.db e = R e) ∧
    ∀ t' ∈ (stepJoin E cfg sys s fault).2, ∀ j', t' = .join j' → JoinLocal E R j' ∧ j'.p = s.p ∧ j'.raw = s.raw := by
  unfold stepJoin
  simp only []
  split
  · -- pc 0: length, lookup, MIC
    rename_i h0
    repeat' split
    all_goals refine ⟨hR, ?_⟩
    all_goals (intro t' ht' j' hj'; simp only [List.mem_singleton] at ht'; subst ht')
    all_goals first
      | (cases hj'; done)
      | skip
    rename_i hlen _ _ d hd hmic
    cases hj'
    refine ⟨⟨fun _ => ⟨by simpa using hlen, d.appKey, d.appEUI, by rw [← hR]; exact (byEUI_reg hd).2, by simpa using hmic⟩, ?_⟩, rfl, rfl⟩
    intro h2; simp at h2
  · -- pc 1: lookup, application, nonce history
    rename_i h1
    repeat' split
    all_goals refine ⟨hR, ?_⟩
    all_goals (intro t' ht' j' hj'; simp only [List.mem_singleton] at ht'; subst ht')
    all_goals first
      | (cases hj'; done)
      | skip
    rename_i d hd happ _
    cases hj'
    have hreg := byEUI_reg hd
    refine ⟨⟨fun _ => h.1 (by omega), fun _ => ⟨hreg.1, ?_⟩⟩, rfl, rfl⟩
    rw [← hR, hreg.2]
    have : d.appEUI = s.p.joinReq.appEUI := by simpa using happ
    rw [this]
  · -- pc 2
    rename_i h2
    split
    all_goals refine ⟨hR, ?_⟩
    all_goals (intro t' ht' j' hj'; simp only [List.mem_singleton] at ht'; subst ht'; cases hj')
    exact ⟨⟨fun _ => h.1 (by omega), fun _ => h.2 (by omega)⟩, rfl, rfl⟩
  · -- pc 3: the nonce insert
    rename_i h3
    repeat' split
    all_goals first
      | (refine ⟨hR, ?_⟩
         intro t' ht' j' hj'; simp only [List.mem_singleton] at ht'; subst ht'; cases hj'
         first | done | exact ⟨⟨fun _ => h.1 (by omega), fun _ => h.2 (by omega)⟩, rfl, rfl⟩)
      | (rename_i db hdb
         refine ⟨fun e => by rw [← hR e]; exact reg_addNonce hdb e, ?_⟩
         intro t' ht' j' hj'; simp only [List.mem_singleton] at ht'; subst ht'; cases hj'
         exact ⟨⟨fun _ => h.1 (by omega), fun _ => h.2 (by omega)⟩, rfl, rfl⟩)
  · -- pc 4: the key change
    rename_i h4
    have hs := h.2 (by omega)
    repeat' split
    all_goals first
      | (refine ⟨hR, ?_⟩
         intro t' ht' j' hj'; simp only [List.mem_singleton] at ht'; subst ht'; cases hj'; done)
      | (rename_i db hdb _ _
         refine ⟨fun e => ?_, ?_⟩
         · rw [← hR e]
           refine reg_updateDevice hdb ?_ e
           intro k a hka
           have : Reg sys.db s.dev.eui = some (s.dev.appKey, s.p.joinReq.appEUI) := by rw [hR, hs.1]; exact hs.2
           have hka' : Reg sys.db s.dev.eui = some (k, a) := hka
           rw [this] at hka'
           cases hka'; rfl
         · intro t' ht' j' hj'; simp only [List.mem_singleton] at ht'; subst ht'; cases hj'
           exact ⟨⟨fun _ => h.1 (by omega), fun _ => ⟨hs.1, hs.2⟩⟩, rfl, rfl⟩)
      | (rename_i db hdb _
         refine ⟨fun e => ?_, ?_⟩
         · rw [← hR e]
           refine reg_updateDevice hdb ?_ e
           intro k a hka
           have : Reg sys.db s.dev.eui = some (s.dev.appKey, s.p.joinReq.appEUI) := by rw [hR, hs.1]; exact hs.2
           have hka' : Reg sys.db s.dev.eui = some (k, a) := hka
           rw [this] at hka'
           cases hka'; rfl
         · intro t' ht' j' hj'; simp only [List.mem_singleton] at ht'; subst ht'; cases hj'
           exact ⟨⟨fun _ => h.1 (by omega), fun _ => ⟨hs.1, hs.2⟩⟩, rfl, rfl⟩)
      | (rename_i db hdb
         refine ⟨fun e => ?_, ?_⟩
         · rw [← hR e]
           refine reg_updateDevice hdb ?_ e
           intro k a hka
           have : Reg sys.db s.dev.eui = some (s.dev.appKey, s.p.joinReq.appEUI) := by rw [hR, hs.1]; exact hs.2
           have hka' : Reg sys.db s.dev.eui = some (k, a) := hka
           rw [this] at hka'
           cases hka'; rfl
         · intro t' ht' j' hj'; simp only [List.mem_singleton] at ht'; subst ht'; cases hj'
           exact ⟨⟨fun _ => h.1 (by omega), fun _ => ⟨hs.1, hs.2⟩⟩, rfl, rfl⟩)
  · -- pc 5: the join-accept goes to the output buffer
    refine ⟨hR, ?_⟩
    intro t' ht' j' hj'; simp only [List.mem_singleton] at ht'; subst ht'; cases hj'
    exact ⟨⟨fun _ => h.1 (by omega), fun _ => h.2 (by omega)⟩, rfl, rfl⟩
  · -- done
    refine ⟨hR, ?_⟩
    intro t' ht' j' hj'
    simp only [List.mem_cons, List.not_mem_nil, or_false] at ht'
    rcases ht' with rfl | rfl <;> cases hj'

theorem reg_stepUplink (E : Spec.Rfc4493.BlockFn) (sys : Sys) (s : UpSt) (fault : Bool) (e : Bytes) :
    Reg (stepUplink E sys s fault).1.db e = Reg sys.db e := by
  unfold stepUplink
  simp only []
  split
  all_goals (repeat' split)
  all_goals first
    | rfl
    | (rename_i h; exact reg_advance h e)
    | (rename_i h _; exact reg_advance h e)
    | (rename_i h; exact reg_addInbox h e)
    | (rename_i h _; exact reg_addInbox h e)

theorem reg_stepEncoder (E D : Spec.Rfc4493.BlockFn) (sys : Sys) (pc : Nat) (p : PHY) (c : Ctx) (b : Bytes) (fault : Bool) (e : Bytes) :
    Reg (stepEncoder E D sys pc p c b fault).1.db e = Reg sys.db e := by
  unfold stepEncoder
  simp only []
  repeat' split
  all_goals first
    | rfl
    | (rename_i h _ _ _; exact reg_updateState h e)
    | (rename_i h _ _; exact reg_updateState h e)
    | (rename_i h _ _ _ _; exact reg_next h e)
    | (rename_i h _ _ _; exact reg_next h e)
    | (rename_i h _ _; exact reg_next h e)

theorem not_join_uplink (E : Spec.Rfc4493.BlockFn) (sys : Sys) (s : UpSt) (fault : Bool) :
    ∀ t' ∈ (stepUplink E sys s fault).2, ∀ j', t' ≠ .join j' := by
  unfold stepUplink
  simp only []
  split
  all_goals (repeat' split)
  all_goals (intro t' ht' j' hj'; simp only [List.mem_cons, List.mem_append, List.not_mem_nil, or_false] at ht';
             rcases ht' with rfl | rfl | rfl <;> cases hj')

theorem not_join_encoder (E D : Spec.Rfc4493.BlockFn) (sys : Sys) (pc : Nat) (p : PHY) (c : Ctx) (b : Bytes) (fault : Bool) :
    ∀ t' ∈ (stepEncoder E D sys pc p c b fault).2, ∀ j', t' ≠ .join j' := by
  unfold stepEncoder
  simp only []
  repeat' split
  all_goals (intro t' ht' j' hj'; simp only [List.mem_cons, List.not_mem_nil, or_false] at ht';
             rcases ht' with rfl | rfl <;> cases hj')

/-- The invariant: the registry is the one the run started with, every join handler's frame is the
    parse of the octets it received, and what it knows about them is `JoinLocal`. -/
def JInv (E : Spec.Rfc4493.BlockFn) (R : Bytes → Option (Bytes × Bytes)) (s : Sys) : Prop :=
  (∀ e, Reg s.db e = R e) ∧
  ∀ t ∈ s.threads, ∀ j, t = .join j → JoinLocal E R j ∧ unmarshal j.raw = .ok j.p

theorem jinv_step (E D : Spec.Rfc4493.BlockFn) (cfg : Config) (R) (sys : Sys) (i : Nat) (fault : Bool) (h : JInv E R sys) :
    JInv E R (step E D cfg sys i fault) := by
  unfold step
  split
  · exact h
  · rename_i t hi
    have hmem : t ∈ sys.threads := List.mem_of_getElem? hi
    have key : ∀ (r : Sys × List Thread), (∀ e, Reg r.1.db e = R e) →
        (∀ t' ∈ r.2, ∀ j', t' = .join j' → JoinLocal E R j' ∧ unmarshal j'.raw = .ok j'.p) → r.1.threads = sys.threads →
        JInv E R (match r.2 with
          | [] => { r.1 with threads := replaceAt r.1.threads i .done }
          | t0 :: more => { r.1 with threads := replaceAt r.1.threads i t0 ++ more }) := by
      intro r hreg hr hth
      split
      · refine ⟨hreg, ?_⟩
        intro t' ht' j' hj'
        simp only [replaceAt, hth] at ht'
        rcases List.mem_or_eq_of_mem_set ht' with hm | rfl
        · exact h.2 t' hm j' hj'
        · cases hj'
      · rename_i t0 more hcons
        refine ⟨hreg, ?_⟩
        intro t' ht' j' hj'
        simp only [replaceAt, hth] at ht'
        rcases List.mem_append.mp ht' with ht' | ht'
        · rcases List.mem_or_eq_of_mem_set ht' with hm | rfl
          · exact h.2 t' hm j' hj'
          · exact hr _ (by rw [hcons]; exact List.mem_cons_self) j' hj'
        · exact hr _ (by rw [hcons]; exact List.mem_cons_of_mem _ ht') j' hj'
    have none_j : ∀ (r : Sys × List Thread), (∀ t' ∈ r.2, ∀ j', t' ≠ .join j') →
        (∀ t' ∈ r.2, ∀ j', t' = .join j' → JoinLocal E R j' ∧ unmarshal j'.raw = .ok j'.p) :=
      fun r hr t' ht' j' hj' => absurd hj' (hr t' ht' j')
    cases t with
    | uplink s =>
      exact key _ (fun e => (reg_stepUplink E sys s fault e).trans (h.1 e)) (none_j _ (not_join_uplink E sys s fault)) (Proofs.Circ.threads_stepUplink E sys s fault)
    | join s =>
      have hs := h.2 _ hmem s rfl
      have hj := join_step E cfg sys R h.1 s fault hs.1
      refine key _ hj.1 ?_ (Proofs.Circ.threads_stepJoin E cfg sys s fault)
      intro t' ht' j' hj'
      obtain ⟨h1, h2, h3⟩ := hj.2 t' ht' j' hj'
      exact ⟨h1, by rw [h2, h3]; exact hs.2⟩
    | notify p c =>
      refine key (stepNotify sys c) ?_ (none_j _ ?_) ?_
      · unfold stepNotify; split <;> exact h.1
      · unfold stepNotify; split <;> (intro t' ht' j' hj'; simp at ht'; subst ht'; cases hj')
      · unfold stepNotify; split <;> rfl
    | sendAt c =>
      refine key (stepSendAt sys c) ?_ (none_j _ ?_) ?_
      · unfold stepSendAt; split <;> exact h.1
      · unfold stepSendAt
        split <;> (intro t' ht' j' hj'; simp at ht'; rcases ht' with rfl | rfl <;> cases hj')
      · unfold stepSendAt; split <;> rfl
    | sendDone e =>
      exact key (stepSendDone sys e) h.1 (none_j _ (by intro t' ht' j' hj'; simp [stepSendDone] at ht'; subst ht'; cases hj')) rfl
    | encoder pc p c b =>
      exact key _ (fun e => (reg_stepEncoder E D sys pc p c b fault e).trans (h.1 e)) (none_j _ (not_join_encoder E D sys pc p c b fault)) (Proofs.Circ.threads_stepEncoder E D sys pc p c b fault)
    | done => exact key (sys, [.done]) h.1 (none_j _ (by intro t' ht' j' hj'; simp at ht'; subst ht'; cases hj')) rfl

theorem jinv_settle (E D : Spec.Rfc4493.BlockFn) (cfg : Config) (R) (fuel : Nat) (sys : Sys) (h : JInv E R sys) :
    JInv E R (settle E D cfg fuel sys) := by
  induction fuel generalizing sys with
  | zero => exact h
  | succ n ih =>
    unfold settle
    split
    · exact ⟨h.1, by intro t ht; cases ht⟩
    · exact ih _ (jinv_step E D cfg R sys _ false h)

theorem jinv_apply (E D : Spec.Rfc4493.BlockFn) (cfg : Config) (R) (sys : Sys) (ev : Event) (h : JInv E R sys) :
    JInv E R (apply E D cfg sys ev) := by
  cases ev with
  | deliver raw gw an na =>
    simp only [apply]
    split
    · rename_i t ht
      refine ⟨h.1, ?_⟩
      intro t' ht' j' hj'
      rcases List.mem_append.mp ht' with hm | hm
      · exact h.2 t' hm j' hj'
      · simp only [List.mem_singleton] at hm
        subst hm
        unfold spawn at ht
        split at ht
        · rename_i p hp
          split at ht
          · cases ht; cases hj'
            exact ⟨⟨fun h1 => by simp at h1, fun h2 => by simp at h2⟩, hp⟩
          · cases ht; cases hj'
        · cases ht
    · exact h
  | submit m =>
    refine ⟨fun e => ?_, h.2⟩
    rw [← h.1 e]
    simp only [apply]
    cases hm : sys.db.addOutbox m with
    | none => rfl
    | some db =>
      unfold DB.addOutbox at hm
      split at hm <;> cases hm
      rfl
  | stepT i f => exact jinv_step E D cfg R sys i f h
  | quiesce => exact jinv_settle E D cfg R 200 sys h
  | crash => exact ⟨h.1, by intro t ht; cases ht⟩

/-- **All schedules.** For every event list — any number of join-requests and data frames through any
    number of gateways, every interleaving of their handlers, faults, crashes and restarts:
    * the root key and the application registered for a device EUI never change (`Reg`);
    * every join handler works on the parse of exactly the octets it received;
    * a join handler past the verification step — the only ones that insert a nonce, change keys and
      counters or put a join-accept into the output buffer; the verification step itself changes
      nothing (`C04_forged_no_effect`) — carries a 23-octet request whose MIC over the first 19
      octets verifies under the root key registered for the DevEUI the request names;
    * past the second step, the request's AppEUI is that device's, and the snapshot the handler will
      derive the session from is a row of that device carrying that root key. -/
theorem C04_joins_authentic (E D : Spec.Rfc4493.BlockFn) (cfg : Config) (db : DB) (evs : List Event) :
    JInv E (Reg db) (run E D cfg (Sys.init db) evs) := by
  have : ∀ (sys : Sys), JInv E (Reg db) sys → JInv E (Reg db) (run E D cfg sys evs) := by
    induction evs with
    | nil => intro sys h; exact h
    | cons ev rest ih => intro sys h; exact ih _ (jinv_apply E D cfg (Reg db) sys ev h)
  exact this _ ⟨fun _ => rfl, by intro t ht; cases ht⟩

end Props.C04
end LospanVerif
