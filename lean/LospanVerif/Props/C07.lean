import LospanVerif.Model.Pipeline
import LospanVerif.Proofs.Counters
import LospanVerif.Proofs.Circ
/-
  C07 — a downlink frame counter is never reused within a session.

  The encoder takes the counter of a frame from the store (`NextFCntDn`: read, store +1, return the
  value read, in one transaction under the storage mutex) before the frame exists, and nothing else
  in the pipeline writes the downlink counter within a session. `issuedDn` is the history of the
  counters handed out (device, counter) in the current session, up to the 16-bit wrap.
  The first three theorems hold for EVERY event list: every interleaving of handler, scheduler,
  sendAt and encoder steps, faults and crashes included.
-/
namespace LospanVerif
namespace Props.C07
open Model.Pipeline Model.Phy Proofs.Counters Proofs.Circ

def isDataDown (p : PHY) : Prop := p.mhdr.mtype = mtUnconfirmedDataDown ∨ p.mhdr.mtype = mtConfirmedDataDown

theorem not_ja (p : PHY) (h : isDataDown p) : p.mhdr.mtype ≠ mtJoinAccept := by
  rcases h with h | h <;> rw [h] <;> decide

/-- The counters handed out for device `e`, in the order they were handed out. -/
def issuedFor (s : Sys) (e : Bytes) : List Nat := (s.issuedDn.filter (fun x => x.1 == e)).map (·.2)

/-- **All schedules.** Within a session the counters handed out for a device strictly increase: no
    counter is handed out twice, whatever the interleaving, faults and crashes. -/
theorem C07_issued_strictly_increasing (E D : Spec.Rfc4493.BlockFn) (cfg : Config) (db : DB) (evs : List Event) (e : Bytes) :
    (issuedFor (run E D cfg (Sys.init db) evs) e).Pairwise (· < ·) :=
  (cinv_run E D cfg _ evs (CInv.init db)).dnI e

/-- **All schedules.** Every counter handed out is below what the store now holds: it is stored
    past the counter before any frame carrying it can exist, and stays so (also across a crash). -/
theorem C07_issued_below_stored (E D : Spec.Rfc4493.BlockFn) (cfg : Config) (db : DB) (evs : List Event)
    (e : Bytes) (f : Nat) (h : (e, f) ∈ (run E D cfg (Sys.init db) evs).issuedDn) :
    ∀ d ∈ (run E D cfg (Sys.init db) evs).db.devices, d.eui = e → f < d.fcntDn := by
  intro d hd hde
  exact (cinv_run E D cfg _ evs (CInv.init db)).dnB e f h (d.eui, d.fcntDn) (List.mem_map.mpr ⟨d, hd, rfl⟩) hde

/-- …hence the next counter handed out for the device is a new one. -/
theorem C07_next_is_fresh (E D : Spec.Rfc4493.BlockFn) (cfg : Config) (db : DB) (evs : List Event)
    (e : Bytes) (db' : DB) (f : Nat) (h : (run E D cfg (Sys.init db) evs).db.nextFCntDn e = some (db', f)) :
    ∀ f', (e, f') ∈ (run E D cfg (Sys.init db) evs).issuedDn → f' < f := by
  intro f' hm
  obtain ⟨_, _, t, ht, hte, htf⟩ := next_views h
  have := (cinv_run E D cfg _ evs (CInv.init db)).dnB e f' hm t ht hte
  omega

/-- **All schedules, at the level of what leaves the server.** `emittedDn` records (device, FCnt)
    of every data downlink handed to the gateway. For a device whose counter epoch is running (no
    join and no 16-bit wrap so far: not in `resetsDn`), no (device, FCnt) is emitted twice, and
    every emitted one was handed out by `NextFCntDn` — for every event list: all interleavings of
    all threads, injected faults, crashes. -/
theorem C07_emitted_counter_unique (E D : Spec.Rfc4493.BlockFn) (cfg : Config) (db : DB) (evs : List Event) (x : Bytes × Nat)
    (hx : x.1 ∉ (run E D cfg (Sys.init db) evs).resetsDn) :
    (run E D cfg (Sys.init db) evs).emittedDn.count x ≤ 1 ∧
    (x ∈ (run E D cfg (Sys.init db) evs).emittedDn → x ∈ (run E D cfg (Sys.init db) evs).issuedDn) := by
  obtain ⟨h1, h2⟩ := (kinv_run E D cfg _ evs (kinv_init cfg db)).dn x hx
  simp only [Book.circ, dnBook] at h1 h2
  refine ⟨by omega, fun hm => h2 ?_⟩
  have : 0 < (run E D cfg (Sys.init db) evs).emittedDn.count x := List.count_pos_iff.mpr hm
  omega

/-- The history entry and the frame leave together: the last encoder step appends the frame to
    `emitted` and (device, the FCnt the frame was encoded with) to `emittedDn`. -/
theorem C07_handover_records (E D : Spec.Rfc4493.BlockFn) (sys : Sys) (p : PHY) (c : Ctx) (bytes : Bytes) (hd : isDataDown p) (f : Bool) :
    (stepEncoder E D sys 2 p c bytes f).1.emittedDn = sys.emittedDn ++ [(c.device.eui, p.mac.fhdr.fcnt)] := by
  have h1 := not_ja p hd
  have hd' : p.mhdr.mtype = mtUnconfirmedDataDown ∨ p.mhdr.mtype = mtConfirmedDataDown := hd
  unfold stepEncoder
  rw [if_neg h1, if_pos hd']
  rfl

/-- Step 0 of the encoder: the frame is encoded with exactly the counter the store handed out, the
    store already holds counter+1, and no frame has left yet. -/
theorem C07_encodes_with_issued_counter (E D : Spec.Rfc4493.BlockFn) (sys : Sys) (p : PHY) (c : Ctx) (hd : isDataDown p)
    (db' : DB) (f : Nat) (hn : sys.db.nextFCntDn c.device.eui = some (db', f)) (b : Bytes)
    (henc : encodeMessage E c.device.nwkSKey c.device.appSKey
      { p with mac := { p.mac with fhdr := { p.mac.fhdr with fcnt := f } } } = .ok b) :
    stepEncoder E D sys 0 p c [] false =
      ({ sys with db := db', issuedDn := noteCounter sys.issuedDn c.device.eui f,
                  resetsDn := if f + 1 < 65536 then sys.resetsDn else c.device.eui :: sys.resetsDn },
       [.encoder 1 { p with mac := { p.mac with fhdr := { p.mac.fhdr with fcnt := f } } }
          { c with device := { c.device with fcntDn := (f + 1) % 65536 } } b]) := by
  have h1 := not_ja p hd
  have hd' : p.mhdr.mtype = mtUnconfirmedDataDown ∨ p.mhdr.mtype = mtConfirmedDataDown := hd
  unfold stepEncoder
  rw [if_neg h1, if_pos hd']
  simp [hn, henc]

/-- The counter is persisted before the hand-over: steps 0 and 1 emit nothing. -/
theorem C07_persists_before_handover (E D : Spec.Rfc4493.BlockFn) (sys : Sys) (p : PHY) (c : Ctx) (bytes : Bytes) (hd : isDataDown p)
    (fault : Bool) :
    (stepEncoder E D sys 0 p c bytes fault).1.emitted = sys.emitted ∧ (stepEncoder E D sys 1 p c bytes fault).1.emitted = sys.emitted := by
  have h1 := not_ja p hd
  have hd' : p.mhdr.mtype = mtUnconfirmedDataDown ∨ p.mhdr.mtype = mtConfirmedDataDown := hd
  constructor
  · unfold stepEncoder
    rw [if_neg h1, if_pos hd']
    simp only []
    repeat' split
    all_goals rfl
  · unfold stepEncoder
    rw [if_neg h1, if_pos hd']
    simp only []
    split <;> rfl

/-- A failed (or impossible) counter fetch ends the encoder: no frame is built, none leaves. -/
theorem C07_failed_write_no_frame (E D : Spec.Rfc4493.BlockFn) (sys : Sys) (p : PHY) (c : Ctx) (bytes : Bytes) (hd : isDataDown p) :
    stepEncoder E D sys 0 p c bytes true = (sys, [.done]) ∧
    (sys.db.nextFCntDn c.device.eui = none → stepEncoder E D sys 0 p c bytes false = (sys, [.done])) := by
  have h1 := not_ja p hd
  have hd' : p.mhdr.mtype = mtUnconfirmedDataDown ∨ p.mhdr.mtype = mtConfirmedDataDown := hd
  constructor
  · unfold stepEncoder
    rw [if_neg h1, if_pos hd']
    simp
  · intro hn
    unfold stepEncoder
    rw [if_neg h1, if_pos hd']
    simp [hn]

/-- Only step 2 emits, and it emits exactly the bytes encoded in step 0. -/
theorem C07_handover (E D : Spec.Rfc4493.BlockFn) (sys : Sys) (p : PHY) (c : Ctx) (bytes : Bytes) (hd : isDataDown p) (f : Bool) :
    (stepEncoder E D sys 2 p c bytes f).1.emitted = sys.emitted ++ [⟨bytes, c.gw, 1, c.device.eui⟩] := by
  have h1 := not_ja p hd
  have hd' : p.mhdr.mtype = mtUnconfirmedDataDown ∨ p.mhdr.mtype = mtConfirmedDataDown := hd
  unfold stepEncoder
  rw [if_neg h1, if_pos hd']
  rfl

end Props.C07
end LospanVerif
