import LospanVerif.Model.Pipeline
/-
  C07 — a downlink frame counter is never reused within a session.
  Proved here, for every state: a data downlink is encoded with the counter of the snapshot the
  encoder carries, the stored counter becomes that value + 1 (16 bit) *before* the frame is
  handed to the gateway, and a failed counter write stops the encoder before the hand-over.
  The all-schedules statement does not hold for the code as it stands (the snapshot may be stale:
  known_findings.json C07); sequential histories and the racing schedules are decided by the
  pipeline engines (oracle: no (device, NwkSKey, FCnt) twice).
-/
namespace LospanVerif
namespace Props.C07
open Model.Pipeline Model.Phy

def isDataDown (p : PHY) : Prop := p.mhdr.mtype = mtUnconfirmedDataDown ∨ p.mhdr.mtype = mtConfirmedDataDown

theorem not_ja (p : PHY) (h : isDataDown p) : p.mhdr.mtype ≠ mtJoinAccept := by
  rcases h with h | h <;> rw [h] <;> decide

/-- Step 0: the frame is encoded with FCnt := the snapshot's FCntDn. -/
theorem C07_encodes_with_snapshot_counter (E D : Spec.Rfc4493.BlockFn) (sys : Sys) (p : PHY) (c : Ctx) (hd : isDataDown p) (b : Bytes)
    (henc : encodeMessage E c.device.nwkSKey c.device.appSKey
      { p with mac := { p.mac with fhdr := { p.mac.fhdr with fcnt := c.device.fcntDn } } } = .ok b) :
    (stepEncoder E D sys 0 p c [] false).2 =
      [.encoder 1 { p with mac := { p.mac with fhdr := { p.mac.fhdr with fcnt := c.device.fcntDn } } } c b] := by
  have h1 := not_ja p hd
  have hd' : p.mhdr.mtype = mtUnconfirmedDataDown ∨ p.mhdr.mtype = mtConfirmedDataDown := hd
  unfold stepEncoder
  rw [if_neg h1, if_pos hd']
  simp [henc]

/-- Step 1: the counter is stored past the one just used; only then does step 2 hand the frame over. -/
theorem C07_persists_before_handover (E D : Spec.Rfc4493.BlockFn) (sys : Sys) (p : PHY) (c : Ctx) (bytes : Bytes) (hd : isDataDown p)
    (db' : DB) (hw : sys.db.updateState { c.device with fcntDn := (c.device.fcntDn + 1) % 65536 } = some db') :
    stepEncoder E D sys 1 p c bytes false =
      ({ sys with db := db' }, [.encoder 2 p { c with device := { c.device with fcntDn := (c.device.fcntDn + 1) % 65536 } } bytes]) ∧
    (stepEncoder E D sys 1 p c bytes false).1.emitted = sys.emitted := by
  have h1 := not_ja p hd
  have hd' : p.mhdr.mtype = mtUnconfirmedDataDown ∨ p.mhdr.mtype = mtConfirmedDataDown := hd
  unfold stepEncoder
  rw [if_neg h1, if_pos hd']
  simp [hw]

/-- A failed (or impossible) counter write ends the encoder: the frame never leaves. -/
theorem C07_failed_write_no_frame (E D : Spec.Rfc4493.BlockFn) (sys : Sys) (p : PHY) (c : Ctx) (bytes : Bytes) (hd : isDataDown p) :
    stepEncoder E D sys 1 p c bytes true = (sys, [.done]) := by
  have h1 := not_ja p hd
  have hd' : p.mhdr.mtype = mtUnconfirmedDataDown ∨ p.mhdr.mtype = mtConfirmedDataDown := hd
  unfold stepEncoder
  rw [if_neg h1, if_pos hd']
  simp

/-- Only step 2 emits, and it emits exactly the bytes encoded in step 0. -/
theorem C07_handover (E D : Spec.Rfc4493.BlockFn) (sys : Sys) (p : PHY) (c : Ctx) (bytes : Bytes) (hd : isDataDown p) (f : Bool) :
    (stepEncoder E D sys 2 p c bytes f).1.emitted = sys.emitted ++ [⟨bytes, c.gw, 1, c.device.eui⟩] := by
  have h1 := not_ja p hd
  have hd' : p.mhdr.mtype = mtUnconfirmedDataDown ∨ p.mhdr.mtype = mtConfirmedDataDown := hd
  unfold stepEncoder
  rw [if_neg h1, if_pos hd']
  rfl

end Props.C07
end LospanVerif
