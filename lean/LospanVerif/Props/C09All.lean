import LospanVerif.Props.C09
/-
  C09, for every event list: acknowledgements are never repeated. `ackSets` records the device of
  every accepted confirmed uplink (the handler step that raises the pending-ACK flag), `ackFrames`
  the device of every frame assembled with the ACK flag.
-/
namespace LospanVerif
namespace Props.C09
open Model.Pipeline Model.Phy

/-- The pending-acknowledgement flag of a device in the output buffer. -/
def flag (fob : List (Bytes × FobEntry)) (e : Bytes) : Bool := ((fobGet fob e).map (·.ack)).getD false

theorem fobGet_fobSet_ne (fob : List (Bytes × FobEntry)) (e e' : Bytes) (v : FobEntry) (h : e' ≠ e) :
    fobGet (fobSet fob e v) e' = fobGet fob e' := by
  simp only [fobGet, fobSet, List.find?_cons]
  have h1 : ((e, v).1 == e') = false := by simp; exact fun hx => h hx.symm
  rw [h1]
  simp only []
  congr 1
  induction fob with
  | nil => rfl
  | cons x xs ih =>
    simp only [List.filter_cons]
    by_cases hx : (x.1 != e) = true
    · rw [if_pos hx]
      simp only [List.find?_cons]
      split
      · rfl
      · exact ih
    · rw [if_neg hx]
      have hxe : x.1 = e := by simpa using hx
      simp only [List.find?_cons]
      have : (x.1 == e') = false := by simp [hxe]; exact fun hh => h hh.symm
      rw [this]; exact ih

theorem fobGet_fobDel (fob : List (Bytes × FobEntry)) (e e' : Bytes) :
    fobGet (fobDel fob e) e' = if e' = e then none else fobGet fob e' := by
  simp only [fobGet, fobDel]
  induction fob with
  | nil => simp
  | cons x xs ih =>
    simp only [List.filter_cons]
    by_cases hx : (x.1 != e) = true
    · rw [if_pos hx]
      simp only [List.find?_cons]
      by_cases hxe : (x.1 == e') = true
      · rw [hxe]
        have : e' ≠ e := by
          have h1 : x.1 = e' := by simpa using hxe
          have h2 : x.1 ≠ e := by simpa using hx
          rw [← h1]; exact h2
        simp [this]
      · have hf : (x.1 == e') = false := by simpa using hxe
        rw [hf]; exact ih
    · rw [if_neg hx]
      have hxe : x.1 = e := by simpa using hx
      simp only [List.find?_cons]
      by_cases he : e' = e
      · simp only [he, if_true] at ih ⊢; exact ih
      · have : (x.1 == e') = false := by simp [hxe]; exact fun hh => he hh.symm
        rw [this]; exact ih

theorem flag_setAck (fob : List (Bytes × FobEntry)) (e e' : Bytes) :
    flag (fobSetAck fob e) e' = if e' = e then true else flag fob e' := by
  unfold flag fobSetAck
  by_cases h : e' = e
  · subst h; simp [fobGet_fobSet]
  · rw [fobGet_fobSet_ne _ _ _ _ h]; simp [h]

theorem flag_setPayload (fob : List (Bytes × FobEntry)) (e e' : Bytes) (pl : Bytes) (port : Nat) (ack : Bool) :
    flag (fobSetPayload fob e pl port ack) e' = flag fob e' := by
  unfold flag fobSetPayload
  by_cases h : e' = e
  · subst h
    rw [fobGet_fobSet]
    cases fobGet fob e' <;> simp [newEntry]
  · rw [fobGet_fobSet_ne _ _ _ _ h]

theorem flag_setJoinAccept (fob : List (Bytes × FobEntry)) (e e' : Bytes) (ja : JoinAccept) :
    flag (fobSetJoinAccept fob e ja) e' = flag fob e' := by
  unfold flag fobSetJoinAccept
  by_cases h : e' = e
  · subst h
    cases hg : fobGet fob e' <;> simp [fobGet_fobSet]
  · cases hg : fobGet fob e <;> simp only [] <;> rw [fobGet_fobSet_ne _ _ _ _ h]

theorem flag_set_self (fob : List (Bytes × FobEntry)) (e : Bytes) (v : FobEntry) : flag (fobSet fob e v) e = v.ack := by
  simp [flag, fobGet_fobSet]

theorem flag_set_ne (fob : List (Bytes × FobEntry)) (e e' : Bytes) (v : FobEntry) (h : e' ≠ e) : flag (fobSet fob e v) e' = flag fob e' := by
  simp [flag, fobGet_fobSet_ne _ _ _ _ h]

theorem flag_del (fob : List (Bytes × FobEntry)) (e e' : Bytes) : flag (fobDel fob e) e' = if e' = e then false else flag fob e' := by
  simp only [flag, fobGet_fobDel]
  split <;> simp

/-- Taking a frame for device `d` leaves every other device's flag alone. -/
theorem take_other (fob : List (Bytes × FobEntry)) (d : Device) (dr : String) (e' : Bytes) (h : e' ≠ d.eui) :
    flag (fobTake fob d dr).1 e' = flag fob e' := by
  unfold fobTake
  split
  · rfl
  · simp only []
    split
    · simp [flag_del, h]
    · split
      · split
        · rfl
        · simp only []
          split <;> exact flag_set_ne _ _ _ _ h
      · split <;> exact flag_set_ne _ _ _ _ h

/-- …and for `d` itself: an assembled frame carries the flag as it stood and clears it; when no
    frame is assembled the flag is not raised. -/
theorem take_self (fob : List (Bytes × FobEntry)) (d : Device) (dr : String) :
    (∀ p, (fobTake fob d dr).2 = some p → p.mac.fhdr.fctrl.ack = flag fob d.eui ∧ flag (fobTake fob d dr).1 d.eui = false) ∧
    ((fobTake fob d dr).2 = none → flag (fobTake fob d dr).1 d.eui = true → flag fob d.eui = true) := by
  unfold fobTake
  split
  · rename_i hg
    constructor
    · intro p hp; cases hp
    · intro _ h; exact h
  · rename_i fd hg
    have hfl : flag fob d.eui = fd.ack := by simp [flag, hg]
    simp only []
    split
    · constructor
      · intro p hp; cases hp
      · intro _ h; simp [flag_del] at h
    · split
      · split
        · constructor
          · intro p hp; cases hp
          · intro _ h; exact h
        · simp only []
          constructor
          · intro p hp
            simp only [Option.some.injEq] at hp
            subst hp
            refine ⟨by rw [hfl], ?_⟩
            split <;> simp [flag_set_self]
          · intro hn; cases hn
      · constructor
        · intro p hp
          simp only [Option.some.injEq] at hp
          subst hp
          refine ⟨by rw [hfl], ?_⟩
          split <;> simp [flag_set_self]
        · intro hn; cases hn

/-- ACK-carrying frames assembled so far for a device, plus one if its flag is pending, never exceed
    the accepted confirmed uplinks of the device. -/
def AInv (s : Sys) : Prop :=
  ∀ e, s.ackFrames.count e + (if flag s.fob e then 1 else 0) ≤ s.ackSets.count e

theorem ainv_of_eq {s s' : Sys} (h : AInv s) (hf : s'.fob = s.fob) (ha : s'.ackFrames = s.ackFrames) (hs : s'.ackSets = s.ackSets) : AInv s' := by
  intro e; rw [hf, ha, hs]; exact h e

theorem ainv_stepUplink (E : Spec.Rfc4493.BlockFn) (sys : Sys) (s : UpSt) (fault : Bool) (h : AInv sys) :
    AInv (stepUplink E sys s fault).1 := by
  unfold stepUplink
  simp only []
  split
  all_goals (repeat' split)
  all_goals first
    | exact h
    | exact ainv_of_eq h rfl rfl rfl
    | skip
  · -- a confirmed uplink raises the flag and is counted
    intro e
    have := h e
    simp only [flag_setAck, List.count_append, List.count_singleton]
    by_cases he : e = s.cur.eui
    · subst he; simp; split at this <;> omega
    · have hne : (s.cur.eui == e) = false := by simp; exact fun hh => he hh.symm
      simp [he, hne]; exact this
  · -- a queued message is put into the buffer: flags untouched
    intro e
    simp only [flag_setPayload]
    exact h e

theorem ainv_stepJoin (E : Spec.Rfc4493.BlockFn) (cfg : Config) (sys : Sys) (s : JoinSt) (fault : Bool) (h : AInv sys) :
    AInv (stepJoin E cfg sys s fault).1 := by
  unfold stepJoin
  simp only []
  split
  all_goals (repeat' split)
  all_goals first
    | exact h
    | exact ainv_of_eq h rfl rfl rfl
    | (intro e; simp only [flag_setJoinAccept]; exact h e)

theorem ainv_stepEncoder (E D : Spec.Rfc4493.BlockFn) (sys : Sys) (pc : Nat) (p : PHY) (c : Ctx) (b : Bytes) (fault : Bool) (h : AInv sys) :
    AInv (stepEncoder E D sys pc p c b fault).1 := by
  unfold stepEncoder
  simp only []
  repeat' split
  all_goals first
    | exact h
    | exact ainv_of_eq h rfl rfl rfl

theorem ainv_stepSendAt (sys : Sys) (c : Ctx) (h : AInv sys) : AInv (stepSendAt sys c).1 := by
  unfold stepSendAt
  obtain ⟨hsome, hnone⟩ := take_self sys.fob c.device c.gw.dataRate
  split
  · rename_i p hp
    obtain ⟨hack, hclr⟩ := hsome p hp
    intro e
    have := h e
    by_cases he : e = c.device.eui
    · subst he
      simp only [hclr]
      by_cases ha : p.mac.fhdr.fctrl.ack = true
      · rw [if_pos ha]
        rw [ha] at hack
        rw [← hack] at this
        simp [List.count_append] at this ⊢
        omega
      · rw [if_neg ha]
        simp at this ⊢
        omega
    · simp only [take_other _ _ _ _ he]
      by_cases ha : p.mac.fhdr.fctrl.ack = true
      · rw [if_pos ha]
        have hz : List.count e [c.device.eui] = 0 := by
          apply List.count_eq_zero.mpr; simp; exact he
        simp only [List.count_append, hz]
        exact this
      · rw [if_neg ha]; exact this
  · rename_i hn
    intro e
    have := h e
    by_cases he : e = c.device.eui
    · subst he
      by_cases hf : flag (fobTake sys.fob c.device c.gw.dataRate).1 c.device.eui = true
      · have := hnone hn hf
        simp_all
      · simp only [Bool.not_eq_true] at hf
        simp only [hf]
        simp at this ⊢
        omega
    · simp only [take_other _ _ _ _ he]; exact this

theorem ainv_step (E D : Spec.Rfc4493.BlockFn) (cfg : Config) (sys : Sys) (i : Nat) (fault : Bool) (h : AInv sys) :
    AInv (step E D cfg sys i fault) := by
  unfold step
  split
  · exact h
  · rename_i t _
    have key : ∀ (r : Sys × List Thread), AInv r.1 →
        AInv (match r.2 with
          | [] => { r.1 with threads := replaceAt r.1.threads i .done }
          | t0 :: more => { r.1 with threads := replaceAt r.1.threads i t0 ++ more }) := by
      intro r hr
      split <;> exact ainv_of_eq hr rfl rfl rfl
    cases t with
    | uplink s => exact key _ (ainv_stepUplink E sys s fault h)
    | join s => exact key _ (ainv_stepJoin E cfg sys s fault h)
    | notify p c =>
      refine key (stepNotify sys c) ?_
      unfold stepNotify
      split
      · exact h
      · exact ainv_of_eq h rfl rfl rfl
    | sendAt c => exact key _ (ainv_stepSendAt sys c h)
    | sendDone e => exact key (stepSendDone sys e) (ainv_of_eq h rfl rfl rfl)
    | encoder pc p c b => exact key _ (ainv_stepEncoder E D sys pc p c b fault h)
    | done => exact key (sys, [.done]) h

theorem ainv_settle (E D : Spec.Rfc4493.BlockFn) (cfg : Config) (fuel : Nat) (sys : Sys) (h : AInv sys) :
    AInv (settle E D cfg fuel sys) := by
  induction fuel generalizing sys with
  | zero => exact h
  | succ n ih =>
    unfold settle
    split
    · exact ainv_of_eq h rfl rfl rfl
    · exact ih _ (ainv_step E D cfg sys _ false h)

theorem ainv_apply (E D : Spec.Rfc4493.BlockFn) (cfg : Config) (sys : Sys) (ev : Event) (h : AInv sys) :
    AInv (apply E D cfg sys ev) := by
  cases ev with
  | deliver raw gw an na =>
    simp only [apply]
    split
    · exact ainv_of_eq h rfl rfl rfl
    · exact h
  | submit m => exact ainv_of_eq h rfl rfl rfl
  | stepT i f => exact ainv_step E D cfg sys i f h
  | quiesce => exact ainv_settle E D cfg 200 sys h
  | crash =>
    -- the buffer is lost with the process: no flag is pending any more
    intro e
    have := h e
    simp only [apply]
    have hf : flag ([] : List (Bytes × FobEntry)) e = false := rfl
    simp only [hf]
    simp at this ⊢
    omega

/-- **All schedules.** For every event list (all interleavings of handlers, scheduler, sendAt and
    encoders, faults, crashes): the downlinks assembled with the ACK flag for a device never
    outnumber the accepted confirmed uplinks of that device — an acknowledgement is never repeated,
    and no ACK is sent that no confirmed uplink asked for. -/
theorem C09_acks_bounded (E D : Spec.Rfc4493.BlockFn) (cfg : Config) (db : DB) (evs : List Event) (e : Bytes) :
    (run E D cfg (Sys.init db) evs).ackFrames.count e ≤ (run E D cfg (Sys.init db) evs).ackSets.count e := by
  have : ∀ (sys : Sys), AInv sys → AInv (run E D cfg sys evs) := by
    induction evs with
    | nil => intro sys h; exact h
    | cons ev rest ih => intro sys h; exact ih _ (ainv_apply E D cfg sys ev h)
  have h0 : AInv (Sys.init db) := by intro e; simp [Sys.init, flag, fobGet]
  have := this _ h0 e
  omega

end Props.C09
end LospanVerif
