import LospanVerif.Props.C08All
/-
  C08: who may touch the life-cycle columns of the downstream queue. For every state and every
  step of every thread (hence along every event list): the queue changes only
    * by the handler of an uplink that has been accepted (it stands at its ack / requeue step, pc 5,
      or at its mark-sent step, pc 8) — acknowledging when the frame carries the ACK flag, putting
      transmitted unacknowledged confirmed messages back otherwise, marking the message it picked as
      sent — and
    * by the encoder of a data downlink marking the message of its frame as sent.
  No join, no rejected frame, no scheduler or sendAt step writes to it.
-/
namespace LospanVerif
namespace Props.C08
open Model.Pipeline Model.Phy

/-- What one thread step does to the downstream queue. -/
inductive OEff (sys : Sys) (t : Thread) (sys' : Sys) : Prop where
  | same (h : sys'.db.outbox = sys.db.outbox)
  | ack (u : UpSt) (ht : t = .uplink u) (hpc : u.pc = 5) (hack : u.p.mac.fhdr.fctrl.ack = true)
      (h : sys'.db.outbox = (sys.db.ackTime u.cur.eui u.p.mac.fhdr.fcnt sys.now).outbox)
  | requeue (u : UpSt) (ht : t = .uplink u) (hpc : u.pc = 5) (hack : u.p.mac.fhdr.fctrl.ack = false)
      (h : sys'.db.outbox = (sys.db.resetAcks u.cur.eui).outbox)
  | sentUp (u : UpSt) (m : OutRow) (ht : t = .uplink u) (hpc : u.pc = 8) (hm : u.msg = some m)
      (h : sys'.db.outbox = (sys.db.setSent u.cur.eui m.created sys.now u.p.mac.fhdr.fcnt).outbox)
  | sentEnc (pc : Nat) (p : PHY) (c : Ctx) (b : Bytes) (ht : t = .encoder pc p c b) (hpc : pc = 1)
      (hdata : p.mhdr.mtype = mtUnconfirmedDataDown ∨ p.mhdr.mtype = mtConfirmedDataDown)
      (h : sys'.db.outbox = (sys.db.setSent c.device.eui c.payloadCreate sys.now c.device.fcntUp).outbox)

theorem oeff_stepUplink (E : Spec.Rfc4493.BlockFn) (sys : Sys) (s : UpSt) (fault : Bool) :
    OEff sys (.uplink s) (stepUplink E sys s fault).1 := by
  unfold stepUplink
  simp only []
  split
  all_goals (repeat' split)
  all_goals first
    | exact .same rfl
    | (rename_i hh; exact .same (outbox_advance hh))
    | (rename_i hh _; exact .same (outbox_advance hh))
    | (rename_i hh; exact .same (outbox_addInbox hh))
    | (rename_i hh _; exact .same (outbox_addInbox hh))
    | (rename_i hpc _ hack; exact .ack s rfl hpc hack rfl)
    | (rename_i hpc _ hack; exact .requeue s rfl hpc (by simpa using hack) rfl)
    | (rename_i hpc _ m hm _; exact .sentUp s m rfl hpc hm rfl)
    | skip

theorem oeff_stepJoin (E : Spec.Rfc4493.BlockFn) (cfg : Config) (sys : Sys) (s : JoinSt) (fault : Bool) :
    (stepJoin E cfg sys s fault).1.db.outbox = sys.db.outbox := by
  unfold stepJoin
  simp only []
  split
  all_goals (repeat' split)
  all_goals first
    | rfl
    | (rename_i hh; exact outbox_addNonce hh)
    | (rename_i hh _; exact outbox_updateDevice hh)
    | (rename_i hh _ _; exact outbox_updateDevice hh)
    | (rename_i hh; exact outbox_updateDevice hh)

theorem oeff_stepEncoder (E D : Spec.Rfc4493.BlockFn) (sys : Sys) (pc : Nat) (p : PHY) (c : Ctx) (b : Bytes) (fault : Bool) :
    OEff sys (.encoder pc p c b) (stepEncoder E D sys pc p c b fault).1 := by
  unfold stepEncoder
  simp only []
  repeat' split
  all_goals first
    | exact .same rfl
    | (rename_i hh _ _ _; exact .same (outbox_updateState hh))
    | (rename_i hh _ _; exact .same (outbox_updateState hh))
    | (rename_i hh _ _ _ _; exact .same (outbox_next hh))
    | (rename_i hh _ _ _; exact .same (outbox_next hh))
    | (rename_i hh _ _; exact .same (outbox_next hh))
    | (rename_i hd _ _; exact .sentEnc 1 p c b rfl rfl hd rfl)
    | skip

/-- One step of any thread, with or without an injected fault. -/
theorem oeff_step (E D : Spec.Rfc4493.BlockFn) (cfg : Config) (sys : Sys) (i : Nat) (fault : Bool) (t : Thread)
    (hi : sys.threads[i]? = some t) : OEff sys t (step E D cfg sys i fault) := by
  unfold step
  rw [hi]
  simp only []
  have key : ∀ (r : Sys × List Thread), OEff sys t r.1 →
      OEff sys t (match r.2 with
        | [] => { r.1 with threads := replaceAt r.1.threads i .done }
        | t0 :: more => { r.1 with threads := replaceAt r.1.threads i t0 ++ more }) := by
    intro r hr
    split <;>
    · cases hr with
      | same h => exact .same h
      | ack u ht hpc hack h => exact .ack u ht hpc hack h
      | requeue u ht hpc hack h => exact .requeue u ht hpc hack h
      | sentUp u m ht hpc hm h => exact .sentUp u m ht hpc hm h
      | sentEnc pc p c b ht hpc hd h => exact .sentEnc pc p c b ht hpc hd h
  cases t with
  | uplink s => exact key _ (oeff_stepUplink E sys s fault)
  | join s => exact key _ (.same (oeff_stepJoin E cfg sys s fault))
  | notify p c =>
    refine key (stepNotify sys c) (.same ?_)
    unfold stepNotify; split <;> rfl
  | sendAt c =>
    refine key (stepSendAt sys c) (.same ?_)
    unfold stepSendAt; split <;> rfl
  | sendDone e => exact key (stepSendDone sys e) (.same rfl)
  | encoder pc p c b => exact key _ (oeff_stepEncoder E D sys pc p c b fault)
  | done => exact key (sys, [.done]) (.same rfl)

/-- **Acknowledged only by an ACK.** In any state, whatever thread steps: a message that is reported
    acknowledged afterwards was either reported acknowledged before, or the stepping thread is the
    handler of an accepted uplink that carries the ACK flag, of that message's device, standing at
    its acknowledgement step, and the message had been transmitted (sent, not acknowledged) under
    the uplink counter this frame carries. -/
theorem C08_acked_only_by_ack_uplink (E D : Spec.Rfc4493.BlockFn) (cfg : Config) (sys : Sys) (i : Nat) (fault : Bool) (t : Thread)
    (hi : sys.threads[i]? = some t) (m' : OutRow) (hm' : m' ∈ (step E D cfg sys i fault).db.outbox) (hacked : m'.acked > 0) :
    (∃ m ∈ sys.db.outbox, m.dev = m'.dev ∧ m.created = m'.created ∧ m.acked > 0) ∨
    (∃ u, t = .uplink u ∧ u.pc = 5 ∧ u.p.mac.fhdr.fctrl.ack = true ∧
      ∃ m ∈ sys.db.outbox, m.dev = m'.dev ∧ m.created = m'.created ∧ m.dev = u.cur.eui ∧
        m.fcntUp = u.p.mac.fhdr.fcnt ∧ m.sent > 0 ∧ m.acked = 0) := by
  have he := oeff_step E D cfg sys i fault t hi
  cases he with
  | same h => rw [h] at hm'; exact .inl ⟨m', hm', rfl, rfl, hacked⟩
  | ack u ht hpc hack h =>
    rw [h] at hm'
    simp only [DB.ackTime, List.mem_map] at hm'
    obtain ⟨m, hm, rfl⟩ := hm'
    by_cases hc : (m.dev == u.cur.eui && m.fcntUp == u.p.mac.fhdr.fcnt && decide (m.sent > 0) && m.acked == 0) = true
    · simp only [hc, if_true] at hacked ⊢
      simp only [Bool.and_eq_true, beq_iff_eq, decide_eq_true_eq] at hc
      exact .inr ⟨u, ht, hpc, hack, m, hm, rfl, rfl, hc.1.1.1, hc.1.1.2, hc.1.2, hc.2⟩
    · simp only [hc] at hacked ⊢
      exact .inl ⟨m, hm, rfl, rfl, hacked⟩
  | requeue u ht hpc hack h =>
    rw [h] at hm'
    simp only [DB.resetAcks, List.mem_map] at hm'
    obtain ⟨m, hm, rfl⟩ := hm'
    split at hacked
    · rename_i hc
      simp only [Bool.and_eq_true, beq_iff_eq] at hc
      simp only [] at hacked
      omega
    · split
      · rename_i hc' hc; exact absurd hc hc'
      · exact .inl ⟨m, hm, rfl, rfl, hacked⟩
  | sentUp u m0 ht hpc hm0 h =>
    rw [h] at hm'
    simp only [DB.setSent, List.mem_map] at hm'
    obtain ⟨m, hm, rfl⟩ := hm'
    split at hacked <;> (split <;> first | exact .inl ⟨m, hm, rfl, rfl, hacked⟩ | (rename_i a b; first | exact absurd b a | exact absurd a b))
  | sentEnc pc p c b ht hpc hd h =>
    rw [h] at hm'
    simp only [DB.setSent, List.mem_map] at hm'
    obtain ⟨m, hm, rfl⟩ := hm'
    split at hacked <;> (split <;> first | exact .inl ⟨m, hm, rfl, rfl, hacked⟩ | (rename_i a b; first | exact absurd b a | exact absurd a b))

/-- **Sent only for an accepted uplink.** A message that is reported sent afterwards was reported sent
    before, or the stepping thread is an uplink handler past acceptance marking the message it picked
    for this uplink (its mark-sent step), or the encoder of a data downlink for that device. -/
theorem C08_sent_only_by_handler_or_encoder (E D : Spec.Rfc4493.BlockFn) (cfg : Config) (sys : Sys) (i : Nat) (fault : Bool) (t : Thread)
    (hi : sys.threads[i]? = some t) (m' : OutRow) (hm' : m' ∈ (step E D cfg sys i fault).db.outbox) (hsent : m'.sent > 0) :
    (∃ m ∈ sys.db.outbox, m.dev = m'.dev ∧ m.created = m'.created ∧ m.sent > 0) ∨
    (∃ u m0, t = .uplink u ∧ u.pc = 8 ∧ u.msg = some m0 ∧ m'.dev = u.cur.eui ∧ m'.created = m0.created) ∨
    (∃ pc p c b, t = .encoder pc p c b ∧ pc = 1 ∧ m'.dev = c.device.eui ∧ m'.created = c.payloadCreate) := by
  have he := oeff_step E D cfg sys i fault t hi
  cases he with
  | same h => rw [h] at hm'; exact .inl ⟨m', hm', rfl, rfl, hsent⟩
  | ack u ht hpc hack h =>
    rw [h] at hm'
    simp only [DB.ackTime, List.mem_map] at hm'
    obtain ⟨m, hm, rfl⟩ := hm'
    split at hsent <;> (split <;> first | exact .inl ⟨m, hm, rfl, rfl, hsent⟩ | (rename_i a b; first | exact absurd b a | exact absurd a b))
  | requeue u ht hpc hack h =>
    rw [h] at hm'
    simp only [DB.resetAcks, List.mem_map] at hm'
    obtain ⟨m, hm, rfl⟩ := hm'
    split at hsent
    · simp only [] at hsent; omega
    · split
      · rename_i hc' hc; exact absurd hc hc'
      · exact .inl ⟨m, hm, rfl, rfl, hsent⟩
  | sentUp u m0 ht hpc hm0 h =>
    rw [h] at hm'
    simp only [DB.setSent, List.mem_map] at hm'
    obtain ⟨m, hm, rfl⟩ := hm'
    by_cases hc : (m.dev == u.cur.eui && m.created == m0.created) = true
    · simp only [hc, if_true]
      simp only [Bool.and_eq_true, beq_iff_eq] at hc
      exact .inr (.inl ⟨u, m0, ht, hpc, hm0, hc.1, hc.2⟩)
    · simp only [hc] at hsent ⊢
      exact .inl ⟨m, hm, rfl, rfl, hsent⟩
  | sentEnc pc p c b ht hpc hd h =>
    rw [h] at hm'
    simp only [DB.setSent, List.mem_map] at hm'
    obtain ⟨m, hm, rfl⟩ := hm'
    by_cases hc : (m.dev == c.device.eui && m.created == c.payloadCreate) = true
    · simp only [hc, if_true]
      simp only [Bool.and_eq_true, beq_iff_eq] at hc
      exact .inr (.inr ⟨pc, p, c, b, ht, hpc, hc.1, hc.2⟩)
    · simp only [hc] at hsent ⊢
      exact .inl ⟨m, hm, rfl, rfl, hsent⟩

end Props.C08
end LospanVerif
