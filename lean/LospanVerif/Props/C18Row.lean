import LospanVerif.Model.Row
import LospanVerif.Props.C18
/-
  C18, the device table as a whole: after any history of CreateDevice / UpdateDevice / DeleteDevice
  calls with well-formed devices, the table answers `GetDeviceByEUI` and the per-application listing
  exactly as a plain keyed list of device values does. In particular no stored row ever fails to
  decode (no read is poisoned by a device whose address, EUI or key has its top bit set), and no
  device is found under another one's EUI.
-/
namespace LospanVerif
namespace Props.C18Row
open Model.Text Model.Row Props.C18

/-- One row read back is the device that was written, whatever its field values. -/
theorem C18_row_roundtrip (d : Dev) (h : d.WF) : ofRow (toRow d) = some d := by
  obtain ⟨h1, h2, h3, h4, h5, h6⟩ := h
  cases d
  simp only [ofRow, toRow, devAddr_roundtrip _ h3, key_hex_roundtrip _ h4, key_hex_roundtrip _ h5, key_hex_roundtrip _ h6,
    eui_int64_roundtrip _ h1, eui_int64_roundtrip _ h2]

/-- Distinct EUIs are distinct primary keys. -/
theorem toInt64_inj {a b : Bytes} (ha : a.length = 8) (hb : b.length = 8) (h : toInt64 a = toInt64 b) : a = b := by
  rw [← eui_int64_roundtrip a ha, ← eui_int64_roundtrip b hb, h]

theorem key_eq {a b : Bytes} (ha : a.length = 8) (hb : b.length = 8) : (toInt64 a == toInt64 b) = (a == b) := by
  by_cases h : a = b
  · subst h; rw [beq_self_eq_true, beq_self_eq_true]
  · have : toInt64 a ≠ toInt64 b := fun h' => h (toInt64_inj ha hb h')
    rw [beq_eq_false_iff_ne.mpr this, beq_eq_false_iff_ne.mpr h]

/-! ### the abstract store: a list of device values keyed by EUI -/

def aCreate (ds : List Dev) (d : Dev) : Option (List Dev) :=
  if ds.any (fun x => x.eui == d.eui) then none else some (ds ++ [d])
def aUpdate (ds : List Dev) (d : Dev) : Option (List Dev) :=
  if ds.any (fun x => x.eui == d.eui) then
    some (ds.map fun x => if x.eui == d.eui then { d with eui := x.eui, appEui := x.appEui } else x)
  else none
def aDelete (ds : List Dev) (eui : Bytes) : Option (List Dev) :=
  if ds.any (fun x => x.eui == eui) then some (ds.filter fun x => !(x.eui == eui)) else none
def aGet (ds : List Dev) (eui : Bytes) : Got :=
  match ds.find? (fun x => x.eui == eui) with
  | none => .notFound
  | some d => .dev d
def aList (ds : List Dev) (appEui : Bytes) : List Dev := ds.filter fun x => x.appEui == appEui

/-- The table holds exactly the rows of the well-formed devices `ds`. -/
def Rep (t : Table) (ds : List Dev) : Prop := t = ds.map toRow ∧ ∀ d ∈ ds, d.WF

theorem any_key {ds : List Dev} (hw : ∀ d ∈ ds, d.WF) {eui : Bytes} (he : eui.length = 8) :
    (ds.map toRow).any (fun r => r.eui == toInt64 eui) = ds.any (fun x => x.eui == eui) := by
  induction ds with
  | nil => rfl
  | cons x xs ih =>
    have hx := hw x (by simp)
    simp only [List.map_cons, List.any_cons, ih (fun d hd => hw d (by simp [hd]))]
    have : ((toRow x).eui == toInt64 eui) = (x.eui == eui) := key_eq hx.1 he
    rw [this]

/-- Outcome of a write on the table and on the keyed list: both refuse, or both succeed into related states. -/
def Sim (o : Option Table) (a : Option (List Dev)) : Prop :=
  (o = none ∧ a = none) ∨ ∃ t' ds', o = some t' ∧ a = some ds' ∧ Rep t' ds'

theorem rep_create {t ds} (h : Rep t ds) (d : Dev) (hd : d.WF) : Sim (create t d) (aCreate ds d) := by
  obtain ⟨ht, hw⟩ := h
  subst ht
  unfold create aCreate
  rw [any_key hw hd.1]
  by_cases hany : (ds.any fun x => x.eui == d.eui) = true
  · simp only [hany, if_true]; exact .inl ⟨rfl, rfl⟩
  · simp only [hany]
    refine .inr ⟨_, _, rfl, rfl, by simp, ?_⟩
    intro x hx
    rcases List.mem_append.mp hx with hx | hx
    · exact hw x hx
    · simp at hx; subst hx; exact hd

theorem filter_key {ds : List Dev} (hw : ∀ d ∈ ds, d.WF) {eui : Bytes} (he : eui.length = 8) :
    (ds.map toRow).filter (fun r => !(r.eui == toInt64 eui)) = (ds.filter fun x => !(x.eui == eui)).map toRow := by
  induction ds with
  | nil => rfl
  | cons x xs ih =>
    have hx := hw x (by simp)
    have hk : ((toRow x).eui == toInt64 eui) = (x.eui == eui) := key_eq hx.1 he
    have ih' := ih (fun d hd => hw d (by simp [hd]))
    simp only [List.map_cons, List.filter_cons, hk]
    cases (x.eui == eui)
    · simp [ih']
    · simpa using ih'

theorem rep_delete {t ds} (h : Rep t ds) (eui : Bytes) (he : eui.length = 8) : Sim (delete t eui) (aDelete ds eui) := by
  obtain ⟨ht, hw⟩ := h
  subst ht
  unfold delete aDelete
  rw [any_key hw he]
  by_cases hany : (ds.any fun x => x.eui == eui) = true
  · simp only [hany, if_true]
    exact .inr ⟨_, _, rfl, rfl, filter_key hw he, fun x hx => hw x (List.mem_filter.mp hx).1⟩
  · simp only [hany]; exact .inl ⟨rfl, rfl⟩

theorem map_key {ds : List Dev} (hw : ∀ d ∈ ds, d.WF) {d : Dev} (hd : d.WF) :
    (ds.map toRow).map (fun r => if r.eui == toInt64 d.eui then { toRow d with eui := r.eui, appEui := r.appEui } else r)
      = (ds.map fun x => if x.eui == d.eui then { d with eui := x.eui, appEui := x.appEui } else x).map toRow := by
  induction ds with
  | nil => rfl
  | cons x xs ih =>
    have hx := hw x (by simp)
    have hk : ((toRow x).eui == toInt64 d.eui) = (x.eui == d.eui) := key_eq hx.1 hd.1
    simp only [List.map_cons, hk, ih (fun d hd => hw d (by simp [hd]))]
    congr 1
    cases (x.eui == d.eui)
    · rfl
    · simp [toRow]

theorem rep_update {t ds} (h : Rep t ds) (d : Dev) (hd : d.WF) : Sim (update t d) (aUpdate ds d) := by
  obtain ⟨ht, hw⟩ := h
  subst ht
  unfold update aUpdate
  rw [any_key hw hd.1]
  by_cases hany : (ds.any fun x => x.eui == d.eui) = true
  · simp only [hany, if_true]
    refine .inr ⟨_, _, rfl, rfl, map_key hw hd, ?_⟩
    intro x hx
    obtain ⟨y, hy, rfl⟩ := List.mem_map.mp hx
    have hyw := hw y hy
    split
    · exact ⟨hyw.1, hyw.2.1, hd.2.2.1, hd.2.2.2.1, hd.2.2.2.2.1, hd.2.2.2.2.2⟩
    · exact hyw
  · simp only [hany]; exact .inl ⟨rfl, rfl⟩

/-- `GetDeviceByEUI` answers as the keyed list does; never a row that does not decode, never another device. -/
theorem rep_get {t ds} (h : Rep t ds) (eui : Bytes) (he : eui.length = 8) : get t eui = aGet ds eui := by
  obtain ⟨ht, hw⟩ := h
  subst ht
  unfold Model.Row.get aGet
  induction ds with
  | nil => rfl
  | cons x xs ih =>
    have hx := hw x (by simp)
    have hk : ((toRow x).eui == toInt64 eui) = (x.eui == eui) := key_eq hx.1 he
    simp only [List.map_cons, List.find?_cons, hk]
    cases hc : (x.eui == eui)
    · exact ih (fun d hd => hw d (by simp [hd]))
    · simp only [C18_row_roundtrip x hx]

/-- The listing of an application never fails and returns that application's devices. -/
theorem rep_list {t ds} (h : Rep t ds) (a : Bytes) (ha : a.length = 8) : list t a = some (aList ds a) := by
  obtain ⟨ht, hw⟩ := h
  subst ht
  unfold list aList
  induction ds with
  | nil => rfl
  | cons x xs ih =>
    have hx := hw x (by simp)
    have hk : ((toRow x).appEui == toInt64 a) = (x.appEui == a) := key_eq hx.2.1 ha
    have ih' := ih (fun d hd => hw d (by simp [hd]))
    simp only [List.map_cons, List.filter_cons, hk]
    cases hc : (x.appEui == a)
    · simpa using ih'
    · simp only [if_true, List.mapM_cons, C18_row_roundtrip x hx, ih']
      rfl

/-! ### every history -/

inductive Op where
  | create (d : Dev) | update (d : Dev) | delete (eui : Bytes)

def Op.WF : Op → Prop
  | .create d => d.WF
  | .update d => d.WF
  | .delete e => e.length = 8

/-- A failed call (duplicate key, no such row) leaves the table as it was. -/
def apply (t : Table) : Op → Table
  | .create d => (create t d).getD t
  | .update d => (update t d).getD t
  | .delete e => (delete t e).getD t
def aApply (ds : List Dev) : Op → List Dev
  | .create d => (aCreate ds d).getD ds
  | .update d => (aUpdate ds d).getD ds
  | .delete e => (aDelete ds e).getD ds

theorem sim_getD {t ds o a} (h : Rep t ds) (hs : Sim o a) : Rep (o.getD t) (a.getD ds) := by
  rcases hs with ⟨rfl, rfl⟩ | ⟨t', ds', rfl, rfl, hr⟩
  · exact h
  · exact hr

theorem rep_apply {t ds} (h : Rep t ds) (op : Op) (hop : op.WF) : Rep (apply t op) (aApply ds op) := by
  cases op with
  | create d => exact sim_getD h (rep_create h d hop)
  | update d => exact sim_getD h (rep_update h d hop)
  | delete e => exact sim_getD h (rep_delete h e hop)

theorem rep_run (ops : List Op) (hops : ∀ op ∈ ops, op.WF) {t ds} (h : Rep t ds) :
    Rep (ops.foldl apply t) (ops.foldl aApply ds) := by
  induction ops generalizing t ds with
  | nil => exact h
  | cons op ops ih =>
    exact ih (fun o ho => hops o (by simp [ho])) (rep_apply h op (hops op (by simp)))

/-- **C18, whole table.** After any history of well-formed create / update / delete calls on an empty
    table, every `GetDeviceByEUI` and every per-application listing answers exactly as the plain
    keyed list of device values does: what was written is what is read, whatever the field values,
    no read fails on a row, and no write to one EUI shows under another. -/
theorem C18_store_is_keyed_list (ops : List Op) (hops : ∀ op ∈ ops, op.WF) (eui : Bytes) (he : eui.length = 8) :
    get (ops.foldl apply []) eui = aGet (ops.foldl aApply []) eui ∧
    list (ops.foldl apply []) eui = some (aList (ops.foldl aApply []) eui) := by
  have h : Rep (ops.foldl apply []) (ops.foldl aApply []) := rep_run ops hops ⟨rfl, by simp⟩
  exact ⟨rep_get h eui he, rep_list h eui he⟩

/-- Read-your-write, stated outright: a device just created is read back unchanged, whatever was
    stored before. -/
theorem C18_create_then_get {t ds} (h : Rep t ds) (d : Dev) (hd : d.WF) {t'} (hc : create t d = some t') :
    get t' d.eui = .dev d := by
  rcases rep_create h d hd with ⟨hn, _⟩ | ⟨t'', ds', h1, h2, hr⟩
  · rw [hc] at hn; cases hn
  · rw [hc] at h1; cases h1
    rw [rep_get hr d.eui hd.1]
    unfold aCreate at h2
    split at h2
    · cases h2
    · rename_i hn
      cases h2
      unfold aGet
      have : ds.find? (fun x => x.eui == d.eui) = none := by
        rw [List.find?_eq_none]
        intro x hx hxe
        exact hn (List.any_eq_true.mpr ⟨x, hx, hxe⟩)
      simp [List.find?_append, this]

/-- Non-vacuity and the repaired witnesses: a device whose address, EUI and application EUI all have
    the top bit set, stored next to an ordinary one. -/
def dHi : Dev := { eui := [0xff#8, 1#8, 2#8, 3#8, 4#8, 5#8, 6#8, 7#8], devAddr := 0x80000000, appKey := List.replicate 16 0xff#8,
                   appSKey := List.replicate 16 0x80#8, nwkSKey := List.replicate 16 0#8, appEui := [0x80#8, 0#8, 0#8, 0#8, 0#8, 0#8, 0#8, 1#8],
                   state := 1, fcntUp := 65535, fcntDn := 0, relaxed := true, warn := false, tag := "x".toList }
def dLo : Dev := { dHi with eui := [0#8, 1#8, 2#8, 3#8, 4#8, 5#8, 6#8, 7#8], devAddr := 1 }
example : dHi.WF ∧ dLo.WF := by unfold Dev.WF; decide
example : get ([Op.create dHi, .create dLo].foldl apply []) dHi.eui = .dev dHi ∧
          list ([Op.create dHi, .create dLo].foldl apply []) dHi.appEui = some [dHi, dLo] := by decide

end Props.C18Row
end LospanVerif
