import LospanVerif.Model.Phy
import LospanVerif.Spec.Lorawan
import LospanVerif.Props.C14
/-
  C02 — crypto matches LoRaWAN 1.0 (and the frame-cipher half of C14).
  For every block function E: the library's payload cipher is the specification's (A_i blocks,
  counter mode, truncated key stream), its MIC is the specification's (B0 block, RFC 4493 CMAC,
  first four octets), applying the cipher twice restores the payload and it touches nothing but
  the payload. End-to-end acceptance of device-built frames is decided by engines uplink/pipeseq
  against the Lean device (Spec.Lorawan.buildFrame); encoded frames = spec frames by engine phyenc.
-/
namespace LospanVerif
namespace Props.C02
open Model.Phy Model.Mac

theorem dirByte_eq (mt : Nat) : dirByte mt = byteOf (Spec.Lorawan.dirOf mt) := by
  simp only [dirByte, Spec.Lorawan.dirOf, isUplinkMType]
  by_cases h0 : mt = 0
  · subst h0; rfl
  · by_cases h2 : mt = 2
    · subst h2; rfl
    · by_cases h4 : mt = 4
      · subst h4; rfl
      · simp [h0, h2, h4, byteOf]

theorem aBlock_eq (mt addr fcnt i : Nat) : aBlock mt addr fcnt i = Spec.Lorawan.aBlock (Spec.Lorawan.dirOf mt) addr fcnt (i + 1) := by
  simp [aBlock, Spec.Lorawan.aBlock, dirByte_eq]

theorem keystream_eq (E : Spec.Rfc4493.BlockFn) (key : Bytes) (mt addr fcnt k : Nat) :
    keystream E key mt addr fcnt k = (List.range k).flatMap (fun j => E key (Spec.Lorawan.aBlock (Spec.Lorawan.dirOf mt) addr fcnt (j + 1))) := by
  simp [keystream, aBlock_eq]

theorem xorB_take (a b : Bytes) : xorB a b = xorB a (b.take a.length) := by
  induction a generalizing b with
  | nil => simp [xorB]
  | cons x xs ih =>
    cases b with
    | nil => simp [xorB]
    | cons y ys =>
      simp only [xorB, List.zipWith_cons_cons, List.length_cons, List.take_succ_cons, List.cons.injEq, true_and]
      exact ih ys

/-- The library's payload cipher is the specification's, for every cipher, key, address, counter,
    direction and payload. -/
theorem C02_decrypt_is_spec (E : Spec.Rfc4493.BlockFn) (nwk app : Bytes) (p : PHY) :
    decryptFrm E nwk app p =
      Spec.Lorawan.cryptPayload E (if p.mac.fport = 0 then nwk else app) (Spec.Lorawan.dirOf p.mhdr.mtype)
        p.mac.fhdr.devAddr.toUint32 p.mac.fhdr.fcnt p.mac.frm := by
  simp only [decryptFrm, Spec.Lorawan.cryptPayload, Spec.Lorawan.keyStream]
  rw [xorB_take, keystream_eq]

/-- The cipher only replaces the payload. -/
theorem C14_only_payload (E : Spec.Rfc4493.BlockFn) (nwk app : Bytes) (p : PHY) :
    decrypt E nwk app p = { p with mac := { p.mac with frm := decryptFrm E nwk app p } } := rfl

theorem xorB_xorB (a s : Bytes) (h : a.length ≤ s.length) : xorB (xorB a s) s = a := by
  induction a generalizing s with
  | nil => simp [xorB]
  | cons x xs ih =>
    cases s with
    | nil => simp at h
    | cons y ys =>
      simp only [xorB, List.zipWith_cons_cons, List.cons.injEq]
      refine ⟨?_, ih ys (by simpa using h)⟩
      rw [BitVec.xor_assoc, BitVec.xor_self, BitVec.xor_zero]

theorem flatMap_len16 (E : Spec.Rfc4493.BlockFn) (hE : ∀ k b, (E k b).length = 16) (key : Bytes) (f : Nat → Bytes) (k : Nat) :
    ((List.range k).flatMap (fun j => E key (f j))).length = 16 * k := by
  induction k with
  | zero => simp
  | succ n ih =>
    rw [List.range_succ, List.flatMap_append, List.length_append, ih]
    simp [hE]; omega

/-- Applying the frame cipher twice restores the payload (every E with 16-octet blocks). -/
theorem C14_involution (E : Spec.Rfc4493.BlockFn) (hE : ∀ k b, (E k b).length = 16) (nwk app : Bytes) (p : PHY) :
    decrypt E nwk app (decrypt E nwk app p) = p := by
  have hlen : (decryptFrm E nwk app p).length = p.mac.frm.length := by
    simp only [decryptFrm, xorB_length, keystream]
    rw [flatMap_len16 E hE]
    omega
  have hks : p.mac.frm.length ≤ (keystream E (if p.mac.fport = 0 then nwk else app) p.mhdr.mtype p.mac.fhdr.devAddr.toUint32 p.mac.fhdr.fcnt
      ((p.mac.frm.length + 15) / 16)).length := by
    simp only [keystream]; rw [flatMap_len16 E hE]; omega
  simp only [decrypt]
  have : decryptFrm E nwk app { p with mac := { p.mac with frm := decryptFrm E nwk app p } } = p.mac.frm := by
    have hlen' : (xorB p.mac.frm (keystream E (if p.mac.fport = 0 then nwk else app) p.mhdr.mtype p.mac.fhdr.devAddr.toUint32
        p.mac.fhdr.fcnt ((p.mac.frm.length + 15) / 16))).length = p.mac.frm.length := by
      simpa [decryptFrm] using hlen
    simp only [decryptFrm]
    rw [hlen']
    exact xorB_xorB _ _ hks
  rw [this]

/-- The library's MIC is the specification's: CMAC (RFC 4493, by C14) over B0 ‖ msg, first four
    octets, for every cipher with 16-octet blocks and every message shorter than 256 octets. -/
theorem C02_mic_is_spec (E : Spec.Rfc4493.BlockFn) (hE : ∀ k b, (E k b).length = 16) (nwk : Bytes) (p : PHY) (msg : Bytes) :
    le32 (calculateMIC E nwk p msg) =
      Spec.Lorawan.mic E nwk (Spec.Lorawan.dirOf p.mhdr.mtype) p.mac.fhdr.devAddr.toUint32 p.mac.fhdr.fcnt msg := by
  simp only [calculateMIC, micOf, Spec.Lorawan.mic]
  rw [Props.C14.C14_eq_rfc4493]
  have hb : b0 p.mhdr.mtype p.mac.fhdr.devAddr.toUint32 p.mac.fhdr.fcnt msg.length =
      Spec.Lorawan.b0Block (Spec.Lorawan.dirOf p.mhdr.mtype) p.mac.fhdr.devAddr.toUint32 p.mac.fhdr.fcnt msg.length := by
    simp [b0, Spec.Lorawan.b0Block, dirByte_eq]
  rw [hb]
  generalize hc : Spec.Rfc4493.cmac E nwk (Spec.Lorawan.b0Block _ _ _ _ ++ msg) = tag
  have hl : tag.length = 16 := by
    rw [← hc]; simp only [Spec.Rfc4493.cmac]; exact hE _ _
  match tag, hl with
  | [a, b, c, d, _, _, _, _, _, _, _, _, _, _, _, _], _ =>
    simp only [List.take, le32_unle]

/-- Non-vacuity: a toy cipher with 16-octet blocks. -/
example : ∃ E : Spec.Rfc4493.BlockFn, ∀ k b, (E k b).length = 16 := ⟨fun _ _ => zeros 16, by simp⟩

end Props.C02
end LospanVerif
