import LospanVerif.Proofs.Total
import LospanVerif.Props.C02Recover
/-
  C12 / C02 without the "accepted" hypothesis: frames the specification parses are accepted and
  decoded to the specification's fields; frames the library encodes decode again; frames a
  conformant device builds for an application port are accepted, verify and decrypt to the
  device's plaintext.
-/
namespace LospanVerif
namespace Props.C12Total
open Model.Phy Model.Mac Props.C12Enc

/-- Every octet string the specification parses as a data frame (FPort absent or not 0) is accepted
    by the library, with the specification's fields. -/
theorem C12_accepts_spec_frames (bs : Bytes) (q : Spec.Frame.DataFrame) (h : Spec.Frame.parse bs = some q) (hp : q.port ≠ some 0) :
    ∃ p, unmarshal bs = .ok p ∧ Props.C12.Agrees p q := by
  obtain ⟨p, hu⟩ := Proofs.Total.unmarshal_of_parse bs q h hp
  refine ⟨p, hu, ?_⟩
  have hmt := Props.C02.unmarshal_mtype bs p hu
  have hq : q.mtype = (bs.getD 0 0#8).toNat / 32 ∧ Spec.Frame.isDataMType q.mtype = true := by
    unfold Spec.Frame.parse at h
    match bs, h with
    | m :: a0 :: a1 :: a2 :: a3 :: fc :: c0 :: c1 :: rest, h =>
      simp only [] at h
      split at h
      · cases h
      · rename_i hhdr
        split at h
        · cases h
        · simp only [Option.some.injEq] at h
          subst h
          refine ⟨rfl, ?_⟩
          cases hd : Spec.Frame.isDataMType (m.toNat / 32)
          · exact absurd (Or.inr (by simp [hd])) hhdr
          · rfl
  have hd : isDataMType p.mhdr.mtype = true := by
    rw [hmt, ← hq.1]; exact hq.2
  obtain ⟨q', hq', ha⟩ := Props.C12.C12_decode_fields bs p hu hd
  rw [h] at hq'
  cases hq'
  exact ha

/-- Round trip without side conditions on the decoder: what the library encodes (a well-formed
    frame value for an application port, or without payload) it decodes again to the same fields. -/
theorem C12_roundtrip_total (p : PHY) (bs : Bytes) (hm : marshal p = .ok bs) (hwf : Spec.Frame.WF (specOf p))
    (hp : (specOf p).port ≠ some 0) : ∃ p', unmarshal bs = .ok p' ∧ Props.C12.Agrees p' (specOf p) := by
  have hl := C12_marshal_is_layout p bs hm
  exact C12_accepts_spec_frames bs (specOf p) (by rw [hl]; exact Spec.Frame.parse_layout _ hwf) hp

open Props.C02 in
/-- A frame a conformant device builds for an application port is a data frame the specification
    parses, with that port. -/
theorem buildFrame_parses (E : Spec.Rfc4493.BlockFn) (hE : ∀ k b, (E k b).length = 16) (nwk app : Bytes)
    (mtype addr : Nat) (adr aar ack b4 : Bool) (fcnt : Nat) (fopts : Bytes) (port : Nat) (payload : Bytes)
    (hmt : Spec.Frame.isDataMType mtype = true) (haddr : addr < 4294967296) (hfc : fcnt < 65536) (hfo : fopts.length ≤ 15)
    (hp0 : 0 < port) (hp1 : port < 256) :
    ∃ f, Spec.Frame.parse (Spec.Lorawan.buildFrame E nwk app mtype addr adr aar ack b4 fcnt fopts (some port) payload) = some f ∧
      f.port = some port := by
  have hkey : (if (some port : Option Nat) = some 0 then nwk else app) = app := by
    rw [if_neg]; intro h; cases h; omega
  generalize henc : Spec.Lorawan.cryptPayload E app (Spec.Lorawan.dirOf mtype) addr fcnt payload = enc
  let pre : Bytes := [byteOf (32 * mtype + 0)] ++ le32 addr ++
    [byteOf (128 * Spec.Frame.b2n adr + 64 * Spec.Frame.b2n aar + 32 * Spec.Frame.b2n ack + 16 * Spec.Frame.b2n b4 + fopts.length)] ++
    le16 fcnt ++ fopts ++ (byteOf port :: enc)
  generalize hmicB : Spec.Lorawan.mic E nwk (Spec.Lorawan.dirOf mtype) addr fcnt pre = micB
  have hraw : Spec.Lorawan.buildFrame E nwk app mtype addr adr aar ack b4 fcnt fopts (some port) payload = pre ++ micB := by
    simp only [Spec.Lorawan.buildFrame, hkey, henc, Spec.Frame.layout]
    have : (pre ++ le32 0).take ((pre ++ le32 0).length - 4) = pre := by simp [le32]
    rw [this, hmicB]
  have hmicLen : micB.length = 4 := by
    rw [← hmicB]; simp [Spec.Lorawan.mic, cmac_len E hE]
  match micB, hmicLen with
  | [m0, m1, m2, m3], _ =>
    let f : Spec.Frame.DataFrame :=
      { mtype := mtype, major := 0, devAddr := addr, adr := adr, adrAckReq := aar, ack := ack, bit4 := b4,
        fcnt := fcnt, fopts := fopts, port := some port, frm := enc, mic := unle [m0, m1, m2, m3] }
    have hlay : Spec.Frame.layout f = pre ++ [m0, m1, m2, m3] := by
      simp only [Spec.Frame.layout, f, le32_unle]
      rfl
    have hwf : Spec.Frame.WF f :=
      { mtype := hmt, major := rfl, addr := haddr, fcnt := hfc, fopts := hfo,
        port := (by intro q hq; cases hq; exact hp1), noport := (by intro h; cases h), mic := unle_lt_32 _ _ _ _ }
    exact ⟨f, by rw [hraw, ← hlay]; exact Spec.Frame.parse_layout f hwf, rfl⟩

/-- **C02, uplink clause, at the codec level, with no side condition on the decoder.** Every data
    frame a conformant device builds for an application port — for every cipher with 16-octet
    blocks, all keys, addresses, counters, ports 1..255, flag combinations, FOpts octets (≤ 15,
    known or unknown identifiers) and payloads — is accepted by the library's decoder, verifies under
    the NwkSKey over exactly the received octets and decrypts to exactly the device's plaintext,
    with the device's address, counter and port. -/
theorem C02_device_frames_accepted (E : Spec.Rfc4493.BlockFn) (hE : ∀ k b, (E k b).length = 16) (nwk app : Bytes)
    (mtype addr : Nat) (adr aar ack b4 : Bool) (fcnt : Nat) (fopts : Bytes) (port : Nat) (payload : Bytes)
    (hmt : Spec.Frame.isDataMType mtype = true) (haddr : addr < 4294967296) (hfc : fcnt < 65536) (hfo : fopts.length ≤ 15)
    (hp0 : 0 < port) (hp1 : port < 256) :
    let raw := Spec.Lorawan.buildFrame E nwk app mtype addr adr aar ack b4 fcnt fopts (some port) payload
    ∃ p, unmarshal raw = .ok p ∧
      le32 (calculateMIC E nwk p (raw.take (raw.length - 4))) = raw.drop (raw.length - 4) ∧ le32 p.mic = raw.drop (raw.length - 4) ∧
      decryptFrm E nwk app p = payload ∧ p.mac.fport = port ∧ p.mac.fhdr.devAddr.toUint32 = addr ∧ p.mac.fhdr.fcnt = fcnt := by
  intro raw
  obtain ⟨f, hparse, hport⟩ := buildFrame_parses E hE nwk app mtype addr adr aar ack b4 fcnt fopts port payload hmt haddr hfc hfo hp0 hp1
  obtain ⟨p, hu⟩ := Proofs.Total.unmarshal_of_parse raw f hparse (by rw [hport]; intro h; cases h; omega)
  exact ⟨p, hu, Props.C02.C02_accept_and_recover E hE nwk app mtype addr adr aar ack b4 fcnt fopts port payload hmt haddr hfc hfo hp0 hp1 p hu⟩

end Props.C12Total
end LospanVerif
