import LospanVerif.Model.Pipeline
/-
  C03 — uplink replay protection.
  Proved here: the accept rule itself, for every state and frame (strict devices): a frame is
  processed only if its counter is not below the expected value of the snapshot the handler
  read, and processing it stores the counter past it before anything else happens.
  The all-schedules statement does NOT hold for the code as it stands (read, check and write are
  three operations; see known_findings.json C03); the sequential statement and the racing
  schedules are decided by the pipeline engines.
-/
namespace LospanVerif
namespace Props.C03
open Model.Pipeline Model.Phy

/-- Strict device, counter below the expected value: the handler moves on to the next matching
    device (or ends) and the system is untouched. -/
theorem C03_old_counter_rejected (E : Spec.Rfc4493.BlockFn) (sys : Sys) (s : UpSt) (fault : Bool) (h1 : s.pc = 1)
    (hs : s.cur.relaxed = false) (hlt : s.p.mac.fhdr.fcnt < s.cur.fcntUp) :
    (stepUplink E sys s fault).1 = sys ∧
    ∀ s', Thread.uplink s' ∈ (stepUplink E sys s fault).2 → s'.pc = 1 ∧ s'.todo.length < s.todo.length := by
  have hgt : s.cur.fcntUp > s.p.mac.fhdr.fcnt := hlt
  simp only [stepUplink, h1, hs, Bool.not_false, Bool.true_and, decide_eq_true_eq, hgt, if_true]
  cases s.todo with
  | nil => simp
  | cons d rest => simp

/-- Strict device, counter not below the expected value: the stored counter becomes counter+1
    (16-bit) in the same step that lets the handler continue — or the handler stops for this
    device if that write fails. Nothing else (inbox, queues, buffer) is touched by this step. -/
theorem C03_accept_moves_counter (E : Spec.Rfc4493.BlockFn) (sys : Sys) (s : UpSt) (h1 : s.pc = 1)
    (hge : s.cur.fcntUp ≤ s.p.mac.fhdr.fcnt) (db' : DB)
    (hw : sys.db.updateState { (if s.nmatch > 1 then { s.cur with keyWarning := true } else s.cur) with
            fcntUp := (s.p.mac.fhdr.fcnt + 1) % 65536 } = some db') :
    stepUplink E sys s false =
      ({ sys with db := db' },
       [.uplink { s with pc := 2, cur := { (if s.nmatch > 1 then { s.cur with keyWarning := true } else s.cur) with
            fcntUp := (s.p.mac.fhdr.fcnt + 1) % 65536 } }]) := by
  have hng : ¬ (s.cur.fcntUp > s.p.mac.fhdr.fcnt) := by omega
  simp only [stepUplink, h1]
  by_cases hm : s.nmatch > 1
  · simp only [hm, if_true] at hw ⊢
    simp [hng, hge, hw]
  · simp only [hm, if_false] at hw ⊢
    simp [hng, hge, hw]

/-- `UpdateDeviceState` writes exactly the snapshot's counters to the row of that EUI. -/
theorem updateState_sets (db db' : DB) (d : Device) (h : db.updateState d = some db') :
    ∀ x ∈ db'.devices, x.eui = d.eui → x.fcntUp = d.fcntUp ∧ x.fcntDn = d.fcntDn := by
  unfold DB.updateState at h
  split at h
  · cases h
    intro x hx hxe
    simp only [List.mem_map] at hx
    obtain ⟨y, _, rfl⟩ := hx
    split
    · exact ⟨rfl, rfl⟩
    · rename_i hne
      split at hxe
      · rename_i heq; exact absurd heq hne
      · simp_all
  · cases h

/-- A failed counter write stops the handler for this device: nothing of it becomes visible. -/
theorem C03_failed_write_stops (E : Spec.Rfc4493.BlockFn) (sys : Sys) (s : UpSt) (h1 : s.pc = 1)
    (hge : s.cur.fcntUp ≤ s.p.mac.fhdr.fcnt) :
    (stepUplink E sys s true).1 = sys ∧ ∀ s', Thread.uplink s' ∈ (stepUplink E sys s true).2 → s'.pc = 1 := by
  have hng : ¬ (s.cur.fcntUp > s.p.mac.fhdr.fcnt) := by omega
  simp only [stepUplink, h1]
  by_cases hm : s.nmatch > 1 <;> simp only [hm, if_true, if_false] <;>
    (cases s.todo with
     | nil => simp [hng, hge]
     | cons d rest => simp [hng, hge])

end Props.C03
end LospanVerif
