import LospanVerif.Model.Pipeline
import LospanVerif.Proofs.Counters
import LospanVerif.Proofs.Circ
/-
  C03 — uplink replay protection: a frame counter is accepted at most once.

  The stored uplink counter is moved by one conditional statement (`AdvanceFCntUp`: "set to f+1
  where the stored value is not past f"), and nothing else in the pipeline writes it within a
  session. The theorems below hold for EVERY event list of the transition system of
  Model/Pipeline.lean: any number of frames and devices, every interleaving of the steps of all
  handler, scheduler, sendAt and encoder threads, injected faults at any step and crashes anywhere.

  `acceptedUp` is the history of successful `AdvanceFCntUp` operations (device, counter) of the
  current session, up to the wrap of the 16-bit counter (the property excuses exhaustion).
-/
namespace LospanVerif
namespace Props.C03
open Model.Pipeline Model.Phy Proofs.Counters Proofs.Circ

/-- The counters accepted for device `e`, in the order they were accepted. -/
def acceptedFor (s : Sys) (e : Bytes) : List Nat := (s.acceptedUp.filter (fun x => x.1 == e)).map (·.2)

/-- **All schedules.** Within a session the accepted counters of a device strictly increase, so no
    counter is accepted twice — whatever the interleaving, faults and crashes. -/
theorem C03_accepted_strictly_increasing (E D : Spec.Rfc4493.BlockFn) (cfg : Config) (db : DB) (evs : List Event) (e : Bytes) :
    (acceptedFor (run E D cfg (Sys.init db) evs) e).Pairwise (· < ·) :=
  (cinv_run E D cfg _ evs (CInv.init db)).upI e

/-- **All schedules.** Every accepted counter is below what the store now holds for the device. -/
theorem C03_accepted_below_stored (E D : Spec.Rfc4493.BlockFn) (cfg : Config) (db : DB) (evs : List Event)
    (e : Bytes) (f : Nat) (h : (e, f) ∈ (run E D cfg (Sys.init db) evs).acceptedUp) :
    ∀ d ∈ (run E D cfg (Sys.init db) evs).db.devices, d.eui = e → f < d.fcntUp := by
  intro d hd hde
  have := (cinv_run E D cfg _ evs (CInv.init db)).upB e f h (d.eui, d.fcntUp) (List.mem_map.mpr ⟨d, hd, rfl⟩) hde
  exact this

/-- …hence a copy of an accepted frame, or a re-sent frame with an older counter, can never move
    the counter again: the statement finds no row to change. -/
theorem C03_no_second_acceptance (E D : Spec.Rfc4493.BlockFn) (cfg : Config) (db : DB) (evs : List Event)
    (e : Bytes) (f f' : Nat) (kw : Bool) (h : (e, f) ∈ (run E D cfg (Sys.init db) evs).acceptedUp) (hle : f' ≤ f) :
    (run E D cfg (Sys.init db) evs).db.advanceFCntUp e f' kw = none := by
  unfold DB.advanceFCntUp
  rw [if_neg]
  intro hany
  simp only [List.any_eq_true, Bool.and_eq_true, beq_iff_eq, decide_eq_true_eq] at hany
  obtain ⟨d, hd, hde, hdf⟩ := hany
  have := C03_accepted_below_stored E D cfg db evs e f h d hd hde
  omega

/-- **All schedules, at the level of the inbox.** `recordedUp` records (device, FCnt) of every inbox
    row written for a device copy with strict counter checking. For a device whose counter epoch is
    running (no join, no 16-bit wrap: not in `resetsUp`), no (device, FCnt) is recorded twice, and
    every recorded one went through a successful `AdvanceFCntUp` — for every event list: all
    interleavings of all threads (copies through several gateways, the downlink encoder), injected
    faults, crashes. -/
theorem C03_recorded_once (E D : Spec.Rfc4493.BlockFn) (cfg : Config) (db : DB) (evs : List Event) (x : Bytes × Nat)
    (hx : x.1 ∉ (run E D cfg (Sys.init db) evs).resetsUp) :
    (run E D cfg (Sys.init db) evs).recordedUp.count x ≤ 1 ∧
    (x ∈ (run E D cfg (Sys.init db) evs).recordedUp → x ∈ (run E D cfg (Sys.init db) evs).acceptedUp) := by
  obtain ⟨h1, h2⟩ := (kinv_run E D cfg _ evs (kinv_init cfg db)).up x hx
  simp only [Book.circ, upBook] at h1 h2
  refine ⟨by omega, fun hm => h2 ?_⟩
  have : 0 < (run E D cfg (Sys.init db) evs).recordedUp.count x := List.count_pos_iff.mpr hm
  omega

/-- The history entry and the inbox row are written together: the insert step of a strict device's
    handler appends the row to the inbox and (device, the frame's FCnt) to `recordedUp`. -/
theorem C03_insert_records (E : Spec.Rfc4493.BlockFn) (sys : Sys) (s : UpSt) (h2 : s.pc = 2) (hs : s.cur.relaxed = false) (db' : DB)
    (hins : sys.db.addInbox ⟨s.cur.eui, s.gw.ts, decryptFrm E s.cur.nwkSKey s.cur.appSKey s.p, s.gw.gwEUI, s.cur.devAddr, s.gw.radio⟩ = some db') :
    (stepUplink E sys s false).1.db = db' ∧
    (stepUplink E sys s false).1.recordedUp = sys.recordedUp ++ [(s.cur.eui, s.p.mac.fhdr.fcnt)] := by
  simp [stepUplink, h2, hins, hs]

/-- A strict device's frame gets past the counter step (towards the inbox) only through a
    successful `AdvanceFCntUp` for exactly its counter: when that statement changes no row, every
    continuation of the handler is back at the counter step of the *next* matching device. -/
theorem C03_record_needs_accept (E : Spec.Rfc4493.BlockFn) (sys : Sys) (s : UpSt) (fault : Bool) (h1 : s.pc = 1)
    (hs : s.cur.relaxed = false)
    (hnone : sys.db.advanceFCntUp s.cur.eui s.p.mac.fhdr.fcnt (if s.nmatch > 1 then true else s.cur.keyWarning) = none) :
    (stepUplink E sys s fault).1 = sys ∧ ∀ s', Thread.uplink s' ∈ (stepUplink E sys s fault).2 → s'.pc = 1 := by
  simp only [stepUplink, h1]
  by_cases hmt : s.nmatch > 1 <;> simp only [hmt, if_true, if_false] at hnone ⊢ <;>
    (cases s.todo with
     | nil => simp_all <;> (repeat' split) <;> simp_all
     | cons d rest => simp_all <;> (repeat' split) <;> simp_all)

/-- Strict device, counter below the expected value of the copy the handler read: the handler
    moves on to the next matching device (or ends) and the system is untouched. -/
theorem C03_old_counter_rejected (E : Spec.Rfc4493.BlockFn) (sys : Sys) (s : UpSt) (fault : Bool) (h1 : s.pc = 1)
    (hs : s.cur.relaxed = false) (hlt : s.p.mac.fhdr.fcnt < s.cur.fcntUp) :
    (stepUplink E sys s fault).1 = sys ∧
    ∀ s', Thread.uplink s' ∈ (stepUplink E sys s fault).2 → s'.pc = 1 ∧ s'.todo.length < s.todo.length := by
  have hgt : s.cur.fcntUp > s.p.mac.fhdr.fcnt := hlt
  simp only [stepUplink, h1, hs, Bool.not_false, Bool.true_and, decide_eq_true_eq, hgt, if_true]
  cases s.todo with
  | nil => simp
  | cons d rest => simp

/-- A failed counter write stops the handler for this device: nothing of it becomes visible. -/
theorem C03_failed_write_stops (E : Spec.Rfc4493.BlockFn) (sys : Sys) (s : UpSt) (h1 : s.pc = 1)
    (hge : s.cur.fcntUp ≤ s.p.mac.fhdr.fcnt) :
    (stepUplink E sys s true).1 = sys ∧ ∀ s', Thread.uplink s' ∈ (stepUplink E sys s true).2 → s'.pc = 1 := by
  have hng : ¬ (s.cur.fcntUp > s.p.mac.fhdr.fcnt) := by omega
  simp only [stepUplink, h1]
  by_cases hm : s.nmatch > 1 <;> simp only [hm, if_true, if_false] <;>
    (cases s.todo with
     | nil => simp [hng, hge]
     | cons d rest => simp [hng, hge])

/-- Non-vacuity: two copies of frame 5 interleaved read-read-write-write; only one is accepted. -/
example :
    let d : Device := { eui := [1#8], appEUI := [2#8], devAddr := 7, appKey := [], nwkSKey := [], appSKey := [], fcntUp := 5, fcntDn := 0,
                        relaxed := false, keyWarning := false, nonces := [] }
    let db : DB := ⟨[d], [[2#8]], [], [], []⟩
    (db.advanceFCntUp [1#8] 5 false).isSome = true ∧
    ((db.advanceFCntUp [1#8] 5 false).bind (fun db' => db'.advanceFCntUp [1#8] 5 false)).isSome = false := by
  decide

end Props.C03
end LospanVerif
