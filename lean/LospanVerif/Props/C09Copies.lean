import LospanVerif.Props.C03
import LospanVerif.Props.C06Answers
import LospanVerif.Props.C01All
/-
  C09, copies clause, for every event list: copies of one uplink of a strict-counter device,
  received through any number of gateways and handled in any interleaving, are handed over to the
  scheduler (and published to the application) at most once — so, with
  `C06_one_answer_per_handled_frame`, they are answered at most once.
  `handedUp` records (device, FCnt, relaxed?) of every hand-over by the uplink handler.
-/
namespace LospanVerif
namespace Props.C09
open Model.Pipeline Model.Phy Proofs.Circ

/-- The (device, FCnt) an uplink handler has recorded for a strict device and not yet handed over. -/
def tokUp : Thread → Option (Bytes × Nat)
  | .uplink s => if 3 ≤ s.pc ∧ s.cur.relaxed = false then some (s.cur.eui, s.p.mac.fhdr.fcnt) else none
  | _ => none

/-- The hand-overs made for strict device copies. -/
def handed (s : Sys) : List (Bytes × Nat) := (s.handedUp.filter fun h => !h.2.2).map fun h => (h.1, h.2.1)

def HInv (s : Sys) : Prop :=
  ∀ x, (handed s).count x + (s.threads.filterMap tokUp).count x ≤ s.recordedUp.count x

def HAcc (sys : Sys) (t : Thread) (r : Sys × List Thread) : Prop :=
  ∀ x, (handed r.1).count x + (r.2.filterMap tokUp).count x + sys.recordedUp.count x
        ≤ (handed sys).count x + (tokUp t).toList.count x + r.1.recordedUp.count x

theorem hacc_stepUplink (E : Spec.Rfc4493.BlockFn) (sys : Sys) (s : UpSt) (fault : Bool) :
    HAcc sys (.uplink s) (stepUplink E sys s fault) := by
  unfold stepUplink
  simp only []
  split
  all_goals (repeat' split)
  all_goals (intro x)
  all_goals first
    | (simp [tokUp, handed, List.filterMap_cons, List.count_cons, List.count_append, *]; done)
    | (simp [tokUp, handed, List.filterMap_cons, List.count_cons, List.count_append, *]; omega)
    | skip
  all_goals
    (have hpc : 3 ≤ s.pc := by
       rcases Nat.lt_or_ge s.pc 9 with h | h
       · have : s.pc = 0 ∨ s.pc = 1 ∨ s.pc = 2 ∨ s.pc = 3 ∨ s.pc = 4 ∨ s.pc = 5 ∨ s.pc = 6 ∨ s.pc = 7 ∨ s.pc = 8 := by omega
         simp_all
       · omega
     cases hr : s.cur.relaxed <;>
       simp [tokUp, handed, List.filterMap_cons, List.count_cons, List.count_append, List.filter_append, hpc, hr] <;> omega)

theorem no_uplink_tok (ts : List Thread) (h : ∀ t ∈ ts, ∀ u, t ≠ .uplink u) : ts.filterMap tokUp = [] := by
  induction ts with
  | nil => rfl
  | cons t rest ih =>
    have ht : tokUp t = none := by
      cases t with
      | uplink u => exact absurd rfl (h _ List.mem_cons_self u)
      | _ => rfl
    rw [List.filterMap_cons, ht]
    exact ih (fun t' ht' => h t' (List.mem_cons_of_mem _ ht'))

theorem hacc_of_quiet {sys : Sys} {t : Thread} {r : Sys × List Thread} (ht : ∀ t' ∈ r.2, ∀ u, t' ≠ .uplink u)
    (hh : r.1.handedUp = sys.handedUp) (hr : r.1.recordedUp = sys.recordedUp) : HAcc sys t r := by
  intro x
  rw [no_uplink_tok r.2 ht]
  simp only [handed, hh, hr, List.count_nil]
  omega

theorem hacc_stepJoin (E : Spec.Rfc4493.BlockFn) (cfg : Config) (sys : Sys) (s : JoinSt) (fault : Bool) :
    HAcc sys (.join s) (stepJoin E cfg sys s fault) := by
  refine hacc_of_quiet (Props.C01.not_uplink_join E cfg sys s fault) ?_ ?_
  all_goals (unfold stepJoin; simp only []; split; all_goals (repeat' split); all_goals rfl)

theorem hacc_stepEncoder (E D : Spec.Rfc4493.BlockFn) (sys : Sys) (pc : Nat) (p : PHY) (c : Ctx) (b : Bytes) (fault : Bool) :
    HAcc sys (.encoder pc p c b) (stepEncoder E D sys pc p c b fault) := by
  refine hacc_of_quiet (Props.C01.not_uplink_encoder E D sys pc p c b fault) ?_ ?_
  all_goals (unfold stepEncoder; simp only []; (repeat' split); all_goals rfl)

theorem hinv_step (E D : Spec.Rfc4493.BlockFn) (cfg : Config) (sys : Sys) (i : Nat) (fault : Bool) (h : HInv sys) :
    HInv (step E D cfg sys i fault) := by
  unfold step
  split
  · exact h
  · rename_i t hi
    have key : ∀ (r : Sys × List Thread), HAcc sys t r → r.1.threads = sys.threads →
        HInv (match r.2 with
          | [] => { r.1 with threads := replaceAt r.1.threads i .done }
          | t0 :: more => { r.1 with threads := replaceAt r.1.threads i t0 ++ more }) := by
      intro r hacc hth x
      have ha := hacc x
      have hinv := h x
      split
      · rename_i hnil
        have hc := count_step tokUp (l := sys.threads) (t := t) .done [] x hi
        rw [hnil] at ha
        simp only [handed, replaceAt, hth, List.filterMap_nil, List.count_nil, List.append_nil, tokUp, Option.toList] at ha hc ⊢
        simp only [handed] at hinv
        omega
      · rename_i t0 more hcons
        have hc := count_step tokUp (l := sys.threads) (t := t) t0 more x hi
        rw [hcons] at ha
        have hsplit : ((t0 :: more).filterMap tokUp).count x = (tokUp t0).toList.count x + (more.filterMap tokUp).count x := by
          rw [List.filterMap_cons]
          cases tokUp t0 <;> simp [List.count_cons]
          omega
        rw [hsplit] at ha
        simp only [handed, replaceAt, hth] at ha hc ⊢
        simp only [handed] at hinv
        omega
    cases t with
    | uplink s => exact key _ (hacc_stepUplink E sys s fault) (threads_stepUplink E sys s fault)
    | join s => exact key _ (hacc_stepJoin E cfg sys s fault) (threads_stepJoin E cfg sys s fault)
    | notify p c =>
      refine key (stepNotify sys c) (hacc_of_quiet ?_ ?_ ?_) ?_
      · unfold stepNotify; split <;> (intro t' ht' u hu; simp at ht'; subst ht'; cases hu)
      · unfold stepNotify; split <;> rfl
      · unfold stepNotify; split <;> rfl
      · unfold stepNotify; split <;> rfl
    | sendAt c =>
      refine key (stepSendAt sys c) (hacc_of_quiet ?_ ?_ ?_) ?_
      · unfold stepSendAt; split <;> (intro t' ht' u hu; simp at ht'; rcases ht' with rfl | rfl <;> cases hu)
      · unfold stepSendAt; split <;> rfl
      · unfold stepSendAt; split <;> rfl
      · unfold stepSendAt; split <;> rfl
    | sendDone e0 =>
      exact key (stepSendDone sys e0) (hacc_of_quiet (by intro t' ht' u hu; simp [stepSendDone] at ht'; subst ht'; cases hu) rfl rfl) rfl
    | encoder pc p c b => exact key _ (hacc_stepEncoder E D sys pc p c b fault) (threads_stepEncoder E D sys pc p c b fault)
    | done => exact key (sys, [.done]) (hacc_of_quiet (by intro t' ht' u hu; simp at ht'; subst ht'; cases hu) rfl rfl) rfl

theorem hinv_settle (E D : Spec.Rfc4493.BlockFn) (cfg : Config) (fuel : Nat) (sys : Sys) (h : HInv sys) :
    HInv (settle E D cfg fuel sys) := by
  induction fuel generalizing sys with
  | zero => exact h
  | succ n ih =>
    unfold settle
    split
    · intro x
      have := h x
      simp only [handed, List.filterMap_nil, List.count_nil] at this ⊢
      omega
    · exact ih _ (hinv_step E D cfg sys _ false h)

theorem hinv_apply (E D : Spec.Rfc4493.BlockFn) (cfg : Config) (sys : Sys) (ev : Event) (h : HInv sys) :
    HInv (apply E D cfg sys ev) := by
  cases ev with
  | deliver raw gw an na =>
    simp only [apply]
    split
    · rename_i t ht
      intro x
      have := h x
      have htok : tokUp t = none := by
        unfold spawn at ht
        split at ht
        · split at ht <;> (cases ht; simp [tokUp])
        · cases ht
      simp only [handed, List.filterMap_append, List.count_append, List.filterMap_cons, htok, List.filterMap_nil, List.count_nil] at this ⊢
      omega
    · exact h
  | submit m => exact h
  | stepT i f => exact hinv_step E D cfg sys i f h
  | quiesce => exact hinv_settle E D cfg 200 sys h
  | crash =>
    intro x
    have := h x
    simp only [apply, handed, List.filterMap_nil, List.count_nil] at this ⊢
    omega

theorem hinv_run (E D : Spec.Rfc4493.BlockFn) (cfg : Config) (evs : List Event) (sys : Sys) (h : HInv sys) :
    HInv (run E D cfg sys evs) := by
  induction evs generalizing sys with
  | nil => exact h
  | cons ev rest ih => exact ih _ (hinv_apply E D cfg sys ev h)

/-- **All schedules.** For every event list — any number of copies of a frame through any number of
    gateways, every interleaving of their handlers, injected faults, crashes — and every strict-counter
    device: no (device, FCnt) of a running counter epoch is handed over to the scheduler (the step that
    also publishes the uplink to the application) more than once. Together with
    `C06_one_answer_per_handled_frame` (frames out ≤ hand-overs, per device): copies of one uplink
    produce a single publication and at most a single answer. -/
theorem C09_copies_handed_over_once (E D : Spec.Rfc4493.BlockFn) (cfg : Config) (db : DB) (evs : List Event) (x : Bytes × Nat)
    (hx : x.1 ∉ (run E D cfg (Sys.init db) evs).resetsUp) :
    (handed (run E D cfg (Sys.init db) evs)).count x ≤ 1 := by
  have h0 : HInv (Sys.init db) := by intro x; simp [Sys.init, handed]
  have h1 := hinv_run E D cfg evs _ h0 x
  have h2 := (Props.C03.C03_recorded_once E D cfg db evs x hx).1
  omega

/-- The history entry is written by the step that publishes: `handedUp` grows exactly when `published` does. -/
theorem C09_handover_records (E : Spec.Rfc4493.BlockFn) (sys : Sys) (s : UpSt) (fault : Bool) :
    ((stepUplink E sys s fault).1.published = sys.published ∧ (stepUplink E sys s fault).1.handedUp = sys.handedUp) ∨
    (∃ pl, (stepUplink E sys s fault).1.published = sys.published ++ [⟨s.cur.appEUI, s.cur.eui, pl⟩] ∧
      (stepUplink E sys s fault).1.handedUp = sys.handedUp ++ [(s.cur.eui, s.p.mac.fhdr.fcnt, s.cur.relaxed)]) := by
  unfold stepUplink
  simp only []
  split
  all_goals (repeat' split)
  all_goals first
    | exact .inl ⟨rfl, rfl⟩
    | exact .inr ⟨_, rfl, rfl⟩

end Props.C09
end LospanVerif
