import LospanVerif.Model.Pipeline
/-
  C09 — confirmed uplinks are acknowledged; at most one answer per uplink.
  Proved here on the output-buffer model, for every buffer state: a pending acknowledgement
  always produces a frame (even with nothing else to send) carrying the ACK flag, and taking the
  frame consumes the flag, so it is not repeated; an entry with nothing pending produces nothing
  and is removed. The history-level statements are decided by the pipeline engines.
-/
namespace LospanVerif
namespace Props.C09
open Model.Pipeline Model.Phy

theorem fobGet_fobSet (fob : List (Bytes × FobEntry)) (e : Bytes) (v : FobEntry) : fobGet (fobSet fob e v) e = some v := by
  simp [fobGet, fobSet]

/-- After a confirmed uplink the flag is set, whatever was in the buffer. -/
theorem C09_flag_set (fob : List (Bytes × FobEntry)) (e : Bytes) : ∃ fd, fobGet (fobSetAck fob e) e = some fd ∧ fd.ack = true := by
  exact ⟨_, fobGet_fobSet _ _ _, rfl⟩

/-- A pending acknowledgement with no payload yields an (empty) frame with the ACK flag, and
    clears the flag in the buffer. -/
theorem C09_ack_only_frame (fob : List (Bytes × FobEntry)) (d : Device) (dr : String) (fd : FobEntry)
    (hg : fobGet fob d.eui = some fd) (hack : fd.ack = true) (hp : fd.payload = []) (ht : fd.mtype ≠ mtJoinAccept) :
    ∃ p fd', (fobTake fob d dr).2 = some p ∧ p.mac.fhdr.fctrl.ack = true ∧ p.mac.frm = [] ∧
      fobGet (fobTake fob d dr).1 d.eui = some fd' ∧ fd'.ack = false := by
  simp only [fobTake, hg, hp, List.length_nil, hack]
  simp [ht, fobGet_fobSet]

/-- With payload pending the frame carries the flag iff it was set, and the flag is cleared. -/
theorem C09_flag_consumed (fob : List (Bytes × FobEntry)) (d : Device) (dr : String) (fd : FobEntry) (mx : Nat)
    (hg : fobGet fob d.eui = some fd) (hp : fd.payload.length > 0) (hm : maxPayload dr = some mx) :
    ∃ p fd', (fobTake fob d dr).2 = some p ∧ p.mac.fhdr.fctrl.ack = fd.ack ∧
      fobGet (fobTake fob d dr).1 d.eui = some fd' ∧ fd'.ack = false := by
  have hne : ¬ (fd.payload.length = 0) := by omega
  simp only [fobTake, hg, hne, false_and, if_false, hp, if_true, hm]
  split <;> simp [fobGet_fobSet] <;> (split <;> rfl)

/-- Nothing pending (no payload, no acknowledgement, no join-accept): no frame, entry removed. -/
theorem C09_nothing_pending (fob : List (Bytes × FobEntry)) (d : Device) (dr : String) (fd : FobEntry)
    (hg : fobGet fob d.eui = some fd) (hack : fd.ack = false) (hp : fd.payload = []) (ht : fd.mtype ≠ mtJoinAccept) :
    (fobTake fob d dr).2 = none ∧ fobGet (fobTake fob d dr).1 d.eui = none := by
  simp only [fobTake, hg, hp, List.length_nil, hack]
  simp [ht, fobGet, fobDel]

/-- No entry at all: no frame. -/
theorem C09_no_entry (fob : List (Bytes × FobEntry)) (d : Device) (dr : String) (hg : fobGet fob d.eui = none) :
    fobTake fob d dr = (fob, none) := by
  simp [fobTake, hg]

end Props.C09
end LospanVerif
