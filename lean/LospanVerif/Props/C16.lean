import LospanVerif.Model.Gateway
/-
  C16 — only registered gateways (and, if strict, only from their IP) are served; registry
  changes take effect for the very next datagram.
-/
namespace LospanVerif
namespace Props.C16
open Model.Gateway

/-- The gateway `eui` may be served from `host`: registered, and not (strict with another address). -/
def Authorised (reg : Bytes → Option GwReg) (eui : Bytes) (host : String) : Prop :=
  ∃ g, reg eui = some g ∧ (g.strict = false ∨ g.ip = host)

/-- Unless the checks are disabled, a PUSH_DATA from an unregistered gateway, or from a gateway
    registered strict at another address, is neither acknowledged nor forwarded and leaves no state. -/
theorem C16_unauthorised_noop (reg : Bytes → Option GwReg) (s : State) (d : Datagram)
    (h : d.pkt.identifier = idPushData) (hun : ¬ Authorised reg d.pkt.eui d.host) :
    step false reg s d = (s, [], []) := by
  have hne : idPushData ≠ idPullData := by decide
  cases hg : reg d.pkt.eui with
  | none => simp [step, h, hne, hg]
  | some g =>
    have : g.strict = true ∧ g.ip ≠ d.host := by
      refine ⟨?_, ?_⟩
      · cases hs : g.strict with
        | true => rfl
        | false => exact absurd ⟨g, hg, Or.inl hs⟩ hun
      · intro hip; exact hun ⟨g, hg, Or.inr hip⟩
    simp [step, h, hne, hg, this.1, this.2]

/-- An authorised gateway is served (acknowledged; entries forwarded — C15 says which). -/
theorem C16_authorised_served (reg : Bytes → Option GwReg) (s : State) (d : Datagram)
    (h : d.pkt.identifier = idPushData) (ha : Authorised reg d.pkt.eui d.host) :
    (step false reg s d).2.1 = [⟨d.host, d.port, idPushAck, d.pkt.token, d.pkt.version⟩] := by
  have hne : idPushData ≠ idPullData := by decide
  obtain ⟨g, hg, hs⟩ := ha
  rcases hs with hs | hs <;> simp [step, h, hne, hg, hs]

/-- With the checks disabled every PUSH_DATA is served, whatever the registry. -/
theorem C16_checks_off (reg : Bytes → Option GwReg) (s : State) (d : Datagram) (h : d.pkt.identifier = idPushData) :
    (step true reg s d).2.1 = [⟨d.host, d.port, idPushAck, d.pkt.token, d.pkt.version⟩] := by
  have hne : idPushData ≠ idPullData := by decide
  simp [step, h, hne]

/-- Immediacy: a run over any sequence of datagrams, each with the registry as it is at that
    moment, treats every datagram by the registry of *its* moment only — no earlier registry
    content is remembered (the state carries PULL ports and nothing else). -/
def run (off : Bool) : State → List ((Bytes → Option GwReg) × Datagram) → State × List (List Sent × List Forwarded)
  | s, [] => (s, [])
  | s, (reg, d) :: rest =>
    let r := step off reg s d
    let (s', outs) := run off r.1 rest
    (s', (r.2.1, r.2.2) :: outs)

theorem C16_immediate (reg : Bytes → Option GwReg) (s s' : State) (d : Datagram) (h : d.pkt.identifier = idPushData) :
    (step false reg s d).2 = (step false reg s' d).2 := by
  have hne : idPushData ≠ idPullData := by decide
  simp only [step, h, hne, if_false, if_true]
  repeat' split
  all_goals rfl

/-- Non-vacuity: a registry with one strict gateway; served from its address, dropped from another. -/
def exReg : Bytes → Option GwReg := fun e => if e = zeros 8 then some ⟨"127.0.0.1", true⟩ else none
def exD (host : String) : Datagram := ⟨host, 4000, ⟨2, 7, idPushData, zeros 8, []⟩, some []⟩
example : (step false exReg ⟨[]⟩ (exD "127.0.0.1")).2.1.length = 1 ∧ (step false exReg ⟨[]⟩ (exD "127.0.0.2")).2.1.length = 0 := by
  decide

end Props.C16
end LospanVerif
