import LospanVerif.Proofs.Phy
/-
  C11 — no radio payload makes the frame decoder panic; a rejected frame is an error value.
  (Gateway datagram codec totality is in Props/C15.lean next to its model; the pipeline-level
  "reject is a no-op" statement is in Props/C01.lean.)
-/
namespace LospanVerif
namespace Props.C11
open Model.Phy Proofs.Phy

/-- For every byte string, of every length and content, `UnmarshalBinary` returns a value or an
    error: it never reaches an out-of-range index or slice (the only sources of a panic in it). -/
theorem C11_phy_total (data : Bytes) : unmarshal data ≠ .panic := by
  unfold unmarshal
  split
  · simp
  · rename_i hlen
    have h0 : 0 < data.length := by simp [minimumMessageSize] at hlen; omega
    unfold MHDR.decode
    rw [idx_lt data 0 h0]
    simp only [Res.bind_ok]
    split
    · simp
    · simp only [Res.bind_ok]
      split
      · -- data frames
        cases hm : MACPayload.decode _ data (0 + 1) with
        | panic => exact absurd hm (macPayload_decode_ne_panic _ _ _)
        | err e => simp
        | ok r => simp
      · split
        · cases hj : JoinRequest.decode data 1 with
          | panic => exact absurd hj (joinRequest_decode_ne_panic _ _)
          | err e => simp
          | ok r => simp
        · split
          · cases hj : JoinAccept.decode data (0 + 1) with
            | panic => exact absurd hj (joinAccept_decode_ne_panic _ _)
            | err e => simp
            | ok r => simp
          · simp

/-- Short inputs are rejected outright. -/
theorem C11_short_rejected (data : Bytes) (h : data.length < 12) : unmarshal data = .err .truncated := by
  simp [unmarshal, minimumMessageSize, h]

/-- Non-vacuity: the decoder does accept things (a 13-byte unconfirmed uplink without port). -/
example : (unmarshal [0x40#8, 1#8, 2#8, 3#8, 4#8, 0#8, 1#8, 0#8, 9#8, 9#8, 9#8, 9#8]).isOk = true := by decide

end Props.C11
end LospanVerif
