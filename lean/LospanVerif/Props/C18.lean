import LospanVerif.Model.Text
/-
  C18 (encodings part) — every value of every textual / integer column reads back as written:
  device addresses (all 32 bits, top bit included), EUIs as signed 64-bit integers and as
  dashed hex strings, 128-bit keys as hex. The row-store sequences are decided by the store
  engine against an abstract keyed-map oracle (DESIGN §6 C18).
-/
namespace LospanVerif
namespace Props.C18
open Model.Text

theorem hexVal_hexDigit : ∀ n, n < 16 → hexVal (hexDigit n) = some n := by decide
theorem hexDigit_ne_dash : ∀ n, n < 16 → (hexDigit n != '-') = true := by decide
theorem hexDigit_ne_space : ∀ n, n < 16 → (hexDigit n != ' ') = true := by decide

theorem byte_nibbles (b : Byte) : b.toNat / 16 < 16 ∧ b.toNat % 16 < 16 ∧ 16 * (b.toNat / 16) + b.toNat % 16 = b.toNat := by
  have := b.isLt; omega

theorem ofHexChars_toHexChars (bs : Bytes) : ofHexChars (toHexChars bs) = some bs := by
  induction bs with
  | nil => rfl
  | cons b rest ih =>
    obtain ⟨h1, h2, h3⟩ := byte_nibbles b
    have : toHexChars (b :: rest) = hexDigit (b.toNat / 16) :: hexDigit (b.toNat % 16) :: toHexChars rest := by
      simp [toHexChars, byteHex]
    rw [this]
    simp only [ofHexChars, hexVal_hexDigit _ h1, hexVal_hexDigit _ h2]
    have ih' : ofHexChars (toHexChars rest) = some rest := ih
    rw [ih']
    simp only [h3]
    congr 2
    apply BitVec.eq_of_toNat_eq
    simp

theorem filter_hex (p : Char → Bool) (hp : ∀ n, n < 16 → p (hexDigit n) = true) (bs : Bytes) :
    (toHexChars bs).filter p = toHexChars bs := by
  induction bs with
  | nil => rfl
  | cons b rest ih =>
    obtain ⟨h1, h2, _⟩ := byte_nibbles b
    have : toHexChars (b :: rest) = hexDigit (b.toNat / 16) :: hexDigit (b.toNat % 16) :: toHexChars rest := by
      simp [toHexChars, byteHex]
    rw [this]
    simp only [List.filter_cons, hp _ h1, hp _ h2, if_true]
    rw [ih]

/-- Keys: arbitrary 16 octets read back from their hex text. -/
theorem key_hex_roundtrip (k : Bytes) (h : k.length = 16) : parseKey (keyString k) = some k := by
  unfold parseKey keyString
  rw [filter_hex _ hexDigit_ne_space, ofHexChars_toHexChars]
  simp [h]

/-- EUIs as dashed hex strings. -/
theorem eui_string_roundtrip (o : Bytes) (h : o.length = 8) : parseEui (euiString o) = some o := by
  match o, h with
  | [a, b, c, d, e, f, g, i], _ =>
    have hd : ∀ x : Byte, (byteHex x).filter (· != '-') = byteHex x := by
      intro x
      obtain ⟨h1, h2, _⟩ := byte_nibbles x
      simp [byteHex, hexDigit_ne_dash _ h1, hexDigit_ne_dash _ h2]
    have : (euiString [a, b, c, d, e, f, g, i]).filter (· != '-') = toHexChars [a, b, c, d, e, f, g, i] := by
      simp only [euiString, List.map, List.intersperse, List.flatten, toHexChars, List.flatMap]
      simp [hd]
    unfold parseEui
    rw [this, ofHexChars_toHexChars]
    simp

/-- EUIs as signed 64-bit integers (the BIGINT columns), including those with the top bit set. -/
theorem eui_int64_roundtrip (o : Bytes) (h : o.length = 8) : fromInt64 (toInt64 o) = o := by
  match o, h with
  | [a, b, c, d, e, f, g, i], _ =>
    have hu : unbe [a, b, c, d, e, f, g, i] =
        a.toNat * 2^56 + b.toNat * 2^48 + c.toNat * 2^40 + d.toNat * 2^32 + e.toNat * 2^24 + f.toNat * 2^16 + g.toNat * 2^8 + i.toNat := by
      simp only [unbe, List.foldl]; omega
    have hlt : unbe [a, b, c, d, e, f, g, i] < 2 ^ 64 := by
      rw [hu]; have := a.isLt; have := b.isLt; have := c.isLt; have := d.isLt; have := e.isLt; have := f.isLt; have := g.isLt; have := i.isLt
      omega
    have hmod : (toInt64 [a, b, c, d, e, f, g, i] % 2 ^ 64).toNat = unbe [a, b, c, d, e, f, g, i] := by
      unfold toInt64
      simp only
      split <;> omega
    unfold fromInt64
    rw [hmod, hu]
    simp only [be64, byteOf]
    have := a.isLt; have := b.isLt; have := c.isLt; have := d.isLt; have := e.isLt; have := f.isLt; have := g.isLt; have := i.isLt
    congr 1
    · apply BitVec.eq_of_toNat_eq; simp; omega
    · congr 1
      · apply BitVec.eq_of_toNat_eq; simp; omega
      · congr 1
        · apply BitVec.eq_of_toNat_eq; simp; omega
        · congr 1
          · apply BitVec.eq_of_toNat_eq; simp; omega
          · congr 1
            · apply BitVec.eq_of_toNat_eq; simp; omega
            · congr 1
              · apply BitVec.eq_of_toNat_eq; simp; omega
              · congr 1
                · apply BitVec.eq_of_toNat_eq; simp; omega
                · congr 1
                  apply BitVec.eq_of_toNat_eq; simp; omega

theorem parse8 (d0 d1 d2 d3 d4 d5 d6 d7 : Nat) (h0 : d0 < 16) (h1 : d1 < 16) (h2 : d2 < 16) (h3 : d3 < 16)
    (h4 : d4 < 16) (h5 : d5 < 16) (h6 : d6 < 16) (h7 : d7 < 16) :
    parseHexNat [hexDigit d0, hexDigit d1, hexDigit d2, hexDigit d3, hexDigit d4, hexDigit d5, hexDigit d6, hexDigit d7]
      = some (16 * (16 * (16 * (16 * (16 * (16 * (16 * (16 * 0 + d0) + d1) + d2) + d3) + d4) + d5) + d6) + d7) := by
  simp only [parseHexNat, List.foldl, hexVal_hexDigit _ h0, hexVal_hexDigit _ h1, hexVal_hexDigit _ h2, hexVal_hexDigit _ h3,
    hexVal_hexDigit _ h4, hexVal_hexDigit _ h5, hexVal_hexDigit _ h6, hexVal_hexDigit _ h7]

theorem hex8_chars (v : Nat) :
    hex8 v = [hexDigit ((byteOf (v / 2^24)).toNat / 16), hexDigit ((byteOf (v / 2^24)).toNat % 16),
              hexDigit ((byteOf (v / 2^16)).toNat / 16), hexDigit ((byteOf (v / 2^16)).toNat % 16),
              hexDigit ((byteOf (v / 2^8)).toNat / 16), hexDigit ((byteOf (v / 2^8)).toNat % 16),
              hexDigit ((byteOf v).toNat / 16), hexDigit ((byteOf v).toNat % 16)] := by
  simp [hex8, be64, toHexChars, byteHex]

/-- Device addresses: every 32-bit value, top bit included, reads back from its `%08x` text. -/
theorem devAddr_roundtrip (v : Nat) (h : v < 4294967296) : parseUint32 (hex8 v) = some v := by
  have n1 := byte_nibbles (byteOf (v / 2^24))
  have n2 := byte_nibbles (byteOf (v / 2^16))
  have n3 := byte_nibbles (byteOf (v / 2^8))
  have n4 := byte_nibbles (byteOf v)
  unfold parseUint32
  rw [hex8_chars, parse8 _ _ _ _ _ _ _ _ n1.1 n1.2.1 n2.1 n2.2.1 n3.1 n3.2.1 n4.1 n4.2.1]
  have hv : 16 * (16 * (16 * (16 * (16 * (16 * (16 * (16 * 0 + (byteOf (v / 2^24)).toNat / 16) + (byteOf (v / 2^24)).toNat % 16) +
      (byteOf (v / 2^16)).toNat / 16) + (byteOf (v / 2^16)).toNat % 16) + (byteOf (v / 2^8)).toNat / 16) +
      (byteOf (v / 2^8)).toNat % 16) + (byteOf v).toNat / 16) + (byteOf v).toNat % 16 = v := by
    simp only [byteOf, BitVec.toNat_ofNat]; omega
  rw [hv]
  simp [h]

/-- Non-vacuity / the repaired witness: 0x80000000 (rejected by the old ParseInt(…, 16, 32)). -/
example : parseUint32 (hex8 0x80000000) = some 0x80000000 ∧ String.ofList (hex8 0x80000000) = "80000000" := by decide

end Props.C18
end LospanVerif
