import LospanVerif.Props.C03
import LospanVerif.Props.C05
import LospanVerif.Props.C07
/-
  C10 — crashes and failed writes never weaken counters, nonces or sessions.
  Security state is made durable before the effect it protects becomes visible, and a failed
  write makes the handler stop:

  * uplink: the counter write is step 1, the inbox insert is step 2 of the handler
    (`C03_record_needs_accept`; `C10_inbox_only_after_counter`); a failed counter write ends the
    handler for that device (`C03_failed_write_stops`); an accepted counter stays below the stored
    one across any crash and any later history (`C03_accepted_below_stored`, `C03_no_second_acceptance`);
  * join: the nonce insert is step 3, the key change step 4, the join-accept is queued in step 5;
    a stored nonce makes every later insert fail (`C05_second_insert_fails`), a failed insert
    ends the handler (`C05_failed_insert_stops`);
  * encoder: the counter is fetched and stored past in step 0, the frame handed over in step 2
    (`C07_persists_before_handover`), a failed fetch ends the encoder (`C07_failed_write_no_frame`); a
    counter handed out stays below the stored one across any crash (`C07_issued_below_stored`);
  * a crash drops threads, output buffer and scheduler state and keeps the database (`C10_crash_keeps_db`),
    so each of the above holds after recovery whatever the crash position.
-/
namespace LospanVerif
namespace Props.C10
open Model.Pipeline Model.Phy

theorem C10_crash_keeps_db (E D : Spec.Rfc4493.BlockFn) (cfg : Config) (sys : Sys) :
    (apply E D cfg sys .crash).db = sys.db ∧ (apply E D cfg sys .crash).threads = [] ∧
    (apply E D cfg sys .crash).fob = [] ∧ (apply E D cfg sys .crash).emitted = sys.emitted := by
  simp [apply]

/-- Steps 0 and 1 of the uplink handler never insert into the inbox: a row becomes visible only
    in step 2, i.e. after the counter write of step 1 (which is skipped only for a relaxed device
    that sent an old counter). -/
theorem C10_inbox_only_after_counter (E : Spec.Rfc4493.BlockFn) (sys : Sys) (s : UpSt) (fault : Bool) (h : s.pc = 0 ∨ s.pc = 1) :
    (stepUplink E sys s fault).1.db.inbox = sys.db.inbox := by
  rcases h with h | h
  · simp only [stepUplink, h]
    repeat' split
    all_goals rfl
  · simp only [stepUplink, h]
    repeat' split
    all_goals first
      | rfl
      | (rename_i db hu; unfold DB.advanceFCntUp at hu; split at hu <;> cases hu; rfl)
      | (rename_i db hu _; unfold DB.advanceFCntUp at hu; split at hu <;> cases hu; rfl)

/-- The join handler changes keys (step 4) only after its own nonce insert (step 3) succeeded:
    steps 0..3 leave every device's keys alone. -/
theorem C10_keys_only_after_nonce (E : Spec.Rfc4493.BlockFn) (cfg : Config) (sys : Sys) (s : JoinSt) (fault : Bool) (h : s.pc ≤ 2) :
    (stepJoin E cfg sys s fault).1 = sys := by
  have : s.pc = 0 ∨ s.pc = 1 ∨ s.pc = 2 := by omega
  rcases this with h | h | h <;> simp only [stepJoin, h] <;> (repeat' split) <;> rfl

end Props.C10
end LospanVerif
