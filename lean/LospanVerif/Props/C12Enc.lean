import LospanVerif.Props.C12
import LospanVerif.Props.C13
import LospanVerif.Proofs.Frame
/-
  C12, encode direction: the octets `MarshalBinary` produces for a data frame are exactly the
  LoRaWAN 1.0 layout (Spec.Frame.layout) of the frame the value denotes (`specOf`), for every value
  the library accepts; and decoding them again reports those fields (round trip).
-/
namespace LospanVerif
namespace Props.C12Enc
open Model.Phy Model.Mac

theorem bind_eq_ok {α β} {x : Res α} {f : α → Res β} {b : β} (h : (x >>= f) = .ok b) : ∃ a, x = .ok a ∧ f a = .ok b := by
  cases x with
  | ok a => exact ⟨a, rfl, h⟩
  | err e => cases h
  | panic => cases h

theorem put_ok {cap : Nat} {out bs r : Bytes} (h : put cap out bs = .ok r) : r = out ++ bs := by
  unfold put at h
  split at h
  · cases h; rfl
  · cases h

theorem mt_bits : ∀ a : BitVec 8, (a &&& 0x07#8) <<< 5 = BitVec.ofNat 8 (32 * (a.toNat % 8)) := by decide
theorem mj_bits : ∀ b : BitVec 8, b &&& 0x03#8 = BitVec.ofNat 8 (b.toNat % 4) := by decide
theorem or_small : ∀ (m : Fin 8) (j : Fin 4), BitVec.ofNat 8 (32 * m.val) ||| BitVec.ofNat 8 j.val = BitVec.ofNat 8 (32 * m.val + j.val) := by decide

theorem mhdr_byte_eq (m : MHDR) : m.byte = byteOf (32 * (m.mtype % 8) + m.major % 4) := by
  unfold MHDR.byte
  rw [mt_bits, mj_bits]
  simp only [byteOf_toNat]
  have h1 : m.mtype % 256 % 8 = m.mtype % 8 := by omega
  have h2 : m.major % 256 % 4 = m.major % 4 := by omega
  rw [h1, h2]
  exact or_small ⟨m.mtype % 8, by omega⟩ ⟨m.major % 4, by omega⟩



theorem fctrl_bits : ∀ (a : BitVec 8) (b1 b2 b3 b4 : Bool),
    (a &&& 0x0F#8) ||| (if b1 then 0x80#8 else 0#8) ||| (if b2 then 0x40#8 else 0#8) ||| (if b3 then 0x20#8 else 0#8)
      ||| (if b4 then 0x10#8 else 0#8)
    = BitVec.ofNat 8 (128 * Spec.Frame.b2n b1 + 64 * Spec.Frame.b2n b2 + 32 * Spec.Frame.b2n b3 + 16 * Spec.Frame.b2n b4 + a.toNat % 16) := by decide

theorem fctrl_byte_eq (f : FCtrl) :
    f.byte = byteOf (128 * Spec.Frame.b2n f.adr + 64 * Spec.Frame.b2n f.adrAckReq + 32 * Spec.Frame.b2n f.ack + 16 * Spec.Frame.b2n (f.fPending || f.classB) + f.foptsLen % 16) := by
  unfold FCtrl.byte
  rw [fctrl_bits]
  simp only [byteOf_toNat]
  have h1 : f.foptsLen % 256 % 16 = f.foptsLen % 16 := by omega
  rw [h1]
  rfl

/-- The frame a `PHYPayload` value denotes, in the specification's vocabulary. -/
def specOf (p : PHY) : Spec.Frame.DataFrame :=
  let m := p.mac
  { mtype := p.mhdr.mtype % 8, major := p.mhdr.major % 4,
    devAddr := m.fhdr.devAddr.toUint32,
    adr := m.fhdr.fctrl.adr, adrAckReq := m.fhdr.fctrl.adrAckReq, ack := m.fhdr.fctrl.ack,
    bit4 := m.fhdr.fctrl.fPending || m.fhdr.fctrl.classB,
    fcnt := m.fhdr.fcnt,
    fopts := m.fhdr.fopts.cmds.flatMap Cmd.body,
    port := if m.frm.length = 0 then (if m.macCommands.size > 0 then some 0 else none) else some m.fport,
    frm := if m.frm.length = 0 then m.macCommands.cmds.flatMap Cmd.body else m.frm,
    mic := p.mic }

theorem put_le {cap : Nat} {out bs r : Bytes} (h : put cap out bs = .ok r) : out.length + bs.length ≤ cap := by
  unfold put at h
  split at h
  · assumption
  · cases h

theorem setEncode_ok {cap : Nat} {out r : Bytes} {s : CmdSet} (h : s.encodeAt cap out = .ok r) :
    r = out ++ s.cmds.flatMap Cmd.body ∧ (s.cmds.flatMap Cmd.body).length = s.encodedLength := by
  have h1 := Props.C13.encodeAt_ok cap s.cmds out r h
  have h2 := Props.C13.C13_encoded_length_exact cap s out r h
  subst h1
  simp only [List.length_append] at h2
  exact ⟨rfl, by omega⟩

theorem C12_marshal_is_layout (p : PHY) (bs : Bytes) (h : marshal p = .ok bs) : bs = Spec.Frame.layout (specOf p) := by
  unfold marshal at h
  split at h
  · cases h
  · simp only [] at h
    obtain ⟨o1, h1, h⟩ := bind_eq_ok h
    obtain ⟨o2, h2, h⟩ := bind_eq_ok h
    split at h
    · cases h
    · rename_i hlen
      obtain ⟨o3, h3, h⟩ := bind_eq_ok h
      obtain ⟨o4, h4, h⟩ := bind_eq_ok h
      obtain ⟨o5, h5, h⟩ := bind_eq_ok h
      have e1 := put_ok h1
      have e2 := put_ok h2
      have e3 := put_ok h3
      have e4 := put_ok h4
      obtain ⟨e5, l5⟩ := setEncode_ok h5
      by_cases hz : p.mac.frm.length = 0
      · simp only [hz, if_true, Nat.lt_irrefl, decide_false, Bool.and_false, Bool.false_eq_true, if_false,
          Nat.not_lt_zero, gt_iff_lt, decide_true, Bool.true_and] at h
        obtain ⟨o6, h6, h⟩ := bind_eq_ok h
        have e7 := put_ok h
        have l7 := put_le h
        simp only [le32, List.length_cons, List.length_nil] at l7
        by_cases hm : 0 < p.mac.macCommands.size
        · simp only [hm, decide_true, if_true] at h6
          obtain ⟨o, ha, hb⟩ := bind_eq_ok h6
          have ea := put_ok ha
          obtain ⟨eb, _⟩ := setEncode_ok hb
          have hfo : p.mac.fhdr.fopts.encodedLength % 256 % 16 = (p.mac.fhdr.fopts.cmds.flatMap Cmd.body).length := by
            have : o6.length ≥ o5.length := by subst eb; subst ea; simp
            have : o5.length ≥ (p.mac.fhdr.fopts.cmds.flatMap Cmd.body).length := by subst e5; simp
            omega
          subst e7 eb ea e5 e4 e3 e2 e1
          unfold Spec.Frame.layout specOf
          simp only [hz, hm, if_true, gt_iff_lt]
          rw [mhdr_byte_eq, fctrl_byte_eq]
          simp only [hfo]
          simp [List.append_assoc, byteOf]
        · simp only [hm, decide_false, Bool.false_eq_true, if_false] at h6
          cases h6
          have hfo : p.mac.fhdr.fopts.encodedLength % 256 % 16 = (p.mac.fhdr.fopts.cmds.flatMap Cmd.body).length := by
            have : o5.length ≥ (p.mac.fhdr.fopts.cmds.flatMap Cmd.body).length := by subst e5; simp
            omega
          subst e7 e5 e4 e3 e2 e1
          unfold Spec.Frame.layout specOf
          simp only [hz, hm, if_true, if_false, gt_iff_lt]
          rw [mhdr_byte_eq, fctrl_byte_eq]
          simp only [hfo]
          simp [List.append_assoc]
      · have hpos : p.mac.frm.length > 0 := by omega
        simp only [hz, if_false, decide_false, Bool.false_and, Bool.false_eq_true, hpos, decide_true, Bool.and_true, if_true,
          decide_eq_true_eq] at h
        split at h
        · cases h
        · split at h
          · cases h
          · obtain ⟨o6, h6, h⟩ := bind_eq_ok h
            obtain ⟨o, ha, hb⟩ := bind_eq_ok h6
            have ea := put_ok ha
            have eb := put_ok hb
            have e7 := put_ok h
            have l7 := put_le h
            simp only [le32, List.length_cons, List.length_nil] at l7
            have hfo : p.mac.fhdr.fopts.encodedLength % 256 % 16 = (p.mac.fhdr.fopts.cmds.flatMap Cmd.body).length := by
              have : o6.length ≥ o5.length := by subst eb; subst ea; simp
              have : o5.length ≥ (p.mac.fhdr.fopts.cmds.flatMap Cmd.body).length := by subst e5; simp
              omega
            subst e7 eb ea e5 e4 e3 e2 e1
            unfold Spec.Frame.layout specOf
            simp only [hz, if_false]
            rw [mhdr_byte_eq, fctrl_byte_eq]
            simp only [hfo]
            simp [List.append_assoc]


/-- Round trip: whatever the library encodes (a well-formed frame value) and then decodes again
    reports the fields that were encoded. -/
theorem C12_roundtrip (p p' : PHY) (bs : Bytes) (hm : marshal p = .ok bs) (hwf : Spec.Frame.WF (specOf p))
    (hu : unmarshal bs = .ok p') (hd : isDataMType p'.mhdr.mtype = true) : Props.C12.Agrees p' (specOf p) := by
  obtain ⟨q, hq, ha⟩ := Props.C12.C12_decode_fields bs p' hu hd
  rw [C12_marshal_is_layout p bs hm, Spec.Frame.parse_layout _ hwf] at hq
  cases hq
  exact ha

/-- Non-vacuity: a concrete confirmed uplink (ADR and ACK set, one command in FOpts, port 7, two
    payload octets) is encoded, its value is well-formed, and decoding the octets succeeds. -/
def exFrame : PHY :=
  let b := PHY.new mtConfirmedDataUp
  { b with mac := { b.mac with
      fhdr := { b.mac.fhdr with devAddr := ⟨3, 0x1abcde⟩, fctrl := ⟨true, false, true, false, false, 0⟩, fcnt := 0x1234,
                                fopts := ((CmdSet.new mtConfirmedDataUp 15).add .linkCheckReq).1 },
      fport := 7, frm := [0xaa#8, 0xbb#8] }, mic := 0xdeadbeef }

example : Res.isOk (marshal exFrame) = true ∧ Res.isOk ((marshal exFrame) >>= unmarshal) = true := by decide

example : Spec.Frame.WF (specOf exFrame) :=
  { mtype := by decide, major := by decide, addr := by decide, fcnt := by decide, fopts := by decide,
    port := (by intro p h; cases h; decide), noport := (by intro h; cases h), mic := (by decide) }

end Props.C12Enc
end LospanVerif
