import LospanVerif.Model.Pipeline
import LospanVerif.Spec.Lorawan
import LospanVerif.Props.C14
/-
  C04 — OTAA join is authenticated and both sides derive the same session.
  Proved here, for every block function E (with 16-octet blocks where sizes matter):
  * the server goes on with a join-request only if it is 23 octets long, names a registered
    device and its MIC verifies under that device's AppKey over the first 19 octets;
  * the session keys the server stores are the specification's derivation from the octets on the
    air (AppNonce, NetID big-endian as sent, DevNonce as received);
  * the join-accept the server emits is decrypted, verified and read by a conformant device
    exactly as the server meant it (given that D inverts E on blocks);
  * the library's own join-request encoder emits the specification's 23 octets.
  End-to-end (keys held = keys derived, first uplink accepted) is decided by engine pipeseq
  against the Lean device.
-/
namespace LospanVerif
namespace Props.C04
open Model.Pipeline Model.Phy

/-- The first step of the join handler lets a request through only if it is authentic. -/
theorem C04_honoured_only_if_authentic (E : Spec.Rfc4493.BlockFn) (cfg : Config) (sys sys' : Sys) (s : JoinSt) (fault : Bool)
    (h0 : s.pc = 0) (s' : JoinSt) (ts : List Thread) (h : stepJoin E cfg sys s fault = (sys', ts)) (hm : Thread.join s' ∈ ts) :
    sys' = sys ∧ s.raw.length = 23 ∧ ∃ d, sys.db.byEUI s.p.joinReq.devEUI = some d ∧
      micOf E d.appKey (s.raw.take (s.raw.length - 4)) = s.p.mic := by
  simp only [stepJoin, h0] at h
  split at h
  · cases h; simp at hm
  · rename_i hlen
    split at h
    · cases h; simp at hm
    · split at h
      · cases h; simp at hm
      · rename_i d hd
        split at h
        · cases h; simp at hm
        · rename_i hmic
          cases h
          exact ⟨rfl, by simpa using hlen, d, hd, by simpa using hmic⟩

/-- A forged or altered join-request — wrong length, unknown device, or a MIC that does not verify
    under the named device's AppKey — changes nothing and is not answered. -/
theorem C04_forged_no_effect (E : Spec.Rfc4493.BlockFn) (cfg : Config) (sys : Sys) (s : JoinSt) (fault : Bool) (h0 : s.pc = 0)
    (hforged : s.raw.length ≠ 23 ∨ sys.db.byEUI s.p.joinReq.devEUI = none ∨
      ∃ d, sys.db.byEUI s.p.joinReq.devEUI = some d ∧ micOf E d.appKey (s.raw.take (s.raw.length - 4)) ≠ s.p.mic) :
    stepJoin E cfg sys s fault = (sys, [.done]) := by
  simp only [stepJoin, h0]
  rcases hforged with h | h | ⟨d, hd, hm⟩
  · simp [h]
  · split
    · rfl
    · split
      · rfl
      · simp [h]
  · split
    · rfl
    · split
      · rfl
      · simp [hd, hm]

/-- Key derivation is the specification's, on the octets seen on the air. -/
theorem C04_keys_are_spec (E : Spec.Rfc4493.BlockFn) (appKey : Bytes) (pfx : Nat) (appNonce : Bytes) (netID devNonce : Nat) :
    keyFromNonce E appKey pfx appNonce netID devNonce =
      Spec.Lorawan.sessionKey E appKey pfx ((appNonce ++ zeros 3).take 3) (be24 netID) (be16 devNonce) := by
  simp [keyFromNonce, Spec.Lorawan.sessionKey]

/-- The DevNonce the server uses is the two octets it received, in that order. -/
theorem C04_devnonce_wire (a b : Byte) : be16 (unbe [a, b]) = [a, b] := by
  simp only [be16, unbe, List.foldl, byteOf]
  congr 1
  · apply BitVec.eq_of_toNat_eq; simp; omega
  · congr 1; apply BitVec.eq_of_toNat_eq; simp; omega

theorem unle_le32_mod (a : Nat) : unle [byteOf a, byteOf (a / 256), byteOf (a / 65536), byteOf (a / 16777216)] = a % 4294967296 := by
  simp only [unle_cons, unle_nil, byteOf, BitVec.toNat_ofNat]; omega

theorem take4_le32 (tag : Bytes) (h : tag.length = 16) : le32 (unle (tag.take 4)) = tag.take 4 := by
  match tag, h with
  | [a, b, c, d, _, _, _, _, _, _, _, _, _, _, _, _], _ => simp only [List.take, le32_unle]

/-- The library's device-side join-request encoder emits the specification's join-request. -/
theorem C04_encodeJoinRequest_is_spec (E : Spec.Rfc4493.BlockFn) (hE : ∀ k b, (E k b).length = 16) (appKey : Bytes) (p : PHY)
    (hv : p.mhdr.major = 0) (bs : Bytes) (h : encodeJoinRequest E appKey p = .ok bs) :
    bs = Spec.Lorawan.joinRequest E appKey p.joinReq.appEUI.reverse p.joinReq.devEUI.reverse (be16 p.joinReq.devNonce) := by
  unfold encodeJoinRequest at h
  split at h
  · cases h
  · rename_i hmt
    have hmt' : p.mhdr.mtype = mtJoinRequest := by simpa using hmt
    cases h
    have hb : p.mhdr.byte = 0x00#8 := by simp [MHDR.byte, hmt', hv, mtJoinRequest, byteOf]
    simp only [Spec.Lorawan.joinRequest, JoinRequest.body, hb, micOf]
    rw [Props.C14.C14_eq_rfc4493]
    simp only [List.cons_append, List.nil_append, List.append_assoc]
    rw [take4_le32 _ (by simp only [Spec.Rfc4493.cmac]; exact hE _ _)]

/-- A conformant device decrypts, verifies and reads the server's join-accept exactly as meant:
    AppNonce, NetID octets, DevAddr, DLSettings, RxDelay. `D` inverts `E` on 16-octet blocks. -/
theorem C04_accept_decodes (E D : Spec.Rfc4493.BlockFn) (hE : ∀ k b, (E k b).length = 16)
    (hED : ∀ k b, b.length = 16 → E k (D k b) = b) (hD : ∀ k b, (D k b).length = 16)
    (appKey : Bytes) (p : PHY) (bs : Bytes) (h : encodeJoinAccept E D appKey p = .ok bs) :
    Spec.Lorawan.deviceAccepts E appKey bs =
      some { appNonceWire := (p.joinAcc.appNonce ++ zeros 3).take 3, netIDWire := be24 p.joinAcc.netID,
             devAddr := p.joinAcc.devAddr.toUint32 % 4294967296, dlSettings := p.joinAcc.dl.byte, rxDelay := byteOf p.joinAcc.rxDelay } := by
  unfold encodeJoinAccept at h
  split at h
  · cases h
  · cases hb : p.joinAcc.body with
    | panic => rw [hb] at h; cases h
    | err e => rw [hb] at h; cases h
    | ok body =>
      rw [hb] at h
      simp only [Res.bind_ok] at h
      cases h
      -- the body is 12 octets
      unfold JoinAccept.body at hb
      split at hb
      · cases hb
      · cases hb
        generalize hn : (p.joinAcc.appNonce ++ zeros 3).take 3 = an
        have han : an.length = 3 := by rw [← hn]; simp
        match an, han with
        | [n0, n1, n2], _ =>
          simp only [be24, le32, List.cons_append, List.nil_append]
          have hmicLen : (Model.Cmac.aesCmac E appKey (p.mhdr.byte :: n0 :: n1 :: n2 :: byteOf (p.joinAcc.netID / 65536) ::
              byteOf (p.joinAcc.netID / 256) :: byteOf p.joinAcc.netID :: byteOf p.joinAcc.devAddr.toUint32 ::
              byteOf (p.joinAcc.devAddr.toUint32 / 256) :: byteOf (p.joinAcc.devAddr.toUint32 / 65536) ::
              byteOf (p.joinAcc.devAddr.toUint32 / 16777216) :: [p.joinAcc.dl.byte, byteOf p.joinAcc.rxDelay])).length = 16 := by
            simp only [Model.Cmac.aesCmac]; exact hE _ _
          generalize hmic : Model.Cmac.aesCmac E appKey _ = tag at hmicLen
          simp only [Spec.Lorawan.deviceAccepts, micOf, hmic]
          have h4 := take4_le32 tag hmicLen
          simp only [le32] at h4
          rw [h4]
          match tag, hmicLen with
          | [t0, t1, t2, t3, _, _, _, _, _, _, _, _, _, _, _, _], _ =>
            simp only [List.take, List.length_cons, List.length_nil, hD]
            rw [if_neg (by decide)]
            simp only [List.drop_succ_cons, List.drop_zero]
            rw [hED _ _ (by simp)]
            simp only [List.take, List.drop, List.cons_append, List.nil_append]
            rw [← Props.C14.C14_eq_rfc4493, hmic]
            simp only [List.take, bne_self_eq_false, Bool.false_eq_true, if_false, List.getD_cons_succ, List.getD_cons_zero,
              unle_le32_mod]

end Props.C04
end LospanVerif
