import LospanVerif.Props.C04All
/-
  C04 / C05: who may change a session or the nonce table. For every state and every step of every
  thread: the session of a device (address, network and application session key) and the table of
  used DevNonces change only through the key-change step / the nonce-insert step of a join handler —
  which, in every reachable state, carries a join-request that is authentic for the registered device
  it names (`C04_joins_authentic`). A forged or altered join-request, a data frame, the scheduler and
  the encoders change neither.
-/
namespace LospanVerif
namespace Props.C04
open Model.Pipeline Model.Phy

/-- The session part of the device rows. -/
def sessView (db : DB) : List (Bytes × Nat × Bytes × Bytes) := db.devices.map fun d => (d.eui, d.devAddr, d.nwkSKey, d.appSKey)

theorem sess_of_devices {db db' : DB} (h : db'.devices = db.devices) : sessView db' = sessView db := by
  simp only [sessView, h]

theorem sess_map (db db' : DB) (f : Device → Device) (hd : db'.devices = db.devices.map f)
    (hf : ∀ x, (f x).eui = x.eui ∧ (f x).devAddr = x.devAddr ∧ (f x).nwkSKey = x.nwkSKey ∧ (f x).appSKey = x.appSKey) :
    sessView db' = sessView db := by
  simp only [sessView, hd, List.map_map]
  apply List.map_congr_left
  intro x _
  obtain ⟨h1, h2, h3, h4⟩ := hf x
  simp only [Function.comp, h1, h2, h3, h4]

theorem sess_updateState {db db' : DB} {d : Device} (h : db.updateState d = some db') : sessView db' = sessView db := by
  unfold DB.updateState at h
  split at h
  · cases h
    refine sess_map db _ _ rfl ?_
    intro x; split <;> exact ⟨rfl, rfl, rfl, rfl⟩
  · cases h

theorem sess_advance {db db' : DB} {eui : Bytes} {f : Nat} {kw : Bool} (h : db.advanceFCntUp eui f kw = some db') :
    sessView db' = sessView db := by
  unfold DB.advanceFCntUp at h
  split at h
  · cases h
    refine sess_map db _ _ rfl ?_
    intro x; split <;> exact ⟨rfl, rfl, rfl, rfl⟩
  · cases h

theorem sess_next {db db' : DB} {eui : Bytes} {f : Nat} (h : db.nextFCntDn eui = some (db', f)) : sessView db' = sessView db := by
  unfold DB.nextFCntDn at h
  split at h
  · cases h
  · cases h
    refine sess_map db _ _ rfl ?_
    intro x; split <;> exact ⟨rfl, rfl, rfl, rfl⟩

theorem sess_addNonce {db db' : DB} {eui : Bytes} {n : Nat} (h : db.addNonce eui n = some db') : sessView db' = sessView db := by
  unfold DB.addNonce at h
  split at h <;> cases h
  rfl

theorem sess_addInbox {db db' : DB} {r : InRow} (h : db.addInbox r = some db') : sessView db' = sessView db :=
  sess_of_devices (Proofs.Counters.addInbox_devices h)

theorem nonces_of {db db' : DB} (h : db'.nonces = db.nonces) : db'.nonces = db.nonces := h

theorem nonces_advance {db db' : DB} {eui : Bytes} {f : Nat} {kw : Bool} (h : db.advanceFCntUp eui f kw = some db') : db'.nonces = db.nonces := by
  unfold DB.advanceFCntUp at h; split at h <;> cases h; rfl
theorem nonces_next {db db' : DB} {eui : Bytes} {f : Nat} (h : db.nextFCntDn eui = some (db', f)) : db'.nonces = db.nonces := by
  unfold DB.nextFCntDn at h; split at h <;> cases h; rfl
theorem nonces_updateState {db db' : DB} {d : Device} (h : db.updateState d = some db') : db'.nonces = db.nonces := by
  unfold DB.updateState at h; split at h <;> cases h; rfl
theorem nonces_updateDevice {db db' : DB} {d : Device} (h : db.updateDevice d = some db') : db'.nonces = db.nonces := by
  unfold DB.updateDevice at h; split at h <;> cases h; rfl
theorem nonces_addInbox {db db' : DB} {r : InRow} (h : db.addInbox r = some db') : db'.nonces = db.nonces := by
  unfold DB.addInbox at h; split at h <;> cases h; rfl

/-- What a thread step does to sessions and to the nonce table. -/
inductive SEff (sys : Sys) (t : Thread) (sys' : Sys) : Prop where
  | same (hs : sessView sys'.db = sessView sys.db) (hn : sys'.db.nonces = sys.db.nonces)
  | nonce (j : JoinSt) (ht : t = .join j) (hpc : j.pc = 3) (hs : sessView sys'.db = sessView sys.db)
      (hn : sys'.db.nonces = sys.db.nonces ++ [(j.dev.eui, j.p.joinReq.devNonce)])
  | keys (j : JoinSt) (ht : t = .join j) (hpc : j.pc = 4) (hn : sys'.db.nonces = sys.db.nonces)
      (hs : ∀ x ∈ sessView sys'.db, x.1 ≠ j.dev.eui → x ∈ sessView sys.db)

theorem seff_stepUplink (E : Spec.Rfc4493.BlockFn) (sys : Sys) (s : UpSt) (fault : Bool) :
    SEff sys (.uplink s) (stepUplink E sys s fault).1 := by
  unfold stepUplink
  simp only []
  split
  all_goals (repeat' split)
  all_goals first
    | exact .same rfl rfl
    | (rename_i hh; exact .same (sess_advance hh) (nonces_advance hh))
    | (rename_i hh _; exact .same (sess_advance hh) (nonces_advance hh))
    | (rename_i hh; exact .same (sess_addInbox hh) (nonces_addInbox hh))
    | (rename_i hh _; exact .same (sess_addInbox hh) (nonces_addInbox hh))

theorem seff_stepEncoder (E D : Spec.Rfc4493.BlockFn) (sys : Sys) (pc : Nat) (p : PHY) (c : Ctx) (b : Bytes) (fault : Bool) :
    SEff sys (.encoder pc p c b) (stepEncoder E D sys pc p c b fault).1 := by
  unfold stepEncoder
  simp only []
  repeat' split
  all_goals first
    | exact .same rfl rfl
    | (rename_i hh _ _ _; exact .same (sess_updateState hh) (nonces_updateState hh))
    | (rename_i hh _ _; exact .same (sess_updateState hh) (nonces_updateState hh))
    | (rename_i hh _ _ _ _; exact .same (sess_next hh) (nonces_next hh))
    | (rename_i hh _ _ _; exact .same (sess_next hh) (nonces_next hh))
    | (rename_i hh _ _; exact .same (sess_next hh) (nonces_next hh))

theorem sess_updateDevice {db db' : DB} {d : Device} (h : db.updateDevice d = some db') :
    ∀ x ∈ sessView db', x.1 ≠ d.eui → x ∈ sessView db := by
  unfold DB.updateDevice at h
  split at h
  · cases h
    intro x hx hne
    simp only [sessView, List.map_map, List.mem_map, Function.comp] at hx ⊢
    obtain ⟨y, hy, rfl⟩ := hx
    by_cases hc : (y.eui == d.eui) = true
    · rw [if_pos hc] at hne
      exact absurd (by simpa using hc) hne
    · rw [if_neg hc]; exact ⟨y, hy, rfl⟩
  · cases h

theorem seff_stepJoin (E : Spec.Rfc4493.BlockFn) (cfg : Config) (sys : Sys) (s : JoinSt) (fault : Bool) :
    SEff sys (.join s) (stepJoin E cfg sys s fault).1 := by
  unfold stepJoin
  simp only []
  split
  all_goals (repeat' split)
  all_goals first
    | exact .same rfl rfl
    | (rename_i hpc _ _ _ db hh
       refine .nonce s rfl hpc (sess_addNonce hh) ?_
       unfold DB.addNonce at hh
       split at hh <;> cases hh
       rfl)
    | (rename_i hpc _ _ db hh _ _; have h3 := sess_updateDevice hh; have h4 := nonces_updateDevice hh; exact .keys s rfl hpc h4 h3)
    | (rename_i hpc _ _ db hh _; have h3 := sess_updateDevice hh; have h4 := nonces_updateDevice hh; exact .keys s rfl hpc h4 h3)
    | (rename_i hpc _ _ db hh; have h3 := sess_updateDevice hh; have h4 := nonces_updateDevice hh; exact .keys s rfl hpc h4 h3)
    | skip

theorem seff_step (E D : Spec.Rfc4493.BlockFn) (cfg : Config) (sys : Sys) (i : Nat) (fault : Bool) (t : Thread)
    (hi : sys.threads[i]? = some t) : SEff sys t (step E D cfg sys i fault) := by
  unfold step
  rw [hi]
  simp only []
  have key : ∀ (r : Sys × List Thread), SEff sys t r.1 →
      SEff sys t (match r.2 with
        | [] => { r.1 with threads := replaceAt r.1.threads i .done }
        | t0 :: more => { r.1 with threads := replaceAt r.1.threads i t0 ++ more }) := by
    intro r hr
    split <;>
    · cases hr with
      | same hs hn => exact .same hs hn
      | nonce j ht hpc hs hn => exact .nonce j ht hpc hs hn
      | keys j ht hpc hn hs => exact .keys j ht hpc hn hs
  cases t with
  | uplink s => exact key _ (seff_stepUplink E sys s fault)
  | join s => exact key _ (seff_stepJoin E cfg sys s fault)
  | notify p c =>
    refine key (stepNotify sys c) ?_
    unfold stepNotify; split <;> exact .same rfl rfl
  | sendAt c =>
    refine key (stepSendAt sys c) ?_
    unfold stepSendAt; split <;> exact .same rfl rfl
  | sendDone e => exact key (stepSendDone sys e) (.same rfl rfl)
  | encoder pc p c b => exact key _ (seff_stepEncoder E D sys pc p c b fault)
  | done => exact key (sys, [.done]) (.same rfl rfl)

/-- **Only an authentic join changes a session or uses up a nonce.** After any event list, whatever
    thread steps next: if the session of any device or the nonce table is different afterwards, the
    stepping thread is a join handler at its nonce-insert or key-change step, the change concerns the
    device whose row it read, and — because the state is reachable — its request is 23 octets, the
    parse of what was received, with a MIC that verifies under the root key registered for the DevEUI
    it names and with that device's AppEUI. -/
theorem C04_session_changes_only_by_authentic_join (E D : Spec.Rfc4493.BlockFn) (cfg : Config) (db : DB) (evs : List Event)
    (i : Nat) (fault : Bool) (t : Thread)
    (hi : (run E D cfg (Sys.init db) evs).threads[i]? = some t) :
    let sys := run E D cfg (Sys.init db) evs
    let sys' := step E D cfg sys i fault
    (sessView sys'.db = sessView sys.db ∧ sys'.db.nonces = sys.db.nonces) ∨
    (∃ j, t = .join j ∧ (j.pc = 3 ∨ j.pc = 4) ∧ JoinLocal E (Reg db) j ∧ unmarshal j.raw = .ok j.p ∧
      (∀ x ∈ sessView sys'.db, x.1 ≠ j.dev.eui → x ∈ sessView sys.db) ∧
      (∀ n ∈ sys'.db.nonces, n ∈ sys.db.nonces ∨ n = (j.dev.eui, j.p.joinReq.devNonce))) := by
  intro sys sys'
  have hinv := C04_joins_authentic E D cfg db evs
  have hmem : t ∈ sys.threads := List.mem_of_getElem? hi
  have he := seff_step E D cfg sys i fault t hi
  cases he with
  | same hs hn => exact .inl ⟨hs, hn⟩
  | nonce j ht hpc hs hn =>
    obtain ⟨hl, hu⟩ := hinv.2 t hmem j ht
    refine .inr ⟨j, ht, .inl hpc, hl, hu, ?_, ?_⟩
    · intro x hx _; rw [← hs]; exact hx
    · intro n hn'
      have hn'' : n ∈ sys.db.nonces ++ [(j.dev.eui, j.p.joinReq.devNonce)] := by rw [← hn]; exact hn'
      rcases List.mem_append.mp hn'' with h | h
      · exact .inl h
      · exact .inr (by simpa using h)
  | keys j ht hpc hn hs =>
    obtain ⟨hl, hu⟩ := hinv.2 t hmem j ht
    refine .inr ⟨j, ht, .inr hpc, hl, hu, hs, ?_⟩
    intro n hn'
    exact .inl (by rw [← hn]; exact hn')

end Props.C04
end LospanVerif
