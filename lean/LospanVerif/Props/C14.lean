import LospanVerif.Proofs.Cmac
/-
  C14 — AES-CMAC equals RFC 4493 for every input and is pure; (frame cipher involution is in
  Props/C14b.lean, next to the frame model).

  Statements only; helper lemmas live in Proofs/Cmac.lean.
-/
namespace LospanVerif
namespace Props.C14
open Spec.Rfc4493 Model.Cmac Proofs.Cmac

/-- For every block function `E` (AES-128 in particular), every key and every message of every
    length, the code's CMAC is the RFC 4493 CMAC. -/
theorem C14_eq_rfc4493 (E : BlockFn) (k m : Bytes) :
    Model.Cmac.aesCmac E k m = Spec.Rfc4493.cmac E k m := by
  unfold Model.Cmac.aesCmac Spec.Rfc4493.cmac
  rw [generateSubkeys_eq]
  simp only [Model.Cmac.constBSize, Model.Cmac.constZero, Model.Cmac.xor]
  by_cases h0 : m.length = 0
  · -- empty message: one padded block
    have hm : m = [] := List.eq_nil_of_length_eq_zero h0
    subst hm
    simp [Model.Cmac.padblock, Spec.Rfc4493.pad, Model.Cmac.loop, Spec.Rfc4493.chunks, Spec.Rfc4493.cbc]
  · have hn0 : ¬ ((m.length + 15) / 16 = 0) := by omega
    simp only [h0, hn0, if_false]
    have hloop := loop_eq_cbc E k m ((m.length + 15) / 16 - 1) 0 m.length (zeros 16)
      (by omega) (by omega)
    simp only [List.drop_zero] at hloop
    rw [hloop]
    have hmul : ((m.length + 15) / 16 - 1) * 16 = 16 * ((m.length + 15) / 16 - 1) := Nat.mul_comm _ _
    rw [hmul]
    by_cases hf : m.length % 16 = 0
    · simp [hf, h0]
    · have hlen : (m.drop (16 * ((m.length + 15) / 16 - 1))).length < 16 := by
        simp; omega
      have hpad : Model.Cmac.padblock (m.drop (16 * ((m.length + 15) / 16 - 1))) 16
          = Spec.Rfc4493.pad (m.drop (16 * ((m.length + 15) / 16 - 1))) := by
        unfold Model.Cmac.padblock Spec.Rfc4493.pad
        rw [if_neg (by omega)]
        congr 2
        omega
      simp [hf, hpad]

/-- Purity, on the model of Go's slice semantics for the one place that used to append:
    `mem` is the caller's backing array from the start of the message to its capacity, of which
    the first `len` bytes are the message. The padded last block is a fresh block, so the
    memory after the call is the memory before it. -/
def padblockMem (mem : Bytes) (off len n : Nat) : Bytes × Bytes :=
  (Model.Cmac.padblock ((mem.take len).drop off) n, mem)

theorem C14_pure (mem : Bytes) (off len n : Nat) : (padblockMem mem off len n).2 = mem := rfl

/-- Non-vacuity: the theorem speaks about non-trivial computations (a concrete value for a
    toy block function, 20-byte message, spare capacity irrelevant). -/
example : (Model.Cmac.aesCmac (fun k b => xorB k b) (zeros 16) (List.replicate 20 0x11#8)).length = 16 := by
  decide

end Props.C14
end LospanVerif
