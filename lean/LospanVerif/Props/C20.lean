import LospanVerif.Model.Router
/-
  C20 — event routing: every subscriber of an identifier gets each event once, in publication
  order, and nobody else does; no send on a closed subscription; a channel is closed exactly once;
  the routing table stays well-formed — for every sequence of operations. Concurrent executions
  are sequences in lock order (every method body is one critical section; assumed, see DESIGN §8).
-/
namespace LospanVerif
namespace Props.C20
open Model.Router

/-! ### table invariant -/

structure Inv (s : St) : Prop where
  chNodup : (s.routes.map (·.ch)).Nodup
  chBound : ∀ r ∈ s.routes, r.ch < s.nextCh
  openNotClosed : ∀ r ∈ s.routes, r.ch ∉ s.closed
  closedNodup : s.closed.Nodup
  closedBound : ∀ c ∈ s.closed, c < s.nextCh
  noSendOnClosed : s.sentOnClosed = false

theorem inv_init : Inv init := by
  constructor <;> simp [init]

theorem removeFirst_sub (ch : Nat) (l : List Route) : ∀ r, r ∈ (removeFirst ch l).1 → r ∈ l := by
  induction l with
  | nil => simp [removeFirst]
  | cons a rest ih =>
    intro r hr
    simp only [removeFirst] at hr
    split at hr
    · exact List.mem_cons_of_mem _ hr
    · rcases List.mem_cons.mp hr with h | h
      · simp [h]
      · exact List.mem_cons_of_mem _ (ih r h)

theorem removeFirst_map_sublist (ch : Nat) (l : List Route) :
    ((removeFirst ch l).1.map (·.ch)).Sublist (l.map (·.ch)) := by
  induction l with
  | nil => simp [removeFirst]
  | cons a rest ih =>
    simp only [removeFirst]
    split
    · exact List.Sublist.cons _ (List.Sublist.refl _)
    · simp only [List.map_cons]; exact List.Sublist.cons_cons _ ih

theorem removeFirst_found (ch : Nat) (l : List Route) : (removeFirst ch l).2 = true ↔ ∃ r ∈ l, r.ch = ch := by
  induction l with
  | nil => simp [removeFirst]
  | cons a rest ih =>
    simp only [removeFirst]
    split
    · rename_i h; simp; exact Or.inl h
    · rename_i h
      simp only [ih, List.mem_cons, exists_eq_or_imp]
      constructor
      · intro hx; exact Or.inr hx
      · intro hx; rcases hx with hx | hx
        · exact absurd hx h
        · exact hx

theorem removeFirst_gone (ch : Nat) (l : List Route) (hn : (l.map (·.ch)).Nodup) :
    ∀ r ∈ (removeFirst ch l).1, r.ch ≠ ch := by
  induction l with
  | nil => simp [removeFirst]
  | cons a rest ih =>
    simp only [List.map_cons, List.nodup_cons] at hn
    intro r hr
    simp only [removeFirst] at hr
    split at hr
    · rename_i hach
      intro hrc
      apply hn.1
      rw [hach, ← hrc]
      exact List.mem_map_of_mem hr
    · rename_i hach
      rcases List.mem_cons.mp hr with h | h
      · rw [h]; exact hach
      · exact ih hn.2 r h

theorem sendAll_bad (id ev : Nat) (closed : List Nat) (l : List Route) (hl : ∀ r ∈ l, r.ch ∉ closed) :
    ∀ buf bad, (sendAll id ev closed l buf bad).2 = bad := by
  induction l with
  | nil => intro buf bad; rfl
  | cons a rest ih =>
    intro buf bad
    simp only [sendAll]
    have ha := hl a (by simp)
    have hr : ∀ r ∈ rest, r.ch ∉ closed := fun r h => hl r (by simp [h])
    split
    · rw [ih hr]; simp [ha]
    · exact ih hr _ _

theorem inv_step (s : St) (op : Op) (h : Inv s) : Inv (step s op) := by
  cases op with
  | subscribe id =>
    simp only [step]
    constructor
    · simp only [List.map_append, List.map_cons, List.map_nil]
      rw [List.nodup_append]
      refine ⟨h.chNodup, by simp, ?_⟩
      intro a ha b hb
      simp only [List.mem_singleton] at hb
      obtain ⟨r, hr, rfl⟩ := List.mem_map.mp ha
      have := h.chBound r hr
      omega
    · intro r hr
      rcases List.mem_append.mp hr with hr | hr
      · have := h.chBound r hr; simp only; omega
      · simp only [List.mem_singleton] at hr; subst hr; simp
    · intro r hr
      rcases List.mem_append.mp hr with hr | hr
      · exact h.openNotClosed r hr
      · simp only [List.mem_singleton] at hr; subst hr
        intro hc; have := h.closedBound _ hc; simp only at this; omega
    · exact h.closedNodup
    · intro c hc; have := h.closedBound c hc; simp only; omega
    · exact h.noSendOnClosed
  | unsubscribe ch =>
    simp only [step]
    constructor
    · exact List.Nodup.sublist (removeFirst_map_sublist ch s.routes) h.chNodup
    · intro r hr; exact h.chBound r (removeFirst_sub ch s.routes r hr)
    · intro r hr
      have hmem := removeFirst_sub ch s.routes r hr
      split
      · intro hc
        rcases List.mem_cons.mp hc with hc | hc
        · exact removeFirst_gone ch s.routes h.chNodup r hr hc
        · exact h.openNotClosed r hmem hc
      · exact h.openNotClosed r hmem
    · split
      · rename_i hf
        obtain ⟨r, hr, hrc⟩ := (removeFirst_found ch s.routes).mp hf
        refine List.nodup_cons.mpr ⟨?_, h.closedNodup⟩
        rw [← hrc]; exact h.openNotClosed r hr
      · exact h.closedNodup
    · intro c hc
      split at hc
      · rename_i hf
        rcases List.mem_cons.mp hc with rfl | hc
        · obtain ⟨r, hr, hrc⟩ := (removeFirst_found c s.routes).mp hf
          rw [← hrc]; exact h.chBound r hr
        · exact h.closedBound c hc
      · exact h.closedBound c hc
    · exact h.noSendOnClosed
  | publish id ev =>
    simp only [step]
    constructor
    · exact h.chNodup
    · exact h.chBound
    · exact h.openNotClosed
    · exact h.closedNodup
    · exact h.closedBound
    · rw [sendAll_bad id ev s.closed s.routes h.openNotClosed]; exact h.noSendOnClosed
  | read ch =>
    simp only [step]
    exact ⟨h.chNodup, h.chBound, h.openNotClosed, h.closedNodup, h.closedBound, h.noSendOnClosed⟩

/-- For every sequence of operations: the table never holds a closed channel, no send ever hits a
    closed channel (no panic), every channel is closed at most once, channels in the table are distinct. -/
theorem C20_table_wellformed (ops : List Op) : Inv (run init ops) := by
  have : ∀ s, Inv s → Inv (run s ops) := by
    induction ops with
    | nil => intro s h; exact h
    | cons o rest ih => intro s h; exact ih _ (inv_step s o h)
  exact this init inv_init

theorem C20_no_send_on_closed (ops : List Op) : (run init ops).sentOnClosed = false :=
  (C20_table_wellformed ops).noSendOnClosed

theorem C20_close_once (ops : List Op) : (run init ops).closed.Nodup :=
  (C20_table_wellformed ops).closedNodup

/-! ### delivery: the router is a product of independent per-subscription observers -/

/-- The specification of one subscription, from the operation history alone: channel number `c`
    is created by the `c`-th subscribe call, is subscribed to that call's identifier until it is
    unsubscribed, and is owed exactly the events published for that identifier meanwhile, in order. -/
structure Sub where
  created : Nat            -- subscribe calls so far
  active : Option Nat      -- identifier while subscribed
  owed : List Nat          -- events owed so far (oldest first)
  deriving Repr

def specStep (c : Nat) (t : Sub) : Op → Sub
  | .subscribe id => { t with created := t.created + 1, active := if t.created = c then some id else t.active }
  | .unsubscribe ch => { t with active := if ch = c then none else t.active }
  | .publish id ev => { t with owed := if t.active = some id then t.owed ++ [ev] else t.owed }
  | .read _ => t

def specRun (c : Nat) (ops : List Op) : Sub := ops.foldl (specStep c) ⟨0, none, []⟩

/-- Simulation relation between the router and the observer of channel `c`. -/
structure Rel (c : Nat) (s : St) (t : Sub) : Prop where
  created : s.nextCh = t.created
  total : s.got c ++ s.buf c = t.owed
  activeIff : ∀ i, t.active = some i ↔ ⟨i, c⟩ ∈ s.routes

theorem sendAll_buf (id ev c : Nat) (closed : List Nat) (l : List Route) (hn : (l.map (·.ch)).Nodup) :
    ∀ buf bad, (sendAll id ev closed l buf bad).1 c = buf c ++ (if (⟨id, c⟩ : Route) ∈ l then [ev] else []) := by
  induction l with
  | nil => intro buf bad; simp [sendAll]
  | cons a rest ih =>
    intro buf bad
    simp only [List.map_cons, List.nodup_cons] at hn
    simp only [sendAll]
    split
    · rename_i hid
      rw [ih hn.2]
      by_cases hac : a.ch = c
      · have ha : a = ⟨id, c⟩ := by cases a; simp_all
        have hnot : (⟨id, c⟩ : Route) ∉ rest := by
          intro hm; apply hn.1; rw [hac]; exact List.mem_map_of_mem (f := (·.ch)) hm
        simp [updL, ha, hnot]
      · have hne : a ≠ ⟨id, c⟩ := by intro h; apply hac; rw [h]
        have : ((⟨id, c⟩ : Route) ∈ a :: rest) ↔ (⟨id, c⟩ : Route) ∈ rest := by
          simp [List.mem_cons]; intro h; exact absurd h.symm hne
        simp only [updL]
        rw [if_neg (fun h => hac h.symm)]
        simp only [this]
    · rename_i hid
      rw [ih hn.2]
      have hne : a ≠ ⟨id, c⟩ := by intro h; apply hid; rw [h]
      have : ((⟨id, c⟩ : Route) ∈ a :: rest) ↔ (⟨id, c⟩ : Route) ∈ rest := by
        simp [List.mem_cons]; intro h; exact absurd h.symm hne
      simp only [this]

theorem removeFirst_mem_other (ch : Nat) (l : List Route) (r : Route) (hr : r.ch ≠ ch) :
    r ∈ (removeFirst ch l).1 ↔ r ∈ l := by
  induction l with
  | nil => simp [removeFirst]
  | cons a rest ih =>
    simp only [removeFirst]
    split
    · rename_i hach
      have : r ≠ a := by intro h; apply hr; rw [h]; exact hach
      simp [List.mem_cons, this]
    · simp only [List.mem_cons, ih]

theorem rel_step (c : Nat) (s : St) (t : Sub) (op : Op) (hi : Inv s) (h : Rel c s t) :
    Rel c (step s op) (specStep c t op) := by
  cases op with
  | subscribe id =>
    simp only [step, specStep]
    refine ⟨by rw [h.created], h.total, ?_⟩
    intro i
    rw [← h.created]
    by_cases hc : s.nextCh = c
    · simp only [hc, if_true, Option.some.injEq, List.mem_append, List.mem_singleton, Route.mk.injEq, and_true]
      constructor
      · intro hid; exact Or.inr hid.symm
      · intro hm
        rcases hm with hm | hm
        · have := hi.chBound _ hm; simp only at this; omega
        · exact hm.symm
    · simp only [hc, if_false, List.mem_append, List.mem_singleton, Route.mk.injEq]
      rw [h.activeIff]
      constructor
      · intro hm; exact Or.inl hm
      · intro hm
        rcases hm with hm | hm
        · exact hm
        · exact absurd hm.2.symm hc
  | unsubscribe ch =>
    simp only [step, specStep]
    refine ⟨h.created, h.total, ?_⟩
    intro i
    by_cases hc : ch = c
    · subst hc
      simp only [if_true]
      constructor
      · intro hx; cases hx
      · intro hm
        exact absurd rfl (removeFirst_gone ch s.routes hi.chNodup _ hm)
    · simp only [hc, if_false]
      rw [h.activeIff, removeFirst_mem_other ch s.routes ⟨i, c⟩ (fun hx => hc hx.symm)]
  | publish id ev =>
    simp only [step, specStep]
    refine ⟨h.created, ?_, h.activeIff⟩
    dsimp only
    rw [sendAll_buf id ev c s.closed s.routes hi.chNodup, ← List.append_assoc, h.total]
    by_cases ha : t.active = some id
    · have := (h.activeIff id).mp ha
      simp [ha, this]
    · have : (⟨id, c⟩ : Route) ∉ s.routes := fun hm => ha ((h.activeIff id).mpr hm)
      simp [ha, this]
  | read ch =>
    simp only [step, specStep]
    refine ⟨h.created, ?_, h.activeIff⟩
    by_cases hc : c = ch
    · subst hc; simp [updL, h.total]
    · simp [updL, hc, h.total]

/-- Delivery: for every sequence of operations and every channel, what its subscriber has read
    plus what still sits in its buffer is exactly the events published for its identifier while
    it was subscribed, once each, in publication order; and it is in the table exactly while subscribed. -/
theorem C20_delivery (ops : List Op) (c : Nat) :
    let s := run init ops
    let t := specRun c ops
    s.got c ++ s.buf c = t.owed ∧ ∀ i, t.active = some i ↔ (⟨i, c⟩ : Route) ∈ s.routes := by
  have : ∀ s t, Inv s → Rel c s t → Rel c (run s ops) (ops.foldl (specStep c) t) := by
    induction ops with
    | nil => intro s t _ h; exact h
    | cons o rest ih => intro s t hi h; exact ih _ _ (inv_step s o hi) (rel_step c s t o hi h)
  have h0 : Rel c init ⟨0, none, []⟩ := ⟨rfl, rfl, by simp [init]⟩
  have := this init _ inv_init h0
  exact ⟨this.total, this.activeIff⟩

/-- Non-vacuity: two subscribers of 7, one of 8; unsubscribe one; events routed accordingly. -/
example :
    let s := run init [.subscribe 7, .subscribe 8, .subscribe 7, .publish 7 100, .publish 8 200, .unsubscribe 0, .publish 7 101, .read 2]
    s.buf 0 = [100] ∧ s.buf 1 = [200] ∧ s.got 2 = [100, 101] ∧ s.closed = [0] := by
  decide

end Props.C20
end LospanVerif
