import LospanVerif.Props.C04Who
import LospanVerif.Props.C05
/-
  C05: a DevNonce, once stored, stays stored — through every later event, interleaving, fault, crash
  and restart. With `C05_second_insert_fails` (a stored nonce makes every later insert fail) and
  `C05_failed_insert_stops`: a nonce that was used is never honoured again.
-/
namespace LospanVerif
namespace Props.C05
open Model.Pipeline Model.Phy Props.C04

theorem nonces_step (E D : Spec.Rfc4493.BlockFn) (cfg : Config) (sys : Sys) (i : Nat) (fault : Bool) :
    ∀ n ∈ sys.db.nonces, n ∈ (step E D cfg sys i fault).db.nonces := by
  intro n hn
  cases hi : sys.threads[i]? with
  | none => unfold step; rw [hi]; exact hn
  | some t =>
    have he := seff_step E D cfg sys i fault t hi
    cases he with
    | same _ h => rw [h]; exact hn
    | nonce j _ _ _ h => rw [h]; exact List.mem_append_left _ hn
    | keys j _ _ h _ => rw [h]; exact hn

theorem nonces_settle (E D : Spec.Rfc4493.BlockFn) (cfg : Config) (fuel : Nat) (sys : Sys) :
    ∀ n ∈ sys.db.nonces, n ∈ (settle E D cfg fuel sys).db.nonces := by
  induction fuel generalizing sys with
  | zero => intro n hn; exact hn
  | succ k ih =>
    intro n hn
    unfold settle
    split
    · exact hn
    · exact ih _ n (nonces_step E D cfg sys _ false n hn)

theorem nonces_apply (E D : Spec.Rfc4493.BlockFn) (cfg : Config) (sys : Sys) (ev : Event) :
    ∀ n ∈ sys.db.nonces, n ∈ (apply E D cfg sys ev).db.nonces := by
  intro n hn
  cases ev with
  | deliver raw gw an na => simp only [apply]; split <;> exact hn
  | submit m =>
    simp only [apply]
    cases hm : sys.db.addOutbox m with
    | none => exact hn
    | some db =>
      unfold DB.addOutbox at hm
      split at hm <;> cases hm
      exact hn
  | stepT i f => exact nonces_step E D cfg sys i f n hn
  | quiesce => exact nonces_settle E D cfg 200 sys n hn
  | crash => exact hn

/-- **A used nonce stays used.** Whatever happens after a DevNonce was stored for a device — any
    events, interleavings, faults, crashes and restarts — it is still in the nonce table. -/
theorem C05_nonce_stays_stored (E D : Spec.Rfc4493.BlockFn) (cfg : Config) (sys : Sys) (evs : List Event) :
    ∀ n ∈ sys.db.nonces, n ∈ (run E D cfg sys evs).db.nonces := by
  induction evs generalizing sys with
  | nil => intro n hn; exact hn
  | cons ev rest ih => intro n hn; exact ih _ n (nonces_apply E D cfg sys ev n hn)

/-- …hence, in every later state, an insert of that nonce for that device fails (the handler of a
    request that re-uses it stops at its insert step: `C05_failed_insert_stops`). -/
theorem C05_used_nonce_refused_for_ever (E D : Spec.Rfc4493.BlockFn) (cfg : Config) (sys : Sys) (evs : List Event)
    (e : Bytes) (n : Nat) (h : (e, n) ∈ sys.db.nonces) : (run E D cfg sys evs).db.addNonce e n = none := by
  have := C05_nonce_stays_stored E D cfg sys evs (e, n) h
  unfold DB.addNonce
  rw [if_pos (by simpa using this)]

end Props.C05
end LospanVerif
